(* C02S (registered under C02) - COMPLETENESS of the strict mode of the format-rule decoder on written archives.
   spec/AgcV3.v [strict_check] re-checks, with the pinned constants only, every AGC-v3 addressing rule a C++ reader relies
   on while decoding (directory names canonical and paired, params, one reference part per LZ group and none per raw
   group, metadata 0 <=> stored raw, pack marker, packs of 50 separator-terminated entries, placeholder, ids address
   existing entries, descriptor length = decoded length) and names the first rule that is broken.
     props/C02B.v strict_sound     : strict accepts  =>  plain decode returns the same catalogue               (any file)
     props/C02B.v writer_conforms  : plain decode of a written container = the stored layout re-assembled
     props/C01G.v grand_roundtrip  : plain decode of model_build's file bytes = the input
   Here: EVERY file the model writer produces passes EVERY strict check -
     strict_accepts_written  (abstract container history, hypotheses of writer_conforms + the shape of the directory),
     grand_strict            (ModelCreate.model_build, hypotheses of grand_roundtrip; ONE statement about file bytes),
     accepted_rules          (what acceptance means, rule by rule, for ANY file: the inversion of the checker),
     written_<rule>          (one corollary per error code of strict_check, for written files).
   Proofs: proofs/Strict_proofs.v (group-store invariant GroupStore_inv.Inv -> final pack layout -> the checker's own
   split_sep / unpack_part / unpack_packs / id_ok; Grand_proofs' history lemmas for the directory of model_build). *)
From Coq Require Import Permutation.
From Ragc Require Import Mach Consts_agcv3 Kmer Segment Pipeline SegReader GroupStore Collection Container AgcV3 ModelCreate.
From Ragc Require Import Pipeline_proofs Compose_codecs Compose_proofs AgcV3_compose Grand_proofs.
From Ragc Require Details Collection_proofs SegCompress_proofs GroupStore_proofs.
From Ragc Require C01 C01G C02B.
From Ragc Require Import Strict_proofs.
Open Scope N_scope.

(* ---- the definitions the statements use, pinned (each is the definition itself) *)
(* the directory of a written archive: pinned fixed names and, for u32 group ids, BOTH canonical stream names *)
Example names_paired_def : forall nms,
  names_paired nms =
  Forall (fun nm => In nm SPEC_FIXED_NAMES \/
            exists g, (g < two32)%N /\ (nm = stream_ref_name g \/ nm = stream_delta_name g) /\
                      In (stream_ref_name g) nms /\ In (stream_delta_name g) nms) nms.
Proof. reflexivity. Qed.

(* what the reader sees first, and "for every descriptor of the catalogue the file holds" *)
Example opened_def : forall zd file rd p cr,
  opened zd file rd p cr =
  (open_archive file = Ok rd /\ read_params rd = Ok p /\ obnd (coll_arch rd) (load_all zd (p_segsize p) (p_k p)) = Ok cr) /\
  forall R, per_desc zd file R = forall rd p cr x, opened zd file rd p cr -> In x (all_segs cr) -> R rd p x.
Proof. intros. split; reflexivity. Qed.

(* the rules, one per error code of strict_check (E_CONTAINER .. E_NAMES) *)
Example rules_def : forall zd file,
  (* E_CONTAINER *) rule_container file = (exists rd, open_archive file = Ok rd) /\
  (* E_NAMES *) rule_names file = (forall rd, open_archive file = Ok rd -> names_ok rd = true) /\
  (* E_PARAMS *) rule_params file = (exists rd p, open_archive file = Ok rd /\ read_params rd = Ok p /\ params_ok p = true) /\
  (* E_COLLECTION *) rule_collection zd file = (exists rd p cr, opened zd file rd p cr) /\
  (* E_STREAM *) rule_stream zd file = per_desc zd file (fun rd _ x =>
      exists gv dparts, group_view_of rd (Details.sg x) = Ok gv /\ gv_delta gv = Some dparts) /\
  (* E_REF_PARTS *) rule_ref_parts zd file = per_desc zd file (fun rd _ x =>
      exists gv, group_view_of rd (Details.sg x) = Ok gv /\
        if SPEC_NO_RAW_GROUPS <=? Details.sg x then exists q, gv_ref gv = Some [q]
        else gv_ref gv = None \/ gv_ref gv = Some []) /\
  (* E_METADATA *) rule_metadata zd file = per_desc zd file (fun rd _ x =>
      exists gv dparts, group_view_of rd (Details.sg x) = Ok gv /\ gv_delta gv = Some dparts /\
        forall q, In q dparts \/ (SPEC_NO_RAW_GROUPS <= Details.sg x /\ gv_ref gv = Some [q]) ->
          exists raw mk, unpack_part zd q = SOk (raw, mk) /\
            ((fst q = 0%N /\ raw = snd q /\ mk = None) \/ (fst q <> 0%N /\ lenN raw = fst q /\ mk <> None))) /\
  (* E_PACK_MARKER *) rule_pack_marker zd file = per_desc zd file (fun rd _ x =>
      exists gv dparts, group_view_of rd (Details.sg x) = Ok gv /\ gv_delta gv = Some dparts /\
        forall q, In q dparts ->
          exists raw mk, unpack_part zd q = SOk (raw, mk) /\ (mk = None \/ mk = Some SPEC_PACK_MARKER)) /\
  (* E_PACK_LAYOUT *) rule_pack_layout zd file = per_desc zd file (fun rd _ x =>
      exists gv dparts packs, group_view_of rd (Details.sg x) = Ok gv /\ gv_delta gv = Some dparts /\
        unpack_packs zd dparts = SOk packs /\ length packs = length dparts /\
        forall i q es, nth_error dparts i = Some q -> nth_error packs i = Some es ->
          exists raw mk, unpack_part zd q = SOk (raw, mk) /\ split_sep raw [] = (es, []) /\
            (1%N <= lenN es <= SPEC_PACK_CARDINALITY)%N /\
            ((S i < length dparts)%nat -> lenN es = SPEC_PACK_CARDINALITY)) /\
  (* E_PLACEHOLDER *) rule_placeholder zd file = per_desc zd file (fun rd _ x =>
      (Details.sg x < SPEC_NO_RAW_GROUPS)%N ->
      exists gv dparts packs rest crest, group_view_of rd (Details.sg x) = Ok gv /\ gv_delta gv = Some dparts /\
        unpack_packs zd dparts = SOk packs /\ packs = ([SPEC_PLACEHOLDER] :: rest) :: crest) /\
  (* E_ID *) rule_id zd file = per_desc zd file (fun rd _ x =>
      exists gv dparts packs, group_view_of rd (Details.sg x) = Ok gv /\ gv_delta gv = Some dparts /\
        unpack_packs zd dparts = SOk packs /\ id_ok (Details.sg x) (Details.si x) packs = true) /\
  (* E_DECODE *) rule_decode zd file = per_desc zd file (fun rd p x =>
      exists data, get_seg zd rd (p_mml p) (desc_of_seg x) = Ok data) /\
  (* E_DESC_LEN *) rule_desc_len zd file = per_desc zd file (fun rd p x =>
      forall data, get_seg zd rd (p_mml p) (desc_of_seg x) = Ok data -> lenN data = Details.sl x) /\
  all_rules zd file =
    (rule_container file /\ rule_names file /\ rule_params file /\ rule_collection zd file /\ rule_stream zd file /\
     rule_ref_parts zd file /\ rule_metadata zd file /\ rule_pack_marker zd file /\ rule_pack_layout zd file /\
     rule_placeholder zd file /\ rule_id zd file /\ rule_decode zd file /\ rule_desc_len zd file).
Proof. intros. repeat split; reflexivity. Qed.

(* ---- (1) STRICT ACCEPTS WRITTEN.  Under the hypotheses of props/C02B.v writer_conforms (zstd round trip; u32
   parameters; the C02 hypotheses on the group ops; the C03 hypotheses on the catalogue; every segment of the layout L
   registered in the store; any well-formed container history whose streams hold params / catalogue parts / group parts
   under the pinned names) and ONE more on the history - the directory holds nothing but fixed names and paired group
   streams ([names_paired]; without it E_NAMES is reachable: writer_conforms allows foreign streams) -
   no strict rule is violated, hence the strict decoder returns the re-assembled catalogue. *)
Theorem strict_accepts_written :
  forall (zc : N -> list N -> list N) (zd : list N -> option (list N)),
  (forall l x, zd (zc l x) = Some x) -> (forall l x, zc l x <> []) ->
  forall k mml ss level,
  (4 <= mml)%N -> (k < two32)%N -> (mml < two32)%N -> (ss < two32)%N -> (ss + k <= 2147483648)%N ->
  forall gops st,
  run (m_lz_enc mml) (m_cref zc) (m_cpack zc level) gops = Ok st ->
  GroupStore_proofs.ops_ok ref_dom (lz_dom mml) gops ->
  forall (L : layout) (c cw : coll) (a : arch),
  samples c = samples_of L -> segment_size c = ss -> kmer_length c = k ->
  (lenN (samples c) < 4294967296)%N ->
  Forall (fun s => Forall (fun b => (1 <= b < 128)%N) (sname s)) (samples c) ->
  Forall (Collection_proofs.batch_ok zc ss k)
         (Collection_proofs.chunks (length (samples c)) (N.to_nat SPEC_CATALOGUE_BATCH) (samples c)) ->
  store_all zc SPEC_CATALOGUE_BATCH c arch_empty = Ok (cw, a) ->
  (forall p, placed_in L p -> In (pl_seg p, pl_id p) (regs_of st (pl_group p))) ->
  (forall sm ct, In sm L -> In ct (snd sm) -> Forall (fun p => (k <= lenN (s_data (pl_seg p)))%N) (tl (snd ct))) ->
  forall ops, Forall wop_wf ops ->
  let w := fst (wrun w_init ops) in
  let s := fst (sp_run sp_init ops) in
  (lenN (close w) <= spec_max_off)%N ->
  sp_parts s SPEC_NAME_PARAMS = Some [(encode_params k mml ss, SPEC_PARAMS_METADATA)] ->
  sp_parts s SPEC_NAME_SAMPLES = Some (a_samples a) ->
  sp_parts s SPEC_NAME_CONTIGS = Some (a_contigs a) ->
  sp_parts s SPEC_NAME_DETAILS = Some (a_details a) ->
  (forall p, placed_in L p ->
     sp_parts s (stream_ref_name (pl_group p)) =
       option_map (map unswap) (gv_ref (view_of (finalize (m_cpack zc level) st) (pl_group p))) /\
     sp_parts s (stream_delta_name (pl_group p)) =
       option_map (map unswap) (gv_delta (view_of (finalize (m_cpack zc level) st) (pl_group p)))) ->
  names_paired (map ss_name (sp_streams s)) ->
  strict_check zd (close w) = None /\ decode_strict zd (close w) = SOk (reassembled k L).
Proof. exact Strict_proofs.strict_accepts_written_both. Qed.
Print Assumptions strict_accepts_written.

(* the same hypotheses as one predicate on the file bytes (used by the per-rule corollaries below) *)
Example written_file_def : forall zc k mml ss level L file,
  written_file zc k mml ss level L file =
  exists (gops : list op) (st : store) (c cw : coll) (a : arch) (ops : list wop),
    run (m_lz_enc mml) (m_cref zc) (m_cpack zc level) gops = Ok st /\
    GroupStore_proofs.ops_ok ref_dom (lz_dom mml) gops /\
    samples c = samples_of L /\ segment_size c = ss /\ kmer_length c = k /\
    (lenN (samples c) < 4294967296)%N /\
    Forall (fun s => Forall (fun b => (1 <= b < 128)%N) (sname s)) (samples c) /\
    Forall (Collection_proofs.batch_ok zc ss k)
           (Collection_proofs.chunks (length (samples c)) (N.to_nat SPEC_CATALOGUE_BATCH) (samples c)) /\
    store_all zc SPEC_CATALOGUE_BATCH c arch_empty = Ok (cw, a) /\
    (forall p, placed_in L p -> In (pl_seg p, pl_id p) (regs_of st (pl_group p))) /\
    (forall sm ct, In sm L -> In ct (snd sm) -> Forall (fun p => (k <= lenN (s_data (pl_seg p)))%N) (tl (snd ct))) /\
    Forall wop_wf ops /\
    file = close (fst (wrun w_init ops)) /\
    (lenN file <= spec_max_off)%N /\
    sp_parts (fst (sp_run sp_init ops)) SPEC_NAME_PARAMS = Some [(encode_params k mml ss, SPEC_PARAMS_METADATA)] /\
    sp_parts (fst (sp_run sp_init ops)) SPEC_NAME_SAMPLES = Some (a_samples a) /\
    sp_parts (fst (sp_run sp_init ops)) SPEC_NAME_CONTIGS = Some (a_contigs a) /\
    sp_parts (fst (sp_run sp_init ops)) SPEC_NAME_DETAILS = Some (a_details a) /\
    (forall p, placed_in L p ->
       sp_parts (fst (sp_run sp_init ops)) (stream_ref_name (pl_group p)) =
         option_map (map unswap) (gv_ref (view_of (finalize (m_cpack zc level) st) (pl_group p))) /\
       sp_parts (fst (sp_run sp_init ops)) (stream_delta_name (pl_group p)) =
         option_map (map unswap) (gv_delta (view_of (finalize (m_cpack zc level) st) (pl_group p)))) /\
    names_paired (map ss_name (sp_streams (fst (sp_run sp_init ops)))).
Proof. reflexivity. Qed.

Theorem written_file_accepted :
  forall (zc : N -> list N -> list N) (zd : list N -> option (list N)),
  (forall l x, zd (zc l x) = Some x) -> (forall l x, zc l x <> []) ->
  forall k mml ss level,
  (4 <= mml)%N -> (k < two32)%N -> (mml < two32)%N -> (ss < two32)%N -> (ss + k <= 2147483648)%N ->
  forall L file, written_file zc k mml ss level L file ->
  strict_check zd file = None.
Proof. exact Strict_proofs.written_accepted. Qed.
Print Assumptions written_file_accepted.

(* ---- (2) the instance for the model writer: ONE theorem about file bytes.  Under the hypotheses of props/C01G.v
   grand_roundtrip, every addressing rule the strict decoder checks holds for the archive model_build produces, and the
   strict decoder returns exactly the input. *)
Theorem grand_strict :
  forall (zc : N -> list N -> list N) (zd : list N -> option (list N)),
  (forall l x, zd (zc l x) = Some x) -> (forall l x, zc l x <> []) ->
  forall ecn k mml segsize level spl dec grp sched gops fti
         (samples : list (name * list (name * list N))),
  (1 <= k <= 32)%N -> (4 <= mml)%N -> (mml < two32)%N -> (segsize < two32)%N -> (segsize + k <= 2147483648)%N ->
  NoDup (map fst samples) /\ Forall (fun s => fst s <> [] /\ snd s <> []) samples ->
  inputs_in_dom mml (pushes_of samples) ->
  (forall i s c data j sg, nth_error (pushes_of samples) i = Some (s, c, data) ->
     nth_error (split_at_splitters_with_size data spl k segsize) j = Some sg ->
     decision_okb (N.to_nat k) sg (dec i j) = true) ->
  lz_contigs_nonempty (pushes_of samples) grp ->
  (forall i part, (grp i part < two32)%N) ->
  (forall l, Permutation l (sched l)) ->
  ops_carry (all_emit k spl segsize dec grp 0 (pushes_of samples)) gops ->
  forall b : built,
  model_build zc ecn k mml segsize level spl dec grp sched gops fti samples = Ok b ->
  catalogue_in_dom zc segsize k (mc_cat_of (b_coll b)) ->
  parts_meta_u64 (b_wops b) ->
  (lenN (b_file b) <= spec_max_off)%N ->
  strict_check zd (b_file b) = None /\ decode_strict zd (b_file b) = SOk samples.
Proof. exact Strict_proofs.grand_strict_both. Qed.
Print Assumptions grand_strict.

(* ---- (3) what acceptance means (ANY file, any zstd oracle): no error code <=> every rule below holds of what the reader
   sees in the file.  With grand_strict / strict_accepts_written: every rule holds of every written archive. *)
Theorem accepted_rules : forall zd file, strict_check zd file = None -> all_rules zd file.
Proof. exact Strict_proofs.accepted_rules. Qed.
Print Assumptions accepted_rules.

(* one corollary per rule, for written files *)
Theorem written_container_opens :                                                     (* E_CONTAINER *)
  forall zc zd, (forall l x, zd (zc l x) = Some x) -> (forall l x, zc l x <> []) ->
  forall k mml ss level, (4 <= mml)%N -> (k < two32)%N -> (mml < two32)%N -> (ss < two32)%N -> (ss + k <= 2147483648)%N ->
  forall L file, written_file zc k mml ss level L file -> rule_container file.
Proof. exact Strict_proofs.written_container_opens_proof. Qed.
Print Assumptions written_container_opens.

Theorem written_names_paired :                                                        (* E_NAMES *)
  forall zc zd, (forall l x, zd (zc l x) = Some x) -> (forall l x, zc l x <> []) ->
  forall k mml ss level, (4 <= mml)%N -> (k < two32)%N -> (mml < two32)%N -> (ss < two32)%N -> (ss + k <= 2147483648)%N ->
  forall L file, written_file zc k mml ss level L file -> rule_names file.
Proof. exact Strict_proofs.written_names_paired_proof. Qed.
Print Assumptions written_names_paired.

Theorem written_params_ok :                                                           (* E_PARAMS *)
  forall zc zd, (forall l x, zd (zc l x) = Some x) -> (forall l x, zc l x <> []) ->
  forall k mml ss level, (4 <= mml)%N -> (k < two32)%N -> (mml < two32)%N -> (ss < two32)%N -> (ss + k <= 2147483648)%N ->
  forall L file, written_file zc k mml ss level L file -> rule_params file.
Proof. exact Strict_proofs.written_params_ok_proof. Qed.
Print Assumptions written_params_ok.

Theorem written_collection_loads :                                                    (* E_COLLECTION *)
  forall zc zd, (forall l x, zd (zc l x) = Some x) -> (forall l x, zc l x <> []) ->
  forall k mml ss level, (4 <= mml)%N -> (k < two32)%N -> (mml < two32)%N -> (ss < two32)%N -> (ss + k <= 2147483648)%N ->
  forall L file, written_file zc k mml ss level L file -> rule_collection zd file.
Proof. exact Strict_proofs.written_collection_loads_proof. Qed.
Print Assumptions written_collection_loads.

Theorem written_streams_exist :                                                       (* E_STREAM *)
  forall zc zd, (forall l x, zd (zc l x) = Some x) -> (forall l x, zc l x <> []) ->
  forall k mml ss level, (4 <= mml)%N -> (k < two32)%N -> (mml < two32)%N -> (ss < two32)%N -> (ss + k <= 2147483648)%N ->
  forall L file, written_file zc k mml ss level L file -> rule_stream zd file.
Proof. exact Strict_proofs.written_streams_exist_proof. Qed.
Print Assumptions written_streams_exist.

Theorem written_one_ref_part :                                                        (* E_REF_PARTS *)
  forall zc zd, (forall l x, zd (zc l x) = Some x) -> (forall l x, zc l x <> []) ->
  forall k mml ss level, (4 <= mml)%N -> (k < two32)%N -> (mml < two32)%N -> (ss < two32)%N -> (ss + k <= 2147483648)%N ->
  forall L file, written_file zc k mml ss level L file -> rule_ref_parts zd file.
Proof. exact Strict_proofs.written_one_ref_part_proof. Qed.
Print Assumptions written_one_ref_part.

Theorem written_metadata_convention :                                                 (* E_METADATA *)
  forall zc zd, (forall l x, zd (zc l x) = Some x) -> (forall l x, zc l x <> []) ->
  forall k mml ss level, (4 <= mml)%N -> (k < two32)%N -> (mml < two32)%N -> (ss < two32)%N -> (ss + k <= 2147483648)%N ->
  forall L file, written_file zc k mml ss level L file -> rule_metadata zd file.
Proof. exact Strict_proofs.written_metadata_convention_proof. Qed.
Print Assumptions written_metadata_convention.

Theorem written_pack_marker :                                                         (* E_PACK_MARKER *)
  forall zc zd, (forall l x, zd (zc l x) = Some x) -> (forall l x, zc l x <> []) ->
  forall k mml ss level, (4 <= mml)%N -> (k < two32)%N -> (mml < two32)%N -> (ss < two32)%N -> (ss + k <= 2147483648)%N ->
  forall L file, written_file zc k mml ss level L file -> rule_pack_marker zd file.
Proof. exact Strict_proofs.written_pack_marker_proof. Qed.
Print Assumptions written_pack_marker.

Theorem written_pack_layout :                                                         (* E_PACK_LAYOUT *)
  forall zc zd, (forall l x, zd (zc l x) = Some x) -> (forall l x, zc l x <> []) ->
  forall k mml ss level, (4 <= mml)%N -> (k < two32)%N -> (mml < two32)%N -> (ss < two32)%N -> (ss + k <= 2147483648)%N ->
  forall L file, written_file zc k mml ss level L file -> rule_pack_layout zd file.
Proof. exact Strict_proofs.written_pack_layout_proof. Qed.
Print Assumptions written_pack_layout.

Theorem written_placeholder :                                                         (* E_PLACEHOLDER *)
  forall zc zd, (forall l x, zd (zc l x) = Some x) -> (forall l x, zc l x <> []) ->
  forall k mml ss level, (4 <= mml)%N -> (k < two32)%N -> (mml < two32)%N -> (ss < two32)%N -> (ss + k <= 2147483648)%N ->
  forall L file, written_file zc k mml ss level L file -> rule_placeholder zd file.
Proof. exact Strict_proofs.written_placeholder_proof. Qed.
Print Assumptions written_placeholder.

Theorem written_ids_address_entries :                                                 (* E_ID *)
  forall zc zd, (forall l x, zd (zc l x) = Some x) -> (forall l x, zc l x <> []) ->
  forall k mml ss level, (4 <= mml)%N -> (k < two32)%N -> (mml < two32)%N -> (ss < two32)%N -> (ss + k <= 2147483648)%N ->
  forall L file, written_file zc k mml ss level L file -> rule_id zd file.
Proof. exact Strict_proofs.written_ids_address_entries_proof. Qed.
Print Assumptions written_ids_address_entries.

Theorem written_segments_decode :                                                     (* E_DECODE *)
  forall zc zd, (forall l x, zd (zc l x) = Some x) -> (forall l x, zc l x <> []) ->
  forall k mml ss level, (4 <= mml)%N -> (k < two32)%N -> (mml < two32)%N -> (ss < two32)%N -> (ss + k <= 2147483648)%N ->
  forall L file, written_file zc k mml ss level L file -> rule_decode zd file.
Proof. exact Strict_proofs.written_segments_decode_proof. Qed.
Print Assumptions written_segments_decode.

Theorem written_desc_len :                                                            (* E_DESC_LEN *)
  forall zc zd, (forall l x, zd (zc l x) = Some x) -> (forall l x, zc l x <> []) ->
  forall k mml ss level, (4 <= mml)%N -> (k < two32)%N -> (mml < two32)%N -> (ss < two32)%N -> (ss + k <= 2147483648)%N ->
  forall L file, written_file zc k mml ss level L file -> rule_desc_len zd file.
Proof. exact Strict_proofs.written_desc_len_proof. Qed.
Print Assumptions written_desc_len.

(* ======================================================================== non-vacuity
   (a) the toy instance of props/C01G.v grand_roundtrip_nonvacuous (two samples, three contigs, raw group 3 and LZ groups
   16 / 17, two store rounds, toy zstd) meets every hypothesis of grand_strict, and on its 600-odd file bytes the strict
   checker computes "no rule violated" and the strict decoder the input; (b) the archive of props/C02B.v
   writer_conforms_nonvacuous is a [written_file]: its directory is paired. *)
Example grand_strict_nonvacuous : exists b,
  C01G.ex_build = Ok b /\
  (forall l x, SegCompress_proofs.toy_zd (SegCompress_proofs.toy_zc l x) = Some x) /\
  (forall l x, SegCompress_proofs.toy_zc l x <> []) /\
  (NoDup (map fst C01.ex_samples) /\ Forall (fun s : name * list (name * list N) => fst s <> [] /\ snd s <> []) C01.ex_samples) /\
  inputs_in_dom 4%N (pushes_of C01.ex_samples) /\
  decisions_ok 3%N (set_of_list [0%N]) 60%N C01.ex_dec (pushes_of C01.ex_samples) /\
  lz_contigs_nonempty (pushes_of C01.ex_samples) C01.ex_grp /\
  (forall i part, (C01.ex_grp i part < two32)%N) /\
  (forall l : list registration, Permutation l (rev l)) /\
  ops_carry (all_emit 3%N (set_of_list [0%N]) 60%N C01.ex_dec C01.ex_grp 0 (pushes_of C01.ex_samples)) C01.ex_store_ops /\
  catalogue_in_dom SegCompress_proofs.toy_zc 60%N 3%N (mc_cat_of (b_coll b)) /\
  parts_meta_u64 (b_wops b) /\
  (lenN (b_file b) <= spec_max_off)%N /\
  (* and the conclusion, computed *)
  strict_check SegCompress_proofs.toy_zd (b_file b) = None /\
  decode_strict SegCompress_proofs.toy_zd (b_file b) = SOk C01.ex_samples.
Proof.
  assert (H : match C01G.ex_build with
              | Ok b => strict_check SegCompress_proofs.toy_zd (b_file b) = None /\
                        decode_strict SegCompress_proofs.toy_zd (b_file b) = SOk C01.ex_samples
              | _ => False
              end) by (vm_compute; split; reflexivity).
  destruct C01G.grand_roundtrip_nonvacuous
    as (b & Hb & H1 & H2 & H3 & H4 & H5 & H6 & H7 & H8 & H9 & H10 & H11 & H12 & _).
  rewrite Hb in H. exists b. repeat (split; [assumption|]). exact H.
Qed.

Ltac solve_in := repeat first [left; reflexivity | right].
Example written_file_nonvacuous :
  written_file C02B.zc1 3%N 5%N 60%N 17%N C02B.ex_L C02B.ex_file /\
  map ss_name (sp_streams (fst (sp_run sp_init C02B.ex_wops))) =
    SPEC_FIXED_NAMES ++ [stream_delta_name 16%N; stream_ref_name 16%N; stream_delta_name 3%N; stream_ref_name 3%N] /\
  strict_check C02B.zd1 C02B.ex_file = None.
Proof.
  assert (Hn : map ss_name (sp_streams (fst (sp_run sp_init C02B.ex_wops))) =
    SPEC_FIXED_NAMES ++ [stream_delta_name 16%N; stream_ref_name 16%N; stream_delta_name 3%N; stream_ref_name 3%N])
    by (vm_compute; reflexivity).
  split; [|split; [exact Hn|vm_compute; reflexivity]].
  destruct C02B.writer_conforms_nonvacuous
    as (_ & _ & H3 & H4 & H5 & H6 & H7 & (cw & H8) & H9 & H10 & H11 & H12 & H13 & H14 & H15 & H16 & H17 & _).
  exists C02B.ex_gops, C02B.ex_st, C02B.ex_c, cw, C02B.ex_a, C02B.ex_wops.
  split; [exact H3|]. split; [exact H4|]. split; [exact H5|]. split; [reflexivity|]. split; [reflexivity|].
  split; [vm_compute; reflexivity|]. split; [exact H6|]. split; [exact H7|]. split; [exact H8|].
  split; [exact H9|]. split; [exact H10|]. split; [exact H11|]. split; [reflexivity|]. split; [exact H12|].
  split; [exact H13|]. split; [exact H14|]. split; [exact H15|]. split; [exact H16|]. split; [exact H17|].
  rewrite Hn. unfold names_paired.
  assert (Hg : forall g, (g = 16%N \/ g = 3%N) -> forall nm, nm = stream_ref_name g \/ nm = stream_delta_name g ->
    In nm SPEC_FIXED_NAMES \/
    exists g0, (g0 < two32)%N /\ (nm = stream_ref_name g0 \/ nm = stream_delta_name g0) /\
      In (stream_ref_name g0) (SPEC_FIXED_NAMES ++ [stream_delta_name 16%N; stream_ref_name 16%N; stream_delta_name 3%N; stream_ref_name 3%N]) /\
      In (stream_delta_name g0) (SPEC_FIXED_NAMES ++ [stream_delta_name 16%N; stream_ref_name 16%N; stream_delta_name 3%N; stream_ref_name 3%N])).
  { intros g Hgv nm Hnm. right. exists g. split; [destruct Hgv as [->| ->]; reflexivity|]. split; [exact Hnm|].
    split; apply in_or_app; right; destruct Hgv as [->| ->]; cbn [In]; tauto. }
  apply Forall_app. split.
  - apply Forall_forall. intros nm Hnm. left. exact Hnm.
  - apply Forall_cons; [apply (Hg 16%N); [left; reflexivity|right; reflexivity]|].
    apply Forall_cons; [apply (Hg 16%N); [left; reflexivity|left; reflexivity]|].
    apply Forall_cons; [apply (Hg 3%N); [right; reflexivity|right; reflexivity]|].
    apply Forall_cons; [apply (Hg 3%N); [right; reflexivity|left; reflexivity]|].
    apply Forall_nil.
Qed.
