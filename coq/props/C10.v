(* C10 — Segmentation tiles each contig with exact k-base overlaps at splitters.
   Model: Segment.v (split_gen ws = the body shared by split_at_splitters_with_size (ws = true) and
   split_at_splitters (ws = false)); splitter set = any boolean function on u64 values; contig = any list
   of N (so in particular every byte string); 1 <= k <= 32 is the range in which Kmer::new does not
   overflow its shift.  The statements hold for both variants (ws is universally quantified). *)
From Ragc Require Import Mach Consts_kmer Consts_segment Kmer Segment Segment_proofs.
Open Scope N_scope.

(* the two public functions are the shared body; _min_segment_size is ignored *)
Theorem with_size_is_gen : forall contig spl k m,
  split_at_splitters_with_size contig spl k m = split_gen true contig spl k.
Proof. exact Segment_proofs.with_size_is_gen_proof. Qed.
Print Assumptions with_size_is_gen.

Theorem old_is_gen : forall contig spl k,
  split_at_splitters contig spl k = split_gen false contig spl k.
Proof. exact Segment_proofs.old_is_gen_proof. Qed.
Print Assumptions old_is_gen.

(* at least one segment, for every input (also the empty contig) *)
Theorem nonempty_output : forall ws contig spl k, split_gen ws contig spl k <> [].
Proof. exact Segment_proofs.nonempty_output_proof. Qed.
Print Assumptions nonempty_output.

(* dropping the first k bases of every later segment and concatenating reproduces the contig *)
Theorem tiling : forall ws contig spl k s0 rest, 1 <= k <= 32 ->
  split_gen ws contig spl k = s0 :: rest ->
  sdata s0 ++ concat (map (fun s => skipn (N.to_nat k) (sdata s)) rest) = contig.
Proof. exact Segment_proofs.tiling_proof. Qed.
Print Assumptions tiling.
Example tiling_nonvacuous : exists s0 s1 s2,
  split_gen true [0;0;0;1;2;3;0;0;0] (set_of_list [0]) 3 = [s0; s1; s2] /\ 1 <= 3 <= 32.
Proof. vm_compute. do 3 eexists. split; [reflexivity|]. split; discriminate. Qed.

(* the first segment starts at the first base, the last one ends at the last base *)
Theorem starts_ends : forall ws contig spl k s0 rest, 1 <= k <= 32 ->
  split_gen ws contig spl k = s0 :: rest ->
  (exists t, contig = sdata s0 ++ t) /\ (exists p, contig = p ++ sdata (last rest s0)).
Proof. exact Segment_proofs.starts_ends_proof. Qed.
Print Assumptions starts_ends.

(* each later segment begins exactly k bases before the previous one ends *)
Theorem overlap_k : forall ws contig spl k i s t, 1 <= k <= 32 ->
  nth_error (split_gen ws contig spl k) i = Some s ->
  nth_error (split_gen ws contig spl k) (S i) = Some t ->
  (N.to_nat k <= length (sdata s))%nat /\
  firstn (N.to_nat k) (sdata t) = lastn (N.to_nat k) (sdata s).
Proof. exact Segment_proofs.overlap_k_proof. Qed.
Print Assumptions overlap_k.
Example overlap_k_nonvacuous : exists s t,
  nth_error (split_gen false [0;0;0;0;4;0;0;0] (set_of_list [0]) 3) 1 = Some s /\
  nth_error (split_gen false [0;0;0;0;4;0;0;0] (set_of_list [0]) 3) 2 = Some t /\
  sdata s = [0;0;0;0] /\ sdata t = [0;0;0;4;0;0;0].
Proof. vm_compute. do 2 eexists. repeat split; reflexivity. Qed.

(* every later segment has at least k bases (also the trailing one that is only the k-mer) *)
Theorem later_len_ge_k : forall ws contig spl k i t, 1 <= k <= 32 ->
  nth_error (split_gen ws contig spl k) (S i) = Some t ->
  (N.to_nat k <= length (sdata t))%nat.
Proof. exact Segment_proofs.later_len_ge_k_proof. Qed.
Print Assumptions later_len_ge_k.
Example later_len_nonvacuous : exists t,
  nth_error (split_gen true [1;0;0;0] (set_of_list [0]) 3) 1 = Some t /\ sdata t = [0;0;0].
Proof. vm_compute. eexists. split; reflexivity. Qed.

(* each internal boundary k-mer is the back k-mer of one segment and the front k-mer of the next (with the
   same orientation flag), belongs to the splitter set, is not the MISSING sentinel, and is the canonical
   value / orientation of the k-mer state machine of Kmer.v (C20) after an ACGT-only run ending with the k
   boundary bases w (C20's sliding_eq_scratch turns feed (kmer_new k) (pre ++ w) into the from-scratch
   value of w) *)
Theorem boundary_kmers : forall ws contig spl k i s t, 1 <= k <= 32 ->
  nth_error (split_gen ws contig spl k) i = Some s ->
  nth_error (split_gen ws contig spl k) (S i) = Some t ->
  let w := lastn (N.to_nat k) (sdata s) in
  sback s = sfront t /\ sbdir s = sfdir t /\
  spl (sback s) = true /\ sback s <> MISSING_KMER /\
  length w = N.to_nat k /\
  exists pre, Forall acgt (pre ++ w) /\
    sback s = data_canonical (feed (kmer_new k) (pre ++ w)) /\
    sbdir s = is_dir_oriented (feed (kmer_new k) (pre ++ w)).
Proof. exact Segment_proofs.boundary_kmers_proof. Qed.
Print Assumptions boundary_kmers.
Example boundary_kmers_nonvacuous : exists s t,
  nth_error (split_gen true [3;3;3;1;0;0;0;2] (set_of_list [0]) 3) 0 = Some s /\
  nth_error (split_gen true [3;3;3;1;0;0;0;2] (set_of_list [0]) 3) 1 = Some t /\
  sback s = 0 /\ sbdir s = false /\ sfront t = 0.
Proof. vm_compute. do 2 eexists. repeat split; reflexivity. Qed.

(* the first segment has no front k-mer, the last one no back k-mer *)
Theorem ends_missing : forall ws contig spl k s0 rest, 1 <= k <= 32 ->
  split_gen ws contig spl k = s0 :: rest ->
  sfront s0 = MISSING_KMER /\ sfdir s0 = false /\
  sback (last rest s0) = MISSING_KMER /\ sbdir (last rest s0) = false.
Proof. exact Segment_proofs.ends_missing_proof. Qed.
Print Assumptions ends_missing.

(* a contig in which no k-mer (Kmer.enumerate_kmers: canonical values of the ACGT-only windows) is a
   splitter is one segment with both k-mers missing *)
Theorem no_splitter_single : forall ws contig spl k,
  (forall v, In v (enumerate_kmers contig k) -> spl v = false) ->
  split_gen ws contig spl k = [mkSeg contig MISSING_KMER MISSING_KMER false false].
Proof. exact Segment_proofs.no_splitter_single_proof. Qed.
Print Assumptions no_splitter_single.
Example no_splitter_nonvacuous :
  (forall v, In v (enumerate_kmers [0;0;0;1;4;1] 3) -> set_of_list [5; 7] v = false) /\
  enumerate_kmers [0;0;0;1;4;1] 3 <> [].
Proof. vm_compute. split; [|discriminate]. intros v [<-|[<-|[]]]; reflexivity. Qed.

(* conversely an occurrence of a splitter always splits *)
Theorem occurrence_splits : forall ws contig spl k, 1 <= k <= 32 ->
  (exists v, In v (enumerate_kmers contig k) /\ spl v = true) ->
  (2 <= length (split_gen ws contig spl k))%nat.
Proof. exact Segment_proofs.occurrence_splits_proof. Qed.
Print Assumptions occurrence_splits.
Example occurrence_nonvacuous : exists v, In v (enumerate_kmers [1;0;0;0] 3) /\ set_of_list [0] v = true.
Proof. exists 0. vm_compute. split; [right; left|]; reflexivity. Qed.

(* the variant without the reset splits at every occurrence *)
Theorem old_splits_every_occurrence : forall contig spl k, 1 <= k <= 32 -> k <= lenN contig ->
  length (split_at_splitters contig spl k) = S (length (filter spl (enumerate_kmers contig k))).
Proof. exact Segment_proofs.old_splits_every_occurrence_proof. Qed.
Print Assumptions old_splits_every_occurrence.
Example old_every_nonvacuous :
  3 <= lenN [0;0;0;0;0;0] /\ length (split_at_splitters [0;0;0;0;0;0] (set_of_list [0]) 3) = 5%nat /\
  length (split_at_splitters_with_size [0;0;0;0;0;0] (set_of_list [0]) 3 0) = 3%nat.
Proof. vm_compute. repeat split; discriminate. Qed.

(* a contig shorter than k is one segment with both k-mers missing *)
Theorem short_single : forall ws contig spl k, lenN contig < k ->
  split_gen ws contig spl k = [mkSeg contig MISSING_KMER MISSING_KMER false false].
Proof. exact Segment_proofs.short_single_proof. Qed.
Print Assumptions short_single.
Example short_nonvacuous : lenN [0;1] < 3.
Proof. reflexivity. Qed.

(* no empty segment for a non-empty contig *)
Theorem segments_nonempty : forall ws contig spl k, 1 <= k <= 32 -> contig <> [] ->
  Forall (fun s => sdata s <> []) (split_gen ws contig spl k).
Proof. exact Segment_proofs.segments_nonempty_proof. Qed.
Print Assumptions segments_nonempty.

(* the canonical value of a full ACGT window never collides with the sentinel (so "front_kmer ==
   MISSING_KMER" in the code really means "no split yet") *)
Theorem canonical_ne_missing : forall k run, 1 <= k <= 32 -> Forall acgt run -> k <= lenN run ->
  data_canonical (feed (kmer_new k) run) <> MISSING_KMER.
Proof. exact Segment_proofs.canonical_ne_missing_proof. Qed.
Print Assumptions canonical_ne_missing.
Example ne_missing_nonvacuous : Forall acgt (repeat 3 32) /\ 32 <= lenN (repeat 3 32) /\
  kdir (feed (kmer_new 32) (repeat 3 32)) = MISSING_KMER.
Proof. split; [repeat constructor|]. vm_compute. split; [discriminate | reflexivity]. Qed.
