(* C05L - link of the three concurrency models (sub-check of C05).  C04 (Determinism.v), C05 (Protocol.v) and C06
   (Queue.v) were built independently: Protocol.v carries its own copy of the queue, Determinism.v its own abstraction
   of queue and barrier.  This file pins the theorems that tie them together.

   Part 1 (queue refinement; model/ConcLink.v, proofs/ConcLink_proofs.v): the pipeline of C05 uses its queue within
   the contract of C06.  `abs` projects a Protocol state (plus the ghost lists acc / ret of items admitted / handed
   out) onto a Queue.v state: same items (admission number, size, priority = `rank` of the ContigTask triple), same
   current_size / closed / next_seq, the producer in PWaitF / PWokenF as the blocked / woken pusher (queue thread 0),
   the workers in WWaitE / WWokenE as blocked / woken pullers (worker w = queue thread w+1; after close a worker still
   in WWaitE counts as woken: Queue.v moves all waiters at the close event, Protocol.v lets each take a later step);
   `qevents` maps a Protocol label to the list of Queue events it performs (empty for the poll loop, the join, barrier
   and phase steps); `qsim` is equality of Queue states up to the order in which blocked / woken consumers are listed.
   Domain (`script_bounded`): sequence numbers below 2^64 and contig sizes summing to less than 2^64 - Queue.v traps on
   usize overflow of current_size + size, Protocol.v does not model it; `rank` is an order embedding of ContigTask's
   (priority, cost, reversed sequence) order into Z only for cost, sequence < 2^64. *)
From Coq Require Import Permutation.
From Ragc Require Import Mach.
From Ragc Require Queue.
From Ragc Require Import Protocol ConcLink ConcLink_proofs.
Open Scope N_scope.

(* ---- 1.0 the priority projection preserves and reflects ContigTask's order *)
Theorem rank_order_embedding : forall a b : task,
  tcost a < two64 /\ tord a < two64 -> tcost b < two64 /\ tord b < two64 ->
  (task_le a b = true <-> (rank a <= rank b)%Z).
Proof. exact ConcLink_proofs.rank_le_iff. Qed.
Print Assumptions rank_order_embedding.

Example rank_nonvacuous :
  let a := mkTask 5%Z 10 7 10 false in let b := mkTask 5%Z 10 3 10 false in let c := mkTask 4%Z 999 0 999 false in
  task_bounded a /\ task_bounded b /\ task_bounded c /\
  task_le a b = true /\ task_le b a = false /\ task_le c a = true /\
  (rank a <= rank b)%Z /\ (rank b > rank a)%Z /\ (rank c <= rank a)%Z.
Proof. cbv zeta. unfold task_bounded. vm_compute. repeat split; intro; discriminate. Qed.

(* ---- 1.1 forward simulation, one step: whatever a reachable Protocol state does, the projected Queue state can do
   by the listed Queue events (each a valid Queue.step), and lands on the projection of the new Protocol state *)
Theorem queue_refinement_step : forall (pa : params) (script : list cmd),
  old_rule pa = false -> (1 <= nthr pa)%nat -> script_bounded script ->
  forall (s : state) (l : label) (s' : state) (acc ret : list item) (q : Queue.state),
  reachable pa script s -> qsim q (abs s acc ret) -> hist_ok pa script s acc ret -> step pa s l = Some s' ->
  exists q' acc' ret', Queue.run (cap pa) q (qevents pa s l) = Some q' /\
                       qsim q' (abs s' acc' ret') /\ hist_ok pa script s' acc' ret'.
Proof. exact ConcLink_proofs.queue_refinement_step_proof. Qed.
Print Assumptions queue_refinement_step.

(* ---- 1.2 whole runs: the projected trace of every Protocol run is a trace of Queue.v from Queue.init, ending in
   the projection of the Protocol state reached; the ghost histories are tied to Protocol's own ghosts *)
Theorem queue_refinement : forall (pa : params) (script : list cmd),
  old_rule pa = false -> (1 <= nthr pa)%nat -> script_bounded script ->
  forall (tr : list label) (s : state), run pa (init pa script) tr = Some s ->
  exists q acc ret, Queue.run (cap pa) Queue.init (qtrace pa (init pa script) tr) = Some q /\
                    qsim q (abs s acc ret) /\ hist_ok pa script s acc ret.
Proof. exact ConcLink_proofs.queue_refinement_proof. Qed.
Print Assumptions queue_refinement.

Theorem queue_refinement_reachable : forall (pa : params) (script : list cmd),
  old_rule pa = false -> (1 <= nthr pa)%nat -> script_bounded script ->
  forall s : state, reachable pa script s ->
  exists tr q acc ret, Queue.run (cap pa) Queue.init tr = Some q /\ qsim q (abs s acc ret) /\
                       hist_ok pa script s acc ret.
Proof. exact ConcLink_proofs.queue_refinement_reachable_proof. Qed.
Print Assumptions queue_refinement_reachable.

(* what hist_ok says, spelled out *)
Example hist_ok_unfolded : forall pa script s acc ret, hist_ok pa script s acc ret <->
  ((pushed s = map iseq (filter (fun i => negb (ttok (itask i))) acc) /\
    Permutation (map iseq (filter (fun i => negb (ttok (itask i))) ret)) (segd s ++ inflight (ws s))) /\
   (exists pre, todo_of (nthr pa) script = pre ++ todo s /\ Forall (fun i => In (OPush (itask i)) pre) acc) /\
   cur s + todo_size (todo s) <= todo_size (todo_of (nthr pa) script) /\
   Forall (fun i => tcost (itask i) < two64 /\ tord (itask i) < two64) (items s)).
Proof. intros. reflexivity. Qed.

(* ---- 1.3 C06's invariants hold in every reachable state of the pipeline (derived THROUGH the refinement from
   Queue_proofs.size_accounting / exactly_once / bounded): current_size is the sum of the queued sizes; admission
   numbers are unique; when every contig of the script fits, the queued bytes never exceed the capacity; accepted =
   returned + queued as multisets with unique admission numbers, where the accepted contigs are exactly Protocol's
   `pushed` and the returned contigs exactly the segmented ones plus those a worker is holding *)
Theorem queue_contract : forall (pa : params) (script : list cmd),
  old_rule pa = false -> (1 <= nthr pa)%nat -> script_bounded script ->
  forall s : state, reachable pa script s ->
  cur s = sum_sizes (items s) /\
  NoDup (map iseq (items s)) /\
  ((forall sz, In sz (contig_sizes script) -> sz <= cap pa) -> cur s <= cap pa) /\
  exists acc ret, ghost_link s acc ret /\
    Permutation (map qitem acc) (map qitem (ret ++ items s)) /\
    NoDup (map iseq acc) /\ NoDup (map iseq (ret ++ items s)).
Proof. exact ConcLink_proofs.queue_contract_proof. Qed.
Print Assumptions queue_contract.

(* ---- 1.4 C06's `priority` for every take of the pipeline, in ContigTask's own order (through rank) *)
Theorem take_priority : forall (pa : params) (script : list cmd),
  old_rule pa = false -> (1 <= nthr pa)%nat -> script_bounded script ->
  forall (s : state) (w : nat) (sq : N) (nb : nat) (s' : state), reachable pa script s ->
  step pa s (LWork w sq nb) = Some s' -> (length (items s') < length (items s))%nat ->
  exists it, In it (items s) /\ iseq it = sq /\ Permutation (items s) (it :: items s') /\
             forall j, In j (items s) -> task_le (itask j) (itask it) = true.
Proof. exact ConcLink_proofs.take_priority_proof. Qed.
Print Assumptions take_priority.

(* ---- non-vacuity of part 1.  2 workers, capacity 100, contigs of 60 and 70 bytes, finalize: the second push
   sleeps in not_full.wait (EPushWait), the first take wakes it (notify target = queue thread 0), it is admitted on
   re-entry (woke = true); a worker sleeps on the empty queue and is woken by a push (notify target = thread 2) *)
Definition pa1 : params := mkParams 2 100 false.
Definition sc1 : list cmd := [Contig 60 7%Z 0; Contig 70 7%Z 1].
Definition tr1 : list label :=
  [LWork 1 0 0; LProd (Some 1%nat); LProd None; LWork 0 0 0; LProd None; LWork 0 0 0; LWork 1 1 0; LSpurE 1].

Example domain_nonvacuous : old_rule pa1 = false /\ (1 <= nthr pa1)%nat /\ script_bounded sc1 /\
  (forall sz, In sz (contig_sizes sc1) -> sz <= cap pa1).
Proof.
  split; [reflexivity|]. split; [repeat constructor|]. split.
  - split; [repeat constructor|]; vm_compute; reflexivity.
  - intros sz [<-|[<-|[]]]; vm_compute; discriminate.
Qed.

Example refinement_nonvacuous : exists s q,
  run pa1 (init pa1 sc1) tr1 = Some s /\
  qtrace pa1 (init pa1 sc1) tr1 =
    [Queue.EPullWait 2 false;
     Queue.EPushAdmit 0 (rank (contig 60 7%Z 0)) 60 false (Some 2);
     Queue.EPushWait 0 (rank (contig 70 7%Z 1)) 70 false;
     Queue.EPullTake 1 false 0 (Some 0);
     Queue.EPushAdmit 0 (rank (contig 70 7%Z 1)) 70 true None;
     Queue.EPullTake 2 true 1 None] /\
  Queue.run (cap pa1) Queue.init (qtrace pa1 (init pa1 sc1) tr1) = Some q /\
  Queue.items q = map qitem (items s) /\ Queue.cur q = cur s /\ length (Queue.returned q) = 2%nat /\
  pushed s = [1; 0].
Proof. eexists. eexists. vm_compute. repeat split; reflexivity. Qed.

(* the domain condition is needed: with contig sizes summing to 2^64 Protocol.v admits the second push (its
   current_size is an unbounded N), Queue.v (= the dev-profile code) traps on `current_size + size_bytes` *)
Example overflow_outside_contract :
  let pa := mkParams 1 (two64 + 10) false in let sc := [Contig (two64 - 1) 7%Z 0; Contig 1 7%Z 1] in
  exists s s' q, run pa (init pa sc) [LProd None] = Some s /\ step pa s (LProd None) = Some s' /\
    Queue.run (cap pa) Queue.init (qtrace pa (init pa sc) [LProd None]) = Some q /\
    qsim q (abs s [mkItem 0 (contig (two64 - 1) 7%Z 0)] []) /\
    Queue.run (cap pa) q (qevents pa s (LProd None)) = None /\ ~ script_bounded sc.
Proof.
  cbv zeta. eexists. eexists. eexists. split; [vm_compute; reflexivity|]. split; [vm_compute; reflexivity|].
  split; [vm_compute; reflexivity|]. split.
  - unfold qsim, same_set. vm_compute. repeat split; auto; try constructor; intros [].
  - split; [vm_compute; reflexivity|]. intros (_ & H). vm_compute in H. discriminate.
Qed.
