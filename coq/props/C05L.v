(* C05L - link of the three concurrency models (sub-check of C05).  C04 (Determinism.v), C05 (Protocol.v) and C06
   (Queue.v) were built independently: Protocol.v carries its own copy of the queue, Determinism.v its own abstraction
   of queue and barrier.  This file pins the theorems that tie them together.

   Part 1 (queue refinement; model/ConcLink.v, proofs/ConcLink_proofs.v): the pipeline of C05 uses its queue within
   the contract of C06.  `abs` projects a Protocol state (plus the ghost lists acc / ret of items admitted / handed
   out) onto a Queue.v state: same items (admission number, size, priority = `rank` of the ContigTask triple), same
   current_size / closed / next_seq, the producer in PWaitF / PWokenF as the blocked / woken pusher (queue thread 0),
   the workers in WWaitE / WWokenE as blocked / woken pullers (worker w = queue thread w+1; after close a worker still
   in WWaitE counts as woken: Queue.v moves all waiters at the close event, Protocol.v lets each take a later step);
   `qevents` maps a Protocol label to the list of Queue events it performs (empty for the poll loop, the join, barrier
   and phase steps); `qsim` is equality of Queue states up to the order in which blocked / woken consumers are listed.
   Domain (`script_bounded`): sequence numbers below 2^64 and contig sizes summing to less than 2^64 - Queue.v traps on
   usize overflow of current_size + size, Protocol.v does not model it; `rank` is an order embedding of ContigTask's
   (priority, cost, reversed sequence) order into Z only for cost, sequence < 2^64.

   Part 2 (rounds link; model/ConcLinkR.v, proofs/ConcLink_rounds.v): Protocol.v is a refinement of part A of
   Determinism.v.  A Determinism producer script sc (PPush / PWaitEmpty / PClose) corresponds to a Protocol script when
   Protocol's operation list is sc's pushes and polls (`script_match`); a task is identified by its admission number
   (`task_at sc sq` = the sq-th push of sc); a Protocol worker is a Determinism worker at the barrier iff its pc is in
   the sync section and the round it is in has not been classified yet (`dstate_of`).  Forward simulation
   (`protocol_refines_determinism`), hence C04's rounds_as_intended speaks about Protocol's ghost `rounds`
   (`rounds_link`); with C05's termination and C04's schedule_independent: every maximal run of the multi-file
   pipeline terminates AND yields the same archive parts (`terminating_and_deterministic`; single-file mode:
   `singlefile_match`, `terminating_and_deterministic_singlefile`, section 2.4).
   Names of Determinism.v are written qualified (both models define task, step, run, init, contig). *)
From Coq Require Import Permutation.
From Ragc Require Import Mach.
From Ragc Require Queue.
From Ragc Require Import Protocol Protocol_proofs ConcLink ConcLink_proofs ConcLinkR.
From Ragc Require Determinism Determinism_proto Determinism_gen Determinism_proofs ConcLink_rounds ConcLink_single
  Consts_determinism.
Open Scope N_scope.

(* ---- 1.0 the priority projection preserves and reflects ContigTask's order *)
Theorem rank_order_embedding : forall a b : task,
  tcost a < two64 /\ tord a < two64 -> tcost b < two64 /\ tord b < two64 ->
  (task_le a b = true <-> (rank a <= rank b)%Z).
Proof. exact ConcLink_proofs.rank_le_iff. Qed.
Print Assumptions rank_order_embedding.

Example rank_nonvacuous :
  let a := mkTask 5%Z 10 7 10 false in let b := mkTask 5%Z 10 3 10 false in let c := mkTask 4%Z 999 0 999 false in
  task_bounded a /\ task_bounded b /\ task_bounded c /\
  task_le a b = true /\ task_le b a = false /\ task_le c a = true /\
  (rank a <= rank b)%Z /\ (rank b > rank a)%Z /\ (rank c <= rank a)%Z.
Proof. cbv zeta. unfold task_bounded. vm_compute. repeat split; intro; discriminate. Qed.

(* ---- 1.1 forward simulation, one step: whatever a reachable Protocol state does, the projected Queue state can do
   by the listed Queue events (each a valid Queue.step), and lands on the projection of the new Protocol state *)
Theorem queue_refinement_step : forall (pa : params) (script : list cmd),
  old_rule pa = false -> (1 <= nthr pa)%nat -> script_bounded script ->
  forall (s : state) (l : label) (s' : state) (acc ret : list item) (q : Queue.state),
  reachable pa script s -> qsim q (abs s acc ret) -> hist_ok pa script s acc ret -> step pa s l = Some s' ->
  exists q' acc' ret', Queue.run (cap pa) q (qevents pa s l) = Some q' /\
                       qsim q' (abs s' acc' ret') /\ hist_ok pa script s' acc' ret'.
Proof. exact ConcLink_proofs.queue_refinement_step_proof. Qed.
Print Assumptions queue_refinement_step.

(* ---- 1.2 whole runs: the projected trace of every Protocol run is a trace of Queue.v from Queue.init, ending in
   the projection of the Protocol state reached; the ghost histories are tied to Protocol's own ghosts *)
Theorem queue_refinement : forall (pa : params) (script : list cmd),
  old_rule pa = false -> (1 <= nthr pa)%nat -> script_bounded script ->
  forall (tr : list label) (s : state), run pa (init pa script) tr = Some s ->
  exists q acc ret, Queue.run (cap pa) Queue.init (qtrace pa (init pa script) tr) = Some q /\
                    qsim q (abs s acc ret) /\ hist_ok pa script s acc ret.
Proof. exact ConcLink_proofs.queue_refinement_proof. Qed.
Print Assumptions queue_refinement.

Theorem queue_refinement_reachable : forall (pa : params) (script : list cmd),
  old_rule pa = false -> (1 <= nthr pa)%nat -> script_bounded script ->
  forall s : state, reachable pa script s ->
  exists tr q acc ret, Queue.run (cap pa) Queue.init tr = Some q /\ qsim q (abs s acc ret) /\
                       hist_ok pa script s acc ret.
Proof. exact ConcLink_proofs.queue_refinement_reachable_proof. Qed.
Print Assumptions queue_refinement_reachable.

(* what hist_ok says, spelled out *)
Example hist_ok_unfolded : forall pa script s acc ret, hist_ok pa script s acc ret <->
  ((pushed s = map iseq (filter (fun i => negb (ttok (itask i))) acc) /\
    Permutation (map iseq (filter (fun i => negb (ttok (itask i))) ret)) (segd s ++ inflight (ws s))) /\
   (exists pre, todo_of (nthr pa) script = pre ++ todo s /\ Forall (fun i => In (OPush (itask i)) pre) acc) /\
   cur s + todo_size (todo s) <= todo_size (todo_of (nthr pa) script) /\
   Forall (fun i => tcost (itask i) < two64 /\ tord (itask i) < two64) (items s)).
Proof. intros. reflexivity. Qed.

(* ---- 1.3 C06's invariants hold in every reachable state of the pipeline (derived THROUGH the refinement from
   Queue_proofs.size_accounting / exactly_once / bounded): current_size is the sum of the queued sizes; admission
   numbers are unique; when every contig of the script fits, the queued bytes never exceed the capacity; accepted =
   returned + queued as multisets with unique admission numbers, where the accepted contigs are exactly Protocol's
   `pushed` and the returned contigs exactly the segmented ones plus those a worker is holding *)
Theorem queue_contract : forall (pa : params) (script : list cmd),
  old_rule pa = false -> (1 <= nthr pa)%nat -> script_bounded script ->
  forall s : state, reachable pa script s ->
  cur s = sum_sizes (items s) /\
  NoDup (map iseq (items s)) /\
  ((forall sz, In sz (contig_sizes script) -> sz <= cap pa) -> cur s <= cap pa) /\
  exists acc ret, ghost_link s acc ret /\
    Permutation (map qitem acc) (map qitem (ret ++ items s)) /\
    NoDup (map iseq acc) /\ NoDup (map iseq (ret ++ items s)).
Proof. exact ConcLink_proofs.queue_contract_proof. Qed.
Print Assumptions queue_contract.

(* ---- 1.4 C06's `priority` for every take of the pipeline, in ContigTask's own order (through rank) *)
Theorem take_priority : forall (pa : params) (script : list cmd),
  old_rule pa = false -> (1 <= nthr pa)%nat -> script_bounded script ->
  forall (s : state) (w : nat) (sq : N) (nb : nat) (s' : state), reachable pa script s ->
  step pa s (LWork w sq nb) = Some s' -> (length (items s') < length (items s))%nat ->
  exists it, In it (items s) /\ iseq it = sq /\ Permutation (items s) (it :: items s') /\
             forall j, In j (items s) -> task_le (itask j) (itask it) = true.
Proof. exact ConcLink_proofs.take_priority_proof. Qed.
Print Assumptions take_priority.

(* ---- non-vacuity of part 1.  2 workers, capacity 100, contigs of 60 and 70 bytes, finalize: the second push
   sleeps in not_full.wait (EPushWait), the first take wakes it (notify target = queue thread 0), it is admitted on
   re-entry (woke = true); a worker sleeps on the empty queue and is woken by a push (notify target = thread 2) *)
Definition pa1 : params := mkParams 2 100 false.
Definition sc1 : list cmd := [Contig 60 7%Z 0; Contig 70 7%Z 1].
Definition tr1 : list label :=
  [LWork 1 0 0; LProd (Some 1%nat); LProd None; LWork 0 0 0; LProd None; LWork 0 0 0; LWork 1 1 0].

Example domain_nonvacuous : old_rule pa1 = false /\ (1 <= nthr pa1)%nat /\ script_bounded sc1 /\
  (forall sz, In sz (contig_sizes sc1) -> sz <= cap pa1).
Proof.
  split; [reflexivity|]. split; [repeat constructor|]. split.
  - split; [repeat constructor|]; vm_compute; reflexivity.
  - intros sz [<-|[<-|[]]]; vm_compute; discriminate.
Qed.

Example refinement_nonvacuous :
  match run pa1 (init pa1 sc1) tr1,
        Queue.run (cap pa1) Queue.init (qtrace pa1 (init pa1 sc1) tr1) with
  | Some s, Some q =>
    qtrace pa1 (init pa1 sc1) tr1 =
      [Queue.EPullWait 2 false;
       Queue.EPushAdmit 0 (rank (contig 60 7%Z 0)) 60 false (Some 2);
       Queue.EPushWait 0 (rank (contig 70 7%Z 1)) 70 false;
       Queue.EPullTake 1 false 0 (Some 0);
       Queue.EPushAdmit 0 (rank (contig 70 7%Z 1)) 70 true None;
       Queue.EPullTake 2 true 1 None] /\
    Queue.items q = map qitem (items s) /\ Queue.cur q = cur s /\ length (Queue.returned q) = 2%nat /\
    pushed s = [1; 0] /\ Queue.kempty q = [] /\ Queue.wempty q = []
  | _, _ => False
  end.
Proof. vm_compute. repeat split; reflexivity. Qed.

(* the domain condition is needed: with contig sizes summing to 2^64 Protocol.v admits the second push (its
   current_size is an unbounded N), Queue.v (= the dev-profile code) traps on `current_size + size_bytes` *)
Example overflow_outside_contract :
  let pa := mkParams 1 (two64 + 10) false in let sc := [Contig (two64 - 1) 7%Z 0; Contig 1 7%Z 1] in
  exists s s' q, run pa (init pa sc) [LProd None] = Some s /\ step pa s (LProd None) = Some s' /\
    Queue.run (cap pa) Queue.init (qtrace pa (init pa sc) [LProd None]) = Some q /\
    qsim q (abs s [mkItem 0 (contig (two64 - 1) 7%Z 0)] []) /\
    Queue.run (cap pa) q (qevents pa s (LProd None)) = None /\ ~ script_bounded sc.
Proof.
  cbv zeta. eexists. eexists. eexists. split; [vm_compute; reflexivity|]. split; [vm_compute; reflexivity|].
  split; [vm_compute; reflexivity|]. split.
  - unfold qsim, same_set. vm_compute. repeat split; auto; try constructor; intros [].
  - split; [vm_compute; reflexivity|]. intros (_ & H). vm_compute in H. discriminate.
Qed.

(* ================================================================================================= part 2 *)
Example script_match_unfolded : forall n script sc, script_match n script sc <->
  exists body, sc = body ++ [Determinism.PClose] /\ ~ In Determinism.PClose body /\ todo_of n script = pops body.
Proof. intros. reflexivity. Qed.

(* ---- 2.0 forward simulation Protocol.v -> Determinism.v part A: every reachable Protocol state is related to the
   state some Determinism schedule sigma reaches (any disabled Determinism event is a no-op, so every list is a
   schedule); Rel is spelled out below *)
Theorem protocol_refines_determinism : forall (pa : params) (script : list cmd) (sc : list Determinism.pact),
  old_rule pa = false -> (1 <= nthr pa)%nat -> script_match (nthr pa) script sc ->
  forall s : state, reachable pa script s ->
  exists sigma, ConcLink_rounds.Rel sc s (Determinism.run (cap pa) sigma (Determinism.init (nthr pa) sc)).
Proof.
  intros pa script sc H1 H2 H3 s R. exact (proj2 (ConcLink_rounds.sim_reachable pa script sc H1 H2 H3 s R)).
Qed.
Print Assumptions protocol_refines_determinism.

Example Rel_unfolded : forall sc s ds, ConcLink_rounds.Rel sc s ds <->
  (Permutation (Determinism.s_q ds) (map (task_at sc) (map iseq (items s))) /\
   (forall it, In it (items s) -> itask it = ptask (task_at sc (iseq it))) /\
   Determinism.s_closed ds = closed s /\
   (exists pre, sc = pre ++ Determinism.s_prod ds /\
      length (Determinism.tasks_of pre) = N.to_nat (nseq s) /\
      (if closed s then Determinism.s_prod ds = []
       else exists rest, Determinism.s_prod ds = rest ++ [Determinism.PClose] /\ ~ In Determinism.PClose rest /\
                         todo s = pops rest)) /\
   Forall2 (fun wk d => fst d = dstate_of (length (rounds s)) wk) (ws s) (Determinism.s_wk ds) /\
   Permutation (concat (map snd (Determinism.s_wk ds))) (map (task_at sc) (rawbuf s ++ inflight (ws s))) /\
   Forall2 (fun rd seqs => Permutation (concat rd) (map (task_at sc) seqs)) (Determinism.s_rounds ds) (rev (rounds s))).
Proof.
  intros sc s ds. split.
  - intros [A B C D E F G]. exact (conj A (conj B (conj C (conj D (conj E (conj F G)))))).
  - intros (A & B & C & D & E & F & G). constructor; assumption.
Qed.

(* ---- 2.1 the contigs Protocol.v records per barrier round are the ones Determinism.v's script intends for it, in
   every reachable state; a final state has recorded as many rounds as the script has token blocks *)
Theorem rounds_link : forall (pa : params) (script : list cmd) (sc : list Determinism.pact) (R : nat),
  old_rule pa = false -> (1 <= nthr pa)%nat ->
  script_match (nthr pa) script sc -> Determinism_proto.wf_script (nthr pa) R sc ->
  forall s : state, reachable pa script s ->
  Forall2 (fun seqs k => Permutation (map (task_at sc) seqs) (Determinism.expected_round sc k))
          (rev (rounds s)) (seq 0 (length (rounds s))) /\
  (final s -> length (rounds s) = nblocks script).
Proof. exact ConcLink_rounds.rounds_link_proof. Qed.
Print Assumptions rounds_link.

(* ---- 2.2 the multi-file scripts of the two models correspond: Protocol's compile_calls on (pushes of the first
   file; drain; sync_and_flush; pushes of the other files) vs Determinism's multifile_script (same priority bound as
   C04: no i32 wrap) *)
Theorem multifile_match : forall (n : nat) (pack : N) (first rest : list Determinism.input),
  (2 * Z.of_nat (length (first ++ rest)) + 4 < Consts_determinism.det_prio_start - 1000000)%Z ->
  script_match n (compile_calls false pack (mf_calls first rest))
               (Determinism.multifile_script Determinism.current_rule n first rest).
Proof. exact ConcLink_rounds.multifile_match_proof. Qed.
Print Assumptions multifile_match.

(* ---- 2.3 composition of C05 and C04 for multi-file mode: for any two thread counts, capacities (contigs larger
   than the capacity included), interleavings (s, s' are ANY reachable final Protocol states), claim interleavings
   cl cl' and finalize completion orders s3 s3': every maximal run is finite and ends in a final state, and the parts
   of the file, in file order, are the same.  proto_rounds hands the pipeline what Protocol's worker 0 drained at
   each barrier (one raw buffer per round; C04's schedule_independent covers every distribution over buffers).
   Hypotheses on the abstract pipeline functions as in C04.schedule_independent. *)
Theorem terminating_and_deterministic :
  forall (G Buf Res Part : Type) (segment : Determinism.contig -> list N)
         (classify : G -> list (Determinism.skey * N) -> G * list Buf)
         (flushf : Buf -> Buf * list (N * Part) * Res)
         (res_gid : Res -> N) (commit : G -> list Res -> list Buf -> G)
         (fin_seq : G -> G * list (N * Part)) (fin_packs meta_parts : G -> list (N * Part)),
  (forall g l i j oi oj sp sq, i <> j ->
      nth_error (map flushf (snd (classify g l))) i = Some oi ->
      nth_error (map flushf (snd (classify g l))) j = Some oj ->
      In sp (snd (fst oi)) -> In sq (snd (fst oj)) -> fst sp <> fst sq) ->
  (forall g, NoDup (map fst (fin_packs g))) ->
  forall (n n' : nat) (capa capa' pack pack' : N) (first rest : list Determinism.input),
  (0 < n)%nat -> (0 < n')%nat ->
  (2 * Z.of_nat (length (first ++ rest)) + 4 < Consts_determinism.det_prio_start - 1000000)%Z ->
  NoDup (map (fun inp : Determinism.input => fst (fst inp)) (first ++ rest)) ->
  let script := compile_calls false pack (mf_calls first rest) in
  let script' := compile_calls false pack' (mf_calls first rest) in
  let pa := mkParams n capa false in
  let pa' := mkParams n' capa' false in
  let sc := Determinism.multifile_script Determinism.current_rule n first rest in
  let sc' := Determinism.multifile_script Determinism.current_rule n' first rest in
  (forall s, reachable pa script s -> ends_final pa s) /\
  (forall s s' cl cl' s3 s3' g0,
     reachable pa script s -> final s -> reachable pa' script' s' -> final s' ->
     Determinism.output G Buf Res Part segment classify flushf res_gid commit fin_seq fin_packs meta_parts g0
       (Determinism.attach (proto_rounds sc s) cl) s3
     = Determinism.output G Buf Res Part segment classify flushf res_gid commit fin_seq fin_packs meta_parts g0
       (Determinism.attach (proto_rounds sc' s') cl') s3').
Proof.
  intros G Buf Res Part segment classify flushf res_gid commit fin_seq fin_packs meta_parts H1 H2.
  exact (ConcLink_rounds.terminating_and_deterministic_proof G Buf Res Part segment classify flushf res_gid commit
           fin_seq fin_packs meta_parts H1 H2).
Qed.
Print Assumptions terminating_and_deterministic.

(* single-file mode: section 2.4 at the end of this file *)

(* ---- non-vacuity of part 2: two files (2 + 2 contigs), 2 workers and capacity 5 (every contig of 9 is oversize)
   versus 3 workers and capacity 1000: both Protocol runs (the deterministic scheduler of Protocol_proofs) reach a
   final state; the recorded rounds are the two files; every hypothesis of 2.1 - 2.3 holds for this instance *)
Definition first2 : list Determinism.input := [((0, 0), 100, 9); ((0, 1), 101, 4)].
Definition rest2 : list Determinism.input := [((1, 0), 110, 9); ((2, 0), 120, 3)].
Definition script2 : list cmd := compile_calls false 1 (mf_calls first2 rest2).
Definition sc2 (n : nat) : list Determinism.pact := Determinism.multifile_script Determinism.current_rule n first2 rest2.

Example part2_nonvacuous :
  let pa := mkParams 2 5 false in let pa' := mkParams 3 1000 false in
  let s := auto_run pa 600 (init pa script2) in let s' := auto_run pa' 600 (init pa' script2) in
  (2 * Z.of_nat (length (first2 ++ rest2)) + 4 < Consts_determinism.det_prio_start - 1000000)%Z /\
  NoDup (map (fun inp : Determinism.input => fst (fst inp)) (first2 ++ rest2)) /\
  script_match 2 script2 (sc2 2) /\ Determinism_proto.wf_script 2 2 (sc2 2) /\
  script2 = [Contig 9 2147483647%Z 0; Contig 4 2147483647%Z 1; Drain; SyncAndFlush 2;
             Contig 9 2147483646%Z 3; Contig 3 2147483645%Z 4] /\
  reachable pa script2 s /\ final s /\ reachable pa' script2 s' /\ final s' /\
  rounds s = [[5; 4]; [1; 0]] /\ rounds s' = [[6; 5]; [1; 0]] /\
  map (map (fun sq => Determinism.t_key (task_at (sc2 2) sq))) (rev (rounds s)) = [[(0, 1); (0, 0)]; [(2, 0); (1, 0)]] /\
  map (map (fun sq => Determinism.t_key (task_at (sc2 3) sq))) (rev (rounds s')) = [[(0, 1); (0, 0)]; [(2, 0); (1, 0)]].
Proof.
  cbv zeta.
  assert (B : (2 * Z.of_nat (length (first2 ++ rest2)) + 4 < Consts_determinism.det_prio_start - 1000000)%Z)
    by (vm_compute; reflexivity).
  split; [exact B|]. split.
  { cbn. repeat constructor; cbn; intuition discriminate. }
  split; [exact (ConcLink_rounds.multifile_match_proof 2 1 first2 rest2 B)|].
  split; [apply Determinism_gen.multifile_wf; [repeat constructor | exact B]|].
  split; [vm_compute; reflexivity|].
  split; [apply auto_run_reachable, reach_init|]. split; [apply finalb_final; vm_compute; reflexivity|].
  split; [apply auto_run_reachable, reach_init|]. split; [apply finalb_final; vm_compute; reflexivity|].
  repeat split; vm_compute; reflexivity.
Qed.

(* ---- 2.4 single-file mode (one PanSN file; token blocks at pack boundaries inside push; drain() once when the
   second sample starts).  The scripts of the two models correspond under the CURRENT pack-boundary rule (tokens carry
   the pre-decrement priority, next_priority lowered below the decremented sample priority), and the number of token
   blocks of the Protocol script is the number of rounds C04 counts.  Purely syntactic: only the no-wrap bound is
   needed (Determinism.push_one computes in wrapping i32, Protocol.compile_go in Z). *)
Example sf_calls_unfolded : forall ref rest, sf_calls ref rest =
  map push_call ref ++ (match rest with [] => [] | _ :: _ => [CDrain] end) ++ map push_call rest.
Proof. reflexivity. Qed.

Theorem singlefile_match : forall (n : nat) (pack : N) (ref rest : list Determinism.input),
  (2 * Z.of_nat (length (ref ++ rest)) + 4 < Consts_determinism.det_prio_start - 1000000)%Z ->
  script_match n (compile_calls true pack (sf_calls ref rest))
               (Determinism.singlefile_script Determinism.current_rule n pack ref rest) /\
  nblocks (compile_calls true pack (sf_calls ref rest)) = Determinism_gen.sf_rounds n pack ref rest.
Proof. exact ConcLink_single.singlefile_match_proof. Qed.
Print Assumptions singlefile_match.

(* composition of C05 and C04 for single-file mode: hypotheses of C04.singlefile_deterministic (samples contiguous,
   (sample, contig) keys unique, priority bound); same pack size on both sides (it decides the rounds), any two thread
   counts, capacities, interleavings, claim interleavings and finalize orders *)
Theorem terminating_and_deterministic_singlefile :
  forall (G Buf Res Part : Type) (segment : Determinism.contig -> list N)
         (classify : G -> list (Determinism.skey * N) -> G * list Buf)
         (flushf : Buf -> Buf * list (N * Part) * Res)
         (res_gid : Res -> N) (commit : G -> list Res -> list Buf -> G)
         (fin_seq : G -> G * list (N * Part)) (fin_packs meta_parts : G -> list (N * Part)),
  (forall g l i j oi oj sp sq, i <> j ->
      nth_error (map flushf (snd (classify g l))) i = Some oi ->
      nth_error (map flushf (snd (classify g l))) j = Some oj ->
      In sp (snd (fst oi)) -> In sq (snd (fst oj)) -> fst sp <> fst sq) ->
  (forall g, NoDup (map fst (fin_packs g))) ->
  forall (n n' : nat) (capa capa' pack : N) (ref rest : list Determinism.input),
  (0 < n)%nat -> (0 < n')%nat ->
  Determinism_gen.contiguous [] (ref ++ rest) ->
  (2 * Z.of_nat (length (ref ++ rest)) + 4 < Consts_determinism.det_prio_start - 1000000)%Z ->
  NoDup (map (fun inp : Determinism.input => fst (fst inp)) (ref ++ rest)) ->
  let script := compile_calls true pack (sf_calls ref rest) in
  let pa := mkParams n capa false in
  let pa' := mkParams n' capa' false in
  let sc := Determinism.singlefile_script Determinism.current_rule n pack ref rest in
  let sc' := Determinism.singlefile_script Determinism.current_rule n' pack ref rest in
  (forall s, reachable pa script s -> ends_final pa s) /\
  (forall s', reachable pa' script s' -> ends_final pa' s') /\
  (forall s s' cl cl' s3 s3' g0,
     reachable pa script s -> final s -> reachable pa' script s' -> final s' ->
     Determinism.output G Buf Res Part segment classify flushf res_gid commit fin_seq fin_packs meta_parts g0
       (Determinism.attach (proto_rounds sc s) cl) s3
     = Determinism.output G Buf Res Part segment classify flushf res_gid commit fin_seq fin_packs meta_parts g0
       (Determinism.attach (proto_rounds sc' s') cl') s3').
Proof.
  intros G Buf Res Part segment classify flushf res_gid commit fin_seq fin_packs meta_parts H1 H2.
  exact (ConcLink_single.terminating_and_deterministic_singlefile_proof G Buf Res Part segment classify flushf res_gid
           commit fin_seq fin_packs meta_parts H1 H2).
Qed.
Print Assumptions terminating_and_deterministic_singlefile.

(* non-vacuity: C04's witness input (samples of 1, 5 and 2 contigs, pack size 2: the input on which the rule before
   /repo 445c73a gave two different archives), 1 worker / capacity 1000 versus 3 workers / capacity 1 (every contig
   oversize): both Protocol runs reach a final state with the same 5 rounds *)
Definition script3 : list cmd := compile_calls true 2 (sf_calls Determinism_proofs.wit_ref Determinism_proofs.wit_rest).
Definition sc3 (n : nat) : list Determinism.pact :=
  Determinism.singlefile_script Determinism.current_rule n 2 Determinism_proofs.wit_ref Determinism_proofs.wit_rest.

Example singlefile_nonvacuous :
  let pa := mkParams 1 1000 false in let pa' := mkParams 3 1 false in
  let s := auto_run pa 3000 (init pa script3) in let s' := auto_run pa' 3000 (init pa' script3) in
  Determinism_gen.contiguous [] (Determinism_proofs.wit_ref ++ Determinism_proofs.wit_rest) /\
  (2 * Z.of_nat (length (Determinism_proofs.wit_ref ++ Determinism_proofs.wit_rest)) + 4
     < Consts_determinism.det_prio_start - 1000000)%Z /\
  NoDup (map (fun inp : Determinism.input => fst (fst inp)) (Determinism_proofs.wit_ref ++ Determinism_proofs.wit_rest)) /\
  script3 = [Contig 7 2147483647%Z 0; Drain; TokenBlock 2147483646%Z 1; Contig 5 2147483645%Z 1;
             Contig 5 2147483645%Z 2; TokenBlock 2147483645%Z 3; Contig 5 2147483644%Z 3; Contig 5 2147483644%Z 4;
             TokenBlock 2147483644%Z 5; Contig 5 2147483643%Z 5; Contig 5 2147483642%Z 6;
             TokenBlock 2147483642%Z 7; Contig 5 2147483641%Z 7] /\
  nblocks script3 = 5%nat /\
  reachable pa script3 s /\ final s /\ reachable pa' script3 s' /\ final s' /\
  rounds s = [[11]; [9; 8]; [6; 5]; [3; 2]; [0]] /\ rounds s' = [[19]; [15; 14]; [10; 9]; [5; 4]; [0]] /\
  map (map (fun sq => Determinism.t_key (task_at (sc3 1) sq))) (rev (rounds s))
    = [[(0, 0)]; [(1, 1); (1, 0)]; [(1, 3); (1, 2)]; [(2, 0); (1, 4)]; [(2, 1)]] /\
  map (map (fun sq => Determinism.t_key (task_at (sc3 3) sq))) (rev (rounds s'))
    = [[(0, 0)]; [(1, 1); (1, 0)]; [(1, 3); (1, 2)]; [(2, 0); (1, 4)]; [(2, 1)]].
Proof.
  cbv zeta. split; [exact (proj1 Determinism_proofs.singlefile_old_rule_refuted_proof)|].
  split; [vm_compute; reflexivity|]. split.
  { cbn. repeat constructor; cbn; intuition discriminate. }
  split; [vm_compute; reflexivity|]. split; [vm_compute; reflexivity|].
  split; [apply auto_run_reachable, reach_init|]. split; [apply finalb_final; vm_compute; reflexivity|].
  split; [apply auto_run_reachable, reach_init|]. split; [apply finalb_final; vm_compute; reflexivity|].
  repeat split; vm_compute; reflexivity.
Qed.
