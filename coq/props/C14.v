From Ragc Require Import Mach Consts_archive Varint Container Varint_proofs Container_proofs.
(* C14 (archive level)  A partially written archive is rejected cleanly: any strict prefix of a valid archive
   file is refused by open with an error value - never a panic, a hang, an attempt to allocate a garbage-sized
   buffer, or a handle from which samples can be read.
   Model: Container.deserialize (= Archive::open in input mode) over an ARBITRARY byte string; outcome
   Ok / Err / Panic (Panic also stands for fuel exhaustion, i.e. a loop that would not terminate), first
   component = every `vec![0u8; n]` whose size comes from file content.  max_off = the file system's largest
   offset (seek(Start(o)) fails iff o > max_off); the results below hold for every max_off. *)

(* never a panic, never a hang: for ALL byte strings (not only prefixes), every file system.  Both harness
   profiles: the reader has no arithmetic left that differs between dev and release (checked_sub / checked_add
   in deserialize; the u8 `(no_bytes + 1) as usize` of read_varint that panicked in dev on the file
   ff 00*255 00 01 00 00 00 00 00 00 was fixed in /repo 24e9f9d, see varint_len_is_usize below). *)
Theorem open_total_safe : forall max_off bs, snd (deserialize max_off bs) <> Panic.
Proof. exact Container_proofs.open_total_safe_proof. Qed.
Print Assumptions open_total_safe.

(* never a garbage-sized buffer: whatever open allocates from file content is at most the file length *)
Theorem alloc_bounded : forall max_off bs, Forall (fun a => a <= lenN bs) (fst (deserialize max_off bs)).
Proof. exact Container_proofs.alloc_bounded_proof. Qed.
Print Assumptions alloc_bounded.

(* ... and so is every part buffer of every later get_part / get_part_by_id, in any order, on any handle that
   open returned; none of these reads panics either *)
Theorem reads_alloc_bounded : forall max_off bs rd, snd (deserialize max_off bs) = Ok rd ->
  forall rops, Forall (fun x => Forall (fun a => a <= lenN bs) (fst x) /\ snd x <> Panic) (rrun max_off rd rops).
Proof. exact Container_proofs.reads_alloc_bounded_proof. Qed.
Print Assumptions reads_alloc_bounded.
Example safe_nonvacuous :
  deserialize max_u64 [0; 1; 0; 0; 0; 0; 0; 0; 0] = ([1], Ok (mkR [0; 1; 0; 0; 0; 0; 0; 0; 0] [] [])) /\
  deserialize max_u64 [255; 255; 255; 255; 255; 255; 255; 255] = ([], Err) /\
  deserialize max_u64 [] = ([], Err).
Proof. vm_compute. repeat split; reflexivity. Qed.

(* exactly which files open accepts: at least 8 bytes, the last 8 bytes (LE) are at most what precedes them,
   the footer start is a legal offset, and the claimed footer region parses as a directory whose parts lie
   before it *)
Theorem open_ok_iff : forall max_off bs,
  (exists rd, snd (deserialize max_off bs) = Ok rd) <->
  (8 <= lenN bs /\
   let fsz := le_value (skipnN (lenN bs - 8) bs) in
   fsz <= lenN bs - 8 /\ lenN bs - 8 - fsz <= max_off /\
   exists sts, parse_footer (lenN bs - 8 - fsz) (firstnN fsz (skipnN (lenN bs - 8 - fsz) bs)) = Ok sts).
Proof. exact Container_proofs.open_ok_iff_proof. Qed.
Print Assumptions open_ok_iff.

(* "every strict prefix of every archive is refused" is NOT a theorem of the container: whether the last 8
   bytes of a prefix happen to be a plausible footer length followed by a parsable directory depends on the
   data bytes (zstd output) - see prefix_in_footer_accepted_refuted.  That half is enumerated exhaustively per
   archive by checks/c14.py.  What is proved, for every byte string and every cut: a prefix is refused
   whenever it is shorter than 8 bytes or its last 8 bytes, read as the footer length, exceed what precedes
   them (the check added by /repo 4c1fb2c). *)
Theorem prefix_rejected_partial : forall bs n max_off, n <= lenN bs ->
  n < 8 \/ n - 8 < le_value (skipnN (n - 8) (firstnN n bs)) ->
  deserialize max_off (firstnN n bs) = ([], Err).
Proof. exact Container_proofs.prefix_rejected_partial_proof. Qed.
Print Assumptions prefix_rejected_partial.
Example prefix_rejected_nonvacuous :
  let a := close (fst (wrun w_init [WRegister [112]; WAdd 0 [1; 2; 3] 7])) in
  lenN a = 23 /\ (forall n, In n [0; 1; 7; 8; 12; 17; 20; 22] ->
                  n <= lenN a /\ (n < 8 \/ n - 8 < le_value (skipnN (n - 8) (firstnN n a)))).
Proof.
  vm_compute. split; [reflexivity|]. intros n H.
  repeat (destruct H as [<- | H]; [vm_compute; split; [discriminate | first [left; reflexivity | right; reflexivity]]|]).
  destruct H.
Qed.

(* cut inside the trailing 8-byte length field of an archive written by the model writer (any history, any
   writer state w): k = number of bytes cut off, 1..7.  If the directory length F still fits into the 8-k bytes
   of the field that are left, the truncated field reads as at least 256^k * F, so the prefix is refused unless
   the whole file is longer than 256^k * F (data area more than about 256^k times the directory - then the
   outcome depends on the data bytes again). *)
Theorem prefix_rejected_trailer_partial : forall w k max_off, 1 <= k <= 7 ->
  lenN (footer_of w) < 256 ^ (8 - k) ->
  lenN (close w) <= 256 ^ k * lenN (footer_of w) ->
  deserialize max_off (firstnN (lenN (close w) - k) (close w)) = ([], Err).
Proof. exact Container_proofs.prefix_rejected_trailer_partial_proof. Qed.
Print Assumptions prefix_rejected_trailer_partial.
Example prefix_rejected_trailer_nonvacuous :
  let w := fst (wrun w_init [WRegister [112]; WAdd 0 [1; 2; 3] 7]) in
  forall k, In k [1; 2; 3; 4; 5; 6; 7] ->
  1 <= k <= 7 /\ lenN (footer_of w) < 256 ^ (8 - k) /\ lenN (close w) <= 256 ^ k * lenN (footer_of w).
Proof.
  cbv zeta. intros k H.
  repeat (destruct H as [<- | H]; [vm_compute; repeat split; discriminate || reflexivity|]).
  destruct H.
Qed.

(* the refusal of cuts inside the directory is not a theorem: a well-formed history (one stream, raw size
   0x0200010000000000, two empty parts) whose file has a strict prefix, cut strictly inside the directory, that
   Archive::open accepts as an archive with no streams (the bytes 00 | 01 00 00 00 00 00 00 00 occur in the
   directory).  Decompressor::open refuses it (no params stream) - run on the real code by checks/c14.py. *)
Theorem prefix_in_footer_accepted_refuted : exists ops n,
  Forall wop_wf ops /\
  let w := fst (wrun w_init ops) in
  lenN (w_bytes w) < n /\ n < lenN (w_bytes w) + lenN (footer_of w) /\
  exists rd, snd (deserialize max_u64 (firstnN n (close w))) = Ok rd /\ r_streams rd = [].
Proof.
  exists [WRegister [97]; WSetRaw 0 144116287587483648; WAdd 0 [] 0; WAdd 0 [] 0], 19.
  split.
  { repeat first [apply Forall_nil | apply Forall_cons | split | exact I
                | (vm_compute; reflexivity) | (vm_compute; discriminate)]. }
  cbv zeta. split; [vm_compute; reflexivity|]. split; [vm_compute; reflexivity|].
  eexists. split; vm_compute; reflexivity.
Qed.
Print Assumptions prefix_in_footer_accepted_refuted.

(* regression pin: read_varint computes the consumed length in usize (translator item vi_len_u8, re-read from
   /repo on every run); the u8 form panics in the dev profile on a length byte of 255 *)
Theorem varint_len_is_usize : vi_len_u8 = false.
Proof. reflexivity. Qed.
Print Assumptions varint_len_is_usize.
