(* C02 - Archives conform to the AGC v3 format.  This file pins the ADDRESSING rules (and, for C01, the group
   store half of the lossless round trip: store_then_get).  The whole-archive spec decoder (writer_conforms) is
   added at the marked place at the end of this file.

   Models: model/GroupStore.v (agc_compressor.rs: SegmentGroupBuffer, flush_pack_compress_only = [process] after
   the sort / [step] with it, finalize Phase 2 = [finalize_group]), model/SegReader.v (decompressor.rs: get_segment,
   unpack_contig, unpack_2bit, the is_packed heuristic).  An op (g, batch) is one call of the per-round step of
   group g; [run] is any sequence of ops (any number of groups, rounds, segments, packs).
   Codecs are parameters with exactly the hypotheses [codecs_ok] (discharged by C09 for LZ and C12 for the part
   compression).  [ref_dom] / [lz_dom] are the domains on which those theorems hold (C09: target non-empty,
   symbols 0..30, lengths below 2^31; C12: length below 2^31).
   Hypotheses on the stored segments ([ops_ok]): raw length below 2^32 (`data.len() as u32`); raw groups (< 16):
   no byte 0xFF in the data; LZ groups: the data is in the codec domains w.r.t. every segment of the same group
   (whichever becomes the reference).  Segments need not be non-empty for raw groups.
   No hypothesis is needed on the reference length: since 709bfda the is_packed heuristic needs metadata <> 0,
   i.e. a part stored compressed, which has at least 3 bytes ([compress_ref] output non-empty + marker < raw). *)
From Coq Require Import Permutation.
From Ragc Require Import Mach Consts_groupstore SegReader GroupStore.
From Ragc Require GroupStore_base GroupStore_inv GroupStore_proofs GroupStore_rules GroupStore_toy.
Open Scope N_scope.

(* ---- spec: the AGC v3 constants, written by hand (C++ AGC: contigs_in_pack = 50, no_raw_groups = 16,
   contig_separator = 0xff, empty_ctg = { 0x7f }, ZSTD-plain marker 0, in-group id 0 = the reference) *)
Section spec.
  Definition SPEC_PACK_CARDINALITY : N := 50.
  Definition SPEC_NO_RAW_GROUPS : N := 16.
  Definition SPEC_SEPARATOR : N := 255.      (* 0xFF *)
  Definition SPEC_PLACEHOLDER : N := 127.    (* 0x7f *)
  Definition SPEC_PACK_MARKER : N := 0.
  Definition SPEC_FIRST_DELTA_ID : N := 1.
  Definition SPEC_REF_PART : N := 0.
End spec.

Definition codecs_ok (lz_enc : list N -> list N -> list N) (lz_dec : list N -> list N -> outcome (list N))
    (compress_ref : list N -> list N * N) (compress_pack : list N -> list N)
    (dwm : list N -> N -> outcome (list N))
    (ref_dom : list N -> Prop) (lz_dom : list N -> list N -> Prop) : Prop :=
  (forall x, ref_dom x ->
     dwm (fst (compress_ref x)) (snd (compress_ref x)) = Ok x /\ fst (compress_ref x) <> []) /\
  (forall x, x <> [] -> dwm (compress_pack x) W_PACK_MARKER_STEP = Ok x) /\
  (forall r t, lz_dom r t ->
     (lz_enc r t = [] -> t = r) /\
     (lz_enc r t <> [] -> lz_dec r (lz_enc r t) = Ok t) /\
     ~ In CONTIG_SEPARATOR (lz_enc r t)).

Definition ops_ok (ref_dom : list N -> Prop) (lz_dom : list N -> list N -> Prop) (ops : list op) : Prop :=
  forall g s, In s (segs_of ops g) ->
    lenN (s_data s) < two32 /\
    (g < 16 -> ~ In CONTIG_SEPARATOR (s_data s)) /\
    (16 <= g -> ref_dom (s_data s) /\ forall s', In s' (segs_of ops g) -> lz_dom (s_data s') (s_data s)).

(* the same with the alphabet hypothesis in place of "no 0xFF": raw-group data are symbol codes 0..30 *)
Definition ops_alpha (ref_dom : list N -> Prop) (lz_dom : list N -> list N -> Prop) (ops : list op) : Prop :=
  forall g s, In s (segs_of ops g) ->
    lenN (s_data s) < two32 /\
    (g < 16 -> Forall (fun b => b <= 30) (s_data s)) /\
    (16 <= g -> ref_dom (s_data s) /\ forall s', In s' (segs_of ops g) -> lz_dom (s_data s') (s_data s)).

(* ---- constants: writer = reader = spec (reflexivity on the translator-generated Consts_groupstore.v) *)
Theorem consts_writer_eq_reader :
  W_PACK_CARDINALITY = R_PACK_CARDINALITY /\ W_NO_RAW_GROUPS = R_NO_RAW_GROUPS /\
  W_PLACEHOLDER_STEP <> CONTIG_SEPARATOR /\
  W_PLACEHOLDER_FLUSH_PACK = W_PLACEHOLDER_STEP /\ W_PLACEHOLDER_FINALIZE = W_PLACEHOLDER_STEP /\
  W_PACK_MARKER_FINALIZE = W_PACK_MARKER_STEP /\
  W_FIRST_RAW_PACK_MINUS_FLUSH_PACK = W_FIRST_RAW_PACK_MINUS /\
  W_FIRST_ID = R_DELTA_ID_OFFSET.
Proof. exact GroupStore_rules.consts_ok_proof. Qed.
Print Assumptions consts_writer_eq_reader.

Theorem consts_eq_spec :
  W_PACK_CARDINALITY = SPEC_PACK_CARDINALITY /\ R_PACK_CARDINALITY = SPEC_PACK_CARDINALITY /\
  W_NO_RAW_GROUPS = SPEC_NO_RAW_GROUPS /\ R_NO_RAW_GROUPS = SPEC_NO_RAW_GROUPS /\
  CONTIG_SEPARATOR = SPEC_SEPARATOR /\
  W_PLACEHOLDER_STEP = SPEC_PLACEHOLDER /\ W_PLACEHOLDER_FLUSH_PACK = SPEC_PLACEHOLDER /\
  W_PLACEHOLDER_FINALIZE = SPEC_PLACEHOLDER /\
  W_PACK_MARKER_STEP = SPEC_PACK_MARKER /\ W_PACK_MARKER_FINALIZE = SPEC_PACK_MARKER /\
  W_PACK_CARDINALITY - W_FIRST_RAW_PACK_MINUS = SPEC_PACK_CARDINALITY - 1 /\
  W_FIRST_ID = SPEC_FIRST_DELTA_ID /\ R_DELTA_ID_OFFSET = SPEC_FIRST_DELTA_ID /\ R_REF_PART = SPEC_REF_PART.
Proof. exact (conj eq_refl (conj eq_refl (conj eq_refl (conj eq_refl (conj eq_refl (conj eq_refl (conj eq_refl
       (conj eq_refl (conj eq_refl (conj eq_refl (conj eq_refl (conj eq_refl (conj eq_refl eq_refl))))))))))))). Qed.
Print Assumptions consts_eq_spec.

(* ---- C01 / C02: whatever was stored is what the reader returns (any ops, then the finalize flush) *)
Theorem store_then_get :
  forall lz_enc lz_dec compress_ref compress_pack dwm ref_dom lz_dom,
  codecs_ok lz_enc lz_dec compress_ref compress_pack dwm ref_dom lz_dom ->
  forall ops st g s id,
  ops_ok ref_dom lz_dom ops ->
  run lz_enc compress_ref compress_pack ops = Ok st ->
  In (s, id) (regs_of st g) ->
  get_segment dwm lz_dec (view_of (finalize compress_pack st)) (desc_of g s id) = Ok (s_data s) /\
  d_len (desc_of g s id) = lenN (s_data s).
Proof. exact GroupStore_proofs.store_then_get_proof. Qed.
Print Assumptions store_then_get.

(* every segment pushed to a group gets exactly one registration *)
Theorem every_segment_registered :
  forall lz_enc compress_ref compress_pack ops st g,
  run lz_enc compress_ref compress_pack ops = Ok st ->
  Permutation (map fst (regs_of st g)) (segs_of ops g).
Proof. exact GroupStore_rules.every_segment_registered_proof. Qed.
Print Assumptions every_segment_registered.

(* the only traps of the step (u32 id counter, pending_delta_ids index) need 2^32 - 2 segments in one group *)
Theorem run_no_trap :
  forall lz_enc compress_ref compress_pack ops,
  (forall g, lenN (segs_of ops g) + 2 < two32) ->
  exists st, run lz_enc compress_ref compress_pack ops = Ok st.
Proof. exact GroupStore_rules.run_no_trap_proof. Qed.
Print Assumptions run_no_trap.

(* round boundaries do not matter: l1 ++ l2 in one round = l1 in one round, l2 in the next *)
Theorem rounds_irrelevant :
  forall lz_enc compress_ref compress_pack g buf l1 l2,
  process lz_enc compress_ref compress_pack g buf (l1 ++ l2) =
  obnd (process lz_enc compress_ref compress_pack g buf l1) (fun o1 =>
  obnd (process lz_enc compress_ref compress_pack g (o_buf o1) l2) (fun o2 =>
    Ok {| o_buf := o_buf o2; o_ref_parts := o_ref_parts o1 ++ o_ref_parts o2;
          o_delta_parts := o_delta_parts o1 ++ o_delta_parts o2; o_regs := o_regs o1 ++ o_regs o2 |})).
Proof. exact GroupStore_rules.rounds_irrelevant_proof. Qed.
Print Assumptions rounds_irrelevant.

(* finalize "Phase 1" / flush_batch on the live path (empty `segments`): the step is a no-op *)
Theorem step_on_nothing_is_noop :
  forall lz_enc compress_ref compress_pack g buf,
  process lz_enc compress_ref compress_pack g buf [] =
  Ok {| o_buf := buf; o_ref_parts := []; o_delta_parts := []; o_regs := [] |}.
Proof. exact GroupStore_inv.process_nil_noop. Qed.
Print Assumptions step_on_nothing_is_noop.

(* ---- C02 addressing rules (16 = SPEC_NO_RAW_GROUPS, 50 = SPEC_PACK_CARDINALITY, see consts_eq_spec) *)
Theorem one_ref_part :
  forall lz_enc compress_ref compress_pack ops st g,
  run lz_enc compress_ref compress_pack ops = Ok st ->
  (16 <= g -> segs_of ops g <> [] -> exists p, gv_ref (view_of (finalize compress_pack st) g) = Some [p]) /\
  (g < 16 \/ segs_of ops g = [] ->
     gv_ref (view_of (finalize compress_pack st) g) = None \/ gv_ref (view_of (finalize compress_pack st) g) = Some []).
Proof. exact GroupStore_rules.one_ref_part_proof. Qed.
Print Assumptions one_ref_part.

Theorem delta_addressing :
  forall lz_enc lz_dec compress_ref compress_pack dwm ref_dom lz_dom,
  codecs_ok lz_enc lz_dec compress_ref compress_pack dwm ref_dom lz_dom ->
  forall ops st g s id,
  ops_ok ref_dom lz_dom ops -> run lz_enc compress_ref compress_pack ops = Ok st ->
  16 <= g -> In (s, id) (regs_of st g) ->
  exists r dparts,
    load_reference dwm (view_of (finalize compress_pack st) g) = Ok r /\
    gv_delta (view_of (finalize compress_pack st) g) = Some dparts /\
    ((id = 0 /\ s_data s = r) \/
     (1 <= id /\ lz_enc r (s_data s) <> [] /\
      exists p pack, nth_error dparts (N.to_nat ((id - 1) / 50)) = Some p /\
                     load_part dwm p = Ok pack /\
                     unpack_contig pack ((id - 1) mod 50) = Ok (lz_enc r (s_data s)))).
Proof. exact GroupStore_rules.delta_addressing_proof. Qed.
Print Assumptions delta_addressing.

Theorem raw_addressing :
  forall lz_enc lz_dec compress_ref compress_pack dwm ref_dom lz_dom,
  codecs_ok lz_enc lz_dec compress_ref compress_pack dwm ref_dom lz_dom ->
  forall ops st g s id,
  ops_ok ref_dom lz_dom ops -> run lz_enc compress_ref compress_pack ops = Ok st ->
  g < 16 -> In (s, id) (regs_of st g) ->
  exists dparts,
    gv_delta (view_of (finalize compress_pack st) g) = Some dparts /\ 1 <= id /\
    (exists p pack, nth_error dparts (N.to_nat (id / 50)) = Some p /\ load_part dwm p = Ok pack /\
                    unpack_contig pack (id mod 50) = Ok (s_data s)) /\
    (exists p pack, nth_error dparts 0 = Some p /\ load_part dwm p = Ok pack /\
                    unpack_contig pack 0 = Ok [W_PLACEHOLDER_STEP]).
Proof. exact GroupStore_rules.raw_addressing_proof. Qed.
Print Assumptions raw_addressing.

(* every pack is a sequence of separator-terminated entries: 50 per pack, the last pack 1..50 *)
Theorem pack_layout :
  forall lz_enc lz_dec compress_ref compress_pack dwm ref_dom lz_dom,
  codecs_ok lz_enc lz_dec compress_ref compress_pack dwm ref_dom lz_dom ->
  forall ops st g dparts,
  ops_ok ref_dom lz_dom ops -> run lz_enc compress_ref compress_pack ops = Ok st ->
  gv_delta (view_of (finalize compress_pack st) g) = Some dparts ->
  exists chunks : list (list (list N)),
    length chunks = length dparts /\
    (forall i p c, nth_error dparts i = Some p -> nth_error chunks i = Some c ->
       load_part dwm p = Ok (flat_map (fun e => e ++ [CONTIG_SEPARATOR]) c) /\
       (1 <= length c <= 50)%nat /\ ((S i < length chunks)%nat -> length c = 50%nat) /\
       forall e, In e c -> ~ In CONTIG_SEPARATOR e).
Proof. exact GroupStore_rules.pack_layout_proof. Qed.
Print Assumptions pack_layout.

Theorem no_separator_in_entry :
  forall lz_enc lz_dec compress_ref compress_pack dwm ref_dom lz_dom ops st g dparts,
  codecs_ok lz_enc lz_dec compress_ref compress_pack dwm ref_dom lz_dom ->
  ops_alpha ref_dom lz_dom ops ->
  run lz_enc compress_ref compress_pack ops = Ok st ->
  gv_delta (view_of (finalize compress_pack st) g) = Some dparts ->
  exists chunks : list (list (list N)),
    length chunks = length dparts /\
    forall i p c, nth_error dparts i = Some p -> nth_error chunks i = Some c ->
      load_part dwm p = Ok (flat_map (fun e => e ++ [CONTIG_SEPARATOR]) c) /\
      forall e, In e c -> ~ In CONTIG_SEPARATOR e.
Proof. exact GroupStore_rules.no_separator_in_entry_proof. Qed.
Print Assumptions no_separator_in_entry.

Theorem desc_len_is_decoded_len :
  forall lz_enc lz_dec compress_ref compress_pack dwm ref_dom lz_dom ops st g s id b,
  codecs_ok lz_enc lz_dec compress_ref compress_pack dwm ref_dom lz_dom ->
  ops_ok ref_dom lz_dom ops ->
  run lz_enc compress_ref compress_pack ops = Ok st ->
  In (s, id) (regs_of st g) ->
  get_segment dwm lz_dec (view_of (finalize compress_pack st)) (desc_of g s id) = Ok b ->
  d_len (desc_of g s id) = lenN b.
Proof. exact GroupStore_rules.desc_len_is_decoded_len_proof. Qed.
Print Assumptions desc_len_is_decoded_len.

Theorem metadata_convention :
  forall lz_enc lz_dec compress_ref compress_pack dwm ref_dom lz_dom,
  codecs_ok lz_enc lz_dec compress_ref compress_pack dwm ref_dom lz_dom ->
  forall ops st g parts p,
  ops_ok ref_dom lz_dom ops -> run lz_enc compress_ref compress_pack ops = Ok st ->
  (gv_ref (view_of (finalize compress_pack st) g) = Some parts \/
   gv_delta (view_of (finalize compress_pack st) g) = Some parts) ->
  In p parts ->
  exists raw, load_part dwm p = Ok raw /\ (fst p = 0 <-> snd p = raw) /\ (fst p <> 0 -> fst p = lenN raw).
Proof. exact GroupStore_rules.metadata_convention_proof. Qed.
Print Assumptions metadata_convention.

(* ---- non-vacuity: the codec hypotheses are satisfiable, and with that instance an op sequence with a
   reference stored compressed, an id-0 reuse, a de-duplicated delta, an LZ group of 119 entries (packs 50/50/19)
   and a raw group of 120 entries (packs 49+placeholder/50/21) meets every hypothesis and reads back *)
Import GroupStore_toy.
Example codecs_ok_nonvacuous : codecs_ok toy_lz_enc toy_lz_dec toy_cref toy_c toy_dwm toy_ref_dom toy_lz_dom.
Proof. exact toy_codecs_ok. Qed.
Example ops_ok_nonvacuous : ops_alpha toy_ref_dom toy_lz_dom ex_ops /\ ops_ok toy_ref_dom toy_lz_dom ex_ops.
Proof.
  assert (H : ops_alpha toy_ref_dom toy_lz_dom ex_ops) by (apply toy_ops_alpha; vm_compute; reflexivity).
  split; [exact H|]. exact (GroupStore_rules.ops_alpha_ok _ _ _ H).
Qed.
Example store_then_get_nonvacuous :
  exists st, toy_run ex_ops = Ok st /\
    all_read_back st 16 = true /\ all_read_back st 3 = true /\
    map snd (firstn 4 (regs_of st 16)) = [0; 1; 0; 1] /\                    (* reference, delta, id-0 reuse, dedup *)
    map fst (g_ref (get_group (finalize toy_c st) 16)) = [12] /\            (* one ref part, stored compressed *)
    map fst (g_delta (get_group (finalize toy_c st) 16)) = [0; 0; 0] /\     (* three packs, stored raw *)
    length (regs_of st 16) = 122%nat /\ length (regs_of st 3) = 120%nat /\
    toy_get st 16 (mkseg 60 1 (ex_delta 50) false, 51) = Ok (ex_delta 50) /\   (* first entry of LZ pack 1 *)
    toy_get st 3 (mkseg 49 7 (ex_delta 49) false, 50) = Ok (ex_delta 49) /\    (* first entry of raw pack 1 *)
    toy_get st 3 (mkseg 0 7 [127] false, 0) = Ok [127].                        (* the placeholder at (0,0) *)
Proof. eexists. split; [vm_compute; reflexivity|]. vm_compute. repeat split; reflexivity. Qed.
Example no_trap_nonvacuous : forall g, lenN (segs_of ex_ops g) + 2 < two32.
Proof.
  intro g. unfold segs_of, ex_ops. cbn [flat_map fst snd]. rewrite !GroupStore_base.lenN_app.
  destruct (16 =? g); destruct (3 =? g); vm_compute; reflexivity.
Qed.
Example rounds_nonvacuous :     (* one round vs two rounds on the LZ group of ex_ops: same parts, ids, buffer *)
  exists o o1 o2,
    process toy_lz_enc toy_cref toy_c 16 gbuf_new (map (fun i => mkseg (N.of_nat i) 1 (ex_delta i) false) (seq 0 70)) = Ok o /\
    process toy_lz_enc toy_cref toy_c 16 gbuf_new (map (fun i => mkseg (N.of_nat i) 1 (ex_delta i) false) (seq 0 30)) = Ok o1 /\
    process toy_lz_enc toy_cref toy_c 16 (o_buf o1) (map (fun i => mkseg (N.of_nat i) 1 (ex_delta i) false) (seq 30 40)) = Ok o2 /\
    o_buf o = o_buf o2 /\ o_delta_parts o = o_delta_parts o1 ++ o_delta_parts o2 /\ length (o_delta_parts o) = 1%nat /\
    o_regs o = o_regs o1 ++ o_regs o2.
Proof. do 3 eexists. split; [vm_compute; reflexivity|]. split; [vm_compute; reflexivity|]. split; [vm_compute; reflexivity|].
  vm_compute. repeat split; reflexivity. Qed.

(* ======================= whole-archive spec decoder (AgcV3.decode, writer_conforms, stream_names) =======================
   To be added below this line by the worker that builds spec/AgcV3.v; the statements above are not to be changed. *)
