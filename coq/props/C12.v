(* C12 - Segment and pack compression is lossless for every byte string: compressing a byte sequence as a reference
   segment (tuple-packed or plain zstd, chosen by a repetitiveness test) or as a delta pack and decompressing it with
   the stored marker returns the same bytes; tuple packing alone is invertible for every symbol range
   (<4, <6, <16, >=16) and every length, including 0 and all remainders modulo the tuple width.
   zstd is the pair (zc, zd) with the two hypotheses written out in every statement that uses it. *)
From Ragc Require Import Mach Consts_tuple Tuple SegCompress Tuple_proofs SegCompress_proofs.
Open Scope N_scope.

(* ---- tuple packing (no hypothesis on l at all: symbols >= 256 fall in the unpacked range) *)
Theorem tuples_roundtrip : forall l : list N,
  bytes_to_tuples_opt l = Some (bytes_to_tuples l)          (* the packing loop's fuel is always sufficient *)
  /\ tuples_to_bytes (bytes_to_tuples l) = Ok l.             (* no panic, and the input comes back *)
Proof. exact (fun l => conj (Tuple_proofs.bytes_to_tuples_opt_total l) (Tuple_proofs.tuples_roundtrip_proof l)). Qed.
Print Assumptions tuples_roundtrip.

Theorem tuples_injective : forall l1 l2 : list N, bytes_to_tuples l1 = bytes_to_tuples l2 -> l1 = l2.
Proof. exact Tuple_proofs.tuples_injective_proof. Qed.
Print Assumptions tuples_injective.

Theorem tuples_are_bytes : forall l : list N, bytes l -> bytes (bytes_to_tuples l) /\ bytes_to_tuples l <> [].
Proof. exact (fun l H => conj (Tuple_proofs.tuples_are_bytes_proof l H) (Tuple_proofs.bytes_to_tuples_nonempty l)). Qed.
Print Assumptions tuples_are_bytes.

(* each range, lengths with every remainder, the empty input (non-vacuity of the case split) *)
Example range4_rem0 : bytes_to_tuples [0;1;2;3;3;3;3;3] = [27;255;0;64] /\ tuples_to_bytes [27;255;0;64] = Ok [0;1;2;3;3;3;3;3].
Proof. vm_compute. split; reflexivity. Qed.
Example range4_rem1_2_3 :
  bytes_to_tuples [3] = [3;65] /\ bytes_to_tuples [0;1;2;3;0;1] = [27;1;66] /\ bytes_to_tuples [3;3;3;3;1;2;3] = [255;27;67]
  /\ tuples_to_bytes [3;65] = Ok [3] /\ tuples_to_bytes [27;1;66] = Ok [0;1;2;3;0;1] /\ tuples_to_bytes [255;27;67] = Ok [3;3;3;3;1;2;3].
Proof. vm_compute. repeat split; reflexivity. Qed.
Example range6 :
  bytes_to_tuples [5;5;5] = [215;0;48] /\ bytes_to_tuples [0;4] = [4;50] /\ bytes_to_tuples [4;0;1;5] = [145;5;49]
  /\ tuples_to_bytes [215;0;48] = Ok [5;5;5] /\ tuples_to_bytes [4;50] = Ok [0;4] /\ tuples_to_bytes [145;5;49] = Ok [4;0;1;5].
Proof. vm_compute. repeat split; reflexivity. Qed.
Example range16 :
  bytes_to_tuples [15;15] = [255;0;32] /\ bytes_to_tuples [6;0;15] = [96;15;33]
  /\ tuples_to_bytes [255;0;32] = Ok [15;15] /\ tuples_to_bytes [96;15;33] = Ok [6;0;15].
Proof. vm_compute. repeat split; reflexivity. Qed.
Example range_plain_and_empty :
  bytes_to_tuples [16;0;255] = [16;0;255;16] /\ bytes_to_tuples [] = [16]
  /\ tuples_to_bytes [16;0;255;16] = Ok [16;0;255] /\ tuples_to_bytes [16] = Ok [].
Proof. vm_compute. repeat split; reflexivity. Qed.
(* malformed streams do reach the panics of the Rust code (the round trip theorem says they are never produced) *)
Example malformed_panics : tuples_to_bytes [32] = Panic /\ tuples_to_bytes [0;0;80] = Panic /\ tuples_to_bytes [0;47] = Panic.
Proof. vm_compute. repeat split; reflexivity. Qed.

(* ---- the repetitiveness decision: exactly "some offset in lo..hi has cur_size > 0 and cnt/cur_size >= 1/2" *)
Theorem rep_decision_exact : forall (data : list N) (rep : N * N),
  check_repetitiveness data = Some rep ->
  frac_lt_thr rep = negb (existsb (offset_reaches data) rep_offsets).
Proof. exact SegCompress_proofs.rep_decision_exact_proof. Qed.
Print Assumptions rep_decision_exact.

Theorem rep_total : forall data : list N, lenN data < 2147483648 -> exists rep, check_repetitiveness data = Some rep.
Proof. exact SegCompress_proofs.rep_total_proof. Qed.
Print Assumptions rep_total.

Example rep_both_sides :
  (exists r, check_repetitiveness [0;0;0;0;0;1] = Some r /\ frac_lt_thr r = false)       (* 1/2: not below *)
  /\ (exists r, check_repetitiveness [0;0;0;0;1;1] = Some r /\ frac_lt_thr r = true)     (* 0/2 *)
  /\ (exists r, check_repetitiveness [0;1;2;3;0;2;3] = Some r /\ frac_lt_thr r = true)   (* 1/3 *)
  /\ (exists r, check_repetitiveness [4;4;4;4;4;4;4;4] = Some r /\ frac_lt_thr r = true)   (* cur_size = 0 *)
  /\ (exists r, check_repetitiveness toy_low = Some r /\ frac_lt_thr r = true).
Proof. repeat split; eexists; split; vm_compute; reflexivity. Qed.

(* ---- function level: segment_compression.rs *)
Theorem ref_segment_roundtrip :
  forall (zc : N -> list N -> list N) (zd : list N -> option (list N)),
  (forall level x, zd (zc level x) = Some x) ->
  (forall level x, x <> [] -> zc level x <> []) ->
  forall (x c : list N) (m : N),
    compress_reference_segment zc x = Ok (c, m) -> decompress_segment_with_marker zd c m = Ok x.
Proof. exact SegCompress_proofs.ref_segment_roundtrip_proof. Qed.
Print Assumptions ref_segment_roundtrip.

Theorem delta_segment_roundtrip :
  forall (zc : N -> list N -> list N) (zd : list N -> option (list N)),
  (forall level x, zd (zc level x) = Some x) ->
  (forall level x, x <> [] -> zc level x <> []) ->
  forall (level : N) (x : list N),
    decompress_segment_with_marker zd (compress_segment_configured zc x level) w_pack_marker = Ok x /\
    decompress_segment_with_marker zd (compress_segment zc x) w_pack_marker = Ok x /\
    decompress_segment zd (compress_segment_configured zc x level) = Ok x.
Proof. exact SegCompress_proofs.delta_segment_roundtrip_proof. Qed.
Print Assumptions delta_segment_roundtrip.

(* ---- part level: marker appended, compressed form kept iff shorter, raw form stored with metadata 0 *)
Theorem ref_part_roundtrip :
  forall (zc : N -> list N -> list N) (zd : list N -> option (list N)),
  (forall level x, zd (zc level x) = Some x) ->
  (forall level x, x <> [] -> zc level x <> []) ->
  forall (x : list N) (part : list N * N), store_ref_part zc x = Ok part -> load_part zd part = Ok x.
Proof. exact SegCompress_proofs.ref_part_roundtrip_proof. Qed.
Print Assumptions ref_part_roundtrip.

Theorem ref_part_total :
  forall (zc : N -> list N -> list N) (x : list N), lenN x < 2147483648 ->
  exists c m, compress_reference_segment zc x = Ok (c, m) /\ store_ref_part zc x = Ok (choose_part (c ++ [m]) x).
Proof. exact SegCompress_proofs.ref_part_total_proof. Qed.
Print Assumptions ref_part_total.

Theorem pack_part_roundtrip :
  forall (zc : N -> list N -> list N) (zd : list N -> option (list N)),
  (forall level x, zd (zc level x) = Some x) ->
  (forall level x, x <> [] -> zc level x <> []) ->
  forall (level : N) (x : list N), load_part zd (store_pack_part zc level x) = Ok x.
Proof. exact SegCompress_proofs.pack_part_roundtrip_proof. Qed.
Print Assumptions pack_part_roundtrip.

(* non-vacuity: the hypotheses on (zc, zd) are satisfiable, and with that instance every outcome of the
   repetitiveness test and of the size comparison occurs *)
Example zstd_hypotheses_satisfiable :
  (forall level x, toy_zd (toy_zc level x) = Some x) /\ (forall level x, x <> [] -> toy_zc level x <> []).
Proof. exact SegCompress_proofs.toy_ok. Qed.
Example ref_plain_kept_compressed :      (* repetitive, marker 0, compressed form shorter *)
  store_ref_part toy_zc (repeat 0 12) = Ok ([7; 0], 12) /\ load_part toy_zd ([7; 0], 12) = Ok (repeat 0 12).
Proof. vm_compute. split; reflexivity. Qed.
Example ref_tuples_kept_compressed :     (* not repetitive, marker 1, compressed form shorter *)
  store_ref_part toy_zc toy_low = Ok ([8; 1], 20) /\ load_part toy_zd ([8; 1], 20) = Ok toy_low.
Proof. vm_compute. split; reflexivity. Qed.
Example ref_plain_stored_raw :           (* repetitive, compression did not help: raw bytes, metadata 0 *)
  store_ref_part toy_zc (repeat 1 12) = Ok (repeat 1 12, 0) /\ load_part toy_zd (repeat 1 12, 0) = Ok (repeat 1 12).
Proof. vm_compute. split; reflexivity. Qed.
Example ref_tuples_stored_raw :          (* not repetitive, compression did not help; and the empty segment *)
  store_ref_part toy_zc [0;1;2;3;4] = Ok ([0;1;2;3;4], 0) /\ store_ref_part toy_zc [] = Ok ([], 0)
  /\ compress_reference_segment toy_zc [0;1;2;3;4] = Ok ([0;1;8;22;50], 1)
  /\ decompress_segment_with_marker toy_zd [0;1;8;22;50] 1 = Ok [0;1;2;3;4].
Proof. vm_compute. repeat split; reflexivity. Qed.
Example pack_both_outcomes :
  store_pack_part toy_zc 17 (repeat 0 12) = ([7; 0], 12) /\ store_pack_part toy_zc 17 [5; 127] = ([5; 127], 0)
  /\ store_pack_part toy_zc 17 [] = ([], 0).
Proof. vm_compute. repeat split; reflexivity. Qed.
