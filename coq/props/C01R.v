From Coq Require Import Permutation.
From Ragc Require Import Mach Consts_segment Consts_registry GroupStore Registry Registry_proofs.
From Ragc Require Segment Pipeline.
Open Scope N_scope.
(* C01R (sub-check of C01, lossless round trip): the GROUP REGISTRY of the streaming compressor - which group id a stored
   segment goes to - is inside the model (model/Registry.v: classify_raw_segments_at_barrier, BufferedSegPart::process_new,
   prepare_batch_parallel, cleanup_batch_parallel, the initial state).  Every theorem below holds for EVERY sequence of
   sync rounds, every set of contigs per round, every answer of the heuristics (the [oracle] record of each raw segment),
   every configuration, every iteration order [ord] of s_seg_part that is a permutation, as long as the u32 counters have
   not wrapped ([nowrap]: fewer than 2^32 - 16 entries in map_segments).
   C02's store_then_get assumes one SegmentGroupBuffer per group id: buffer_per_group.  C01's composition quantifies over an
   arbitrary group assignment [grp] and any schedule carrying the pieces: ops_carry_placements, group_of_is_a_function.
   Two sites a previous reader flagged: the (MISSING, MISSING) fallback in prepare_batch_parallel is unreachable
   (missing_fallback_unreachable); the raw buffer keys (g, MISSING) that cleanup_batch_parallel copies into map_segments
   ARE live (raw_key_copied, raw_key_hit_witness) and, because a buffer is keyed by SegmentGroupKey and not by group id, a
   real key (g, MISSING) with g < 16 (the poly-A k-mer has value 0) shares its buffer with raw group g:
   orphans_only_raw_refuted, raw_only_orphans_refuted.  The misrouted segments are registered under the buffer's own group
   id, so nothing is lost (stored_label: the label IS a buffer's id); what fails is "orphans only in groups 0..15" and
   "a group's segments are stored under its id". *)

(* ---- the notions used in the statements, written out *)
Example run_ok_def : forall cf ord rounds r outs lgs,
  run_ok cf ord rounds r outs lgs =
  ((forall l, Permutation l (ord l)) /\ run_rounds cf ord reg_init rounds = (r, outs, lgs) /\
   lenN (r_map r) + NRAW < two32).
Proof. reflexivity. Qed.
Example reach_def : forall cf ord r,
  reach cf ord r = exists rounds outs lgs, run_rounds cf ord reg_init rounds = (r, outs, lgs).
Proof. reflexivity. Qed.
Example constants_def : NRAW = 16 /\ MISS = 18446744073709551615 /\ orphan_key = (MISS, MISS) /\
  reg_init = {| r_map := [(orphan_key, 0)]; r_gc := 16; r_rgc := 0; r_vlen := 16; r_bufs := []; r_streams := [] |}.
Proof. repeat split; reflexivity. Qed.
Example lz_gids_def : forall m, lz_gids m = map snd (filter (fun x => NRAW <=? snd x) m).
Proof. reflexivity. Qed.
Example seqN_def : forall a n, seqN a (S n) = a :: seqN (a + 1) n /\ seqN a 0 = [].
Proof. intros. split; reflexivity. Qed.
Example orph_count_def : forall l : list (placed * key * N),
  orph_count l = length (filter (fun e => key_eqb (snd (fst e)) orphan_key) l).
Proof. reflexivity. Qed.
Example label_rel_def : forall m g lbl,
  label_rel m g lbl =
  (lbl = g \/ (g < NRAW /\ NRAW <= lbl /\ kget m (g, MISS) = Some lbl) \/ (NRAW <= g /\ lbl < NRAW /\ kget m (lbl, MISS) = Some g)).
Proof. reflexivity. Qed.
Example grp_of_def : forall stored p,
  grp_of stored p = match find (fun x => placed_eqb (snd x) p) stored with Some x => fst x | None => 0 end.
Proof. reflexivity. Qed.

(* ---- 0. the source lines the model transcribes are as they were when it was written (translator/items_registry.py) *)
Theorem registry_source_pinned : registry_init_pinned && registry_classify_pinned && registry_prepare_pinned = true.
Proof. reflexivity. Qed.
Print Assumptions registry_source_pinned.

(* ---- 1. registry_injective: two different keys never share a group id >= 16 *)
Theorem registry_injective : forall cf ord rounds r outs lgs, run_ok cf ord rounds r outs lgs ->
  forall k1 k2 g, NRAW <= g -> In (k1, g) (r_map r) -> In (k2, g) (r_map r) -> k1 = k2.
Proof. exact Registry_proofs.registry_injective_proof. Qed.
Print Assumptions registry_injective.

(* ids >= 16 are allocated densely from 16 in registration order; group_counter = 16 + their number; every key has one
   entry; every id in 16..group_counter-1 has a key; no id at or above group_counter is in use *)
Theorem registry_dense : forall cf ord rounds r outs lgs, run_ok cf ord rounds r outs lgs ->
  lz_gids (r_map r) = seqN NRAW (length (lz_gids (r_map r))) /\
  r_gc r = NRAW + lenN (lz_gids (r_map r)) /\
  NoDup (map fst (r_map r)) /\
  (forall g, NRAW <= g < r_gc r -> exists k, kget (r_map r) k = Some g) /\
  (forall k g, kget (r_map r) k = Some g -> g < r_gc r).
Proof. exact Registry_proofs.registry_dense_proof. Qed.
Print Assumptions registry_dense.

(* a key keeps its group id for ever (from ANY registry, no hypothesis) *)
Theorem map_monotone : forall cf ord rounds r k g,
  kget (r_map r) k = Some g -> kget (r_map (fst (fst (run_rounds cf ord r rounds)))) k = Some g.
Proof. exact Registry_proofs.map_monotone_proof. Qed.
Print Assumptions map_monotone.

(* ---- 2. add_known's "group id beyond the vector: segment dropped" branch is never taken: per round, the segments the
   buffers receive are exactly the classified ones *)
Theorem add_known_never_drops : forall cf ord rounds r outs lgs, run_ok cf ord rounds r outs lgs ->
  Forall2 (fun out lg => Permutation (map snd out) (map (fun e => fst (fst e)) lg)) outs lgs.
Proof. exact Registry_proofs.add_known_never_drops_proof. Qed.
Print Assumptions add_known_never_drops.

(* process_new after the classification loop finds every key in map_segments: it assigns no id, inserts no key, resizes
   nothing - it only moves the new segments to their groups *)
Theorem process_new_allocates_nothing : forall cf ord r contigs, (forall l, Permutation l (ord l)) -> reach cf ord r ->
  let st := fold_left (classify_contig cf) (sort_contigs contigs) (cstate_of r) in
  lenN (r_map (cs_reg st)) + NRAW < two32 ->
  exists vl', process_new (r_map (cs_reg st)) (r_gc (cs_reg st)) (r_vlen (cs_reg st)) (cs_vl st) (ord (rev (cs_news st)))
              = (r_map (cs_reg st), r_gc (cs_reg st), r_vlen (cs_reg st), vl').
Proof. exact Registry_proofs.process_new_allocates_nothing_proof. Qed.
Print Assumptions process_new_allocates_nothing.

(* prepare_batch_parallel's `unwrap_or_else(|| (MISSING, MISSING))` is never taken: every buffered group id >= 16 has its
   key in map_segments (and is below the vector length) *)
Theorem missing_fallback_unreachable : forall cf ord r contigs, (forall l, Permutation l (ord l)) -> reach cf ord r ->
  let st := classify_round cf ord r contigs in
  lenN (r_map (cs_reg st)) + NRAW < two32 ->
  forall g p, In (g, p) (cs_vl st) ->
    g < r_vlen (cs_reg st) /\
    (NRAW <= g -> exists k, rev_get (r_map (cs_reg st)) g None = Some k /\ In (k, g) (r_map (cs_reg st))).
Proof. exact Registry_proofs.missing_fallback_unreachable_proof. Qed.
Print Assumptions missing_fallback_unreachable.

(* ---- 3. buffer_per_group (C02's assumption): buffer keys are distinct, buffer GROUP IDS are distinct - a group id has at
   most one SegmentGroupBuffer -, a raw buffer sits under (id, MISSING) and an LZ buffer under the key registered for its
   id.  An op of GroupStore.run = (buffer group id, the batch pushed to that buffer in a round): ops with equal ids act on
   one buffer, ops with different ids on different buffers. *)
Theorem buffer_per_group : forall cf ord rounds r outs lgs, run_ok cf ord rounds r outs lgs ->
  NoDup (map fst (r_bufs r)) /\ NoDup (map (fun kb => b_gid (snd kb)) (r_bufs r)) /\
  (forall k b, In (k, b) (r_bufs r) ->
     (b_gid b < NRAW /\ k = (b_gid b, MISS)) \/ (NRAW <= b_gid b /\ kget (r_map r) k = Some (b_gid b))).
Proof. exact Registry_proofs.buffer_per_group_proof. Qed.
Print Assumptions buffer_per_group.

(* a buffer, once created, stays under its key with its group id and stream ids *)
Theorem buffers_persist : forall cf ord r rounds r' outs lgs, (forall l, Permutation l (ord l)) -> reach cf ord r ->
  run_rounds cf ord r rounds = (r', outs, lgs) -> lenN (r_map r') + NRAW < two32 ->
  forall k b, kget (r_bufs r) k = Some b -> kget (r_bufs r') k = Some b.
Proof. exact Registry_proofs.buffers_persist_proof. Qed.
Print Assumptions buffers_persist.

(* every stored (label, segment) of every round: the segment was classified (key k, group g) in that round, the label is
   the group id of an existing buffer, it equals g except for the colliding pair (raw group x / the LZ group whose key is
   (x, MISSING)), and it equals g whenever the key has a back k-mer (all Case-2 keys) *)
Theorem stored_label : forall cf ord rounds r outs lgs, run_ok cf ord rounds r outs lgs ->
  Forall2 (fun out lg => forall lbl p, In (lbl, p) out ->
             exists k g kb b, In (p, k, g) lg /\ kget (r_bufs r) kb = Some b /\ b_gid b = lbl /\
                              label_rel (r_map r) g lbl /\ (snd k <> MISS -> lbl = g)) outs lgs.
Proof. exact Registry_proofs.stored_label_proof. Qed.
Print Assumptions stored_label.

(* ---- 4. Case 2 (both k-mers): the key is the ordered pair and should_reverse = (front >= back) whatever the heuristics
   say; for front = back the key is (v, v) and should_reverse = true *)
Theorem case2_key_rule : forall cf s o, rs_front s <> MISS -> rs_back s <> MISS ->
  classify_key cf s o = (N.min (rs_front s) (rs_back s), N.max (rs_front s) (rs_back s), negb (rs_front s <? rs_back s)).
Proof. exact Registry_proofs.case2_key_rule_proof. Qed.
Print Assumptions case2_key_rule.

(* same_key_same_group: two segments classified under the same key (in any rounds) are handed the same group id, the one
   map_segments holds for the key at the end *)
Theorem same_key_same_group : forall cf ord rounds r outs lgs, run_ok cf ord rounds r outs lgs ->
  forall p1 p2 k g1 g2, In (p1, k, g1) (concat lgs) -> In (p2, k, g2) (concat lgs) -> k <> orphan_key ->
  g1 = g2 /\ kget (r_map r) k = Some g1.
Proof. exact Registry_proofs.same_key_same_group_proof. Qed.
Print Assumptions same_key_same_group.

(* ---- 5. orphans: the i-th orphan of the whole run (classification order) is handed raw group i mod 16 *)
Theorem orphans_round_robin : forall cf ord rounds r outs lgs, run_ok cf ord rounds r outs lgs ->
  (forall l1 p g l2, concat lgs = l1 ++ (p, orphan_key, g) :: l2 -> g = N.of_nat (orph_count l1) mod NRAW) /\
  r_rgc r mod NRAW = N.of_nat (orph_count (concat lgs)) mod NRAW.
Proof. exact Registry_proofs.orphans_round_robin_proof. Qed.
Print Assumptions orphans_round_robin.

(* what else is handed a raw group id: only a segment whose key is (g, MISSING) with g < 16, found in map_segments with
   value g (the copy cleanup_batch_parallel made) *)
Theorem raw_groups_only_orphans : forall cf ord rounds r outs lgs, run_ok cf ord rounds r outs lgs ->
  forall p k g, In (p, k, g) (concat lgs) -> g < NRAW ->
  k = orphan_key \/ (k = (g, MISS) /\ kget (r_map r) (g, MISS) = Some g).
Proof. exact Registry_proofs.raw_groups_only_orphans_proof. Qed.
Print Assumptions raw_groups_only_orphans.

(* cleanup_batch_parallel copies the raw buffer key of every raw group that received an orphan into map_segments (unless
   the key is already registered for an LZ group) *)
Theorem raw_key_copied : forall cf ord rounds r outs lgs, run_ok cf ord rounds r outs lgs ->
  forall p g, In (p, orphan_key, g) (concat lgs) ->
  kget (r_map r) (g, MISS) = Some g \/ exists G, NRAW <= G /\ kget (r_map r) (g, MISS) = Some G.
Proof. exact Registry_proofs.raw_key_copied_proof. Qed.
Print Assumptions raw_key_copied.

(* ---- 6. the collision, concrete.  [w_polyA]: a contig whose single raw segment has front k-mer 0 (poly-A, dir-oriented)
   and no back k-mer; find_group_with_one_kmer answers (0, MISSING, false).  [w_orphan]: a contig without splitter. *)
Definition w_cf : config := {| cf_fallback := false; cf_no_split := false |}.
Definition w_dflt : oracle := {| o_one := (MISS, MISS, false); o_fb := (MISS, MISS, false); o_mid := None; o_split := SD_None |}.
Definition w_polyA (sn cn : list N) : contig :=
  {| c_sample := sn; c_name := cn;
     c_segs := [({| rs_front := 0; rs_back := MISS; rs_fdir := true; rs_bdir := false |},
                 {| o_one := (0, MISS, false); o_fb := (MISS, MISS, false); o_mid := None; o_split := SD_None |})] |}.
Definition w_orphan (sn cn : list N) : contig :=
  {| c_sample := sn; c_name := cn;
     c_segs := [({| rs_front := MISS; rs_back := MISS; rs_fdir := false; rs_bdir := false |}, w_dflt)] |}.
Definition w_id (l : list (key * placed)) := l.
Lemma w_id_perm : forall l, Permutation l (w_id l). Proof. intro l. apply Permutation_refl. Qed.

(* the key (0, MISSING) is registered (group 16) in round 1; the orphan of round 2 is handed raw group 0 and is STORED
   under label 16: "orphans only in groups 0..15" is false *)
Theorem orphans_only_raw_refuted : exists cf ord rounds r outs lgs p,
  run_ok cf ord rounds r outs lgs /\ In (p, orphan_key, 0) (concat lgs) /\ In (16, p) (concat outs) /\
  ~ In 0 (map (fun kb => b_gid (snd kb)) (r_bufs r)) /\ In (0, false) (r_streams r).
Proof.
  exists w_cf, w_id, [[w_polyA [83; 48] [99]]; [w_orphan [83; 49] [111]]].
  eexists. eexists. eexists. eexists. split; [split; [exact w_id_perm|split; [vm_compute; reflexivity|vm_compute; reflexivity]]|].
  split; [vm_compute; right; left; reflexivity|]. split; [vm_compute; right; left; reflexivity|].
  split; [vm_compute; intros [H|[]]; discriminate|vm_compute; auto].
Qed.
Print Assumptions orphans_only_raw_refuted.

(* the key (0, MISSING) and an orphan in the same round: the key's segment, classified to the new group 16, is STORED
   under label 0 (raw group 0); group 16 has its two streams registered and no buffer.  So "a buffer only receives
   segments classified to its own group id" and "nothing but orphans in raw groups" are false *)
Theorem raw_only_orphans_refuted : exists cf ord rounds r outs lgs p,
  run_ok cf ord rounds r outs lgs /\ In (p, (0, MISS), 16) (concat lgs) /\ In (0, p) (concat outs) /\
  ~ In 16 (map (fun kb => b_gid (snd kb)) (r_bufs r)) /\ In (16, false) (r_streams r) /\ In (16, true) (r_streams r).
Proof.
  exists w_cf, w_id, [[w_orphan [83; 48] [97]; w_polyA [83; 48] [99]]].
  eexists. eexists. eexists. eexists. split; [split; [exact w_id_perm|split; [vm_compute; reflexivity|vm_compute; reflexivity]]|].
  split; [vm_compute; right; left; reflexivity|]. split; [vm_compute; right; left; reflexivity|].
  split; [vm_compute; intros [H|[]]; discriminate|]. split; vm_compute; auto.
Qed.
Print Assumptions raw_only_orphans_refuted.

(* orphans first, the key later: cleanup copied (0, MISSING) -> 0 into map_segments, so the one-k-mer segment of round 2
   is KNOWN and goes to raw group 0 (stored raw for ever; no LZ group is ever made for this key) *)
Theorem raw_key_hit_witness : exists cf ord rounds r outs lgs p,
  run_ok cf ord rounds r outs lgs /\ In (p, (0, MISS), 0) (concat lgs) /\ In (0, p) (concat outs) /\ r_gc r = 16.
Proof.
  exists w_cf, w_id, [[w_orphan [83; 48] [97]]; [w_polyA [83; 49] [99]]].
  eexists. eexists. eexists. eexists. split; [split; [exact w_id_perm|split; [vm_compute; reflexivity|vm_compute; reflexivity]]|].
  split; [vm_compute; right; left; reflexivity|]. split; [vm_compute; right; left; reflexivity|vm_compute; reflexivity].
Qed.
Print Assumptions raw_key_hit_witness.

(* ---- 7. towards C01's composition: the batches a round hands over are one op per buffer group id and carry, per id,
   exactly the segments stored under it (ops_carry of props/C01.v, per round, with equality) *)
Theorem ops_carry_placements : forall (out : list (N * placed)),
  NoDup (map fst (ops_of_round out)) /\
  forall g, flat_map (fun o : N * list placed => if fst o =? g then snd o else []) (ops_of_round out)
            = map snd (filter (fun x => fst x =? g) out).
Proof. exact Registry_proofs.ops_carry_placements_proof. Qed.
Print Assumptions ops_carry_placements.

(* group_of_is_a_function: when no segment identity (sample, contig, part, flag) is stored twice, the real assignment
   label-of-segment is the function [grp_of] - an instance of the [grp] C01's composition quantifies over *)
Theorem group_of_is_a_function : forall stored : list (N * placed), NoDup (map snd stored) ->
  forall lbl p, In (lbl, p) stored -> grp_of stored p = lbl.
Proof. exact Registry_proofs.group_of_is_a_function_proof. Qed.
Print Assumptions group_of_is_a_function.

(* with distinct contig names over the whole run (push rejects a repeated name within a sample; samples are distinct): no
   segment identity (sample, contig, part) is stored twice, hence the REAL assignment of the whole run is the function
   grp_of (concat outs) *)
Theorem stored_ids_distinct : forall cf ord rounds r outs lgs, run_ok cf ord rounds r outs lgs ->
  NoDup (map (fun c => (c_sample c, c_name c)) (concat rounds)) ->
  NoDup (map (fun x => (p_sample (snd x), p_name (snd x), p_part (snd x))) (concat outs)) /\
  forall lbl p, In (lbl, p) (concat outs) -> grp_of (concat outs) p = lbl.
Proof. exact Registry_proofs.stored_ids_distinct_proof. Qed.
Print Assumptions stored_ids_distinct.

(* the registry's step and Pipeline.v (C01, contig level) number and orient the pieces of a raw segment alike: for every
   split position there is a Pipeline decision (Plain / Split at that position / AssignL / AssignR) under which
   Pipeline.seg_pieces yields the registry's (seg_part_no, is_rev_comp) per piece, in order, and the same increment - so
   C01's [grp i part] and the registry's stored assignment are indexed by the same part numbers *)
Theorem parts_agree_with_pipeline : forall cf sn cn (s : Segment.segment) o st (part k : nat),
  let res := classify_step cf sn cn
               ({| rs_front := Segment.sfront s; rs_back := Segment.sback s; rs_fdir := Segment.sfdir s; rs_bdir := Segment.sbdir s |}, o)
               (st, N.of_nat part) in
  exists new, cs_log (fst res) = new ++ cs_log st /\
  forall pos : nat, exists d : Pipeline.decision,
    match d with Pipeline.Split _ p _ _ => p = pos | _ => True end /\
    snd res = N.of_nat (part + Pipeline.part_incr d) /\
    match Pipeline.seg_pieces k s d part with
    | Ok ps => map (fun pc => (N.of_nat (Pipeline.p_part pc), Pipeline.p_rc pc)) ps
               = map (fun e : placed * key * N => (p_part (fst (fst e)), p_rc (fst (fst e)))) (rev new)
    | _ => True
    end.
Proof. exact Registry_proofs.parts_agree_with_pipeline_proof. Qed.
Print Assumptions parts_agree_with_pipeline.

(* ---- non-vacuity: three rounds.  Round 1: a contig with segments (MISSING, 50) (50, 90) (90, MISSING) and an orphan;
   round 2: the reverse-complemented middle segment (90, 50), two new keys (50, 70) (70, 110), a palindromic pair (70, 70),
   17 orphans (the round robin wraps); round 3: the new key (50, 110) with middle k-mer 70 and decision SplitAt.  run_ok
   holds; groups 16..21 are registered in order, (90, 50) goes to (50, 90)'s group 17 with flag true, (70, 70) gets flag
   true, (50, 110) is never registered: its halves go to groups 19 and 20 with part numbers 0 and 1, the 18 orphans go to
   0, 1, .., 15, 0, 1; one buffer per group id. *)
Definition nv_seg (f b : N) (o : oracle) : rawseg * oracle :=
  ({| rs_front := f; rs_back := b; rs_fdir := true; rs_bdir := true |}, o).
Definition nv_one (kf kb : N) (sr : bool) : oracle :=
  {| o_one := (kf, kb, sr); o_fb := (MISS, MISS, false); o_mid := None; o_split := SD_None |}.
Definition nv_rounds : list (list contig) :=
  [[{| c_sample := [65]; c_name := [99];
       c_segs := [nv_seg MISS 50 (nv_one MISS 50 true); nv_seg 50 90 w_dflt; nv_seg 90 MISS (nv_one 90 MISS false)] |};
    w_orphan [65] [111]];
   ({| c_sample := [66]; c_name := [99]; c_segs := [nv_seg 90 50 w_dflt; nv_seg 50 70 w_dflt; nv_seg 70 110 w_dflt; nv_seg 70 70 w_dflt] |}
    :: map (fun i => w_orphan [66] [111; i]) [1; 2; 3; 4; 5; 6; 7; 8; 9; 10; 11; 12; 13; 14; 15; 16; 17]);
   [{| c_sample := [67]; c_name := [99];
       c_segs := [nv_seg 50 110 {| o_one := (MISS, MISS, false); o_fb := (MISS, MISS, false); o_mid := Some 70; o_split := SD_At |}] |}]].
Example run_nonvacuous : exists r outs lgs,
  run_ok w_cf w_id nv_rounds r outs lgs /\
  r_gc r = 22 /\ r_rgc r = 18 /\
  map snd (filter (fun x => NRAW <=? snd x) (r_map r)) = [16; 17; 18; 19; 20; 21] /\
  kget (r_map r) (50, 90) = Some 17 /\ kget (r_map r) (70, 70) = Some 21 /\ kget (r_map r) (50, 110) = None /\
  In (17, {| p_sample := [66]; p_name := [99]; p_part := 0; p_rc := true |}) (concat outs) /\
  In (21, {| p_sample := [66]; p_name := [99]; p_part := 3; p_rc := true |}) (concat outs) /\
  In (19, {| p_sample := [67]; p_name := [99]; p_part := 0; p_rc := false |}) (concat outs) /\
  In (20, {| p_sample := [67]; p_name := [99]; p_part := 1; p_rc := false |}) (concat outs) /\
  map snd (filter (fun e => key_eqb (snd (fst e)) orphan_key) (concat lgs)) = [0; 1; 2; 3; 4; 5; 6; 7; 8; 9; 10; 11; 12; 13; 14; 15; 0; 1] /\
  map (fun kb => b_gid (snd kb)) (r_bufs r) = [0; 16; 17; 18; 1; 2; 3; 4; 5; 6; 7; 8; 9; 10; 11; 12; 13; 14; 15; 19; 20; 21].
Proof.
  eexists. eexists. eexists. split; [split; [exact w_id_perm|split; [vm_compute; reflexivity|vm_compute; reflexivity]]|].
  vm_compute. repeat split; auto 40.
Qed.
