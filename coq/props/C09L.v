From Ragc Require Import Mach Consts_groupstore Consts_agcv3.
From Ragc Require Import Kmer Segment Pipeline SegReader GroupStore LZ Names Collection Container ModelCreate.
From Ragc Require Import Pipeline_proofs Compose_proofs Grand_proofs.
From Ragc Require LZ_len LZ_len_store SegCompress_proofs C01 C01G.
(* C09L (registered under C09) - a linear SIZE bound on the LZ-diff encoder, and what the composition needs from it.
   props/C09.v proves the round trip of LZ.encode, not a bound on the length of its output; the grand round trip
   (props/C01T.v grand_roundtrip_total) therefore carries the residual hypothesis parts_meta_u64 (every part's metadata
   below 2^64): the metadata of a delta pack is the raw length of the pack = a sum of encoded lengths.

   1. encode_len_bound        |encode mml rf tgt| <= 24 * |tgt| + 23, for EVERY mml, reference and target (no domain
                              hypothesis at all: a counting argument on the loop - each iteration burns one unit of the
                              fuel S |tgt| and pushes at most 23 bytes (signed i32 decimal + ',' + u32 decimal + '.'),
                              a literal pushes one byte per symbol, the len_bck pops and the '!' rewriting never grow
                              the output); lz_encode_len_any_index: the same on any state / hash / index
      encode_len_in_domain    in the domain of C09 lz_roundtrip the encoder returns, decodes back, obeys the bound, < 2^36
      encode_len_u32          |rf| + |tgt| + mml < 2^31  =>  |enc| < 2^36
   2. pack_len_bound          a pack (GroupStore.pack_bytes: optional 2-byte placeholder, every entry followed by the
                              separator) of at most 50 entries of at most B bytes has at most 50 * (B + 1) + 2 bytes;
      pack_len_u64            entries shorter than 2^36 => pack shorter than 2^42 (< 2^64)
   3. store_meta_bound        GroupStore.run + finalize, ANY schedule, any codecs with |lz_enc r t| <= B for |t| <= L
                              (L <= B): every delta part of every group has metadata <= 50 * (B + 1), every reference part
                              has metadata <= L, when every pushed segment has at most L symbols
   4. group_parts_meta        ModelCreate.model_build = Ok b: every part of every x<id>d / x<id>r stream has metadata
                              <= 1200 * L + 1200, L = the longest input contig (hypotheses on k, the decisions and the
                              schedule only)
      parts_meta_u64_from_inputs   parts_meta_u64 (b_wops b) from: contigs not longer than 2^50, file_type_info metadata
                              < 2^64 and the metadata of the collection-samples / collection-contigs parts < 2^64.
      catalogue_meta          those remaining metadata are exactly lengths of serialized NAME streams
                              (Names.ser_sample_names / ser_names); collection-details parts carry metadata 0.
   WHAT REMAINS for parts_meta_u64: a length bound on Names.ser_sample_names / ser_names in terms of the input names
   (lists are unbounded in the model, so a hypothesis on the total name bytes is needed; not an LZ matter).  The file
   length bound lenN (b_file b) <= 2^63 - 1 is not touched here (it is a sum of zstd OUTPUT sizes).
   Proofs: proofs/LZ_len.v, proofs/LZ_len_store.v. *)

(* ======================================================================== 1. the encoder *)
Theorem encode_len_bound : forall mml rf tgt enc,
  encode mml rf tgt = Ok enc -> (lenN enc <= 24 * lenN tgt + 23)%N.
Proof. exact LZ_len.encode_len_proof. Qed.
Print Assumptions encode_len_bound.

(* any hash function, any state (any table, mask, reference, key length): the bound does not depend on the index *)
Theorem lz_encode_len_any_index : forall hash st tgt enc,
  lz_encode hash st tgt = Ok enc -> (lenN enc <= 24 * lenN tgt + 23)%N.
Proof. exact LZ_len.lz_encode_len. Qed.
Print Assumptions lz_encode_len_any_index.

Theorem encode_len_in_domain : forall mml rf tgt,
  (4 <= mml)%N -> tgt <> [] -> Forall sym_ok tgt -> (lenN rf + lenN tgt + mml < 2147483648)%N ->
  exists enc, encode mml rf tgt = Ok enc /\ decode_full mml rf enc = Ok tgt /\
              (lenN enc <= 24 * lenN tgt + 23)%N /\ (lenN enc < 68719476736)%N.
Proof. exact LZ_len.encode_len_in_domain_proof. Qed.
Print Assumptions encode_len_in_domain.

Theorem encode_len_u32 : forall mml rf tgt enc,
  (lenN rf + lenN tgt + mml < 2147483648)%N -> encode mml rf tgt = Ok enc -> (lenN enc < 68719476736)%N.
Proof. exact LZ_len.encode_len_u32_proof. Qed.
Print Assumptions encode_len_u32.

(* the per-token sizes the bound rests on *)
Theorem token_sizes :
  (forall c b, ser_literal c = Ok b -> lenN b = 1%N) /\
  (forall len b, (len < 4294967296)%N -> ser_nrun len = Ok b -> (lenN b <= 12)%N) /\
  (forall st amp len pp b, match len with Some l => (l < 4294967296)%N | None => True end ->
     ser_match st amp len pp = Ok b -> (lenN b <= 23)%N) /\
  (forall rp n s amp renc r, bang_scan rp n s amp renc = Ok r -> lenN r = lenN renc).
Proof.
  split; [exact LZ_len.ser_literal_len|]. split; [exact LZ_len.ser_nrun_len|].
  split; [exact LZ_len.ser_match_len|exact LZ_len.bang_scan_len].
Qed.
Print Assumptions token_sizes.

Example encode_len_nonvacuous :
  encode 5%N [0;1;2;3;0;1;2;3;3;2;1;0;0;0;1;1;2;2;3;3]%N
             [4;4;4;4;4;3;30;0;1;2;3;0;1;2;3;3;2;1;0;0;0;1;1;2;2;3;15;0;1;2;3;3]%N
    = Ok [30;49;4;68;95;45;50;44;49;52;46;80;65;66;67;68;68]%N /\
  (lenN [30;49;4;68;95;45;50;44;49;52;46;80;65;66;67;68;68]%N = 17)%N /\
  (17 <= 24 * lenN [4;4;4;4;4;3;30;0;1;2;3;0;1;2;3;3;2;1;0;0;0;1;1;2;2;3;15;0;1;2;3;3]%N + 23)%N /\
  (* a target of 4 symbols costing 4 bytes (literals only), an N-run of 5 costing 3, a match costing 6 for 19 symbols *)
  encode 4%N [0;1;2;3;0;1;2;3]%N [3;2;1;0]%N = Ok [68;67;66;65]%N /\
  encode 4%N [0;1;2;3;0;1;2;3]%N [4;4;4;4;4;1;1;1;1;1]%N = Ok [30;49;4;66;66;66;66;66]%N /\
  encode 5%N [0;1;2;3;0;1;2;3;3;2;1;0;0;0;1;1;2;2;3;3]%N [0;1;2;3;0;1;2;3;3;2;1;0;0;0;1;1;2;2;3;3;30]%N
    = Ok [48;44;49;53;46;95]%N.
Proof. vm_compute. repeat split; try reflexivity; discriminate. Qed.

(* ======================================================================== 2. packs *)
Theorem pack_len_bound : forall (placeholder : bool) (ph : N) (deltas : list (list N)) B,
  (lenN deltas <= 50)%N -> Forall (fun d => (lenN d <= B)%N) deltas ->
  (lenN (pack_bytes placeholder ph deltas) <= 50 * (B + 1) + 2)%N.
Proof. exact LZ_len_store.pack_len_bound_proof. Qed.
Print Assumptions pack_len_bound.

Theorem pack_len_u64 : forall (placeholder : bool) (ph : N) (deltas : list (list N)),
  (lenN deltas <= 50)%N -> Forall (fun d => (lenN d < 68719476736)%N) deltas ->
  (lenN (pack_bytes placeholder ph deltas) < 4398046511104)%N /\ (4398046511104 < two64)%N.
Proof.
  intros placeholder ph deltas H1 H2. split; [exact (LZ_len_store.pack_len_u64_proof placeholder ph deltas H1 H2)|reflexivity].
Qed.
Print Assumptions pack_len_u64.

Example pack_len_nonvacuous :
  pack_bytes true 127%N [[30;49;4]; []; [68;67]]%N = [127;255;30;49;4;255;255;68;67;255]%N /\
  (lenN [[30;49;4]; []; [68;67]]%N <= 50)%N /\ Forall (fun d => (lenN d <= 3)%N) [[30;49;4]; []; [68;67]]%N.
Proof. split; [reflexivity|]. split; [discriminate|]. repeat constructor; discriminate. Qed.

(* ======================================================================== 3. the group store *)
Theorem store_meta_bound :
  forall (lz_enc : list N -> list N -> list N) (compress_ref : list N -> list N * N) (compress_pack : list N -> list N)
         (L B : N),
  (forall r t, (lenN t <= L)%N -> (lenN (lz_enc r t) <= B)%N) -> (L <= B)%N -> (1 <= B)%N ->
  forall ops st,
  run lz_enc compress_ref compress_pack ops = Ok st ->
  (forall g s, In s (GroupStore.segs_of ops g) -> (lenN (s_data s) <= L)%N) ->
  forall g gs, finalize compress_pack st g = Some gs ->
  Forall (fun p : SegReader.part => (fst p <= 50 * (B + 1))%N) (g_delta gs) /\
  Forall (fun p : SegReader.part => (fst p <= L)%N) (g_ref gs).
Proof. exact LZ_len_store.store_meta_bound_proof. Qed.
Print Assumptions store_meta_bound.

(* the codec the writer uses obeys the bound whatever LZ.encode returns *)
Theorem mc_lz_enc_len : forall mml r t, (lenN (mc_lz_enc mml r t) <= 24 * lenN t + 23)%N.
Proof. exact LZ_len_store.mc_lz_enc_len. Qed.
Print Assumptions mc_lz_enc_len.

(* ======================================================================== 4. the writer history *)
Theorem group_parts_meta :
  forall zc ecn k mml segsize level spl dec grp sched gops fti
         (samples : list (Pipeline.name * list (Pipeline.name * list N))) L,
  (1 <= k <= 32)%N ->
  (forall i s c data j sg, nth_error (pushes_of samples) i = Some (s, c, data) ->
     nth_error (split_at_splitters_with_size data spl k segsize) j = Some sg ->
     decision_okb (N.to_nat k) sg (dec i j) = true) ->
  ops_carry (all_emit k spl segsize dec grp 0 (pushes_of samples)) gops ->
  (forall s c data, In (s, c, data) (pushes_of samples) -> (lenN data <= L)%N) ->
  forall b, model_build zc ecn k mml segsize level spl dec grp sched gops fti samples = Ok b ->
  forall e it,
    In e (group_plan (finalize (mc_cpack zc level) (b_store b)) (groups_of gops)) -> In it (snd e) ->
    (snd it <= 1200 * L + 1200)%N.
Proof. exact LZ_len_store.group_parts_meta_proof. Qed.
Print Assumptions group_parts_meta.

Theorem parts_meta_u64_from_inputs :
  forall zc ecn k mml segsize level spl dec grp sched gops (fti : Container.item)
         (samples : list (Pipeline.name * list (Pipeline.name * list N))) L,
  (1 <= k <= 32)%N ->
  (forall i s c data j sg, nth_error (pushes_of samples) i = Some (s, c, data) ->
     nth_error (split_at_splitters_with_size data spl k segsize) j = Some sg ->
     decision_okb (N.to_nat k) sg (dec i j) = true) ->
  ops_carry (all_emit k spl segsize dec grp 0 (pushes_of samples)) gops ->
  (forall s c data, In (s, c, data) (pushes_of samples) -> (lenN data <= L)%N) ->
  forall b, model_build zc ecn k mml segsize level spl dec grp sched gops fti samples = Ok b ->
  (L <= 1125899906842624)%N ->
  (snd fti < two64)%N ->
  Forall (fun p : Collection.part => (snd p < two64)%N) (a_samples (b_arch b) ++ a_contigs (b_arch b)) ->
  Forall (fun o => match o with WAddBuf _ _ m => (m < two64)%N | _ => True end) (b_wops b).
Proof. exact LZ_len_store.parts_meta_u64_from_inputs_proof. Qed.
Print Assumptions parts_meta_u64_from_inputs.

(* the conclusion above is Grand_proofs.parts_meta_u64, the hypothesis of C01G / C01T *)
Example parts_meta_u64_is : forall ops,
  parts_meta_u64 ops = Forall (fun o => match o with WAddBuf _ _ m => (m < two64)%N | _ => True end) ops.
Proof. reflexivity. Qed.

(* the inputs of C09 / C01T (inputs_in_dom: 2 * |contig| + mml < 2^31) meet the length hypothesis with L = 2^30 *)
Theorem inputs_in_dom_len : forall mml (pushes : list push), inputs_in_dom mml pushes ->
  forall s c data, In (s, c, data) pushes -> (lenN data <= 1073741824)%N.
Proof. exact LZ_len_store.inputs_in_dom_len_proof. Qed.
Print Assumptions inputs_in_dom_len.

(* in the shape grand_roundtrip_total needs: under its own hypotheses on k, the decisions, the schedule and the inputs,
   parts_meta_u64 is reduced to the file_type_info value and the name-stream parts *)
Theorem parts_meta_u64_in_dom :
  forall zc ecn k mml segsize level spl dec grp sched gops (fti : Container.item)
         (samples : list (Pipeline.name * list (Pipeline.name * list N))),
  (1 <= k <= 32)%N ->
  (forall i s c data j sg, nth_error (pushes_of samples) i = Some (s, c, data) ->
     nth_error (split_at_splitters_with_size data spl k segsize) j = Some sg ->
     decision_okb (N.to_nat k) sg (dec i j) = true) ->
  ops_carry (all_emit k spl segsize dec grp 0 (pushes_of samples)) gops ->
  (forall s c data, In (s, c, data) (pushes_of samples) ->
     Forall (fun x => (x <= 30)%N) data /\ (2 * lenN data + mml < 2147483648)%N) ->
  forall b, model_build zc ecn k mml segsize level spl dec grp sched gops fti samples = Ok b ->
  (snd fti < two64)%N ->
  Forall (fun p : Collection.part => (snd p < two64)%N) (a_samples (b_arch b) ++ a_contigs (b_arch b)) ->
  parts_meta_u64 (b_wops b).
Proof. exact LZ_len_store.parts_meta_u64_in_dom_proof. Qed.
Print Assumptions parts_meta_u64_in_dom.

(* what the remaining metadata are: whatever catalogue is stored, the collection-samples / collection-contigs parts
   carry the length of a serialized name stream and the collection-details parts carry 0 *)
Theorem catalogue_meta : forall zc bs c cw a, store_all zc bs c arch_empty = Ok (cw, a) ->
  Forall (fun p : Collection.part => exists names, snd p = lenN (ser_sample_names names)) (a_samples a) /\
  Forall (fun p : Collection.part => exists batch, snd p = lenN (ser_names batch)) (a_contigs a) /\
  Forall (fun p : Collection.part => snd p = 0%N) (a_details a).
Proof. exact LZ_len_store.store_all_meta. Qed.
Print Assumptions catalogue_meta.

(* non-vacuity: the instance of props/C01G.v (two samples, three contigs, raw group 3 and LZ groups 16 / 17, two store
   rounds, toy zstd): every hypothesis of group_parts_meta / parts_meta_u64_from_inputs holds with L = 40 *)
Example parts_meta_u64_from_inputs_nonvacuous : exists b,
  C01G.ex_build = Ok b /\
  (1 <= 3 <= 32)%N /\
  decisions_ok 3%N (set_of_list [0%N]) 60%N C01.ex_dec (pushes_of C01.ex_samples) /\
  ops_carry (all_emit 3%N (set_of_list [0%N]) 60%N C01.ex_dec C01.ex_grp 0 (pushes_of C01.ex_samples)) C01.ex_store_ops /\
  (forall s c data, In (s, c, data) (pushes_of C01.ex_samples) -> (lenN data <= 40)%N) /\
  (40 <= 1125899906842624)%N /\ (snd C01G.ex_fti < two64)%N /\
  Forall (fun p : Collection.part => (snd p < two64)%N) (a_samples (b_arch b) ++ a_contigs (b_arch b)) /\
  (* some LZ group really holds a delta pack with non-zero metadata or raw bytes: the store parts are not empty *)
  group_plan (finalize (mc_cpack SegCompress_proofs.toy_zc 17%N) (b_store b)) (groups_of C01.ex_store_ops) <> [].
Proof.
  assert (H : match C01G.ex_build with
              | Ok b =>
                forallb (fun p : Collection.part => (snd p <? two64)%N) (a_samples (b_arch b) ++ a_contigs (b_arch b)) = true /\
                negb (match group_plan (finalize (mc_cpack SegCompress_proofs.toy_zc 17%N) (b_store b))
                                       (groups_of C01.ex_store_ops) with [] => true | _ => false end) = true
              | _ => False
              end) by (vm_compute; split; reflexivity).
  destruct C01G.ex_build as [b| |]; [|contradiction|contradiction]. destruct H as [H1 H2].
  destruct C01G.grand_roundtrip_nonvacuous as (_ & _ & _ & _ & _ & _ & Hdec & _ & _ & _ & Hcarry & _).
  exists b. split; [reflexivity|]. split; [split; discriminate|]. split; [exact Hdec|]. split; [exact Hcarry|].
  split.
  { assert (E : forallb (fun p : push => (lenN (snd p) <=? 40)%N) (pushes_of C01.ex_samples) = true) by (vm_compute; reflexivity).
    rewrite forallb_forall in E. intros s c data Hin. apply N.leb_le. exact (E _ Hin). }
  split; [discriminate|]. split; [reflexivity|]. split.
  - apply Forall_forall. intros p Hp. rewrite forallb_forall in H1. apply N.ltb_lt. exact (H1 p Hp).
  - intro E. rewrite E in H2. discriminate.
Qed.
