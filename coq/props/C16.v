(* C16 - every successfully created archive is fully extractable (any FASTA text): create either fails, or the
   archive lists exactly the named records that have at least one base, each equal to the input under the
   normalisation (upper case, non-letters dropped, letters outside the IUPAC set read back as N); no record with
   at least one base is silently left out.
   Model: Fasta.v.  Code side: [parse] = the loop over GenomeIO::read_contig_converted (fuelled transcription of
   read_contig_raw / read_contig_impl), [pushed] = what create hands to the compressor (`!sequence.is_empty()`),
   [collect] = Collection::register_sample_contig + the duplicate check of push, [out_letters] = the mapping of
   write_sample_fasta.  Spec side: [records] (split at the lines starting with '>'; what precedes the first one is a
   record with an empty header line), [rec_name] (the header without leading '>' and surrounding white space),
   [norm].  Headers are compared as bytes; the code trims Unicode white space of a lossily decoded string, the
   model the ASCII white space 9..13, 32: the theorems speak about texts whose header lines are ASCII.
   Between [pushed]/[collect] and the bytes that getset prints stands C01 (lossless archive) - not re-proved here;
   the CLI-level runs of checks/c16.py compare the real create/listset/listctg/getset with [create_view]. *)
From Ragc Require Import Mach Consts_fasta Fasta Fasta_proofs.
Open Scope N_scope.

(* ---- 1. the reader, exactly: no fuel left in the statement, never Panic ---- *)
Theorem parser_exact : forall text, parse text = deliver (groups (lines text)).
Proof. exact Fasta_proofs.parse_exact. Qed.
Print Assumptions parser_exact.

(* ---- 2. against the natural reading of the text.  [first_line_ok]: the first line starts with '>' or is blank ---- *)
Theorem parser_complete : forall text, first_line_ok text = true ->
  (existsb nameless_with_bases (records text) = true /\ parse text = Err) \/
  (existsb nameless_with_bases (records text) = false /\
   parse text = Ok (map (fun r => (rec_name r, convert (snd r)))
                        (filter (fun r => negb (is_nil (rec_name r)) && negb (is_nil (snd r))) (records text)))).
Proof. exact Fasta_proofs.parser_complete_lemma. Qed.
Print Assumptions parser_complete.

(* what reaches the compressor: Err exactly when a record has bases but no name; otherwise every named record
   with at least one base, in order, with its codes *)
Theorem pushed_complete : forall text, first_line_ok text = true ->
  (existsb nameless_with_bases (records text) = true /\ pushed text = Err) \/
  (existsb nameless_with_bases (records text) = false /\
   pushed text = Ok (map (fun r => (rec_name r, convert (snd r)))
                         (filter (fun r => negb (is_nil (rec_name r)) && rec_has_base r) (records text)))).
Proof. exact Fasta_proofs.pushed_complete_lemma. Qed.
Print Assumptions pushed_complete.

Theorem no_record_lost : forall text r, first_line_ok text = true ->
  In r (records text) -> rec_has_base r = true ->
  pushed text = Err \/ exists rs, pushed text = Ok rs /\ In (rec_name r, convert (snd r)) rs.
Proof. exact Fasta_proofs.no_record_lost. Qed.
Print Assumptions no_record_lost.

Example parser_nonvacuous :
  (* "\n\n>a desc  \r\nacgtXJ-*.12 n\r\nRYK\r\n>empty\n>b\n\nAC>GT\n>c" : blank lines, CRLF, lower case, non-IUPAC
     letters, digits and gaps, a record without sequence, an interior blank line, '>' inside a line, no final newline *)
  let text := [10;10; 62;97;32;100;101;115;99;32;32;13;10; 97;99;103;116;88;74;45;42;46;49;50;32;110;13;10;
               82;89;75;13;10; 62;101;109;112;116;121;10; 62;98;10; 10; 65;67;62;71;84;10; 62;99] in
  first_line_ok text = true /\ existsb nameless_with_bases (records text) = false /\
  length (records text) = 5%nat /\
  pushed text = Ok [([97;32;100;101;115;99], [0;1;2;3;30;30;4;5;6;9]); ([98], [0;1;2;3])].
Proof. vm_compute. repeat split; reflexivity. Qed.

Example nameless_record_is_an_error :
  first_line_ok [62;10;65;67;10] = true /\ existsb nameless_with_bases (records [62;10;65;67;10]) = true /\
  parse [62;10;65;67;10] = Err.                                              (* ">\nAC\n" *)
Proof. vm_compute. repeat split; reflexivity. Qed.

(* outside the property's domain, stated because the code does it: a first line that neither starts with '>' nor is
   blank is taken as a header (its letters are a name, not bases) - "ACGT\n>a\nGG\n" gives one contig, a *)
Theorem first_line_is_a_header_refuted : exists text,
  first_line_ok text = false /\ parse text <> deliver (records text) /\ parse text = Ok [([97], [2; 2])].
Proof. exact Fasta_proofs.first_line_refuted_lemma. Qed.
Print Assumptions first_line_is_a_header_refuted.

(* ---- 3. the codes ---- *)
Theorem code_range : forall text rs id codes c,
  parse text = Ok rs -> In (id, codes) rs -> In c codes -> c <= 15 \/ c = 30.
Proof. exact Fasta_proofs.code_range_parse. Qed.
Print Assumptions code_range.

(* regression (1a45edb): the backquote (byte 96) is kept by `c > 64`; its table entry used to be the filler ' ' (32),
   a code the LZ decoder cannot read back; it is 30 now, like the other kept non-letters.  Entry 64 ('@', dropped by
   `c > 64`) is still the filler and never read *)
Example backquote_is_code_30 : keep 96 = true /\ cnv 96 = 30 /\ out_letter 30 = 78 /\ cnv 64 = 32 /\ keep 64 = false.
Proof. vm_compute. repeat split; reflexivity. Qed.

(* ---- 4. extraction shows the normal form ---- *)
Theorem extraction_normal_form : forall s,
  (forall c, In c s -> odd_byte c = false) -> out_letters (convert s) = norm s.
Proof. exact Fasta_proofs.normal_form. Qed.
Print Assumptions extraction_normal_form.

(* on the whole byte range: the kept non-letters [ \ ] ^ _ ` { | } ~ DEL (outside the property's alphabet) each
   come back as one N; bytes <= 64 and >= 128 vanish *)
Theorem odd_bytes_read_back_as_N :
  (forall c, odd_byte c = true <-> (91 <= c <= 96 \/ 123 <= c <= 127)) /\
  (forall s, out_letters (convert s) = map (fun c => if is_letter c then norm_letter c else 78) (filter keep s)).
Proof. exact Fasta_proofs.odd_bytes_lemma. Qed.
Print Assumptions odd_bytes_read_back_as_N.

Theorem dropped_bytes_vanish : forall a c b, keep c = false -> convert (a ++ c :: b) = convert (a ++ b).
Proof. exact Fasta_proofs.convert_drops. Qed.
Print Assumptions dropped_bytes_vanish.

Example what_is_dropped :   (* '>' inside a line, CR, LF, digits, gaps - * . , space, '@', bytes >= 128 *)
  map keep [62; 13; 10; 48; 57; 45; 42; 46; 32; 64; 128; 255] = repeat false 12 /\
  records [62;97;10;65;67;62;71;84;10] = [([62;97;10], [65;67;62;71;84;10])] /\      (* ">a\nAC>GT\n": one record *)
  header_id [62;62;32;97;32;98;9;13;10] = [97;32;98].                               (* ">> a b\t\r\n" -> "a b" *)
Proof. vm_compute. repeat split; reflexivity. Qed.

Example normal_form_nonvacuous :
  (forall c, In c [97;99;103;116;88;74;45;42;46;49;50;32;110;13;10;82;89;75;117] -> odd_byte c = false) /\
  norm [97;99;103;116;88;74;45;42;46;49;50;32;110;13;10;82;89;75;117] = [65;67;71;84;78;78;78;82;89;75;85].
Proof.
  split; [|vm_compute; reflexivity].
  intros c H. repeat (destruct H as [<-|H]; [reflexivity|]). destruct H.
Qed.

(* ---- 5. a missing final newline changes nothing ---- *)
Theorem final_newline_irrelevant : forall t, t <> [] -> last t 0 <> 10 -> parse (t ++ [10]) = parse t.
Proof. exact Fasta_proofs.final_newline_lemma. Qed.
Print Assumptions final_newline_irrelevant.

Example final_newline_nonvacuous :
  [62;97;10;65;67] <> [] /\ last [62;97;10;65;67] 0 <> 10 /\ parse [62;97;10;65;67] = Ok [([97], [0;1])].
Proof. split; [discriminate|]. split; [discriminate | vm_compute; reflexivity]. Qed.

(* ---- 6. the catalogue: duplicates are rejected, otherwise every sample holds exactly its contigs in order ---- *)
Theorem duplicate_rejected : forall cs1 s n c1 cs2 c2 cs3,
  collect [] (cs1 ++ (s, n, c1) :: cs2 ++ (s, n, c2) :: cs3) = Err.
Proof. exact Fasta_proofs.duplicate_rejected_lemma. Qed.
Print Assumptions duplicate_rejected.

Theorem collect_per_sample : forall cs a, collect [] cs = Ok a -> forall s, contigs_of a s = of_sample s cs.
Proof. exact Fasta_proofs.collect_per_sample_lemma. Qed.
Print Assumptions collect_per_sample.

(* create fails at the catalogue only for that reason *)
Theorem collect_fails_only_on_duplicate : forall cs, collect [] cs = Err ->
  exists cs1 s n c cs2, cs = cs1 ++ (s, n, c) :: cs2 /\
    existsb (fun x => bytes_eqb (fst (fst x)) s && bytes_eqb (snd (fst x)) n) cs1 = true.
Proof. exact Fasta_proofs.collect_fails_lemma. Qed.
Print Assumptions collect_fails_only_on_duplicate.

(* ---- 7. end to end in model terms: whatever create accepts, every record with at least one base is in the
   archive view under its sample, with its name and the read-back of its sequence ([read_back] = [norm] on the
   property's alphabet by extraction_normal_form; kept non-letters come back as N) ---- *)
Theorem create_view_complete : forall files v fname text r,
  create_view files = Ok v -> In (fname, text) files -> first_line_ok text = true ->
  In r (records text) -> rec_has_base r = true ->
  exists contigs, In (sample_for fname (rec_name r), contigs) v /\
                  In (rec_name r, map (fun c => if is_letter c then norm_letter c else 78) (filter keep (snd r))) contigs.
Proof. exact Fasta_proofs.create_view_complete_lemma. Qed.
Print Assumptions create_view_complete.

Example create_view_nonvacuous :
  (* two files r.fa = ">a\nACGT\n>b\nTG\n", s.fa = ">x#1#c\nAC\n>p\nGX\n>e\n\n" *)
  create_view [([114;46;102;97], [62;97;10;65;67;71;84;10;62;98;10;84;71;10]);
               ([115;46;102;97], [62;120;35;49;35;99;10;65;67;10;62;112;10;71;88;10;62;101;10;10])]
  = Ok [([114], [([97], [65;67;71;84]); ([98], [84;71])]);
        ([120;35;49], [([120;35;49;35;99], [65;67])]);
        ([115], [([112], [71;78])])] /\
  (* the same header twice in one sample: create fails *)
  create_view [([114;46;102;97], [62;114;10;65;10;62;114;10;71;10])] = Err.
Proof. vm_compute. split; reflexivity. Qed.
