(* C19 - extraction is invariant under how the input is presented: gzip / multi-member gzip / plain, any line
   width, LF or CRLF, any case, one PanSN file or one file per sample with the same headers give the same sample
   list and the same contigs; presentations differing only in compression, wrapping, line ends or case feed the
   compressor with identical (sample, contig name, codes) streams, hence give byte-identical archives.
   Model: Fasta.v.  [render w eol mask rs] writes records (name, sequence) with line width w (0 = one empty line then
   no wrapping), line end eol, and lower case where mask says so; [parse] is the reader of genome_io.rs;
   [contig_stream] / [stream_multi] / [stream_single] / [create_view] follow MultiFileIterator and create_archive.
   What create writes depends on an input file only through [input_stream] (its bytes through the gzip reader, then
   the reader's records, then the naming rule) - that is how the model is built, after main.rs 689-824.
   gzip is an oracle: the Section hypothesis [gunzip_members] says what flate2's MultiGzDecoder does on a
   concatenation of members; the harness exercises the real decoder on python-made single-member, multi-member
   and BGZF (extra field) files cut anywhere, including inside a header.
   [good_rec]: the name is non-empty, has no LF, does not start with '>' or white space, does not end with white
   space; the sequence is non-empty and made of kept bytes (65..127: all letters).  Names are ASCII (see C16). *)
From Ragc Require Import Mach Consts_fasta Fasta Fasta_proofs.
Open Scope N_scope.

(* ---- 1. the reader undoes every rendering ---- *)
Theorem parse_render : forall w eol mask rs, (eol = eol_lf \/ eol = eol_crlf) -> forallb good_rec rs = true ->
  parse (render w eol mask rs) = Ok (map (fun r => (fst r, map cnv (snd r))) rs).
Proof. exact Fasta_proofs.parse_render_lemma. Qed.
Print Assumptions parse_render.

Theorem presentation_invariant : forall fn w eol mask w' eol' mask' rs,
  (eol = eol_lf \/ eol = eol_crlf) -> (eol' = eol_lf \/ eol' = eol_crlf) -> forallb good_rec rs = true ->
  contig_stream fn (render w eol mask rs) = contig_stream fn (render w' eol' mask' rs).
Proof. exact Fasta_proofs.presentation_invariant_lemma. Qed.
Print Assumptions presentation_invariant.

(* and what comes back on extraction is the normalised sequence *)
Theorem letters_read_back : forall s, forallb is_letter s = true -> out_letters (map cnv s) = norm s.
Proof. exact Fasta_proofs.letters_read_back_lemma. Qed.
Print Assumptions letters_read_back.

Example parse_render_nonvacuous :
  let rs := [([99;104;114;49;32;100], [65;67;71;84;78;82;89;65;67;71]); ([83;35;49;35;120], [116;103;99;97;120])] in
  forallb good_rec rs = true /\
  render 3 eol_crlf mask_mixed rs <> render 2000 eol_lf mask_upper rs /\
  parse (render 3 eol_crlf mask_mixed rs) = Ok [([99;104;114;49;32;100], [0;1;2;3;4;5;6;0;1;2]); ([83;35;49;35;120], [3;2;1;0;30])] /\
  parse (render 1 eol_lf mask_lower rs) = parse (render 2000 eol_lf mask_upper rs) /\
  render 3 eol_crlf mask_mixed [([97], [65;67;71;84;65])] = [62;97;13;10; 65;99;103;13;10; 84;97;13;10].
Proof. vm_compute. repeat split; try reflexivity. discriminate. Qed.

(* ---- 2. gzip, member boundaries anywhere ---- *)
Theorem gz_invariant : forall (gzip : list N -> list N) (gunzip : list N -> option (list N)),
  (forall xs, xs <> [] -> gunzip (concat (map gzip xs)) = Some (concat xs)) ->
  forall ngz nplain xs, xs <> [] -> is_gz_name ngz = true -> is_gz_name nplain = false ->
  file_bytes gunzip ngz (concat (map gzip xs)) = file_bytes gunzip nplain (concat xs).
Proof. exact Fasta_proofs.gz_invariant_lemma. Qed.
Print Assumptions gz_invariant.

Theorem gz_member_boundaries : forall (gzip : list N -> list N) (gunzip : list N -> option (list N)),
  (forall xs, xs <> [] -> gunzip (concat (map gzip xs)) = Some (concat xs)) ->
  forall ngz xs ys, xs <> [] -> ys <> [] -> concat xs = concat ys -> is_gz_name ngz = true ->
  file_bytes gunzip ngz (concat (map gzip xs)) = file_bytes gunzip ngz (concat (map gzip ys)).
Proof. exact Fasta_proofs.gz_boundaries_lemma. Qed.
Print Assumptions gz_member_boundaries.

(* the .gz file has another name: same sample name, and only the .gz one goes through the decoder *)
Theorem sample_name_gz_invariant : forall s,
  sample_name_of_file (s ++ ext_fa_gz) = sample_name_of_file (s ++ ext_fa) /\
  is_gz_name (s ++ ext_fa_gz) = true /\ is_gz_name (s ++ ext_fa) = false.
Proof. exact Fasta_proofs.sample_name_gz_lemma. Qed.
Print Assumptions sample_name_gz_invariant.

(* everything together: S.fa.gz holding any chunking of any rendering, versus S.fa holding any other rendering *)
Theorem create_input_invariant : forall (gzip : list N -> list N) (gunzip : list N -> option (list N)),
  (forall xs, xs <> [] -> gunzip (concat (map gzip xs)) = Some (concat xs)) ->
  forall s xs w eol mask w' eol' mask' rs,
  xs <> [] -> concat xs = render w' eol' mask' rs ->
  (eol = eol_lf \/ eol = eol_crlf) -> (eol' = eol_lf \/ eol' = eol_crlf) -> forallb good_rec rs = true ->
  input_stream gunzip (s ++ ext_fa_gz) (concat (map gzip xs)) = input_stream gunzip (s ++ ext_fa) (render w eol mask rs).
Proof. exact Fasta_proofs.create_input_invariant_lemma. Qed.
Print Assumptions create_input_invariant.

Example names_nonvacuous :   (* S1.fa, S1.fa.gz, S1.fasta, S1.fasta.gz, S1.fna.gz, x.fa.fa.gz *)
  map sample_name_of_file [[83;49;46;102;97]; [83;49;46;102;97;46;103;122]; [83;49;46;102;97;115;116;97];
                           [83;49;46;102;97;115;116;97;46;103;122]; [83;49;46;102;110;97;46;103;122];
                           [120;46;102;97;46;102;97;46;103;122]]
  = [[83;49]; [83;49]; [83;49]; [83;49]; [83;49;46;102;110;97]; [120]] /\
  map is_gz_name [[83;49;46;102;97]; [83;49;46;102;97;46;103;122]; [46;103;122]; [103;122]] = [false; true; false; false].
Proof. vm_compute. split; reflexivity. Qed.

(* ---- 3. one PanSN file versus one file per sample with the same headers ---- *)
(* reading a concatenation = concatenating the readings, when the first part ends with a newline (or is empty) and
   the second starts with '>' (or is empty); Err if either part is *)
Theorem parse_concat : forall t1 t2, ends_lf t1 -> starts_gt t2 -> parse (t1 ++ t2) = oapp (parse t1) (parse t2).
Proof. exact Fasta_proofs.parse_app. Qed.
Print Assumptions parse_concat.

(* [all_pansn t]: every contig of t has a header with at least two '#'.  Then the (sample, contig name, codes) stream
   of the files read one after the other equals the stream of their concatenation read as one file whatever the file
   names are: samples are named a#b by the header, contigs by the whole header, in both modes *)
Theorem streams_equal : forall fn files,
  Forall (fun ft => (ends_lf (snd ft) /\ starts_gt (snd ft)) /\ all_pansn (snd ft)) files ->
  stream_multi files = contig_stream fn (concat (map snd files)).
Proof. exact Fasta_proofs.stream_multi_concat. Qed.
Print Assumptions streams_equal.

(* hence the same archive view (sample list, contig lists, extracted letters; or failure in both) - provided the
   single file passes create's "samples sorted" check, the one documented difference between the two modes *)
Theorem pansn_vs_files : forall fn files,
  Forall (fun ft => (ends_lf (snd ft) /\ starts_gt (snd ft)) /\ all_pansn (snd ft)) files ->
  (forall cs, stream_multi files = Ok cs -> sorted_go None [] cs = true) ->
  create_view [(fn, concat (map snd files))] = create_view files.
Proof. exact Fasta_proofs.pansn_vs_files_lemma. Qed.
Print Assumptions pansn_vs_files.

(* the naming rule itself: with plain headers the sample is the file stem and the contig the header; with
   a#b#c headers the sample is a#b and the contig name the whole header a#b#c *)
Theorem pansn_naming : forall fn a b c, ~ In pansn_sep_byte a -> ~ In pansn_sep_byte b ->
  sample_for fn (a ++ pansn_sep_byte :: b ++ pansn_sep_byte :: c) = a ++ pansn_sep_byte :: b.
Proof. exact Fasta_proofs.sample_for_pansn. Qed.
Print Assumptions pansn_naming.

Theorem plain_naming : forall fn id, is_pansn id = false -> sample_for fn id = sample_name_of_file fn.
Proof. exact Fasta_proofs.sample_for_plain. Qed.
Print Assumptions plain_naming.

Example pansn_vs_files_nonvacuous :
  (* A#1.fa = ">A#1#c1\nACGT\n>A#1#c2\nGG\n", B#1.fa = ">B#1#c1\nACGA\n"; all.fa = their concatenation *)
  let f1 := [62;65;35;49;35;99;49;10;65;67;71;84;10;62;65;35;49;35;99;50;10;71;71;10] in
  let f2 := [62;66;35;49;35;99;49;10;65;67;71;65;10] in
  let files := [([65;35;49;46;102;97], f1); ([66;35;49;46;102;97], f2)] in
  stream_multi files = Ok [([65;35;49], [65;35;49;35;99;49], [0;1;2;3]); ([65;35;49], [65;35;49;35;99;50], [2;2]);
                           ([66;35;49], [66;35;49;35;99;49], [0;1;2;0])] /\
  (forall cs, stream_multi files = Ok cs -> sorted_go None [] cs = true) /\
  create_view [([97;108;108;46;102;97], f1 ++ f2)] = create_view files /\
  create_view files = Ok [([65;35;49], [([65;35;49;35;99;49], [65;67;71;84]); ([65;35;49;35;99;50], [71;71])]);
                          ([66;35;49], [([66;35;49;35;99;49], [65;67;71;65])])] /\
  (* the documented difference: a sample that comes back later is an error in single-file mode only *)
  create_view [([97;108;108;46;102;97], f1 ++ f2 ++ [62;65;35;49;35;99;51;10;84;10])] = Err /\
  (exists v, create_view (files ++ [([99;46;102;97], [62;65;35;49;35;99;51;10;84;10])]) = Ok v).
Proof.
  cbv zeta. split; [vm_compute; reflexivity|]. split.
  - intros cs H. vm_compute in H. inversion H. vm_compute. reflexivity.
  - split; [vm_compute; reflexivity|]. split; [vm_compute; reflexivity|]. split; [vm_compute; reflexivity|].
    eexists. vm_compute. reflexivity.
Qed.
