(* C19G (registered under C19) - the FASTA->gzip layer joined with the user-level statement of C17G: `ragc create` over input
   FILE BYTES.

   props/C17G.v states create -> getset / listset / listctg in terms of the input TEXTS: its [create_pipe] takes the bytes
   after decompression.  props/C19.v (Fasta.v) says how a file becomes a text: [Fasta.file_bytes gunzip name data] is
   [gunzip data] when the file NAME has the extension gz (GenomeIO::open, MultiFileIterator::open_file:
   `path.extension() == Some("gz")` -> flate2 MultiGzDecoder) and the data themselves otherwise - the code and the model
   detect gzip by name, not by magic bytes - and [Fasta.input_stream] is that text through the reader and the naming rule
   (Err when the decoder fails).  model/CliGz.v joins the two:
     create_pipe_files .. gunzip files     CliGrand.create_pipe with Fasta.input_stream (C19's entry point) per file in place of
                                           Fasta.contig_stream on a text; create_pipe_files_io the same over C15's sink
     file_texts gunzip files               the decompressed texts under the names of the files; None when a decoder fails
     same_input gzip f f'                  f, f' present one input: equal; or a *.gz file holding ANY member split of a text
                                           versus a plain file holding the text; or two *.gz files holding two member splits of
                                           one text; names may differ as long as the derived sample name is the same
   and here:
     1. create_pipe_files_is_create_pipe   on files whose decoders succeed create_pipe_files IS C17G's create_pipe on the
                                           decompressed texts (any gunzip function); plain-named files are their own texts
     2. create_depends_on_input_stream     what create writes depends on a file only through Fasta.input_stream (C19's modelling
                                           remark, now a theorem about create_pipe_files); gz_transparent / gz_transparent_all /
                                           gz_transparent_fa: under C19's oracle hypothesis gunzip_members, replacing S.fa.gz
                                           (any member boundaries) by S.fa gives the same pipeline outcome - byte-identical
                                           archive, same exit status, same file system - and that outcome is C17G's create_pipe
                                           on the text
     3. cli_create_files_then_getset ..    every create-then-query theorem of C17G restated over input file bytes: the answers
                                           are spelled out from the DECOMPRESSED texts
     4. gz_refusal                         a *.gz input the decoder rejects: create exits NonZero, prints nothing, touches no path
                                           but the output path; create_zero_decompressed: exit Zero implies every decoder succeeded
   Hypotheses: exactly C17G's (on the decompressed texts) and, for (2) only, C19's [gunzip_members].  No hypothesis on gunzip is
   needed for (1), (3), (4).
   What the models do NOT carry (so it is not claimed): that a refused input leaves NO archive at the output path.  In Cli.v /
   CliGrand.v what a pipeline that fails before any write fault leaves there is the free parameter [leftover] (C15's Sink.v
   models write faults of the output file, not failures of the input side); gz_refusal says: exactly [leftover] if Some,
   nothing changed if None. *)
From Coq Require Import Permutation Lia ZifyBool ZifyN ZifyNat.
From Ragc Require Import Mach Consts_agcv3 Kmer Segment Pipeline SegReader GroupStore Collection Container AgcV3 ModelCreate.
From Ragc Require Import Pipeline_proofs Compose_codecs Compose_proofs AgcV3_compose Grand_proofs.
From Ragc Require Cli Fasta Sink SegCompress_proofs.
From Ragc Require Import CliGrand CliGz.
From Ragc Require CliGz_proofs.
From Ragc Require C01 C01G C17G.
Open Scope N_scope.

(* ======================================================================== the definitions the statements use, pinned *)
Example create_pipe_files_def : forall zc ecn k mml segsize level spl dec grp sched gops fti leftover gunzip pol cap files name data,
  Fasta.file_bytes gunzip name data = (if Fasta.is_gz_name name then gunzip data else Some data) /\
  Fasta.is_gz_name name =
    match Fasta.file_extension name with Some e => Fasta.bytes_eqb e [103%N; 122%N] | None => false end /\
  Fasta.input_stream gunzip name data =
    match Fasta.file_bytes gunzip name data with Some t => Fasta.contig_stream name t | None => Err end /\
  fb_stream gunzip files =
    match files with
    | [(n, d)] => obnd (Fasta.input_stream gunzip n d) (fun cs => if Fasta.sorted_go None [] cs then Ok cs else Err)
    | _ => fb_stream_multi gunzip files
    end /\
  fb_stream_multi gunzip ((name, data) :: files) = Fasta.oapp (Fasta.input_stream gunzip name data) (fb_stream_multi gunzip files) /\
  fb_stream_multi gunzip [] = Ok [] /\
  create_pipe_files zc ecn k mml segsize level spl dec grp sched gops fti leftover gunzip files =
    match obnd (fb_stream gunzip files) (Fasta.collect []) with
    | Ok arch =>
      match model_create zc ecn k mml segsize level spl dec grp sched gops fti arch with
      | Ok bytes => Cli.PipeFinalized bytes
      | _ => Cli.PipeFail leftover
      end
    | _ => Cli.PipeFail leftover
    end /\
  create_pipe_files_io zc ecn k mml segsize level spl dec grp sched gops fti leftover gunzip pol cap files =
    match obnd (fb_stream gunzip files) (Fasta.collect []) with
    | Ok arch =>
      match model_build zc ecn k mml segsize level spl dec grp sched gops fti arch with
      | Ok b =>
        let r := Sink.main_io Sink.code_sites (Sink.pipeline_state pol cap (pre_finalize b)) in
        match snd r with
        | Sink.ExitZero => Cli.PipeFinalized (Sink.ar_file (fst r))
        | Sink.ExitNonZero => Cli.PipeFail (Some (Sink.ar_file (fst r)))
        end
      | _ => Cli.PipeFail leftover
      end
    | _ => Cli.PipeFail leftover
    end /\
  file_texts gunzip ((name, data) :: files) =
    match Fasta.file_bytes gunzip name data, file_texts gunzip files with
    | Some t, Some ts => Some ((name, t) :: ts)
    | _, _ => None
    end /\
  file_texts gunzip [] = Some [].
Proof. intros. repeat split; try reflexivity; destruct files as [|[n d] [|f2 fs]]; reflexivity. Qed.

(* ======================================================================== 1. files -> decompressed texts *)
(* whatever the decoder is: when it accepts every *.gz input, create over the file bytes IS C17G's create over the
   decompressed texts (same names); so is the variant over C15's fallible output file *)
Theorem create_pipe_files_is_create_pipe :
  forall zc ecn k mml segsize level spl dec grp sched gops fti leftover gunzip files texts,
  file_texts gunzip files = Some texts ->
  create_pipe_files zc ecn k mml segsize level spl dec grp sched gops fti leftover gunzip files = create_pipe zc ecn k mml segsize level spl dec grp sched gops fti leftover texts.
Proof. exact CliGz_proofs.create_pipe_files_texts_proof. Qed.
Print Assumptions create_pipe_files_is_create_pipe.

Theorem create_pipe_files_io_is_create_pipe_io :
  forall zc ecn k mml segsize level spl dec grp sched gops fti leftover gunzip pol cap files texts,
  file_texts gunzip files = Some texts ->
  create_pipe_files_io zc ecn k mml segsize level spl dec grp sched gops fti leftover gunzip pol cap files = create_pipe_io zc ecn k mml segsize level spl dec grp sched gops fti leftover pol cap texts.
Proof. exact CliGz_proofs.create_pipe_files_io_texts_proof. Qed.
Print Assumptions create_pipe_files_io_is_create_pipe_io.

(* files without the extension gz never reach the decoder: C17G's create_pipe is the special case *)
Theorem create_pipe_files_plain :
  forall zc ecn k mml segsize level spl dec grp sched gops fti leftover gunzip files,
  Forall (fun f => Fasta.is_gz_name (fst f) = false) files ->
  create_pipe_files zc ecn k mml segsize level spl dec grp sched gops fti leftover gunzip files = create_pipe zc ecn k mml segsize level spl dec grp sched gops fti leftover files.
Proof. exact CliGz_proofs.create_pipe_files_plain_proof. Qed.
Print Assumptions create_pipe_files_plain.

(* ======================================================================== 2. gzip is transparent *)
(* what create writes depends on an input file only through Fasta.input_stream (props/C19.v says so about how the model
   is built; for create_pipe_files it is a theorem) *)
Theorem create_depends_on_input_stream :
  forall zc ecn k mml segsize level spl dec grp sched gops fti leftover gunzip pol cap fs fs',
  Forall2 (fun f f' => Fasta.input_stream gunzip (fst f) (snd f) = Fasta.input_stream gunzip (fst f') (snd f')) fs fs' ->
  create_pipe_files zc ecn k mml segsize level spl dec grp sched gops fti leftover gunzip fs = create_pipe_files zc ecn k mml segsize level spl dec grp sched gops fti leftover gunzip fs' /\
  create_pipe_files_io zc ecn k mml segsize level spl dec grp sched gops fti leftover gunzip pol cap fs = create_pipe_files_io zc ecn k mml segsize level spl dec grp sched gops fti leftover gunzip pol cap fs'.
Proof. exact CliGz_proofs.create_depends_on_input_stream_proof. Qed.
Print Assumptions create_depends_on_input_stream.

(* GZ TRANSPARENT.  Under C19's oracle hypothesis: among the inputs [pre ++ _ :: post], a file named ngz (extension gz) holding
   the gzip members of ANY split xs of a text t = concat xs, versus a file named nplain (another extension) with the same
   derived sample name holding t:
   (a) the same pipeline outcome (archive bytes / failure);
   (b) with the decompressed texts of the other inputs, that outcome is C17G's create_pipe on the texts;
   (c) if no other input is *.gz, it is C17G's create_pipe on the plain file list itself;
   (d) the modelled `ragc create` returns the same exit status and the same process state (file system with the archive, stdout) *)
Theorem gz_transparent :
  forall (gzip : list N -> list N) (gunzip : list N -> option (list N)),
  (forall xs, xs <> [] -> gunzip (concat (map gzip xs)) = Some (concat xs)) ->
  forall zc ecn k mml segsize level spl dec grp sched gops fti leftover pre post ngz nplain xs,
  xs <> [] -> Fasta.is_gz_name ngz = true -> Fasta.is_gz_name nplain = false ->
  Fasta.sample_name_of_file ngz = Fasta.sample_name_of_file nplain ->
  let gzfiles := pre ++ (ngz, concat (map gzip xs)) :: post in
  let plfiles := pre ++ (nplain, concat xs) :: post in
  let cpf := create_pipe_files zc ecn k mml segsize level spl dec grp sched gops fti leftover gunzip in
  cpf gzfiles = cpf plfiles /\
  (forall tpre tpost, file_texts gunzip pre = Some tpre -> file_texts gunzip post = Some tpost ->
     cpf gzfiles = create_pipe zc ecn k mml segsize level spl dec grp sched gops fti leftover (tpre ++ (nplain, concat xs) :: tpost)) /\
  (Forall (fun f => Fasta.is_gz_name (fst f) = false) (pre ++ post) ->
     cpf gzfiles = create_pipe zc ecn k mml segsize level spl dec grp sched gops fti leftover plfiles) /\
  (forall zd tmp f output st,
     Cli.run_main (cli_decode zd) tmp (Cli.CmdCreate f output (cpf gzfiles)) st =
     Cli.run_main (cli_decode zd) tmp (Cli.CmdCreate f output (cpf plfiles)) st).
Proof. exact CliGz_proofs.gz_transparent_proof. Qed.
Print Assumptions gz_transparent.

(* any number of inputs presented differently (same_input: same file / gz vs plain / plain vs gz / two member splits) *)
Theorem gz_transparent_all :
  forall (gzip : list N -> list N) (gunzip : list N -> option (list N)),
  (forall xs, xs <> [] -> gunzip (concat (map gzip xs)) = Some (concat xs)) ->
  forall zc ecn k mml segsize level spl dec grp sched gops fti leftover pol cap fs fs',
  Forall2 (same_input gzip) fs fs' ->
  create_pipe_files zc ecn k mml segsize level spl dec grp sched gops fti leftover gunzip fs = create_pipe_files zc ecn k mml segsize level spl dec grp sched gops fti leftover gunzip fs' /\
  create_pipe_files_io zc ecn k mml segsize level spl dec grp sched gops fti leftover gunzip pol cap fs = create_pipe_files_io zc ecn k mml segsize level spl dec grp sched gops fti leftover gunzip pol cap fs'.
Proof. exact CliGz_proofs.gz_transparent_all_proof. Qed.
Print Assumptions gz_transparent_all.

(* the usual names: S.fa.gz versus S.fa (C19 sample_name_gz_invariant supplies the three name facts) *)
Theorem gz_transparent_fa :
  forall (gzip : list N -> list N) (gunzip : list N -> option (list N)),
  (forall xs, xs <> [] -> gunzip (concat (map gzip xs)) = Some (concat xs)) ->
  forall zc ecn k mml segsize level spl dec grp sched gops fti leftover pre post s xs,
  xs <> [] ->
  let gzfiles := pre ++ (s ++ [46%N; 102%N; 97%N; 46%N; 103%N; 122%N], concat (map gzip xs)) :: post in
  let plfiles := pre ++ (s ++ [46%N; 102%N; 97%N], concat xs) :: post in
  create_pipe_files zc ecn k mml segsize level spl dec grp sched gops fti leftover gunzip gzfiles = create_pipe_files zc ecn k mml segsize level spl dec grp sched gops fti leftover gunzip plfiles /\
  (Forall (fun f => Fasta.is_gz_name (fst f) = false) (pre ++ post) ->
   create_pipe_files zc ecn k mml segsize level spl dec grp sched gops fti leftover gunzip gzfiles = create_pipe zc ecn k mml segsize level spl dec grp sched gops fti leftover plfiles).
Proof. exact CliGz_proofs.gz_transparent_fa_proof. Qed.
Print Assumptions gz_transparent_fa.

(* ======================================================================== 3. C17G over input file bytes *)
(* [files] are (name, FILE BYTES); [texts] their decompressed texts (file_texts gunzip files = Some texts; by
   create_zero_decompressed below such texts exist as soon as create exits Zero).  Everything else is C17G's statement with the
   texts in the place of its input: hypotheses of C01G text_roundtrip on the texts, and the answers - expected_getset /
   expected_listset / expected_listctg - spelled out from the records of the DECOMPRESSED texts. *)
(* GETSET, stdout *)
Theorem cli_create_files_then_getset :
  forall (zc : N -> list N -> list N) (zd : list N -> option (list N)),
  (forall l x, zd (zc l x) = Some x) -> (forall l x, zc l x <> []) ->
  forall ecn k mml segsize level spl dec grp sched gops fti leftover gunzip files texts arch,
  file_texts gunzip files = Some texts ->
  1%N <= k <= 32%N -> 4%N <= mml -> mml < two32 -> segsize < two32 -> segsize + k <= 2147483648%N ->
  all_first_line_ok texts ->
  text_samples texts = Ok arch ->
  Forall (fun s => fst s <> []) arch ->
  (forall s c data, In (s, c, data) (pushes_of arch) -> 2%N * lenN data + mml < 2147483648%N) ->
  (forall i s c data j sg, nth_error (pushes_of arch) i = Some (s, c, data) ->
     nth_error (split_at_splitters_with_size data spl k segsize) j = Some sg ->
     decision_okb (N.to_nat k) sg (dec i j) = true) ->
  (forall i part, grp i part < two32) ->
  (forall l, Permutation l (sched l)) ->
  ops_carry (all_emit k spl segsize dec grp 0%nat (pushes_of arch)) gops ->
  forall b : built,
  model_build zc ecn k mml segsize level spl dec grp sched gops fti arch = Ok b ->
  catalogue_in_dom zc segsize k (mc_cat_of (b_coll b)) ->
  parts_meta_u64 (b_wops b) ->
  lenN (b_file b) <= spec_max_off ->
  forall (f : Cli.create_flags) (output tmp : Cli.str) (st st' : Cli.pstate),
  Cli.run_main (cli_decode zd) tmp
    (Cli.CmdCreate f output (create_pipe_files zc ecn k mml segsize level spl dec grp sched gops fti leftover gunzip files)) st
    = (Cli.Zero, st') ->
  forall names : list Cli.str,
  names <> [] -> Forall (fun n => In n (input_samples texts)) names ->
  Cli.creatable (Cli.p_fs st) tmp = true -> tmp <> output ->
  exists st'', Cli.run_main (cli_decode zd) tmp (Cli.CmdGetset output names None None) st' = (Cli.Zero, st'') /\
    Cli.p_stdout st'' = Cli.p_stdout st ++ expected_getset texts names /\
    Cli.fs_read (Cli.p_fs st'') tmp = None /\
    (forall q, q <> tmp -> Cli.fs_read (Cli.p_fs st'') q = Cli.fs_read (Cli.p_fs st') q).
Proof. exact CliGz_proofs.Restated.cli_create_files_then_getset_proof. Qed.
Print Assumptions cli_create_files_then_getset.

(* GETSET, -o file *)
Theorem cli_create_files_then_getset_file :
  forall (zc : N -> list N -> list N) (zd : list N -> option (list N)),
  (forall l x, zd (zc l x) = Some x) -> (forall l x, zc l x <> []) ->
  forall ecn k mml segsize level spl dec grp sched gops fti leftover gunzip files texts arch,
  file_texts gunzip files = Some texts ->
  1%N <= k <= 32%N -> 4%N <= mml -> mml < two32 -> segsize < two32 -> segsize + k <= 2147483648%N ->
  all_first_line_ok texts ->
  text_samples texts = Ok arch ->
  Forall (fun s => fst s <> []) arch ->
  (forall s c data, In (s, c, data) (pushes_of arch) -> 2%N * lenN data + mml < 2147483648%N) ->
  (forall i s c data j sg, nth_error (pushes_of arch) i = Some (s, c, data) ->
     nth_error (split_at_splitters_with_size data spl k segsize) j = Some sg ->
     decision_okb (N.to_nat k) sg (dec i j) = true) ->
  (forall i part, grp i part < two32) ->
  (forall l, Permutation l (sched l)) ->
  ops_carry (all_emit k spl segsize dec grp 0%nat (pushes_of arch)) gops ->
  forall b : built,
  model_build zc ecn k mml segsize level spl dec grp sched gops fti arch = Ok b ->
  catalogue_in_dom zc segsize k (mc_cat_of (b_coll b)) ->
  parts_meta_u64 (b_wops b) ->
  lenN (b_file b) <= spec_max_off ->
  forall (f : Cli.create_flags) (output tmp : Cli.str) (st st' : Cli.pstate),
  Cli.run_main (cli_decode zd) tmp
    (Cli.CmdCreate f output (create_pipe_files zc ecn k mml segsize level spl dec grp sched gops fti leftover gunzip files)) st
    = (Cli.Zero, st') ->
  forall (names : list Cli.str) (out : Cli.str),
  names <> [] -> Forall (fun n => In n (input_samples texts)) names ->
  Cli.creatable (Cli.p_fs st) tmp = true -> Cli.creatable (Cli.p_fs st) out = true ->
  out <> tmp -> tmp <> output -> out <> output ->
  exists st'', Cli.run_main (cli_decode zd) tmp (Cli.CmdGetset output names None (Some out)) st' = (Cli.Zero, st'') /\
    Cli.fs_read (Cli.p_fs st'') out = Some (expected_getset texts names) /\
    Cli.p_stdout st'' = Cli.p_stdout st /\
    Cli.fs_read (Cli.p_fs st'') tmp = None /\
    (forall q, q <> tmp -> q <> out -> Cli.fs_read (Cli.p_fs st'') q = Cli.fs_read (Cli.p_fs st') q).
Proof. exact CliGz_proofs.Restated.cli_create_files_then_getset_file_proof. Qed.
Print Assumptions cli_create_files_then_getset_file.

(* exit codes tell the truth about the request *)
Theorem cli_files_getset_zero_iff :
  forall (zc : N -> list N -> list N) (zd : list N -> option (list N)),
  (forall l x, zd (zc l x) = Some x) -> (forall l x, zc l x <> []) ->
  forall ecn k mml segsize level spl dec grp sched gops fti leftover gunzip files texts arch,
  file_texts gunzip files = Some texts ->
  1%N <= k <= 32%N -> 4%N <= mml -> mml < two32 -> segsize < two32 -> segsize + k <= 2147483648%N ->
  all_first_line_ok texts ->
  text_samples texts = Ok arch ->
  Forall (fun s => fst s <> []) arch ->
  (forall s c data, In (s, c, data) (pushes_of arch) -> 2%N * lenN data + mml < 2147483648%N) ->
  (forall i s c data j sg, nth_error (pushes_of arch) i = Some (s, c, data) ->
     nth_error (split_at_splitters_with_size data spl k segsize) j = Some sg ->
     decision_okb (N.to_nat k) sg (dec i j) = true) ->
  (forall i part, grp i part < two32) ->
  (forall l, Permutation l (sched l)) ->
  ops_carry (all_emit k spl segsize dec grp 0%nat (pushes_of arch)) gops ->
  forall b : built,
  model_build zc ecn k mml segsize level spl dec grp sched gops fti arch = Ok b ->
  catalogue_in_dom zc segsize k (mc_cat_of (b_coll b)) ->
  parts_meta_u64 (b_wops b) ->
  lenN (b_file b) <= spec_max_off ->
  forall (f : Cli.create_flags) (output tmp : Cli.str) (st st' : Cli.pstate),
  Cli.run_main (cli_decode zd) tmp
    (Cli.CmdCreate f output (create_pipe_files zc ecn k mml segsize level spl dec grp sched gops fti leftover gunzip files)) st
    = (Cli.Zero, st') ->
  forall names : list Cli.str,
  names <> [] -> Cli.creatable (Cli.p_fs st) tmp = true -> tmp <> output ->
  (fst (Cli.run_main (cli_decode zd) tmp (Cli.CmdGetset output names None None) st') = Cli.Zero <->
   Forall (fun n => In n (input_samples texts)) names).
Proof. exact CliGz_proofs.Restated.cli_files_getset_zero_iff_proof. Qed.
Print Assumptions cli_files_getset_zero_iff.

(* LISTSET *)
Theorem cli_files_listset_after_create :
  forall (zc : N -> list N -> list N) (zd : list N -> option (list N)),
  (forall l x, zd (zc l x) = Some x) -> (forall l x, zc l x <> []) ->
  forall ecn k mml segsize level spl dec grp sched gops fti leftover gunzip files texts arch,
  file_texts gunzip files = Some texts ->
  1%N <= k <= 32%N -> 4%N <= mml -> mml < two32 -> segsize < two32 -> segsize + k <= 2147483648%N ->
  all_first_line_ok texts ->
  text_samples texts = Ok arch ->
  Forall (fun s => fst s <> []) arch ->
  (forall s c data, In (s, c, data) (pushes_of arch) -> 2%N * lenN data + mml < 2147483648%N) ->
  (forall i s c data j sg, nth_error (pushes_of arch) i = Some (s, c, data) ->
     nth_error (split_at_splitters_with_size data spl k segsize) j = Some sg ->
     decision_okb (N.to_nat k) sg (dec i j) = true) ->
  (forall i part, grp i part < two32) ->
  (forall l, Permutation l (sched l)) ->
  ops_carry (all_emit k spl segsize dec grp 0%nat (pushes_of arch)) gops ->
  forall b : built,
  model_build zc ecn k mml segsize level spl dec grp sched gops fti arch = Ok b ->
  catalogue_in_dom zc segsize k (mc_cat_of (b_coll b)) ->
  parts_meta_u64 (b_wops b) ->
  lenN (b_file b) <= spec_max_off ->
  forall (f : Cli.create_flags) (output tmp : Cli.str) (st st' : Cli.pstate),
  Cli.run_main (cli_decode zd) tmp
    (Cli.CmdCreate f output (create_pipe_files zc ecn k mml segsize level spl dec grp sched gops fti leftover gunzip files)) st
    = (Cli.Zero, st') ->
  forall o : option Cli.str,
  (forall p, o = Some p -> Cli.creatable (Cli.p_fs st) p = true /\ p <> output) ->
  exists st'', Cli.run_main (cli_decode zd) tmp (Cli.CmdListset output o) st' = (Cli.Zero, st'') /\
    match o with
    | None => Cli.p_stdout st'' = Cli.p_stdout st ++ expected_listset texts /\ Cli.p_fs st'' = Cli.p_fs st'
    | Some p => Cli.fs_read (Cli.p_fs st'') p = Some (expected_listset texts) /\ Cli.p_stdout st'' = Cli.p_stdout st /\
                (forall q, p <> q -> Cli.fs_read (Cli.p_fs st'') q = Cli.fs_read (Cli.p_fs st') q)
    end.
Proof. exact CliGz_proofs.Restated.cli_files_listset_after_create_proof. Qed.
Print Assumptions cli_files_listset_after_create.

(* LISTCTG *)
Theorem cli_files_listctg_after_create :
  forall (zc : N -> list N -> list N) (zd : list N -> option (list N)),
  (forall l x, zd (zc l x) = Some x) -> (forall l x, zc l x <> []) ->
  forall ecn k mml segsize level spl dec grp sched gops fti leftover gunzip files texts arch,
  file_texts gunzip files = Some texts ->
  1%N <= k <= 32%N -> 4%N <= mml -> mml < two32 -> segsize < two32 -> segsize + k <= 2147483648%N ->
  all_first_line_ok texts ->
  text_samples texts = Ok arch ->
  Forall (fun s => fst s <> []) arch ->
  (forall s c data, In (s, c, data) (pushes_of arch) -> 2%N * lenN data + mml < 2147483648%N) ->
  (forall i s c data j sg, nth_error (pushes_of arch) i = Some (s, c, data) ->
     nth_error (split_at_splitters_with_size data spl k segsize) j = Some sg ->
     decision_okb (N.to_nat k) sg (dec i j) = true) ->
  (forall i part, grp i part < two32) ->
  (forall l, Permutation l (sched l)) ->
  ops_carry (all_emit k spl segsize dec grp 0%nat (pushes_of arch)) gops ->
  forall b : built,
  model_build zc ecn k mml segsize level spl dec grp sched gops fti arch = Ok b ->
  catalogue_in_dom zc segsize k (mc_cat_of (b_coll b)) ->
  parts_meta_u64 (b_wops b) ->
  lenN (b_file b) <= spec_max_off ->
  forall (f : Cli.create_flags) (output tmp : Cli.str) (st st' : Cli.pstate),
  Cli.run_main (cli_decode zd) tmp
    (Cli.CmdCreate f output (create_pipe_files zc ecn k mml segsize level spl dec grp sched gops fti leftover gunzip files)) st
    = (Cli.Zero, st') ->
  forall (names : list Cli.str) (o : option Cli.str),
  Forall (fun n => In n (input_samples texts)) names ->
  (forall p, o = Some p -> Cli.creatable (Cli.p_fs st) p = true /\ p <> output) ->
  exists st'', Cli.run_main (cli_decode zd) tmp (Cli.CmdListctg output names o) st' = (Cli.Zero, st'') /\
    match o with
    | None => Cli.p_stdout st'' = Cli.p_stdout st ++ expected_listctg texts names /\ Cli.p_fs st'' = Cli.p_fs st'
    | Some p => Cli.fs_read (Cli.p_fs st'') p = Some (expected_listctg texts names) /\ Cli.p_stdout st'' = Cli.p_stdout st /\
                (forall q, p <> q -> Cli.fs_read (Cli.p_fs st'') q = Cli.fs_read (Cli.p_fs st') q)
    end.
Proof. exact CliGz_proofs.Restated.cli_files_listctg_after_create_proof. Qed.
Print Assumptions cli_files_listctg_after_create.

(* over C15's fallible output file: exit Zero => the bytes on disk are model_build's and decode to the parsed decompressed
   input; a write limit below the archive size => NonZero with at most [limit] bytes left *)
Theorem cli_create_files_fault_or_roundtrip :
  forall (zc : N -> list N -> list N) (zd : list N -> option (list N)),
  (forall l x, zd (zc l x) = Some x) -> (forall l x, zc l x <> []) ->
  forall ecn k mml segsize level spl dec grp sched gops fti leftover gunzip files texts arch,
  file_texts gunzip files = Some texts ->
  1%N <= k <= 32%N -> 4%N <= mml -> mml < two32 -> segsize < two32 -> segsize + k <= 2147483648%N ->
  text_samples texts = Ok arch ->
  Forall (fun s => fst s <> []) arch ->
  (forall s c data, In (s, c, data) (pushes_of arch) -> 2%N * lenN data + mml < 2147483648%N) ->
  (forall i s c data j sg, nth_error (pushes_of arch) i = Some (s, c, data) ->
     nth_error (split_at_splitters_with_size data spl k segsize) j = Some sg ->
     decision_okb (N.to_nat k) sg (dec i j) = true) ->
  (forall i part, grp i part < two32) ->
  (forall l, Permutation l (sched l)) ->
  ops_carry (all_emit k spl segsize dec grp 0%nat (pushes_of arch)) gops ->
  forall b : built,
  model_build zc ecn k mml segsize level spl dec grp sched gops fti arch = Ok b ->
  catalogue_in_dom zc segsize k (mc_cat_of (b_coll b)) ->
  parts_meta_u64 (b_wops b) ->
  lenN (b_file b) <= spec_max_off ->
  forall (cap : N) (f : Cli.create_flags) (output tmp : Cli.str) (st : Cli.pstate),
  (forall pol st',
     Cli.run_main (cli_decode zd) tmp
       (Cli.CmdCreate f output (create_pipe_files_io zc ecn k mml segsize level spl dec grp sched gops fti leftover gunzip pol cap files)) st
       = (Cli.Zero, st') ->
     create_pipe_files_io zc ecn k mml segsize level spl dec grp sched gops fti leftover gunzip pol cap files =
       create_pipe_files zc ecn k mml segsize level spl dec grp sched gops fti leftover gunzip files /\
     Cli.fs_read (Cli.p_fs st') output = Some (b_file b) /\ Cli.p_stdout st' = Cli.p_stdout st /\
     decode zd (b_file b) = Ok arch) /\
  (forall partial limit, limit < lenN (b_file b) ->
     exists st',
       Cli.run_main (cli_decode zd) tmp
         (Cli.CmdCreate f output (create_pipe_files_io zc ecn k mml segsize level spl dec grp sched gops fti leftover gunzip
                                                 (Sink.limit_policy partial limit) cap files)) st
       = (Cli.NonZero, st') /\
       Cli.p_stdout st' = Cli.p_stdout st /\
       (forall q, q <> output -> Cli.fs_read (Cli.p_fs st') q = Cli.fs_read (Cli.p_fs st) q) /\
       ((forall c nt cg, Cli.create_dispatch f <> Cli.DProceed c nt cg) -> st' = st) /\
       (forall c nt cg, Cli.create_dispatch f = Cli.DProceed c nt cg ->
          exists lo, Cli.fs_read (Cli.p_fs st') output = Some lo /\ lenN lo <= limit)).
Proof. exact CliGz_proofs.Restated.cli_create_files_fault_or_roundtrip_proof. Qed.
Print Assumptions cli_create_files_fault_or_roundtrip.

(* and getset after a create over the fallible file *)
Theorem cli_create_files_io_then_getset :
  forall (zc : N -> list N -> list N) (zd : list N -> option (list N)),
  (forall l x, zd (zc l x) = Some x) -> (forall l x, zc l x <> []) ->
  forall ecn k mml segsize level spl dec grp sched gops fti leftover gunzip files texts arch,
  file_texts gunzip files = Some texts ->
  1%N <= k <= 32%N -> 4%N <= mml -> mml < two32 -> segsize < two32 -> segsize + k <= 2147483648%N ->
  all_first_line_ok texts ->
  text_samples texts = Ok arch ->
  Forall (fun s => fst s <> []) arch ->
  (forall s c data, In (s, c, data) (pushes_of arch) -> 2%N * lenN data + mml < 2147483648%N) ->
  (forall i s c data j sg, nth_error (pushes_of arch) i = Some (s, c, data) ->
     nth_error (split_at_splitters_with_size data spl k segsize) j = Some sg ->
     decision_okb (N.to_nat k) sg (dec i j) = true) ->
  (forall i part, grp i part < two32) ->
  (forall l, Permutation l (sched l)) ->
  ops_carry (all_emit k spl segsize dec grp 0%nat (pushes_of arch)) gops ->
  forall b : built,
  model_build zc ecn k mml segsize level spl dec grp sched gops fti arch = Ok b ->
  catalogue_in_dom zc segsize k (mc_cat_of (b_coll b)) ->
  parts_meta_u64 (b_wops b) ->
  lenN (b_file b) <= spec_max_off ->
  forall (pol : Sink.policy) (cap : N) (f : Cli.create_flags) (output tmp : Cli.str) (st st' : Cli.pstate)
         (names : list Cli.str),
  Cli.run_main (cli_decode zd) tmp
    (Cli.CmdCreate f output (create_pipe_files_io zc ecn k mml segsize level spl dec grp sched gops fti leftover gunzip pol cap files)) st
    = (Cli.Zero, st') ->
  names <> [] -> Forall (fun n => In n (input_samples texts)) names ->
  Cli.creatable (Cli.p_fs st) tmp = true -> tmp <> output ->
  exists st'', Cli.run_main (cli_decode zd) tmp (Cli.CmdGetset output names None None) st' = (Cli.Zero, st'') /\
    Cli.p_stdout st'' = Cli.p_stdout st ++ expected_getset texts names /\
    Cli.fs_read (Cli.p_fs st'') tmp = None /\
    (forall q, q <> tmp -> Cli.fs_read (Cli.p_fs st'') q = Cli.fs_read (Cli.p_fs st') q).
Proof. exact CliGz_proofs.Restated.cli_create_files_io_then_getset_proof. Qed.
Print Assumptions cli_create_files_io_then_getset.

(* ======================================================================== 4. refusal *)
(* an input with the extension gz that the decoder rejects (truncated member, bad CRC, plain text under a *.gz name): whatever
   the other inputs are, the pipeline fails - also over C15's sink, which is never reached - and the modelled `ragc create`
   exits NonZero, prints nothing, leaves every path but the output path as it was, and at the output path exactly what the
   free parameter [leftover] says (nothing changed at all when it is None or when the argument checks already failed).
   Whether the real binary has created / left a partial archive there by then is NOT carried by Cli.v / CliGrand.v / Sink.v.
   (Observed on the release binary: a refused FIRST input - read completely by the splitter pass before the output file is
   opened - leaves no file, [leftover = None]; a refused later input leaves a 0-byte file, [leftover = Some []].) *)
Theorem gz_refusal :
  forall zc ecn k mml segsize level spl dec grp sched gops fti leftover gunzip files n d,
  In (n, d) files -> Fasta.is_gz_name n = true -> gunzip d = None ->
  create_pipe_files zc ecn k mml segsize level spl dec grp sched gops fti leftover gunzip files = Cli.PipeFail leftover /\
  (forall pol cap,
     create_pipe_files_io zc ecn k mml segsize level spl dec grp sched gops fti leftover gunzip pol cap files = Cli.PipeFail leftover) /\
  (forall zd tmp f output st,
     exists st', Cli.run_main (cli_decode zd) tmp
                   (Cli.CmdCreate f output
                      (create_pipe_files zc ecn k mml segsize level spl dec grp sched gops fti leftover gunzip files)) st
                 = (Cli.NonZero, st') /\
       Cli.p_stdout st' = Cli.p_stdout st /\
       (forall q, q <> output -> Cli.fs_read (Cli.p_fs st') q = Cli.fs_read (Cli.p_fs st) q) /\
       (leftover = None -> st' = st) /\
       ((forall c nt cg, Cli.create_dispatch f <> Cli.DProceed c nt cg) -> st' = st) /\
       (forall lo c nt cg, leftover = Some lo -> Cli.create_dispatch f = Cli.DProceed c nt cg ->
          Cli.fs_read (Cli.p_fs st') output = Some lo)).
Proof. exact CliGz_proofs.gz_refusal_proof. Qed.
Print Assumptions gz_refusal.

(* conversely: exit Zero means every decoder succeeded - the decompressed texts of section 3 exist, one per file, under the
   same names, each the file's bytes through C19's file_bytes *)
Theorem create_zero_decompressed :
  forall zc ecn k mml segsize level spl dec grp sched gops fti leftover gunzip files zd tmp f output st st',
  Cli.run_main (cli_decode zd) tmp
    (Cli.CmdCreate f output (create_pipe_files zc ecn k mml segsize level spl dec grp sched gops fti leftover gunzip files)) st
    = (Cli.Zero, st') ->
  exists texts, file_texts gunzip files = Some texts /\
    Forall2 (fun f t => fst t = fst f /\ Fasta.file_bytes gunzip (fst f) (snd f) = Some (snd t)) files texts.
Proof. exact CliGz_proofs.create_zero_decompressed_proof. Qed.
Print Assumptions create_zero_decompressed.

(* ======================================================================== non-vacuity
   toy gzip (model/CliGz.v): a member = 1f 8b, every data byte c as 01 c, then 00; the toy decoder reads members to the end of
   the file and rejects everything else.  It satisfies C19's oracle hypothesis for EVERY member list (toy_gzip_meets_oracle).
   Input: r.fa.gz = three members cutting r.fa of C17G's example (">a\nACGT\n>b\nTG\n") inside both header lines, and the plain
   s.fa.  Every hypothesis of the theorems holds; create over these file bytes exits Zero with the SAME process state as
   C17G's create over the plain texts (byte-identical archive), getset prints the decompressed records; dropping the last
   byte of r.fa.gz, or storing the plain text under the *.gz name, makes create exit NonZero with the state unchanged. *)
Example toy_gzip_meets_oracle : forall xs, xs <> [] -> toy_gunzip (concat (map toy_gzip xs)) = Some (concat xs).
Proof. exact CliGz_proofs.toy_gunzip_members. Qed.

Definition ex_r_members : list (list N) := [[62]; [97;10;65;67;71;84;10;62]; [98;10;84;71;10]]%N.
Definition ex_r_gz : list N := concat (map toy_gzip ex_r_members).
Definition ex_name_r_gz : list N := [114;46;102;97;46;103;122]%N.      (* r.fa.gz *)
Definition ex_s_file : list N * list N :=
  ([115;46;102;97], [62;120;35;49;35;99;10;65;67;10;62;112;10;71;88;10;62;101;10;10])%N.
Definition ex_gz_files : list (list N * list N) := [(ex_name_r_gz, ex_r_gz); ex_s_file].
Definition ex_texts : list (list N * list N) := [(ex_name_r_gz, concat ex_r_members); ex_s_file].
Definition ex_pipe_of (files : list (list N * list N)) : Cli.pipe_result :=
  create_pipe_files SegCompress_proofs.toy_zc (fun c => c) 3%N 4%N 60%N 17%N (set_of_list []) C01G.ex2_dec C01G.ex2_grp (fun l => l)
                    C01G.ex2_gops C01G.ex_fti None toy_gunzip files.
Definition ex_create_of (files : list (list N * list N)) : Cli.exitc * Cli.pstate :=
  Cli.run_main (cli_decode C17G.ex_zd) [116%N] (Cli.CmdCreate C17G.ex_flags [111%N] (ex_pipe_of files)) C17G.ex_st.

Example c19g_nonvacuous : exists b,
  (* the hypotheses: C19's oracle, C17G's on the decompressed texts *)
  (forall xs, xs <> [] -> toy_gunzip (concat (map toy_gzip xs)) = Some (concat xs)) /\
  C01G.ex2_build = Ok b /\
  (forall l x, C17G.ex_zd (SegCompress_proofs.toy_zc l x) = Some x) /\ (forall l x, SegCompress_proofs.toy_zc l x <> []) /\
  Forall (fun s : name * list (name * list N) => fst s <> []) C01G.ex2_arch /\
  (forall s c data, In (s, c, data) (pushes_of C01G.ex2_arch) -> 2%N * lenN data + 4%N < 2147483648%N) /\
  decisions_ok 3%N (set_of_list []) 60%N C01G.ex2_dec (pushes_of C01G.ex2_arch) /\
  (forall i part, C01G.ex2_grp i part < two32) /\
  ops_carry C01G.ex2_emitted C01G.ex2_gops /\
  catalogue_in_dom SegCompress_proofs.toy_zc 60%N 3%N (mc_cat_of (b_coll b)) /\
  parts_meta_u64 (b_wops b) /\
  lenN (b_file b) <= spec_max_off /\
  Forall2 (same_input toy_gzip) ex_gz_files C01G.ex2_files /\
  all_first_line_ok ex_texts /\
  (* .. the file bytes are not the text, the decoder turns them into it, and the parsed sample set is C17G's *)
  lenN ex_r_gz = 37%N /\ firstn 6 ex_r_gz = [31; 139; 1; 62; 0; 31]%N /\
  file_texts toy_gunzip ex_gz_files = Some ex_texts /\
  concat ex_r_members = [62;97;10;65;67;71;84;10;62;98;10;84;71;10]%N /\
  text_samples ex_texts = Ok C01G.ex2_arch /\
  (* the conclusions, computed: same pipeline outcome and same process state as C17G's run on the plain texts *)
  ex_pipe_of ex_gz_files = C17G.ex_pipe /\
  ex_create_of ex_gz_files = C17G.ex_created /\
  fst (ex_create_of ex_gz_files) = Cli.Zero /\
  input_samples ex_texts = [[114]; [120;35;49]; [115]]%N /\
  expected_getset ex_texts [[115]; [114]; [115]]%N = C17G.ex_s ++ C17G.ex_r ++ C17G.ex_s /\
  (let r := Cli.run_main (cli_decode C17G.ex_zd) [116%N] (Cli.CmdGetset [111%N] [[115]; [114]; [115]]%N None None)
                         (snd (ex_create_of ex_gz_files)) in
   fst r = Cli.Zero /\ Cli.p_stdout (snd r) = C17G.ex_s ++ C17G.ex_r ++ C17G.ex_s) /\
  (* refusal: a truncated member; the plain text under the *.gz name; both leave the state as it was (leftover = None) *)
  toy_gunzip (removelast ex_r_gz) = None /\
  ex_create_of [(ex_name_r_gz, removelast ex_r_gz); ex_s_file] = (Cli.NonZero, C17G.ex_st) /\
  toy_gunzip (concat ex_r_members) = None /\
  ex_create_of [(ex_name_r_gz, concat ex_r_members); ex_s_file] = (Cli.NonZero, C17G.ex_st) /\
  (* detection is by NAME: gzip bytes under a plain name are read as they are *)
  Fasta.file_bytes toy_gunzip [114;46;102;97]%N ex_r_gz = Some ex_r_gz /\
  ex_pipe_of [([114;46;102;97]%N, ex_r_gz); ex_s_file] <> C17G.ex_pipe.
Proof.
  destruct C01G.text_roundtrip_nonvacuous as (b & H1 & H2 & _ & H4 & H5 & H6 & H7 & H8 & H9 & H10 & H11 & _).
  exists b. split; [exact CliGz_proofs.toy_gunzip_members|]. split; [exact H1|].
  split; [exact (proj1 SegCompress_proofs.toy_ok)|]. split; [exact C01.toy_zc_never_empty|].
  split; [exact H4|]. split; [exact H5|]. split; [exact H6|].
  split; [exact H7|]. split; [exact H8|]. split; [exact H9|]. split; [exact H10|]. split; [exact H11|].
  split.
  { constructor; [|constructor; [apply SameFile|constructor]].
    refine (GzPlain toy_gzip ex_name_r_gz [114;46;102;97]%N ex_r_members _ _ _ _); [discriminate|reflexivity|reflexivity|reflexivity]. }
  split; [repeat constructor|].
  assert (NE : ex_pipe_of [([114;46;102;97]%N, ex_r_gz); ex_s_file] <> C17G.ex_pipe) by (vm_compute; discriminate).
  repeat (split; [vm_compute; reflexivity|]). split; [vm_compute; split; reflexivity|].
  repeat (split; [vm_compute; reflexivity|]). exact NE.
Qed.
