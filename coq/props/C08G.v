(* C08G (registered under C08) - The reader-side state machine of C08 connected with the whole-archive theorems.
   C08 (props/C08.v, model/ReaderState.v) is about an ABSTRACT archive [ar] (sample-name table, positional catalogue
   batches, part 0 of each reference stream, abstract delta decoding ar_lz / ar_raw, a Section variable dz for zstd +
   tuple unpacking) and proves: under W1 (every batch decodes), W2 (batches hold at most as many samples as the sample
   table) and A (the two reference decoders agree), every query after every history returns the stateless [answer].
   Here (model/ReaderGrand.v, proofs/ReaderGrand_{cat,seg,proofs,build}.v):
     (1) [archive_of_file zd file] - the abstract archive the reader sees when it opens FILE BYTES: directory via
         Container.deserialize (AgcV3.open_archive), k via AgcV3.read_params, names and batches via the component
         decoders of Collection.load_all (without the cursor), ar_ref = part 0 of x<g>r, ar_lz = the delta path of
         SegReader.get_segment (get_segment_is_ref_then_delta) over LZ.decode_full, ar_raw = SegReader.get_segment on
         a raw group; C08's abstract decoding variable dz is instantiated with
         [file_dz zd] = SegCompress.decompress_segment_with_marker zd = AgcV3.dwm zd (dz_is_dwm).
     (2) answer_is_decode: on every file the format-rule decoder reads (AgcV3.decode zd file = Ok cat), W1 and W2
         hold, and the stateless answers are the catalogue's: list_samples = map fst cat, list_contigs / get_sample /
         get_contig = the names / contigs / bases of the LAST sample and FIRST contig of that name (the reader's
         HashMap and iter().find), unknown names = Err; table queries are history independent on such a file.
         answer_is_decode_ranges: get_contig_length / get_contig_range = length / slice of that contig (C07
         length_correct / range_correct) when every descriptor's raw length is its decoded length and later segments
         hold k symbols (Range.wf; AgcV3.decode does not check raw lengths, decode_strict does).
     (3) for the file of ModelCreate.model_build under grand_roundtrip's hypotheses, W1, W2 and A hold (conjuncts 2-4 of
         reader_history_grand; A because a compressed reference part carries its decoded length and holds >= 3 bases:
         compressed + marker is shorter than raw and zstd output is not empty), and Range.wf holds for every contig.
     (4) reader_history_grand: under grand_roundtrip's hypotheses, for EVERY history h of reader operations and every
         query q, ask_after h q = answer q, and for the user-level queries (list_samples, prefix list, list_contigs,
         get_sample, get_contig, get_contig_length, get_contig_range) that answer is [input_answer samples q], computed
         from the INPUT sample set alone - never Panic. *)
From Coq Require Import Permutation.
From Ragc Require Import Mach Consts_agcv3 Kmer Segment Pipeline SegReader GroupStore Collection Container AgcV3 ModelCreate.
From Ragc Require Import Pipeline_proofs Compose_codecs Compose_proofs AgcV3_compose Grand_proofs.
From Ragc Require Import ReaderGrand ReaderGrand_cat ReaderGrand_seg ReaderGrand_proofs ReaderGrand_range ReaderGrand_build.
From Ragc Require ReaderState SegCompress SegCompress_proofs LZ Range.
From Ragc Require C01 C01G.
Open Scope N_scope.

(* ---- the definitions the statements use, pinned (each is the definition itself) *)
Example archive_of_file_def : forall zd file,
  archive_of_file zd file =
  obnd (open_archive file) (fun rd =>
  obnd (read_params rd) (fun p =>
  obnd (coll_arch rd) (fun a =>
  obnd (file_names zd a) (fun ns =>
    Ok (ReaderState.mkAr (p_k p) ns (file_batches zd (p_segsize p) (p_k p) a)
                         (file_ref rd) (file_lz zd rd (p_mml p)) (file_raw zd rd (p_mml p)) (file_streams rd)))))).
Proof. reflexivity. Qed.

Example parts_def : forall zd rd mml g i reference ss k a j,
  file_ref rd g = match group_view_of rd g with
                  | Ok gv => match gv_ref gv with Some parts => nthN parts 0%N | None => None end
                  | _ => None
                  end /\
  file_lz zd rd mml g i reference =
    obnd (group_view_of rd g) (fun gv => lz_delta (file_dz zd) (LZ.decode_full mml) gv i reference) /\
  file_raw zd rd mml g i =
    obnd (group_view_of rd g) (fun gv =>
      SegReader.get_segment (file_dz zd) (LZ.decode_full mml) (fun _ => gv)
                            {| SegReader.d_group := g; d_id := i; SegReader.d_rc := false; SegReader.d_len := 0%N |}) /\
  file_batches zd ss k a = map (file_batch zd ss k a) (seq 0 (length (a_contigs a))) /\
  file_batch zd ss k a j = match batch_rows zd ss k a (N.of_nat j) with Ok b => Some (map conv_row b) | _ => None end.
Proof. intros. repeat split; reflexivity. Qed.

Example dz_is_dwm : forall zd, file_dz zd = SegCompress.decompress_segment_with_marker zd /\ file_dz zd = dwm zd.
Proof. intro zd. split; reflexivity. Qed.

(* ar_lz is the part of SegReader.get_segment (C02) that follows the reference *)
Theorem get_segment_is_ref_then_delta : forall dwm lz (av : archive_view) (d : SegReader.seg_desc),
  (16 <=? SegReader.d_group d)%N = true ->
  SegReader.get_segment dwm lz av d =
  obnd (load_reference dwm (av (SegReader.d_group d))) (fun reference =>
    if (d_id d =? 0)%N then Ok reference else lz_delta dwm lz (av (SegReader.d_group d)) (d_id d) reference).
Proof. exact ReaderGrand_seg.get_segment_split. Qed.
Print Assumptions get_segment_is_ref_then_delta.

(* the answers computed from a sample set: last sample of a name, first contig of a name *)
Example input_answer_def : forall (samples : samples_t) s c a b p,
  input_answer samples ReaderState.QListSamples = Some (Ok (ReaderState.VNames (map fst samples))) /\
  input_answer samples (ReaderState.QPrefix p) =
    Some (Ok (ReaderState.VNames (filter (fun x => ReaderState.starts_with x p) (map fst samples)))) /\
  input_answer samples (ReaderState.QListContigs s) =
    Some (match find_sample samples s with Some cs => Ok (ReaderState.VNames (map fst cs)) | None => Err end) /\
  input_answer samples (ReaderState.QSample s) =
    Some (match find_sample samples s with Some cs => Ok (ReaderState.VSample cs) | None => Err end) /\
  input_answer samples (ReaderState.QContig s c) =
    Some (match find_sample samples s with
          | Some cs => match find_contig cs c with Some sq => Ok (ReaderState.VSeq sq) | None => Err end
          | None => Err
          end) /\
  input_answer samples (ReaderState.QContigLength s c) =
    Some (match find_sample samples s with
          | Some cs => match find_contig cs c with Some sq => Ok (ReaderState.VNum (lenN sq)) | None => Err end
          | None => Err
          end) /\
  input_answer samples (ReaderState.QContigRange s c a b) =
    Some (if (b <=? a)%N then Ok (ReaderState.VSeq [])
          else match find_sample samples s with
               | Some cs => match find_contig cs c with
                            | Some sq => Ok (ReaderState.VSeq (firstnN (N.min b (lenN sq) - a)%N (skipnN a sq)))
                            | None => Err
                            end
               | None => Err
               end) /\
  find_sample ((s, [(c, [1%N])]) :: (s, []) :: samples) s = (match find_sample samples s with Some x => Some x | None => Some [] end) /\
  find_contig [(c, [1%N]); (c, [2%N])] c = Some [1%N].
Proof.
  intros. repeat split; try reflexivity.
  - cbn [find_sample fst snd]. destruct (find_sample samples s); [reflexivity|].
    assert (E : ReaderState.name_eqb s s = true) by (apply ReaderState_proofs.name_eqb_eq; reflexivity). rewrite E. reflexivity.
  - unfold find_contig. cbn [find fst].
    assert (E : ReaderState.name_eqb c c = true) by (apply ReaderState_proofs.name_eqb_eq; reflexivity). rewrite E. reflexivity.
Qed.

(* ---- (1)+(2): any file the format-rule decoder reads *)
Theorem answer_is_decode : forall (zd : list N -> option (list N)) (file : list N) (cat : catalogue),
  decode zd file = Ok cat ->
  exists ar : ReaderState.archive, archive_of_file zd file = Ok ar /\
    Forall (fun ob : option ReaderState.batch => ob <> None) (ReaderState.ar_batches ar) /\
    (length (ReaderState.all_entries ar) <= length (ReaderState.ar_names ar))%nat /\
    ReaderState.ar_names ar = map fst cat /\
    (forall q v,
       match q with
       | ReaderState.QListSamples | ReaderState.QPrefix _ | ReaderState.QListContigs _ | ReaderState.QSample _
       | ReaderState.QContig _ _ => True
       | _ => False
       end ->
       input_answer cat q = Some v -> ReaderState.answer (file_dz zd) ar q = v) /\
    (forall h q,
       match q with
       | ReaderState.QListSamples | ReaderState.QPrefix _ | ReaderState.QCompStats | ReaderState.QListContigs _
       | ReaderState.QContigLength _ _ | ReaderState.QSegDesc _ _ | ReaderState.QGroupStats | ReaderState.QAllSegments => True
       | _ => False
       end ->
       ReaderState.ask_after (file_dz zd) ar h q = ReaderState.answer (file_dz zd) ar q).
Proof. exact ReaderGrand_proofs.answer_is_decode_proof. Qed.
Print Assumptions answer_is_decode.

(* lengths and ranges: with the raw lengths of the descriptors equal to the decoded lengths (Range.wf, C07) *)
Theorem answer_is_decode_ranges : forall (zd : list N -> option (list N)) (file : list N) (cat : catalogue),
  decode zd file = Ok cat ->
  (forall rd p a c, open_archive file = Ok rd -> read_params rd = Ok p -> coll_arch rd = Ok a ->
     load_all zd (p_segsize p) (p_k p) a = Ok c ->
     (p_k p < two32)%N /\
     forall smp ct rs, In smp (samples c) -> In ct (scontigs smp) ->
       mapM (decode_seg zd rd (p_mml p)) (csegs ct) = Ok rs -> Range.wf (p_k p) rs) ->
  (forall x y, In x cat -> In y (snd x) -> (lenN (snd y) <= Range.isize_max)%N) ->
  exists ar : ReaderState.archive, archive_of_file zd file = Ok ar /\
    forall q v,
      match q with
      | ReaderState.QListSamples | ReaderState.QPrefix _ | ReaderState.QListContigs _ | ReaderState.QSample _
      | ReaderState.QContig _ _ | ReaderState.QContigLength _ _ | ReaderState.QContigRange _ _ _ _ => True
      | _ => False
      end ->
      input_answer cat q = Some v -> ReaderState.answer (file_dz zd) ar q = v.
Proof. exact ReaderGrand_range.answer_is_decode_ranges_proof. Qed.
Print Assumptions answer_is_decode_ranges.

(* ---- (3)+(4): the file of the model writer, under the hypotheses of C01G grand_roundtrip (verbatim) *)
Theorem reader_history_grand :
  forall (zc : N -> list N -> list N) (zd : list N -> option (list N)),
  (forall l x, zd (zc l x) = Some x) -> (forall l x, zc l x <> []) ->
  forall ecn k mml segsize level spl dec grp sched gops fti
         (samples : list (name * list (name * list N))),
  (1 <= k <= 32)%N -> (4 <= mml)%N -> (mml < two32)%N -> (segsize < two32)%N -> (segsize + k <= 2147483648)%N ->
  NoDup (map fst samples) /\ Forall (fun s => fst s <> [] /\ snd s <> []) samples ->
  inputs_in_dom mml (pushes_of samples) ->
  (forall i s c data j sg, nth_error (pushes_of samples) i = Some (s, c, data) ->
     nth_error (split_at_splitters_with_size data spl k segsize) j = Some sg ->
     decision_okb (N.to_nat k) sg (dec i j) = true) ->
  lz_contigs_nonempty (pushes_of samples) grp ->
  (forall i part, (grp i part < two32)%N) ->
  (forall l, Permutation l (sched l)) ->
  ops_carry (all_emit k spl segsize dec grp 0 (pushes_of samples)) gops ->
  forall b : built,
  model_build zc ecn k mml segsize level spl dec grp sched gops fti samples = Ok b ->
  catalogue_in_dom zc segsize k (mc_cat_of (b_coll b)) ->
  parts_meta_u64 (b_wops b) ->
  (lenN (b_file b) <= spec_max_off)%N ->
  exists ar : ReaderState.archive, archive_of_file zd (b_file b) = Ok ar /\
    (* C08's hypotheses W1, W2, A *)
    Forall (fun ob : option ReaderState.batch => ob <> None) (ReaderState.ar_batches ar) /\
    (length (ReaderState.all_entries ar) <= length (ReaderState.ar_names ar))%nat /\
    (forall g p, (16 <= g)%N -> ReaderState.ar_ref ar g = Some p ->
       ReaderState.ref_via_segment (file_dz zd) (ReaderState.get_part p) =
       ReaderState.ref_via_query (file_dz zd) (ReaderState.get_part p)) /\
    (* every query, every history: the stateless answer *)
    (forall (h : list ReaderState.query) (q : ReaderState.query),
       ReaderState.ask_after (file_dz zd) ar h q = ReaderState.answer (file_dz zd) ar q) /\
    (* user-level queries, every history: the answer computed from the INPUT, never Panic *)
    (forall (h : list ReaderState.query) (q : ReaderState.query) v,
       match q with
       | ReaderState.QListSamples | ReaderState.QPrefix _ | ReaderState.QListContigs _ | ReaderState.QSample _
       | ReaderState.QContig _ _ | ReaderState.QContigLength _ _ | ReaderState.QContigRange _ _ _ _ => True
       | _ => False
       end ->
       input_answer samples q = Some v ->
       ReaderState.ask_after (file_dz zd) ar h q = v /\ v <> Panic).
Proof. exact ReaderGrand_build.reader_history_grand_proof. Qed.
Print Assumptions reader_history_grand.

(* ======================================================================== non-vacuity
   the instance of C01G grand_roundtrip_nonvacuous (two samples, three contigs, k = 3, a split segment, reverse
   complemented pieces, raw group 3 and LZ groups 16 / 17, toy zstd), which meets every hypothesis above
   (C01G.grand_roundtrip_nonvacuous): the abstract archive of the 600-odd file bytes exists, and after a history with
   hits, misses, reloads, reference queries and group statistics every user-level query gives the answer computed
   from the input sample set; the reader's reference decoders agree on both LZ groups. *)
Definition ex_hist : list ReaderState.query :=
  [ReaderState.QRefSeg 16; ReaderState.QSample [78]; ReaderState.QListContigs [83; 48]; ReaderState.QGroupStats;
   ReaderState.QContig [83; 49] [99; 48]; ReaderState.QRefSeg 17; ReaderState.QAllSegments;
   ReaderState.QSegData (ReaderState.mkDesc 3 1 false 2)].
Definition ex_queries : list ReaderState.query :=
  [ReaderState.QListSamples; ReaderState.QPrefix [83]; ReaderState.QListContigs [83; 48]; ReaderState.QListContigs [78];
   ReaderState.QSample [83; 48]; ReaderState.QSample [83; 49]; ReaderState.QSample [78];
   ReaderState.QContig [83; 48] [99; 49]; ReaderState.QContig [83; 49] [99; 48]; ReaderState.QContig [83; 49] [99; 49];
   ReaderState.QContigLength [83; 49] [99; 48]; ReaderState.QContigLength [83; 48] [99; 57];
   ReaderState.QContigRange [83; 49] [99; 48] 2 19; ReaderState.QContigRange [83; 49] [99; 48] 5 4;
   ReaderState.QContigRange [83; 48] [99; 48] 3 1000].

(* every query of the list, after the history ex_hist, returns exactly the answer computed from the input *)
Fixpoint all_agree (ar : ReaderState.archive) (l : list ReaderState.query) : Prop :=
  match l with
  | [] => True
  | q :: r =>
    match input_answer C01.ex_samples q with
    | Some v => ReaderState.ask_after (file_dz SegCompress_proofs.toy_zd) ar ex_hist q = v
    | None => False
    end /\ all_agree ar r
  end.

Example reader_history_grand_nonvacuous :
  match C01G.ex_build with
  | Ok b =>
    match archive_of_file SegCompress_proofs.toy_zd (b_file b) with
    | Ok ar =>
      ReaderState.ar_names ar = map fst C01.ex_samples /\
      length (ReaderState.ar_batches ar) = 1%nat /\
      all_agree ar ex_queries /\
      ReaderState.ask_after (file_dz SegCompress_proofs.toy_zd) ar ex_hist (ReaderState.QSample [83; 49]) =
        Ok (ReaderState.VSample [([99; 48], [1;0;0;0;2;3;1;5;2;2;1;3;0;0;0;1;1;0;0;0;3])]) /\
      input_answer C01.ex_samples (ReaderState.QSample [83; 49]) =
        Some (Ok (ReaderState.VSample [([99; 48], [1;0;0;0;2;3;1;5;2;2;1;3;0;0;0;1;1;0;0;0;3])])) /\
      ReaderState.ask_after (file_dz SegCompress_proofs.toy_zd) ar ex_hist (ReaderState.QContigRange [83; 49] [99; 48] 2 19) =
        Ok (ReaderState.VSeq [0;0;2;3;1;5;2;2;1;3;0;0;0;1;1;0;0]) /\
      input_answer C01.ex_samples (ReaderState.QContigRange [83; 49] [99; 48] 2 19) =
        Some (Ok (ReaderState.VSeq [0;0;2;3;1;5;2;2;1;3;0;0;0;1;1;0;0])) /\
      ReaderState.ask_after (file_dz SegCompress_proofs.toy_zd) ar ex_hist (ReaderState.QContigLength [83; 49] [99; 48]) =
        Ok (ReaderState.VNum 21) /\
      ReaderState.ask_after (file_dz SegCompress_proofs.toy_zd) ar ex_hist (ReaderState.QSample [78]) = Err /\
      ReaderState.ask_after (file_dz SegCompress_proofs.toy_zd) ar [] (ReaderState.QRefSeg 16) =
        ReaderState.ask_after (file_dz SegCompress_proofs.toy_zd) ar [ReaderState.QSample [83; 49]] (ReaderState.QRefSeg 16)
    | _ => False
    end
  | _ => False
  end.
Proof. vm_compute. repeat split; reflexivity. Qed.

(* ---- never_panics (C08) on the written file.  FULL statement wanted:
     forall h q, ReaderState.ask_after (file_dz zd) ar h q <> Panic      for EVERY query, including get_segment_data of an
     arbitrary descriptor, get_reference_segment of an arbitrary group, group statistics.
   Proved: for the user-level queries (reader_history_grand, last conjunct: the answer is input_answer, which is Ok or Err),
   and, below, for every query with C08's hypotheses W1, W2, A and "later descriptors have raw_length >= k" DISCHARGED
   (the last one from Range.wf on the written file), leaving exactly the totality of the three segment decoders.
   Missing lemmas to close it: LZ.decode_full mml r e <> Panic for arbitrary (r, e); Tuple.tuples_to_bytes <> Panic (so
   that decompress_segment_with_marker never Panics); Container.get_part_by_id <> Panic on a reader returned by
   deserialize (read_varint on in-range offsets). *)
Theorem written_file_never_panics_partial :
  forall (zc : N -> list N -> list N) (zd : list N -> option (list N)),
  (forall l x, zd (zc l x) = Some x) -> (forall l x, zc l x <> []) ->
  forall ecn k mml segsize level spl dec grp sched gops fti
         (samples : list (name * list (name * list N))),
  (1 <= k <= 32)%N -> (4 <= mml)%N -> (mml < two32)%N -> (segsize < two32)%N -> (segsize + k <= 2147483648)%N ->
  NoDup (map fst samples) /\ Forall (fun s => fst s <> [] /\ snd s <> []) samples ->
  inputs_in_dom mml (pushes_of samples) ->
  (forall i s c data j sg, nth_error (pushes_of samples) i = Some (s, c, data) ->
     nth_error (split_at_splitters_with_size data spl k segsize) j = Some sg ->
     decision_okb (N.to_nat k) sg (dec i j) = true) ->
  lz_contigs_nonempty (pushes_of samples) grp ->
  (forall i part, (grp i part < two32)%N) ->
  (forall l, Permutation l (sched l)) ->
  ops_carry (all_emit k spl segsize dec grp 0 (pushes_of samples)) gops ->
  forall b : built,
  model_build zc ecn k mml segsize level spl dec grp sched gops fti samples = Ok b ->
  catalogue_in_dom zc segsize k (mc_cat_of (b_coll b)) ->
  parts_meta_u64 (b_wops b) ->
  (lenN (b_file b) <= spec_max_off)%N ->
  exists ar : ReaderState.archive, archive_of_file zd (b_file b) = Ok ar /\
    (forall cs c d r, In cs (ReaderState.catalogue ar) -> In c cs -> snd c = d :: r ->
       Forall (fun x => (ReaderState.ar_k ar <= ReaderState.d_len x)%N) r) /\
    ((forall g i r, ReaderState.ar_lz ar g i r <> Panic) -> (forall g i, ReaderState.ar_raw ar g i <> Panic) ->
     (forall body m, file_dz zd body m <> Panic) ->
     forall (h : list ReaderState.query) (q : ReaderState.query), ReaderState.ask_after (file_dz zd) ar h q <> Panic).
Proof. exact ReaderGrand_build.written_file_never_panics_partial_proof. Qed.
Print Assumptions written_file_never_panics_partial.
