From Ragc Require Import ReaderState ReaderState_proofs.
From Coq Require Import Lia.
(* C08  The result of any query on an open archive (sample list, contig list, whole sample, one contig, range,
   length, segment tables, group statistics, a group's reference segment) is the same whatever queries were
   issued earlier on the same handle, and the same on handles cloned for other threads; unknown sample or contig
   names yield an error value, never a crash.

   Model: ReaderState.v.  [ask_after dz ar h q] = outcome of q on a handle that was opened on archive ar and then
   asked the queries h; [answer dz ar q] = the stateless specification (a function of the archive alone);
   dz = zstd (+ tuple unpacking), any function.
   Hypotheses, each shown necessary by a [_refuted] theorem below:
     (W1) every catalogue batch decodes, (W2) the batches describe at most as many samples as the sample table
     has, (A) get_segment's and get_reference_segment's reference decoders agree on every LZ group's reference
     part (they differ only when get_segment's "2-bit packed" heuristic fires; [decoders_agree_when_sizes_ok]:
     never on an archive whose compressed reference parts carry their decoded length as metadata and hold >= 3
     bases - what ragc writes).
   History of the code: before b430dd4 the cursor samples_loaded was never reset and any second metadata load
   indexed past the sample table (Panic); before d5b0008 get_reference_segment failed on a stored-raw reference
   unless get_segment had cached it; before 709bfda get_segment "unpacked" a stored-raw reference of 1 or 2 bases
   (reachable with ragc create -k 2) to zeros while get_reference_segment returned and cached the true bytes.
   The model transcribes the tree after these three fixes. *)

Theorem history_independent : forall (dz : list N -> N -> outcome (list N)) (ar : archive),
  Forall (fun ob : option batch => ob <> None) (ar_batches ar) ->
  (length (all_entries ar) <= length (ar_names ar))%nat ->
  (forall g p, 16 <= g -> ar_ref ar g = Some p ->
               ref_via_segment dz (get_part p) = ref_via_query dz (get_part p)) ->
  forall (h : list query) (q : query), ask_after dz ar h q = answer dz ar q.
Proof. exact ReaderState_proofs.history_independent_pin. Qed.
Print Assumptions history_independent.

(* queries answered from the catalogue alone need no hypothesis on the reference decoders *)
Theorem table_queries_independent : forall (dz : list N -> N -> outcome (list N)) (ar : archive),
  Forall (fun ob : option batch => ob <> None) (ar_batches ar) ->
  (length (all_entries ar) <= length (ar_names ar))%nat ->
  forall (h : list query) (q : query),
    match q with
    | QListSamples | QPrefix _ | QCompStats | QListContigs _ | QContigLength _ _ | QSegDesc _ _
    | QGroupStats | QAllSegments => True
    | _ => False
    end ->
    ask_after dz ar h q = answer dz ar q.
Proof. exact ReaderState_proofs.table_queries_independent_pin. Qed.
Print Assumptions table_queries_independent.

(* list_samples, list_samples_with_prefix, get_compression_stats: unconditionally, in ANY state of ANY archive *)
Theorem names_queries_any_state : forall (dz : list N -> N -> outcome (list N)) (ar : archive) (st : rstate),
  snd (step dz ar st QListSamples) = Ok (VNames (ar_names ar))
  /\ (forall p, snd (step dz ar st (QPrefix p))
                = Ok (VNames (filter (fun s => starts_with s p) (ar_names ar))))
  /\ snd (step dz ar st QCompStats) = Ok (VStreams (ar_streams ar)).
Proof. exact ReaderState_proofs.names_queries_any_state_proof. Qed.
Print Assumptions names_queries_any_state.

Theorem decoders_agree_when_sizes_ok : forall (dz : list N -> N -> outcome (list N)) (ar : archive),
  (forall g p body mk r, 16 <= g -> ar_ref ar g = Some p -> fst (get_part p) <> 0 ->
     pop_last (snd (get_part p)) = Some (body, mk) -> dz body mk = Ok r ->
     lenN r = fst (get_part p) /\ 3 <= lenN r) ->
  forall g p, 16 <= g -> ar_ref ar g = Some p ->
              ref_via_segment dz (get_part p) = ref_via_query dz (get_part p).
Proof. exact ReaderState_proofs.decoders_agree_pin. Qed.
Print Assumptions decoders_agree_when_sizes_ok.

(* no query panics after any history, provided the segment decoders themselves do not (C09/C16) and every
   descriptor after the first of a contig has raw_length >= k (C10) *)
Theorem never_panics : forall (dz : list N -> N -> outcome (list N)) (ar : archive),
  Forall (fun ob : option batch => ob <> None) (ar_batches ar) ->
  (length (all_entries ar) <= length (ar_names ar))%nat ->
  (forall g p, 16 <= g -> ar_ref ar g = Some p ->
               ref_via_segment dz (get_part p) = ref_via_query dz (get_part p)) ->
  (forall g i r, ar_lz ar g i r <> Panic) -> (forall g i, ar_raw ar g i <> Panic) ->
  (forall b m, dz b m <> Panic) ->
  (forall cs c d r, In cs (catalogue ar) -> In c cs -> snd c = d :: r ->
                    Forall (fun x => ar_k ar <= d_len x) r) ->
  forall (h : list query) (q : query), ask_after dz ar h q <> Panic.
Proof. exact ReaderState_proofs.never_panics_pin. Qed.
Print Assumptions never_panics.

Theorem unknown_sample_err : forall (dz : list N -> N -> outcome (list N)) (ar : archive) (q : query) (s : name),
  match q with
  | QListContigs s' | QContigLength s' _ | QContig s' _ | QSegDesc s' _ | QSample s' => Some s'
  | QContigRange s' _ a b => if b <=? a then None else Some s'
  | _ => None
  end = Some s ->
  ~ In s (ar_names ar) -> answer dz ar q = Err.
Proof. exact ReaderState_proofs.unknown_sample_err_proof. Qed.
Print Assumptions unknown_sample_err.

Theorem unknown_contig_err : forall (dz : list N -> N -> outcome (list N)) (ar : archive) (q : query) (s c : name),
  match q with
  | QContigLength s' c' | QContig s' c' | QSegDesc s' c' => Some (s', c')
  | QContigRange s' c' a b => if b <=? a then None else Some (s', c')
  | _ => None
  end = Some (s, c) ->
  (forall id x, sid ar s = Some id -> In x (tab (catalogue ar) id) -> fst x <> c) ->
  answer dz ar q = Err.
Proof. exact ReaderState_proofs.unknown_contig_err_proof. Qed.
Print Assumptions unknown_contig_err.

(* clone_for_thread re-opens the path: after ANY interleaving of queries on any handles and of clone calls, starting
   from one freshly opened handle, the next answer of any handle is the stateless answer.  Assumed (not modelled):
   the file does not change while it is open, and two File objects do not share a seek position. *)
Theorem clones_independent : forall (dz : list N -> N -> outcome (list N)) (ar : archive),
  Forall (fun ob : option batch => ob <> None) (ar_batches ar) ->
  (length (all_entries ar) <= length (ar_names ar))%nat ->
  (forall g p, 16 <= g -> ar_ref ar g = Some p ->
               ref_via_segment dz (get_part p) = ref_via_query dz (get_part p)) ->
  forall (os : list sysop) (h : nat) (st : rstate) (q : query),
    nth_error (sys_run dz ar [fresh ar] os) h = Some st -> snd (step dz ar st q) = answer dz ar q.
Proof. exact ReaderState_proofs.clones_independent_pin. Qed.
Print Assumptions clones_independent.

Theorem clone_is_fresh : forall (dz : list N -> N -> outcome (list N)) (ar : archive) (hs : list rstate) (h : nat)
  (st : rstate), nth_error hs h = Some st -> fst (sys_step dz ar hs (OpClone h)) = hs ++ [fresh ar].
Proof. exact ReaderState_proofs.clone_is_fresh_proof. Qed.
Print Assumptions clone_is_fresh.

(* (A) is needed: a reference that really is 2-bit packed (foreign archive) makes get_sample after
   get_reference_segment differ from get_sample on a fresh handle *)
Theorem decoders_disagree_refuted : exists dz ar h q,
  Forall (fun ob : option batch => ob <> None) (ar_batches ar) /\
  (length (all_entries ar) <= length (ar_names ar))%nat /\
  ask_after dz ar h q <> answer dz ar q.
Proof. exact ReaderState_proofs.decoders_disagree_refuted_proof. Qed.
Print Assumptions decoders_disagree_refuted.

(* (W1) is needed: if the second batch does not decode, the first query fails and the same query then succeeds *)
Theorem corrupt_batch_refuted : exists dz ar q,
  ask_after dz ar [] q = Err /\ exists v, ask_after dz ar [q] q = Ok v.
Proof. exact ReaderState_proofs.corrupt_batch_refuted_proof. Qed.
Print Assumptions corrupt_batch_refuted.

(* (W2) is needed: more batch entries than sample names = index out of bounds in the loader *)
Theorem too_many_entries_refuted : exists dz ar q,
  Forall (fun ob : option batch => ob <> None) (ar_batches ar) /\ ask_after dz ar [] q = Panic
  /\ exists v, ask_after dz ar [q] q = Ok v.
Proof. exact ReaderState_proofs.too_many_entries_refuted_proof. Qed.
Print Assumptions too_many_entries_refuted.

(* never_panics needs raw_length >= k: get_contig_length computes raw_length - k unchecked (dev profile) *)
Theorem short_segment_refuted : exists dz ar q,
  Forall (fun ob : option batch => ob <> None) (ar_batches ar) /\
  (length (all_entries ar) <= length (ar_names ar))%nat /\ answer dz ar q = Panic.
Proof. exact ReaderState_proofs.short_segment_refuted_proof. Qed.
Print Assumptions short_segment_refuted.

(* non-vacuity: ex_ar (3 samples in 2 batches, a compressed and a stored-raw reference, a raw group) meets every
   hypothesis, and a history with hits, misses and reloads gives the stateless answers *)
Example hypotheses_nonvacuous :
  Forall (fun ob : option batch => ob <> None) (ar_batches ex_ar) /\
  (length (all_entries ex_ar) <= length (ar_names ex_ar))%nat /\
  (forall g p, 16 <= g -> ar_ref ex_ar g = Some p ->
               ref_via_segment ex_dz (get_part p) = ref_via_query ex_dz (get_part p)) /\
  (forall g i r, ar_lz ex_ar g i r <> Panic) /\ (forall g i, ar_raw ex_ar g i <> Panic) /\
  (forall b m, ex_dz b m <> Panic).
Proof.
  split; [repeat constructor; discriminate|]. split; [cbn; lia|]. split; [exact ex_ar_agree|].
  exact ex_ar_quiet.
Qed.
Example history_nonvacuous :
  let h := [QRefSeg 16; QSample (nm 9); QListContigs (nm 9); QGroupStats; QContig (nm 2) (nm 100); QRefSeg 17] in
  ask_after ex_dz ex_ar h (QSample (nm 1))
  = Ok (VSample [(nm 100, [0; 1; 2; 3; 0; 1; 0]); (nm 101, [2; 2])])
  /\ ask_after ex_dz ex_ar h (QSample (nm 1)) = answer ex_dz ex_ar (QSample (nm 1))
  /\ ask_after ex_dz ex_ar h (QContig (nm 2) (nm 100)) = Ok (VSeq [0; 1; 2; 3; 0; 1; 1; 0])
  /\ ask_after ex_dz ex_ar h (QContigRange (nm 2) (nm 100) 3 7) = Ok (VSeq [3; 0; 1; 1])
  /\ ask_after ex_dz ex_ar h (QContigLength (nm 3) (nm 102)) = Ok (VNum 4)
  /\ ask_after ex_dz ex_ar h (QSample (nm 9)) = Err
  /\ ask_after ex_dz ex_ar h (QContig (nm 1) (nm 9)) = Err
  /\ ask_after ex_dz ex_ar h QGroupStats = Ok (VStats [(0, (1, 0, 1)); (16, (2, 1, 1)); (17, (3, 3, 0))]).
Proof. vm_compute. repeat split. Qed.
Example unknown_nonvacuous : ~ In (nm 9) (ar_names ex_ar) /\ answer ex_dz ex_ar (QSample (nm 9)) = Err.
Proof. split; [cbn; intuition discriminate | reflexivity]. Qed.
Example clones_nonvacuous :
  nth_error (sys_run ex_dz ex_ar [fresh ex_ar]
               [OpQuery 0 (QSample (nm 1)); OpClone 0; OpQuery 1 (QRefSeg 16); OpQuery 0 QAllSegments; OpClone 1]) 2
  = Some (fresh ex_ar).
Proof. vm_compute. reflexivity. Qed.
