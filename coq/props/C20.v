(* C20 — canonical k-mer arithmetic is window-exact and strand-symmetric. *)
From Ragc Require Import Mach Consts_kmer Kmer Kmer_proofs.
Open Scope N_scope.

Theorem data_canonical_min : forall x, data_canonical x = N.min (kdir x) (krc x).
Proof. exact Kmer_proofs.data_canonical_min_proof. Qed.
Print Assumptions data_canonical_min.
