(* C20 — canonical k-mer arithmetic is window-exact and strand-symmetric.
   For every k in 1..32 and every base sequence: the value obtained by sliding equals the value computed
   from scratch for the window, equals the canonical value of the reverse-complemented window, is the
   smaller of the two packings; the direction flag is true exactly when the forward packing is not larger;
   reverse-complementing a packed k-mer twice is the identity; a non-ACGT symbol restarts the window.
   Model: Kmer.v (kmer.rs canonical mode, kmer_extract.rs::enumerate_kmers).  [acgt b := b < 4],
   [left_aligned k w := packed w * 2^(64-2k)], [revcomp w := rev (map kmer_rc_base w)]. *)
From Ragc Require Import Mach Consts_kmer Kmer Kmer_proofs.
Open Scope N_scope.

(* ---- 1. sliding = from scratch (any prefix, window = last k symbols; includes k = 32) ---- *)
Theorem sliding_eq_scratch : forall k pre w, 1 <= k <= 32 ->
  Forall acgt pre -> Forall acgt w -> lenN w = k ->
  let x := feed (kmer_new k) (pre ++ w) in
  kdir x = left_aligned k w /\ krc x = left_aligned k (revcomp w) /\
  kcur x = k /\ kmax x = k /\ is_full x = true.
Proof. exact Kmer_proofs.sliding_eq_scratch_proof. Qed.
Print Assumptions sliding_eq_scratch.

Example sliding_nonvacuous_k32 :
  let w := [3;1;2;0; 0;0;1;1; 2;2;3;3; 0;1;2;3; 3;2;1;0; 1;3;0;2; 2;0;3;1; 1;1;1;3] in
  let pre := [0;3;3;1;2] in
  (1 <= 32 <= 32) /\ Forall acgt pre /\ Forall acgt w /\ lenN w = 32 /\
  kdir (feed (kmer_new 32) (pre ++ w)) = 15566040221407677783 /\
  left_aligned 32 w = 15566040221407677783 /\
  krc (feed (kmer_new 32) (pre ++ w)) = 3066233245340643288 /\
  left_aligned 32 (revcomp w) = 3066233245340643288 /\
  kshift 32 = 0 /\ kmask 32 = max_u64.
Proof.
  cbv zeta. split; [split; discriminate |].
  split; [apply acgtb_forall; reflexivity |]. split; [apply acgtb_forall; reflexivity |].
  vm_compute. repeat split; reflexivity.
Qed.

Example sliding_nonvacuous_k3 :
  (1 <= 3 <= 32) /\ Forall acgt [1;1;0] /\ Forall acgt [2;3;1] /\ lenN [2;3;1] = 3 /\
  kdir (feed (kmer_new 3) ([1;1;0] ++ [2;3;1])) = 12970366926827028480 /\
  krc (feed (kmer_new 3) ([1;1;0] ++ [2;3;1])) = 9511602413006487552.
Proof.
  split; [split; discriminate |].
  split; [apply acgtb_forall; reflexivity |]. split; [apply acgtb_forall; reflexivity |].
  vm_compute. repeat split; reflexivity.
Qed.

(* fill-up phase: fewer than k symbols seen *)
Theorem fill_phase : forall k l, 1 <= k <= 32 -> Forall acgt l -> lenN l <= k ->
  let x := feed (kmer_new k) l in
  kdir x = packed l * 2 ^ (64 - 2 * lenN l) /\
  krc x = packed (revcomp l) * 2 ^ (64 - 2 * lenN l) /\
  kcur x = lenN l /\ kmax x = k /\ is_full x = (lenN l =? k).
Proof. exact Kmer_proofs.fill_phase_proof. Qed.
Print Assumptions fill_phase.

Example fill_phase_nonvacuous :
  (1 <= 5 <= 32) /\ Forall acgt [2;3] /\ lenN [2;3] <= 5 /\
  kdir (feed (kmer_new 5) [2;3]) = 12682136550675316736 /\
  krc (feed (kmer_new 5) [2;3]) = 1152921504606846976 /\
  is_full (feed (kmer_new 5) [2;3]) = false.
Proof.
  split; [split; discriminate |]. split; [apply acgtb_forall; reflexivity |].
  vm_compute. repeat split; (reflexivity || discriminate).
Qed.

(* ---- 2. the canonical value is the smaller packing ---- *)
Theorem canonical_is_min : forall k pre w, 1 <= k <= 32 ->
  Forall acgt pre -> Forall acgt w -> lenN w = k ->
  data_canonical (feed (kmer_new k) (pre ++ w))
  = N.min (left_aligned k w) (left_aligned k (revcomp w)).
Proof. exact Kmer_proofs.canonical_is_min_proof. Qed.
Print Assumptions canonical_is_min.

Example canonical_is_min_nonvacuous :
  let w := [3;1;2;0; 0;0;1;1; 2;2;3;3; 0;1;2;3; 3;2;1;0; 1;3;0;2; 2;0;3;1; 1;1;1;3] in
  Forall acgt w /\ lenN w = 32 /\
  data_canonical (feed (kmer_new 32) ([2;2] ++ w)) = 3066233245340643288 /\
  data_canonical (feed (kmer_new 5) ([1] ++ [0;0;1;3;2])) = 540431955284459520.
Proof.
  cbv zeta. split; [apply acgtb_forall; reflexivity |]. vm_compute. repeat split; reflexivity.
Qed.

(* ---- 3. strand symmetry (whatever preceded the window on either strand) ---- *)
Theorem canonical_strand_symmetric : forall k pre pre' w, 1 <= k <= 32 ->
  Forall acgt pre -> Forall acgt pre' -> Forall acgt w -> lenN w = k ->
  data_canonical (feed (kmer_new k) (pre ++ w))
  = data_canonical (feed (kmer_new k) (pre' ++ revcomp w)).
Proof. exact Kmer_proofs.canonical_strand_symmetric_proof. Qed.
Print Assumptions canonical_strand_symmetric.

Example strand_symmetric_nonvacuous :
  let w := [3;1;2;0; 0;0;1;1; 2;2;3;3; 0;1;2;3; 3;2;1;0; 1;3;0;2; 2;0;3;1; 1;1;1;3] in
  revcomp w = [0;2;2;2; 2;0;3;1; 1;3;0;2; 3;2;1;0; 0;1;2;3; 0;0;1;1; 2;2;3;3; 3;1;2;0] /\
  data_canonical (feed (kmer_new 32) ([0;1] ++ w)) = 3066233245340643288 /\
  data_canonical (feed (kmer_new 32) ([3;3;3] ++ revcomp w)) = 3066233245340643288.
Proof. vm_compute. repeat split; reflexivity. Qed.

(* ---- 4. direction flag ---- *)
Theorem dir_flag_iff_le : forall k pre w, 1 <= k <= 32 ->
  Forall acgt pre -> Forall acgt w -> lenN w = k ->
  (is_dir_oriented (feed (kmer_new k) (pre ++ w)) = true
   <-> left_aligned k w <= left_aligned k (revcomp w)).
Proof. exact Kmer_proofs.dir_flag_iff_le_proof. Qed.
Print Assumptions dir_flag_iff_le.

(* ... and the left-aligned order is the order of the packings themselves *)
Theorem left_aligned_le_iff : forall k a b,
  left_aligned k a <= left_aligned k b <-> packed a <= packed b.
Proof. exact Kmer_proofs.left_aligned_le_iff. Qed.
Print Assumptions left_aligned_le_iff.

Example dir_flag_nonvacuous :
  is_dir_oriented (feed (kmer_new 5) ([3] ++ [0;0;1;3;2])) = true /\
  left_aligned 5 [0;0;1;3;2] <= left_aligned 5 (revcomp [0;0;1;3;2]) /\
  is_dir_oriented (feed (kmer_new 3) ([0] ++ [2;3;1])) = false /\
  ~ left_aligned 3 [2;3;1] <= left_aligned 3 (revcomp [2;3;1]).
Proof.
  split; [vm_compute; reflexivity |]. split; [vm_compute; discriminate |].
  split; [vm_compute; reflexivity |]. vm_compute. intro H. apply H. reflexivity.
Qed.

(* ---- 5. whole-k-mer reverse complement and canonical_kmer on left-aligned values ---- *)
Theorem rc_kmer_spec : forall k w, 1 <= k <= 32 -> Forall acgt w -> lenN w = k ->
  reverse_complement_kmer (left_aligned k w) k = left_aligned k (revcomp w).
Proof. exact Kmer_proofs.rc_kmer_spec_proof. Qed.
Print Assumptions rc_kmer_spec.

Theorem rc_kmer_involutive : forall k w, 1 <= k <= 32 -> Forall acgt w -> lenN w = k ->
  reverse_complement_kmer (reverse_complement_kmer (left_aligned k w) k) k = left_aligned k w.
Proof. exact Kmer_proofs.rc_kmer_involutive_proof. Qed.
Print Assumptions rc_kmer_involutive.

Theorem canonical_kmer_spec : forall k w, 1 <= k <= 32 -> Forall acgt w -> lenN w = k ->
  canonical_kmer (left_aligned k w) k = N.min (left_aligned k w) (left_aligned k (revcomp w)).
Proof. exact Kmer_proofs.canonical_kmer_spec_proof. Qed.
Print Assumptions canonical_kmer_spec.

Theorem canonical_kmer_strand_symmetric : forall k w, 1 <= k <= 32 -> Forall acgt w ->
  lenN w = k ->
  canonical_kmer (left_aligned k (revcomp w)) k = canonical_kmer (left_aligned k w) k.
Proof. exact Kmer_proofs.canonical_kmer_strand_symmetric_proof. Qed.
Print Assumptions canonical_kmer_strand_symmetric.

Example rc_kmer_nonvacuous :
  reverse_complement_kmer 15566040221407677783 32 = 3066233245340643288 /\
  reverse_complement_kmer 3066233245340643288 32 = 15566040221407677783 /\
  canonical_kmer 15566040221407677783 32 = 3066233245340643288 /\
  reverse_complement_kmer (left_aligned 3 [2;3;1]) 3 = 9511602413006487552 /\
  reverse_complement_kmer 9511602413006487552 3 = left_aligned 3 [2;3;1].
Proof. vm_compute. repeat split; reflexivity. Qed.

(* ---- 6. enumerate_kmers = canonical values of exactly the ACGT-only windows, in order;
        contig symbols are arbitrary (no byte bound needed), symbols > 3 reset ---- *)
Theorem kmers_spec_holds : forall k c, 1 <= k <= 32 ->
  enumerate_kmers c k
  = map (fun w => N.min (left_aligned k w) (left_aligned k (revcomp w)))
        (filter (forallb acgtb) (windows (N.to_nat k) c)).
Proof. exact Kmer_proofs.kmers_spec_proof. Qed.
Print Assumptions kmers_spec_holds.

Theorem non_acgt_restarts : forall k pre b post, 1 <= k <= 32 -> 3 < b ->
  enumerate_kmers (pre ++ b :: post) k = enumerate_kmers pre k ++ enumerate_kmers post k.
Proof. exact Kmer_proofs.non_acgt_restarts_proof. Qed.
Print Assumptions non_acgt_restarts.

Example windows_example :
  windows 3 [0;1;2;4;3;3] = [[0;1;2]; [1;2;4]; [2;4;3]; [4;3;3]].
Proof. reflexivity. Qed.

Example kmers_nonvacuous :
  enumerate_kmers [0;1;2;4;3;3;1;0;2;255;1;1] 3
  = [1729382256910270464; 9223372036854775808; 14987979559889010688; 5188146770730811392] /\
  let w := [3;1;2;0; 0;0;1;1; 2;2;3;3; 0;1;2;3; 3;2;1;0; 1;3;0;2; 2;0;3;1; 1;1;1;3] in
  enumerate_kmers ([7] ++ w ++ [1;0] ++ [30] ++ firstn 31 w) 32
  = [3066233245340643288; 6923928664502056285; 9248970584298673524].
Proof. vm_compute. split; reflexivity. Qed.

(* ---- 7. no arithmetic trap on this domain (consumed by C18): in every state reachable by ACGT
        symbols the u64 sums of insert_canonical stay below 2^64, 64 - 2k and 64 - 2*cur_size do
        not underflow, shift amounts are below 64 ---- *)
Theorem no_trap_dir_step : forall k l s, 1 <= k <= 32 -> Forall acgt l -> acgt s ->
  let x := feed (kmer_new k) l in
  2 * k <= 64 /\ kshift k < 64 /\
  (kcur x = kmax x ->
     shl64 (kdir x) 2 + shl64 s (kshift k) < two64) /\
  (kcur x <> kmax x ->
     kcur x + 1 <= kmax x /\ 2 * (kcur x + 1) <= 64 /\ 64 - 2 * (kcur x + 1) < 64 /\
     kdir x + shl64 s (64 - 2 * (kcur x + 1)) < two64).
Proof. exact Kmer_proofs.no_trap_dir_step_proof. Qed.
Print Assumptions no_trap_dir_step.

Theorem no_trap_rc_step : forall k l s, 1 <= k <= 32 -> Forall acgt l -> acgt s ->
  let x := feed (kmer_new k) l in
  shr64 (krc x) 2 + shl64 (kmer_rc_base s) 62 < two64.
Proof. exact Kmer_proofs.no_trap_rc_step_proof. Qed.
Print Assumptions no_trap_rc_step.

(* hence the wrap64 in the model's steps is the identity there *)
Theorem insert_no_wrap : forall k l s, 1 <= k <= 32 -> Forall acgt l -> acgt s ->
  let x := feed (kmer_new k) l in
  (kcur x = kmax x -> dir_step_full k (kdir x) s = shl64 (kdir x) 2 + shl64 s (kshift k)) /\
  (kcur x <> kmax x ->
     dir_step_fill (kdir x) (kcur x + 1) s = kdir x + shl64 s (64 - 2 * (kcur x + 1))) /\
  rc_step k (krc x) s = N.land (shr64 (krc x) 2 + shl64 (kmer_rc_base s) 62) (kmask k).
Proof. exact Kmer_proofs.insert_no_wrap_proof. Qed.
Print Assumptions insert_no_wrap.

(* tight instance: k = 32, window all T, insert T: the sum is 2^64 - 1 *)
Example no_trap_nonvacuous :
  let l := repeat 3 40 in
  Forall acgt l /\ acgt 3 /\
  kcur (feed (kmer_new 32) l) = kmax (feed (kmer_new 32) l) /\
  shl64 (kdir (feed (kmer_new 32) l)) 2 + shl64 3 (kshift 32) = max_u64 /\
  shr64 (krc (feed (kmer_new 32) [0;0;0])) 2 + shl64 (kmer_rc_base 0) 62 = 18374686479671623680 /\
  kcur (feed (kmer_new 32) [0;0;0]) <> kmax (feed (kmer_new 32) [0;0;0]).
Proof.
  cbv zeta. split; [apply acgtb_forall; reflexivity |]. split; [reflexivity |].
  vm_compute. repeat split; (reflexivity || discriminate).
Qed.
