(* C04 — Archive bytes depend only on inputs and parameters, not on threads or timing.
   Creating an archive twice from the same inputs with the same parameters yields byte-identical files, for
   every worker-thread count and every interleaving of the producer and the worker threads (queue back-pressure,
   who pulls which contig, who finishes first).

   Model: coq/model/Determinism.v.  Part A (protocol): producer script / priority queue / N workers / barrier,
   schedule = list of events, any capacity.  Part B (pipeline): raw buffers of a round -> sort -> classification
   (arbitrary function) -> phase-3 claims in any interleaving -> BTreeMap write buffers -> finalize compression in
   any completion order -> parts of the file in file order.  The footer is a function of that list, the payloads
   are functions of the inputs (zstd assumed to be a function: exercised by the correspondence run). *)
From Coq Require Import List Permutation Sorted Lia Bool Arith NArith ZArith.
From Ragc Require Import Mach Consts_determinism Determinism Determinism_base Determinism_pipe Determinism_proto
  Determinism_gen Determinism_proofs.
Import ListNotations.

(* ---- 0. the ordering decisions of the code have the shape the model transcribes (translator; 0 = changed) *)
Example shapes_pinned :
  det_ord_contigtask = 1%N /\ det_ord_rawseg = 1%N /\ det_ord_bufseg = 1%N /\ det_pipeline_shape = 1%N /\
  det_push_shape = 1%N /\ det_tok_rule = 0%N /\ det_lower_next = 1%N /\
  det_prio_start = 2147483647%Z /\ det_flush_prio = 1000000%Z /\ det_final_prio = 1000000%Z /\ det_final_seq = 0%N.
Proof. repeat split; reflexivity. Qed.

(* ---- 1. pipeline: same contigs per round => same parts in the same file order.
   sigma1 = rs_bufs (any number of worker buffers, any distribution, any order inside a buffer),
   sigma2 = rs_claims (any interleaving of the phase-3 claimants), sigma3 = s3 (any completion order of the
   finalize compression).  Hypotheses on the abstract functions: distinct group buffers of one round write to
   distinct streams; the final partial packs have distinct stream ids. *)
Theorem schedule_independent :
  forall (G Buf Res Part : Type) (segment : contig -> list N)
         (classify : G -> list (skey * N) -> G * list Buf) (flushf : Buf -> Buf * list (N * Part) * Res)
         (res_gid : Res -> N) (commit : G -> list Res -> list Buf -> G)
         (fin_seq : G -> G * list (N * Part)) (fin_packs meta_parts : G -> list (N * Part)),
  (forall g l i j oi oj sp sq, i <> j ->
      nth_error (map flushf (snd (classify g l))) i = Some oi ->
      nth_error (map flushf (snd (classify g l))) j = Some oj ->
      In sp (snd (fst oi)) -> In sq (snd (fst oj)) -> fst sp <> fst sq) ->
  (forall g, NoDup (map fst (fin_packs g))) ->
  forall (g0 : G) (rounds rounds' : list rsched) (s3 s3' : list nat),
  Forall2 (fun r r' => Permutation (concat (rs_bufs r)) (concat (rs_bufs r')) /\
                       NoDup (map fst (concat (rs_bufs r)))) rounds rounds' ->
  output G Buf Res Part segment classify flushf res_gid commit fin_seq fin_packs meta_parts g0 rounds s3
  = output G Buf Res Part segment classify flushf res_gid commit fin_seq fin_packs meta_parts g0 rounds' s3'.
Proof.
  intros G Buf Res Part segment classify flushf res_gid commit fin_seq fin_packs meta_parts H1 H2.
  exact (Determinism_pipe.schedule_independent_proof G Buf Res Part segment classify flushf res_gid commit
           fin_seq fin_packs meta_parts H1 H2).
Qed.
Print Assumptions schedule_independent.

(* non-vacuity: a toy instance of the abstract functions that meets both hypotheses; two schedules of two
   rounds (1 buffer vs 3 buffers, different claim interleavings, different finalize orders) *)
Definition toy_classify (g : N) (l : list (skey * N)) : N * list (N * list N) :=
  ((g + 1)%N, [((2 * g)%N, map snd l); ((2 * g + 1)%N, map (fun x => (snd x + 1)%N) l)]).
Definition toy_flush (b : N * list N) : (N * list N) * list (N * N) * N := (b, map (pair (fst b)) (snd b), fst b).
Definition toy_out :=
  output N (N * list N) N N (fun c => [snd c; (snd c + 7)%N]) toy_classify toy_flush (fun r => r)
    (fun g rs bs => (g + N.of_nat (length rs))%N) (fun g => (g, [])) (fun g => [(100%N, g)]) (fun g => [(0%N, g)]).
Example schedule_independent_nonvacuous :
  (forall g l i j oi oj sp sq, i <> j ->
      nth_error (map toy_flush (snd (toy_classify g l))) i = Some oi ->
      nth_error (map toy_flush (snd (toy_classify g l))) j = Some oj ->
      In sp (snd (fst oi)) -> In sq (snd (fst oj)) -> fst sp <> fst sq) /\
  (forall g : N, NoDup (map fst [(100%N, g)])) /\
  let c1 : contig := ((0, 0), 10)%N in let c2 : contig := ((0, 1), 20)%N in let c3 : contig := ((1, 0), 30)%N in
  toy_out 0%N [ {| rs_bufs := [[c1; c2]]; rs_claims := [] |}; {| rs_bufs := [[c3]]; rs_claims := [1; 1; 0]%nat |} ] []
  = toy_out 0%N [ {| rs_bufs := [[c2]; []; [c1]]; rs_claims := [1; 0; 1; 0; 0]%nat |}; {| rs_bufs := [[]; [c3]]; rs_claims := [] |} ] [3; 0]%nat
  /\ length (toy_out 0%N [ {| rs_bufs := [[c1; c2]]; rs_claims := [] |}; {| rs_bufs := [[c3]]; rs_claims := [] |} ] []) = 14%nat.
Proof.
  split; [|split].
  - intros g l i j oi oj sp sq Hne Hi Hj Hsp Hsq. unfold toy_classify in *. cbn [snd map] in *.
    destruct i as [|[|i]]; destruct j as [|[|j]]; cbn [nth_error] in *; try congruence;
      try (destruct i; discriminate); try (destruct j; discriminate);
      inversion Hi; inversion Hj; subst; unfold toy_flush in *; cbn [fst snd] in *;
      apply in_map_iff in Hsp; apply in_map_iff in Hsq; destruct Hsp as [? [<- _]]; destruct Hsq as [? [<- _]]; cbn [fst]; lia.
  - intros g. repeat constructor. intros [].
  - vm_compute. split; reflexivity.
Qed.

(* ---- 2. protocol: for a well formed producer script the contigs of every sync round are exactly the ones
   the script intends for it, in every reachable state; a complete run has fired all R rounds. *)
Theorem rounds_as_intended : forall (n R : nat) (sc : list pact) (cap : N) (sigma : list ev),
  wf_script n R sc ->
  let s := run cap sigma (init n sc) in
  Forall2 (fun rd k => Permutation (concat rd) (expected_round sc k)) (s_rounds s) (seq 0 (length (s_rounds s))) /\
  (completeb s = true -> length (s_rounds s) = R).
Proof.
  intros n R sc cap sigma WF. split.
  - exact (Determinism_proto.rounds_as_intended n R sc cap WF sigma).
  - exact (Determinism_proto.complete_all_rounds n R sc cap WF sigma).
Qed.
Print Assumptions rounds_as_intended.

(* hence: two complete schedules (any capacities) have the same set of contigs in each round *)
Theorem rounds_schedule_independent : forall (n R : nat) (sc : list pact) (cap cap' : N) (sg sg' : list ev),
  wf_script n R sc ->
  completeb (run cap sg (init n sc)) = true -> completeb (run cap' sg' (init n sc)) = true ->
  Forall2 (fun rd rd' => Permutation (concat rd) (concat rd'))
          (s_rounds (run cap sg (init n sc))) (s_rounds (run cap' sg' (init n sc))).
Proof.
  intros n R sc cap cap' sg sg' WF C C'.
  exact (proj1 (Determinism_proofs.rounds_schedule_independent_proof n R sc cap cap' sg sg' WF C C')).
Qed.
Print Assumptions rounds_schedule_independent.

(* ---- 2b. the quiescent discipline of the design (drain / sync_and_flush / finalize): every phase pushes its
   contigs, waits until the queue is empty, pushes the N tokens, waits until the queue is empty.  Whatever the
   priorities, costs and sequence numbers are, round k of every complete run is exactly the contigs of phase k.
   (tagged: the ghost round field of phase k's tasks is k, its contigs are not tokens, its token is one.) *)
Theorem rounds_deterministic_quiescent : forall (n : nat) (phs : list (list task * task)) (cap : N) (sg : list ev),
  (0 < n)%nat -> tagged 0 phs ->
  let s := run cap sg (init n (quiescent_script n phs)) in
  completeb s = true ->
  Forall2 (fun rd ph => Permutation (concat rd) (fst ph)) (s_rounds s) phs.
Proof. exact Determinism_proofs.rounds_deterministic_quiescent_proof. Qed.
Print Assumptions rounds_deterministic_quiescent.

Example quiescent_nonvacuous :
  let c1 := mk_task false (0,0)%N 1 5 9 0 0 in let c2 := mk_task false (0,1)%N 2 (-7) 1 1 0 in
  let t0 := mk_task true (9,9)%N 0 1000 0 2 0 in   (* the token OUTRANKS the contigs: only the waits protect *)
  let c3 := mk_task false (1,0)%N 3 2000 4 3 1 in let t1 := mk_task true (9,9)%N 0 3000 0 0 1 in
  let phs := [([c1; c2], t0); ([c3], t1)] in
  let sg := concat (repeat [EProd; EPull 1 0; EPull 0 0; EFire] 20) ++ [ENone 0; ENone 1] in
  tagged 0 phs /\ completeb (run 9 sg (init 2 (quiescent_script 2 phs))) = true /\
  comp_keys (run 9 sg (init 2 (quiescent_script 2 phs))) = [[(0,0); (0,1)]; [(1,0)]]%N.
Proof.
  cbv zeta. split; [cbn; repeat split; repeat constructor|]. vm_compute. split; reflexivity.
Qed.

(* what "well formed" asks of a script, spelled out (Determinism_proto.wf_script) *)
Example wf_script_unfolded : forall n R sc, wf_script n R sc <->
  (StronglySorted (fun x y => (t_round x < t_round y)%nat \/
                              (t_round x = t_round y /\ (t_tok x = false \/ t_tok y = true))) (tasks_of sc) /\
   (forall x, In x (tasks_of sc) -> (t_round x < R)%nat) /\
   (forall k, (k < R)%nat -> length (filter (fun t => t_tok t && Nat.eqb (t_round t) k) (tasks_of sc)) = n) /\
   (forall A x B y C, sc = A ++ PPush x :: B ++ PPush y :: C -> t_round x = t_round y ->
       t_tok x = false -> t_tok y = true -> task_cmp y x = Lt \/ In PWaitEmpty B) /\
   (forall A x B y C, sc = A ++ PPush x :: B ++ PPush y :: C -> (t_round x < t_round y)%nat ->
       task_cmp y x = Lt \/ In PWaitEmpty B) /\
   (0 < n)%nat).
Proof.
  intros n R sc. split.
  - intros [H1 H2 H3 H4 H5 H6]. repeat split; assumption.
  - intros [H1 [H2 [H3 [H4 [H5 H6]]]]]. constructor; assumption.
Qed.

(* ---- 3. the scripts the producer really runs are well formed *)
Theorem multifile_script_wf : forall (n : nat) (first rest : list input),
  (0 < n)%nat -> (2 * Z.of_nat (length (first ++ rest)) + 4 < det_prio_start - 1000000)%Z ->
  wf_script n 2 (multifile_script current_rule n first rest).
Proof. exact Determinism_gen.multifile_wf. Qed.
Print Assumptions multifile_script_wf.

Theorem singlefile_script_wf : forall (n : nat) (pack : N) (ref rest : list input),
  (0 < n)%nat -> contiguous [] (ref ++ rest) ->
  (2 * Z.of_nat (length (ref ++ rest)) + 4 < det_prio_start - 1000000)%Z ->
  wf_script n (sf_rounds n pack ref rest) (singlefile_script current_rule n pack ref rest).
Proof. exact Determinism_gen.singlefile_wf. Qed.
Print Assumptions singlefile_script_wf.

(* ---- 4. round composition per mode, also across thread counts *)
Theorem multifile_rounds_deterministic : forall n n' first rest cap cap' sg sg',
  (0 < n)%nat -> (0 < n')%nat ->
  (2 * Z.of_nat (length (first ++ rest)) + 4 < det_prio_start - 1000000)%Z ->
  let sc := multifile_script current_rule n first rest in
  let sc' := multifile_script current_rule n' first rest in
  completeb (run cap sg (init n sc)) = true -> completeb (run cap' sg' (init n' sc')) = true ->
  Forall2 (fun rd rd' => Permutation (concat rd) (concat rd'))
          (s_rounds (run cap sg (init n sc))) (s_rounds (run cap' sg' (init n' sc'))) /\
  length (s_rounds (run cap sg (init n sc))) = 2%nat.
Proof. exact Determinism_proofs.multifile_rounds_proof. Qed.
Print Assumptions multifile_rounds_deterministic.

Theorem singlefile_rounds_deterministic : forall n n' pack ref rest cap cap' sg sg',
  (0 < n)%nat -> (0 < n')%nat -> contiguous [] (ref ++ rest) ->
  (2 * Z.of_nat (length (ref ++ rest)) + 4 < det_prio_start - 1000000)%Z ->
  let sc := singlefile_script current_rule n pack ref rest in
  let sc' := singlefile_script current_rule n' pack ref rest in
  completeb (run cap sg (init n sc)) = true -> completeb (run cap' sg' (init n' sc')) = true ->
  Forall2 (fun rd rd' => Permutation (concat rd) (concat rd'))
          (s_rounds (run cap sg (init n sc))) (s_rounds (run cap' sg' (init n' sc'))).
Proof. exact Determinism_proofs.singlefile_rounds_proof. Qed.
Print Assumptions singlefile_rounds_deterministic.

(* ---- 5. end to end: thread counts n n', capacities, protocol schedules sg sg' (which also fix who pulled which
   contig, i.e. sigma1), claim interleavings cl cl', finalize orders s3 s3' *)
Theorem multifile_deterministic :
  forall (G Buf Res Part : Type) (segment : contig -> list N)
         (classify : G -> list (skey * N) -> G * list Buf) (flushf : Buf -> Buf * list (N * Part) * Res)
         (res_gid : Res -> N) (commit : G -> list Res -> list Buf -> G)
         (fin_seq : G -> G * list (N * Part)) (fin_packs meta_parts : G -> list (N * Part)),
  (forall g l i j oi oj sp sq, i <> j ->
      nth_error (map flushf (snd (classify g l))) i = Some oi ->
      nth_error (map flushf (snd (classify g l))) j = Some oj ->
      In sp (snd (fst oi)) -> In sq (snd (fst oj)) -> fst sp <> fst sq) ->
  (forall g, NoDup (map fst (fin_packs g))) ->
  forall n n' first rest cap cap' sg sg' cl cl' s3 s3' g0,
  (0 < n)%nat -> (0 < n')%nat ->
  (2 * Z.of_nat (length (first ++ rest)) + 4 < det_prio_start - 1000000)%Z ->
  NoDup (map (fun inp : input => fst (fst inp)) (first ++ rest)) ->
  let sc := multifile_script current_rule n first rest in
  let sc' := multifile_script current_rule n' first rest in
  completeb (run cap sg (init n sc)) = true -> completeb (run cap' sg' (init n' sc')) = true ->
  output G Buf Res Part segment classify flushf res_gid commit fin_seq fin_packs meta_parts g0
    (attach (s_rounds (run cap sg (init n sc))) cl) s3
  = output G Buf Res Part segment classify flushf res_gid commit fin_seq fin_packs meta_parts g0
    (attach (s_rounds (run cap' sg' (init n' sc'))) cl') s3'.
Proof.
  intros G Buf Res Part segment classify flushf res_gid commit fin_seq fin_packs meta_parts H1 H2.
  exact (Determinism_proofs.multifile_deterministic_proof G Buf Res Part segment classify flushf res_gid commit
           fin_seq fin_packs meta_parts H1 H2).
Qed.
Print Assumptions multifile_deterministic.

Theorem singlefile_deterministic :
  forall (G Buf Res Part : Type) (segment : contig -> list N)
         (classify : G -> list (skey * N) -> G * list Buf) (flushf : Buf -> Buf * list (N * Part) * Res)
         (res_gid : Res -> N) (commit : G -> list Res -> list Buf -> G)
         (fin_seq : G -> G * list (N * Part)) (fin_packs meta_parts : G -> list (N * Part)),
  (forall g l i j oi oj sp sq, i <> j ->
      nth_error (map flushf (snd (classify g l))) i = Some oi ->
      nth_error (map flushf (snd (classify g l))) j = Some oj ->
      In sp (snd (fst oi)) -> In sq (snd (fst oj)) -> fst sp <> fst sq) ->
  (forall g, NoDup (map fst (fin_packs g))) ->
  forall n n' pack ref rest cap cap' sg sg' cl cl' s3 s3' g0,
  (0 < n)%nat -> (0 < n')%nat ->
  contiguous [] (ref ++ rest) ->
  (2 * Z.of_nat (length (ref ++ rest)) + 4 < det_prio_start - 1000000)%Z ->
  NoDup (map (fun inp : input => fst (fst inp)) (ref ++ rest)) ->
  let sc := singlefile_script current_rule n pack ref rest in
  let sc' := singlefile_script current_rule n' pack ref rest in
  completeb (run cap sg (init n sc)) = true -> completeb (run cap' sg' (init n' sc')) = true ->
  output G Buf Res Part segment classify flushf res_gid commit fin_seq fin_packs meta_parts g0
    (attach (s_rounds (run cap sg (init n sc))) cl) s3
  = output G Buf Res Part segment classify flushf res_gid commit fin_seq fin_packs meta_parts g0
    (attach (s_rounds (run cap' sg' (init n' sc'))) cl') s3'.
Proof.
  intros G Buf Res Part segment classify flushf res_gid commit fin_seq fin_packs meta_parts H1 H2.
  exact (Determinism_proofs.singlefile_deterministic_proof G Buf Res Part segment classify flushf res_gid commit
           fin_seq fin_packs meta_parts H1 H2).
Qed.
Print Assumptions singlefile_deterministic.

(* ---- 6. the pack-boundary rule before /repo commit 445c73a (tokens carry the pre-decrement priority but
   next_priority is NOT lowered): refuted.  One worker, pack size 2, samples with 1, 5 and 2 contigs: the worker
   keeping up with the producer versus the producer running ahead give different round compositions (the third
   sample's first contig overtakes the second token block). *)
Theorem singlefile_old_rule_refuted :
  exists (n : nat) (pack : N) (ref rest : list input) (cap : N) (sg sg' : list ev),
    (0 < n)%nat /\ contiguous [] (ref ++ rest) /\
    (2 * Z.of_nat (length (ref ++ rest)) + 4 < det_prio_start - 1000000)%Z /\
    NoDup (map (fun inp : input => fst (fst inp)) (ref ++ rest)) /\
    let sc := singlefile_script (mk_prule 0 0 false) n pack ref rest in
    completeb (run cap sg (init n sc)) = true /\ completeb (run cap sg' (init n sc)) = true /\
    map (fun rd => map t_key (concat rd)) (s_rounds (run cap sg (init n sc)))
      = [[(0,0)]; [(1,0); (1,1)]; [(1,2); (1,3)]; [(1,4); (2,0)]; [(2,1)]]%N /\
    map (fun rd => map t_key (concat rd)) (s_rounds (run cap sg' (init n sc)))
      = [[(0,0)]; [(1,0); (1,1); (2,0)]; []; [(1,2); (1,3); (2,1)]; [(1,4)]]%N.
Proof.
  exists 1%nat, 2%N, wit_ref, wit_rest, 1000%N, wit_eager, wit_lazy.
  destruct Determinism_proofs.singlefile_old_rule_refuted_proof as [H1 [H2 [H3 [H4 H5]]]].
  split; [lia|]. split; [exact H1|]. split; [vm_compute; reflexivity|]. split.
  - cbn. repeat constructor; cbn; intuition discriminate.
  - cbv zeta. repeat split; assumption.
Qed.
Print Assumptions singlefile_old_rule_refuted.

(* the same input and the same two schedules under the current rule: both complete, same composition
   (non-vacuity of singlefile_rounds_deterministic: its hypotheses hold for this instance) *)
Example singlefile_current_rule_on_witness :
  let sc := singlefile_script current_rule 1 2 wit_ref wit_rest in
  (0 < 1)%nat /\ contiguous [] (wit_ref ++ wit_rest) /\
  (2 * Z.of_nat (length (wit_ref ++ wit_rest)) + 4 < det_prio_start - 1000000)%Z /\
  completeb (run 1000 wit_eager (init 1 sc)) = true /\ completeb (run 1000 wit_lazy (init 1 sc)) = true /\
  comp_keys (run 1000 wit_eager (init 1 sc)) = [[(0,0)]; [(1,0); (1,1)]; [(1,2); (1,3)]; [(1,4); (2,0)]; [(2,1)]]%N /\
  comp_keys (run 1000 wit_lazy (init 1 sc)) = [[(0,0)]; [(1,0); (1,1)]; [(1,2); (1,3)]; [(1,4); (2,0)]; [(2,1)]]%N /\
  (* ... and with 3 workers and a queue that holds one contig at a time *)
  completeb (run 1 (concat (repeat ([EProd; EPull 2 0; EPull 0 0; EPull 1 0; EPull 1 1; EPull 0 1; EPull 2 1; EFire]) 60)
                    ++ [ENone 0; ENone 1; ENone 2])
                 (init 3 (singlefile_script current_rule 3 2 wit_ref wit_rest))) = true.
Proof.
  cbv zeta. split; [lia|]. split; [exact (proj1 Determinism_proofs.singlefile_old_rule_refuted_proof)|].
  vm_compute. repeat split; reflexivity.
Qed.

(* multi-file: a concrete complete run (2 workers) meets the hypotheses of multifile_deterministic *)
Example multifile_nonvacuous :
  let first : list input := [((0, 0), 100, 9); ((0, 1), 101, 4)]%N in
  let rest : list input := [((1, 0), 110, 9); ((2, 0), 120, 3)]%N in
  let sc := multifile_script current_rule 2 first rest in
  let sg := concat (repeat [EProd; EPull 1 0; EPull 0 0; EFire] 30) ++ [ENone 0; ENone 1] in
  (2 * Z.of_nat (length (first ++ rest)) + 4 < det_prio_start - 1000000)%Z /\
  NoDup (map (fun inp : input => fst (fst inp)) (first ++ rest)) /\
  completeb (run 5 sg (init 2 sc)) = true /\
  comp_keys (run 5 sg (init 2 sc)) = [[(0,0); (0,1)]; [(1,0); (2,0)]]%N.
Proof.
  cbv zeta. split; [vm_compute; reflexivity|]. split.
  - cbn. repeat constructor; cbn; intuition discriminate.
  - vm_compute. split; reflexivity.
Qed.
