(* C06 - bounded priority queue (ragc-core/src/memory_bounded_queue.rs): under any concurrent mix of producers and
   consumers every accepted item is returned exactly once and nothing else is returned; a pull never returns an
   item while a strictly higher-priority queued item stays behind; queued bytes never exceed the capacity when each
   item fits; after close pushes are refused, pulls drain then report end-of-stream, nobody stays blocked.

   "every trace" = every list of events accepted by Queue.step from Queue.init: any number of threads, any
   interleaving of their critical sections, any choice of notify_one target / heap tie / spurious wake-up.
   Trusted (the step function's guards): Mutex gives mutual exclusion, Condvar::wait releases the lock atomically,
   notify_one wakes one blocked thread if there is one, notify_all wakes all, BinaryHeap::pop returns a maximum. *)
From Coq Require Import Permutation.
From Ragc Require Import Mach Queue Queue_proofs Consts_queue.
Open Scope N_scope.

(* accepted = returned (+) queued as multisets, admission numbers unique: returned exactly once, nothing else *)
Theorem exactly_once : forall cap tr s, run cap init tr = Some s ->
  Permutation (accepted s) (returned s ++ items s) /\ NoDup (map iseq (accepted s)) /\
  NoDup (map iseq (returned s ++ items s)) /\ incl (returned s) (accepted s).
Proof. exact Queue_proofs.exactly_once_proof. Qed.
Print Assumptions exactly_once.

(* the ghost fields accepted / returned are exactly the admit / take events of the trace *)
Theorem history_faithful : forall cap s e s', step cap s e = Some s' ->
  accepted s' = match admit_of e with Some (p, sz) => mkItem (nseq s) p sz :: accepted s | None => accepted s end /\
  nseq s' = match admit_of e with Some _ => nseq s + 1 | None => nseq s end /\
  returned s' = match take_of e with
                | Some sq => match extract iseq sq (items s) with Some (i, _) => i :: returned s | None => returned s end
                | None => returned s end.
Proof. exact Queue_proofs.history_faithful_proof. Qed.
Print Assumptions history_faithful.

(* a take (pull or try_pull) hands out a queued, accepted, not yet returned item i, and no item queued at that
   moment has a strictly higher priority *)
Theorem priority : forall cap tr s e sq s',
  run cap init tr = Some s -> take_of e = Some sq -> step cap s e = Some s' ->
  exists i, In i (items s) /\ iseq i = sq /\ returned s' = i :: returned s /\
            Permutation (items s) (i :: items s') /\
            (forall j, In j (items s) -> (iprio j <= iprio i)%Z) /\
            In i (accepted s) /\ ~ In i (returned s).
Proof. exact Queue_proofs.priority_proof. Qed.
Print Assumptions priority.

Theorem size_accounting : forall cap tr s, run cap init tr = Some s -> cur s = sumsz (items s).
Proof. exact Queue_proofs.size_accounting_proof. Qed.
Print Assumptions size_accounting.

(* `current_size -= size` never underflows *)
Theorem take_no_underflow : forall cap tr s i, run cap init tr = Some s -> In i (items s) -> isize i <= cur s.
Proof. exact Queue_proofs.take_no_underflow_proof. Qed.
Print Assumptions take_no_underflow.

Theorem bounded : forall cap tr s, run cap init tr = Some s ->
  (forall i, In i (accepted s) -> isize i <= cap) -> cur s <= cap.
Proof. exact Queue_proofs.bounded_proof. Qed.
Print Assumptions bounded.

(* in a closed state no step admits, closed stays, and a push / try_push by an idle thread is refused *)
Theorem closed_refuses : forall cap tr s, run cap init tr = Some s -> closed s = true ->
  (forall e s', step cap s e = Some s' -> is_admit e = false /\ accepted s' = accepted s /\ closed s' = true) /\
  (forall t p sz, idle s t = true ->
     step cap s (ETryRefuse t p sz) = Some s /\
     (cur s + sz < two64 -> step cap s (EPushRefuse t p sz false) = Some s)).
Proof. exact Queue_proofs.closed_refuses_proof. Qed.
Print Assumptions closed_refuses.

Theorem no_admit_after_close : forall cap tr1 t tr2 s,
  run cap init (tr1 ++ EClose t :: tr2) = Some s ->
  Forall (fun e => is_admit e = false) tr2 /\
  exists s1, run cap init (tr1 ++ [EClose t]) = Some s1 /\ accepted s = accepted s1 /\ closed s = true.
Proof. exact Queue_proofs.no_admit_after_close_proof. Qed.
Print Assumptions no_admit_after_close.

(* pull in a closed state (by an idle thread, w = false, or by a thread woken inside pull, w = true):
   while items remain it can only take one (never None, never wait); when empty it can only report None *)
Theorem closed_drains_then_none : forall cap tr s, run cap init tr = Some s -> closed s = true ->
  forall t w, ((w = false /\ idle s t = true) \/ (w = true /\ In t (kempty s))) ->
  (items s <> [] ->
     step cap s (EPullNone t w) = None /\ step cap s (EPullWait t w) = None /\
     exists sq s', step cap s (EPullTake t w sq None) = Some s') /\
  (items s = [] ->
     (exists s', step cap s (EPullNone t w) = Some s' /\ Permutation (accepted s') (returned s')) /\
     step cap s (EPullWait t w) = None /\
     forall sq ntf, step cap s (EPullTake t w sq ntf) = None).
Proof. exact Queue_proofs.closed_drains_then_none_proof. Qed.
Print Assumptions closed_drains_then_none.

(* end-of-stream is only ever reported by pull when closed and everything accepted has been handed out *)
Theorem pull_none_only_when_drained : forall cap tr s t w s',
  run cap init tr = Some s -> step cap s (EPullNone t w) = Some s' ->
  closed s = true /\ items s = [] /\ Permutation (accepted s) (returned s) /\ returned s' = returned s.
Proof. exact Queue_proofs.pull_none_only_when_drained_proof. Qed.
Print Assumptions pull_none_only_when_drained.

(* after close nobody is blocked: both wait sets are empty (close's notify_all moved every waiter to the woken
   sets), every woken thread has an enabled step that ends its call (its loop condition is false), and no step
   of a closed state puts a thread to sleep or adds a thread to a woken set *)
Theorem closed_nobody_blocked : forall cap tr s, run cap init tr = Some s -> closed s = true ->
  wfull s = [] /\ wempty s = [] /\
  (forall t p sz, In (t, (p, sz)) (kfull s) -> cur s + sz < two64 ->
     exists s', step cap s (EPushRefuse t p sz true) = Some s') /\
  (forall t, In t (kempty s) ->
     (items s = [] -> exists s', step cap s (EPullNone t true) = Some s') /\
     (items s <> [] -> exists sq s', step cap s (EPullTake t true sq None) = Some s')) /\
  (forall e s', step cap s e = Some s' ->
     is_wait e = false /\ wfull s' = [] /\ wempty s' = [] /\
     incl (kfull s') (kfull s) /\ incl (kempty s') (kempty s)).
Proof. exact Queue_proofs.closed_nobody_blocked_proof. Qed.
Print Assumptions closed_nobody_blocked.

(* a thread is in at most one of: blocked in push, woken in push, blocked in pull, woken in pull *)
Theorem threads_distinct : forall cap tr s, run cap init tr = Some s ->
  NoDup (map ftid (wfull s) ++ map ftid (kfull s) ++ wempty s ++ kempty s).
Proof. exact Queue_proofs.threads_distinct_proof. Qed.
Print Assumptions threads_distinct.

(* for C05: a push only goes to sleep while the queue is open and holds at least one item *)
Theorem push_wait_nonempty : forall cap tr s t p sz w s',
  run cap init tr = Some s -> step cap s (EPushWait t p sz w) = Some s' ->
  closed s = false /\ 0 < cur s /\ items s <> [] /\ cap < cur s + sz /\ In (t, (p, sz)) (wfull s').
Proof. exact Queue_proofs.push_wait_nonempty_proof. Qed.
Print Assumptions push_wait_nonempty.

(* for C05: no lost wake-up.  While open, a blocked producer implies a queued item or a woken producer;
   a blocked consumer implies every queued item has a woken consumer of its own *)
Theorem no_lost_wakeup : forall cap tr s, run cap init tr = Some s ->
  (closed s = false -> wfull s <> [] -> items s <> [] \/ kfull s <> []) /\
  (wempty s <> [] -> (length (items s) <= length (kempty s))%nat).
Proof. exact Queue_proofs.no_lost_wakeup_proof. Qed.
Print Assumptions no_lost_wakeup.

(* the log replay used by the correspondence check only ever performs model steps *)
Theorem replay_sound : forall cap ls s pd s' pd',
  replay cap (s, pd) ls = Some (s', pd') -> exists tr, run cap s tr = Some s'.
Proof. exact Queue_proofs.replay_sound_proof. Qed.
Print Assumptions replay_sound.

(* ---- non-vacuity: a concrete trace with 4 threads, capacity 10: consumer 2 sleeps on the empty queue, producer 1
   admits and wakes it, producer 3 sleeps on the full queue, 2 takes and wakes 3, 3 admits, 4 closes, 2 drains. *)
Definition ex_open : list event :=
  [EPullWait 2 false; EPushAdmit 1 5 6 false (Some 2); EPushWait 3 7 6 false].
Definition ex_trace : list event :=
  ex_open ++ [EPullTake 2 true 0 (Some 3); EPushAdmit 3 7 6 true None; EClose 4;
              EPushRefuse 1 9 1 false; EPullTake 2 false 1 None; EPullNone 2 false].

Example ex_trace_runs : exists s, run 10 init ex_trace = Some s /\ closed s = true /\ items s = [] /\
  length (accepted s) = 2%nat /\ length (returned s) = 2%nat /\ forallb (fun i => isize i <=? 10) (accepted s) = true.
Proof. eexists. split; [vm_compute; reflexivity|]. vm_compute. repeat split. Qed.

(* bounded's hypothesis is needed: push admits an oversize item when nothing is queued (cur = 11 > cap = 10) *)
Example bounded_needs_each_item_fits : exists s, run 10 init [EPushAdmit 1 0 11 false None] = Some s /\ cur s = 11.
Proof. eexists. split; [vm_compute; reflexivity|]. vm_compute. reflexivity. Qed.

(* a closed state with a woken producer (3) and a woken consumer (2): the hypotheses of closed_nobody_blocked,
   closed_refuses, closed_drains_then_none (items <> []) are met *)
Example ex_closed_with_woken : exists s, run 10 init (ex_open ++ [EClose 4]) = Some s /\ closed s = true /\
  kfull s = [(3, (7%Z, 6))] /\ kempty s = [2] /\ items s <> [] /\ idle s 1 = true /\ cur s + 6 < two64.
Proof. eexists. split; [vm_compute; reflexivity|]. vm_compute. repeat split; discriminate. Qed.

(* push_wait_nonempty / no_lost_wakeup: an open state with a blocked producer *)
Example ex_blocked_producer : exists s s', run 10 init [EPushAdmit 1 5 6 false None] = Some s /\
  step 10 s (EPushWait 3 7 6 false) = Some s' /\ closed s' = false /\ wfull s' <> [].
Proof.
  eexists. eexists. split; [vm_compute; reflexivity|]. split; [vm_compute; reflexivity|].
  vm_compute. repeat split; discriminate.
Qed.

(* priority with a tie: both items of priority 5 may be taken first, the one of priority 4 may not *)
Example ex_tie : exists s, run 10 init [ETryAdmit 1 5 1 None; ETryAdmit 1 4 1 None; ETryAdmit 1 5 1 None] = Some s /\
  step 10 s (ETryTake 2 0 None) <> None /\ step 10 s (ETryTake 2 2 None) <> None /\ step 10 s (ETryTake 2 1 None) = None.
Proof. eexists. split; [vm_compute; reflexivity|]. vm_compute. repeat split; discriminate. Qed.

(* replay of a hook log: WE 2; A 1 0 6; KE 2; T 2 0 6; C 4; N 2 *)
Example ex_replay : exists s, replay 10 (init, None) [LWE 2; LA 1 5 0 6; LKE 2; LT 2 0 6; LC 4; LN 2] = Some (s, None) /\
  quiescent (s, None) = true.
Proof. eexists. split; [vm_compute; reflexivity|]. vm_compute. reflexivity. Qed.

(* The tie between Queue.step's shape and the source text, regenerated by the translator on every run
   (translator/items_queue.py): Queue.step makes every operation - close included - one critical section of the
   single mutex.  The three generated constants say that items / current_size / closed are fields of the one struct
   inside the queue's only Mutex (no atomic flag beside it), that close() takes the lock before setting closed and
   then notifies both condition variables with notify_all, and that push / pull wait in a predicate loop under the
   guard.  A source that moves `closed` out of the mutex or closes without the lock (lost wake-up: a waiter can
   test the flag, be overtaken by close, and sleep forever) flips a constant and this statement stops checking. *)
Theorem source_has_model_shape :
  q_state_under_one_mutex = 1%N /\ q_close_under_lock = 1%N /\ q_wait_loops = 1%N.
Proof. repeat split; reflexivity. Qed.
Print Assumptions source_has_model_shape.
