"""C02S - completeness of the strict mode on written archives (sub-check of C02).  coq/spec/AgcV3.v strict_check re-checks,
with the pinned format constants only, every AGC-v3 addressing rule a C++ reader relies on and names the first rule
that is broken (13 error codes).  props/C02B.v strict_sound says what strict ACCEPTS is what the plain decoder returns;
props/C02B.v writer_conforms / props/C01G.v grand_roundtrip say the plain decoder reads written files back.  What was
missing: that written files PASS every strict check.  props/C02S.v (proofs/Strict_proofs.v):
  strict_accepts_written  - abstract container history (hypotheses of writer_conforms + names_paired: nothing but fixed
                            names and paired x<id>r / x<id>d in the directory): strict_check = None and
                            decode_strict = SOk (reassembled k L)
  grand_strict            - ModelCreate.model_build under grand_roundtrip's hypotheses: strict_check (b_file b) = None and
                            decode_strict zd (b_file b) = SOk samples  (ONE theorem about file bytes)
  accepted_rules          - for ANY file, strict_check = None implies each of the 13 rules (rule_* pinned in rules_def)
  written_<rule>          - one corollary per error code for written files (written_file pinned in written_file_def).

Proof-only check: no model run of its own.  strict_check / decode_strict are tied to real archive bytes by C02B's
correspondence (the extracted strict decoder on real .agc files and on mutated ones); the writer models by C02, C03, C13,
C01G."""

PROP = "C02S"
AREAS = ["agcv3", "kmer", "segment", "pipeline", "groupstore", "tuple", "lz", "collection", "archive", "fasta"]
NO_MODEL_RUN = True
THEOREMS = ["strict_accepts_written", "written_file_accepted", "grand_strict", "accepted_rules",
            "written_container_opens", "written_names_paired", "written_params_ok", "written_collection_loads",
            "written_streams_exist", "written_one_ref_part", "written_metadata_convention", "written_pack_marker",
            "written_pack_layout", "written_placeholder", "written_ids_address_entries", "written_segments_decode",
            "written_desc_len"]
RULE = ("proof-only sub-check of C02: bin/check rebuilds props/C02S.vo from the regenerated constants, re-runs coqc on "
        "props/C02S.v and requires 'Closed under the global context' under every pinned theorem. Non-vacuity: "
        "grand_strict_nonvacuous re-uses the two-sample instance of C01G (raw group 3, LZ groups 16/17, two store rounds, toy "
        "zstd), discharges every hypothesis of grand_strict and computes by vm_compute strict_check = None and decode_strict = "
        "SOk input on the produced file bytes; written_file_nonvacuous shows the archive of C02B writer_conforms_nonvacuous is "
        "a written_file (its directory = 7 fixed names + x<16>d/r + x<3>d/r is names_paired). C02B strict_codes_nonvacuous "
        "shows the checker does reject (7 different codes on one-byte mutations). No generated cases: the tie of strict_check to "
        "real archive bytes is C02B's correspondence, that of each writer layer the check of its own property")
TRUSTED = ["coq/spec/AgcV3.v strict_check: the list of rules and pinned constants is a hand transcription of the AGC v3 format "
           "(provenance in its header); this check proves the model writer meets them, not that the list is complete",
           "same writer models as C02B / C01G (GroupStore, Collection, Container, ModelCreate.model_build: the ORDER of Archive "
           "calls is a hand transcription observed on real archives by C02B and C13); nothing new is transcribed from the Rust here",
           "threads are oracles: decisions, group assignment, store schedule, arrival order of registrations (any value)"]
ASSUMPTIONS = ["zstd: zd (zc l x) = Some x and zc l x <> [] for all levels and inputs",
               "strict_accepts_written / written_<rule>: the hypotheses of writer_conforms (4 <= min_match_len; k, min_match_len, "
               "segment size below 2^32; C02 ops_ok on the group ops; C03 catalogue hypotheses; every segment of the layout "
               "registered; well-formed container history within the largest file offset holding params / catalogue / group "
               "parts under the pinned names) PLUS names_paired: the directory holds only the seven fixed names and, for u32 "
               "group ids, both canonical stream names. Without it E_NAMES is reachable (writer_conforms allows foreign "
               "streams); for model_build it is PROVED (grand_strict has no such hypothesis). The k-overlap hypothesis of "
               "writer_conforms is needed for decode_strict = SOk only, not for strict_check = None",
               "grand_strict: exactly the hypotheses of C01G grand_roundtrip (model_build = Ok b, catalogue_in_dom, part "
               "metadata below 2^64, file length bound, oracles); C01T removes '= Ok' there and applies here unchanged"]


def gen_cases(rng, tier):
    return []


def nontrivial(case, impl):
    return False


def oracle(case, impl):
    return None


def finding_class(case, line, why):
    return None
