"""C03 sample / contig catalogue preserved exactly: generator, oracle (decoded == what was put in), search.

Case language: see ocaml/c03/driver.ml.  The oracle never uses the Coq model: it re-states the property on the
implementation's own answer (round trip gives the input back; listing order = first-registration order)."""
import random

PROP = "C03"
SUBCHECKS = ["C03L"]   # length bounds of the name codec; parts_meta_u64_total (props/C03L.v)
AREAS = ["collection"]
THEOREMS = ["cvarint_roundtrip", "zigzag_roundtrip", "zigzag_i64_roundtrip", "field_roundtrip", "names_roundtrip",
            "sample_names_roundtrip", "details_roundtrip", "batches_roundtrip", "listing_order"]
RULE = ("cases: cv/cvd (prefix varint incl. all 5 length classes and their borders), zz/zzd/zi/zid (zigzag), utf8, "
        "split/esplit, names (name tables through register + serialize_contig_names + deserialize into a fresh "
        "collection: real serialised bytes AND decoded table compared with the model), dnames (mutated / random streams, "
        "outcome agreement), snames/dsnames, details (descriptor tables: bytes of the 5 streams and decoded table), "
        "ddetails (mutated streams), coll (register/add_segment_placed op sequences, store in batches through a real "
        "Archive file with zstd, reopen, load all batches, then load every batch a SECOND time into the same collection (the reader's reload-on-miss history): the catalogue must not change; 1..130 samples crossing 50 and 100). non-trivial = the "
        "decoded table is non-empty and the case is inside the theorem's domain; distinct = distinct case line")
TRUSTED = ["python oracle in checks/c03.py (dedup-in-order reference for register/add_segment_placed; round trip = identity)",
           "zstd (Section variables zc/zd with zd (zc l x) = Some x); the model side of `coll` runs with zc = id",
           "Archive returns the parts of a stream in the order added (C13)"]
ASSUMPTIONS = ["names: bytes 1..127 (no NUL, no byte >= 128); fewer than 2^32 contigs per sample and samples per batch",
               "descriptors: group id < 2^32-1, in-group id < 2^31-1, raw length < 2^32, or the hole filler "
               "(u32::MAX,u32::MAX,false,0); segment_size + kmer_length <= 2^31",
               "sample names: bytes 1..127, pairwise different (what register_sample_contig guarantees)",
               "every serialised stream of a batch and its zstd image is shorter than 2^32 bytes",
               "batch size > 0 (the code's constant is 50)"]
U32 = (1 << 32) - 1


def hx(b):
    return bytes(b).hex() if len(b) else "-"


def unhx(s):
    return b"" if s == "-" else bytes.fromhex(s)


# ---------------------------------------------------------------- python reference pieces (generation only)
def cv(n):
    if n < 128:
        return bytes([n])
    if n < 16512:
        n -= 128
        return bytes([0x80 + (n >> 8), n & 255])
    if n < 2113664:
        n -= 16512
        return bytes([0xC0 + (n >> 16), (n >> 8) & 255, n & 255])
    if n < 270549120:
        n -= 2113664
        return bytes([0xE0 + (n >> 24), (n >> 16) & 255, (n >> 8) & 255, n & 255])
    n -= 270549120
    return bytes([0xF0, (n >> 24) & 255, (n >> 16) & 255, (n >> 8) & 255, n & 255])


def cv_dec(b, i):
    """(value, next index) or None when the input is short (5-byte overflow is reported as a huge value)"""
    if i >= len(b):
        return None
    f = b[i]
    n = 1 if f < 0x80 else 2 if f < 0xC0 else 3 if f < 0xE0 else 4 if f < 0xF0 else 5
    if i + n > len(b):
        return None
    if n == 1:
        return f, i + 1
    if n == 5:
        return int.from_bytes(b[i + 1:i + 5], "big") + 270549120, i + 5
    v = int.from_bytes(b[i:i + n], "big") - ([0, 0, 0x8000, 0xC00000, 0xE0000000][n]) + [0, 0, 128, 16512, 2113664][n]
    return v, i + n


def names_stream_small(b, lim=20000):
    """True when no count the decoder would read from this names stream exceeds lim (the real code does
    `contigs.reserve(count)`; a mutated count of 2^32 is an allocation failure, not an outcome of interest)"""
    r = cv_dec(b, 0)
    if r is None:
        return True
    ns, i = r
    if ns > lim:
        return False
    for _ in range(ns):
        r = cv_dec(b, i)
        if r is None:
            return True
        nc, i = r
        if nc > lim:
            return False
        for _ in range(nc):
            j = b.find(b"\0", i)
            if j < 0:
                return True
            i = j + 1
    return True


def details_stream_small(b, lim=20000):
    r = cv_dec(b, 0)
    if r is None:
        return True
    ns, i = r
    if ns > lim:
        return False
    tot = 0
    for _ in range(ns):
        r = cv_dec(b, i)
        if r is None:
            return True
        nc, i = r
        if nc > lim:
            return False
        for _ in range(nc):
            r = cv_dec(b, i)
            if r is None:
                return True
            x, i = r
            tot += x
            if x > lim or tot > 5 * lim:
                return False
    return True


def group_stream_small(b, lim=1 << 21):
    """group ids index the predictor vector (resize to 1.2 * id entries): keep decoded ids of a mutated stream small"""
    i = 0
    while True:
        r = cv_dec(b, i)
        if r is None:
            return True
        if r[0] > lim:
            return False
        i = r[1]


def ref_enc_names(table):
    """independent re-implementation of the names stream (used only to produce nearly-valid streams to mutate)"""
    out = bytearray(cv(len(table)))
    for s in table:
        out += cv(len(s))
        prev = []
        for nm in s:
            cur = nm.split(b" ")
            if len(cur) != len(prev):
                out += nm + b"\0"
            else:
                enc = []
                for p, c in zip(prev, cur):
                    if p == c:
                        enc.append(b"\x81")
                    elif len(p) != len(c):
                        enc.append(c)
                    else:
                        e, cnt = bytearray(), 0
                        for a, b in zip(p, c):
                            if a == b:
                                if cnt == 100:
                                    e.append(256 - cnt)
                                    cnt = 1
                                else:
                                    cnt += 1
                            else:
                                if cnt:
                                    e.append(256 - cnt)
                                    cnt = 0
                                e.append(b)
                        if cnt:
                            e.append(256 - cnt)
                        enc.append(bytes(e))
                out += b" ".join(enc) + b"\0"
            prev = cur
    return bytes(out)


# ---------------------------------------------------------------- name tables
WORDS = [b"chr1", b"chr2", b"chrX", b"chr10", b"NC_000001.11", b"NC_000002.12", b"Homo", b"sapiens", b"chromosome",
         b"1,", b"GRCh38.p14", b"Primary", b"Assembly", b"len=1000", b"len=1001", b"len=999", b"S288C#1#chrI",
         b"S288C#1#chrII", b"HG002#2#h1tg000001l", b"HG002#2#h1tg000002l", b"a", b"b", b"", b"\t", b"x\ty", b"~", b"!",
         b"\x01", b"\x7f", b"contig_0001", b"contig_0002", b"contig_0010", b"scaffold12|arrow|pilon"]


def rand_field(rng):
    r = rng.random()
    if r < 0.55:
        return rng.choice(WORDS)
    if r < 0.65:
        return bytes([rng.choice(b"ACGTN")]) * rng.choice([1, 2, 99, 100, 101, 102, 150, 199, 200, 201, 202, 250, 300, 330])
    if r < 0.75:
        return b""
    n = rng.choice([1, 2, 3, 5, 8, 13, 40])
    return bytes(rng.choice(b"abcxyzACGT0123456789_.:|#=-\t") for _ in range(n))


def mutate_field(rng, f):
    r = rng.random()
    if r < 0.35 or not f:
        return f if r < 0.35 else rand_field(rng)
    b = bytearray(f)
    if r < 0.7:  # same length, some positions changed
        for _ in range(rng.choice([1, 1, 2, 3, len(b)])):
            i = rng.choice([0, len(b) - 1, rng.randrange(len(b))])
            b[i] = rng.choice(b"0123456789ACGTxyz.~\t")
        return bytes(b)
    if r < 0.8:  # counter-like increment at the end
        i = len(b) - 1
        while i >= 0 and 48 <= b[i] <= 57:
            if b[i] < 57:
                b[i] += 1
                return bytes(b)
            b[i] = 48
            i -= 1
        return bytes(b) + b"0"
    if r < 0.9:
        return bytes(b) + bytes([rng.choice(b"0123456789")]) * rng.choice([1, 2, 50])
    return bytes(b[: rng.randrange(len(b))])


def rand_name(rng, prev):
    if prev is None or rng.random() < 0.2:
        nf = rng.choice([1, 1, 2, 3, 4, 6, 9])
        return b" ".join(rand_field(rng) for _ in range(nf))
    fs = [mutate_field(rng, f) for f in prev.split(b" ")]
    r = rng.random()
    if r < 0.08:
        fs.append(rand_field(rng))
    elif r < 0.16 and len(fs) > 1:
        fs.pop(rng.randrange(len(fs)))
    elif r < 0.2:
        fs.insert(rng.randrange(len(fs) + 1), b"")
    return b" ".join(fs)


def rand_name_table(rng, ns=None, maxc=10):
    ns = ns if ns is not None else rng.choice([1, 1, 2, 3, 5, 8])
    t = []
    for _ in range(ns):
        nc = rng.choice([0, 1, 2, 3, maxc, rng.randint(0, maxc)])
        s, prev = [], None
        for _ in range(nc):
            prev = rand_name(rng, prev)
            s.append(prev)
        t.append(s)
    return t


def names_token(t):
    if not t:
        return "~"
    return "/".join("_" if not s else ",".join(hx(n) for n in s) for s in t)


def parse_names_token(t):
    if t == "~":
        return []
    return [[] if s == "_" else [unhx(h) for h in s.split(",")] for s in t.split("/")]


def dedup(l):
    out = []
    for x in l:
        if x not in out:
            out.append(x)
    return out


def name_ok(n):
    return all(1 <= b < 128 for b in n)


NONASCII = ["é", "ü", "名前", "chr1_α", "x\u0085y", "a b", "😀", "　"]


def bad_name(rng, prev):
    base = rand_name(rng, prev).decode("latin1").encode("ascii", "replace")
    s = base.decode()
    i = rng.randint(0, len(s))
    return (s[:i] + rng.choice(NONASCII) + s[i:]).encode("utf-8")


# ---------------------------------------------------------------- descriptor tables
def rand_seg_table(rng, ns=None, domain=True):
    ss, k = rng.choice([(60000, 31), (60000, 31), (1000, 21), (0, 0), (10, 3), ((1 << 31) - 21, 21), (1 << 30, 1 << 30)])
    if not domain and rng.random() < 0.15:
        ss, k = rng.choice([(U32, 1), (1 << 31, 1), (U32 - 5, 3), (1 << 31, 1 << 31)])
    pred = ss + k
    ns = ns if ns is not None else rng.choice([1, 1, 2, 3, 6])
    # a group id g makes the real code keep a Vec<i32> of 1.2*g entries: big ids are rare here (cost), not excluded
    groups = [rng.randint(0, 40) for _ in range(rng.choice([1, 2, 5, 12]))] + [rng.choice([0, 15, 16, 1000, 5000, 1 << 16 if rng.random() < 0.2 else 17, (1 << 20) + 7 if rng.random() < 0.05 else 18])]
    nxt = {}
    t = []
    for _ in range(ns):
        s = []
        for _ in range(rng.choice([0, 1, 2, 3, 5])):
            c = []
            for _ in range(rng.choice([0, 1, 2, 4, 9, 25])):
                r = rng.random()
                if r < 0.03:
                    c.append((U32, U32, 0, 0))  # hole filler
                    continue
                g = rng.choice(groups)
                r = rng.random()
                if r < 0.45:
                    i = nxt.get(g, 0)
                elif r < 0.55:
                    i = 0
                elif r < 0.7:
                    i = max(0, nxt.get(g, 0) - rng.choice([1, 2, 3, 10]))
                elif r < 0.85:
                    i = nxt.get(g, 0) + rng.choice([1, 2, 5, 100, 1 << 16])
                elif r < 0.95:
                    i = rng.choice([1, 2, 127, 128, 16511, 16512, (1 << 31) - 2, (1 << 31) - 3, 1 << 30])
                else:
                    i = rng.randint(0, (1 << 31) - 2)
                if not domain and rng.random() < 0.1:
                    i = rng.choice([(1 << 31) - 1, 1 << 31, U32 - 1, U32, (1 << 31) + 5])
                    if rng.random() < 0.3:
                        g = rng.choice([U32, U32 - 1]) if i >= (1 << 31) else g
                i = min(i, U32)
                nxt[g] = max(nxt.get(g, 0), i + 1) if i < (1 << 31) - 2 else nxt.get(g, 0)
                r = rng.random()
                if r < 0.5:
                    ln = pred
                elif r < 0.75:
                    ln = max(0, pred + rng.choice([-1, 1, -2, 2, -40, 40, -pred // 2]))
                elif r < 0.9:
                    ln = rng.choice([0, 1, 2 * pred, 2 * pred - 1, 2 * pred + 1, 3 * pred])
                else:
                    ln = rng.choice([U32, U32 - 1, 1 << 31, (1 << 31) - 1, rng.randint(0, U32)])
                c.append((g, i, rng.randint(0, 1), max(0, min(ln, U32))))
            s.append(c)
        t.append(s)
    return ss, k, t


def segs_token(t):
    if not t:
        return "~"
    return "/".join("_" if not s else "|".join("." if not c else ",".join("%d:%d:%d:%d" % x for x in c) for c in s) for s in t)


def parse_segs_token(t):
    if t == "~":
        return []
    return [[] if s == "_" else [[] if c == "." else [tuple(int(v) for v in x.split(":")) for x in c.split(",")]
                                 for c in s.split("|")] for s in t.split("/")]


def seg_ok(x):
    g, i, r, l = x
    return x == (U32, U32, 0, 0) or (g < U32 and i < (1 << 31) - 1 and l <= U32)


def details_in_domain(ss, k, t):
    return ss + k <= (1 << 31) and all(seg_ok(x) for s in t for c in s for x in c)


# ---------------------------------------------------------------- collection op sequences
def rand_sample_name(rng, i):
    r = rng.random()
    if r < 0.6:
        return b"S%03d" % i
    if r < 0.8:
        return rng.choice([b"HG%05d.%d" % (i, rng.randint(1, 2)), b"sample %d with spaces" % i, b"\t%d" % i])
    return bytes(rng.choice(b"abcXYZ019_-.#") for _ in range(rng.choice([1, 2, 7, 30]))) + b"%d" % i


def rand_coll(rng, nsamp, bs, domain=True, heavy=False):
    ss, k = rng.choice([(60000, 31), (1000, 21), (10, 3)])
    ops = []
    snames = dedup([rand_sample_name(rng, i) for i in range(nsamp)])
    for si, sn in enumerate(snames):
        nc = rng.choice([1, 1, 2, 3] if not heavy else [1, 2, 5, 9])
        prev = None
        cs = []
        for _ in range(nc):
            prev = rand_name(rng, prev)
            if not prev.strip() and rng.random() < 0.9:
                prev = b"ctg" + prev
            cs.append(prev)
            ops.append(("r", sn, prev))
            if rng.random() < 0.08:
                ops.append(("r", sn, prev))  # duplicate registration: suppressed
        for cn in cs:
            nseg = rng.choice([0, 1, 2, 3] if not heavy else [0, 1, 4, 12])
            places = list(range(nseg))
            if rng.random() < 0.3:
                rng.shuffle(places)
            if rng.random() < 0.1 and places:
                places.pop(rng.randrange(len(places)))  # leaves a hole (or a shorter table)
            for p in places:
                g = rng.choice([0, 1, 16, 17, 18, 40, 1000])
                i = rng.choice([0, 1, 2, si, si + 1, rng.randint(0, 300)])
                ln = ss + k + rng.choice([0, 0, 0, -1, 1, -ss // 2, 5000])
                ops.append(("s", sn, cn, p, g, i, rng.randint(0, 1), max(0, ln)))
            if rng.random() < 0.05:
                ops.append(("s", sn, cn + b"?", 0, 1, 1, 0, 5))  # unknown contig: Err, no change
        if rng.random() < 0.03:
            ops.append(("s", sn + b"!", b"x", 0, 1, 1, 0, 5))  # unknown sample
    if rng.random() < 0.15 and domain:
        # empty sample name: the sample is named after the first word of the contig header
        w = b"auto%d" % rng.randint(0, 3)
        ops.append(("r", b"", w + rng.choice([b" desc", b"\tdesc x", b""])))
    if not domain:
        # outside the property's domain: a sample name that contains NUL or non-ASCII
        ops.insert(rng.randrange(len(ops) + 1), ("r", rng.choice([b"a\0b", "é1".encode(), b"z\0"]), b"c1 x"))
    toks = []
    for op in ops:
        if op[0] == "r":
            toks.append("r:%s:%s" % (hx(op[1]), hx(op[2])))
        else:
            toks.append("s:%s:%s:%d:%d:%d:%d:%d" % (hx(op[1]), hx(op[2]), *op[3:]))
    return "coll %d %d %d %s" % (ss, k, bs, " ".join(toks))


WS = b"\t\n\x0b\x0c\r "


def first_word(b):
    """str.split_whitespace().next().unwrap_or(s) for ASCII input"""
    w = b.lstrip(WS)
    if not w:
        return b
    i = 0
    while i < len(w) and w[i] not in WS:
        i += 1
    return w[:i]


def ref_coll(ops):
    """reference semantics of the catalogue: samples in first-registration order, contigs in first-registration
    order per sample (duplicates suppressed), segment tables as placed with hole filler"""
    order, tab, res = [], {}, []
    for op in ops:
        f = op.split(":")
        sn, cn = unhx(f[1]), unhx(f[2])
        if not sn:
            sn = first_word(cn)
        if f[0] == "r":
            if sn not in tab:
                tab[sn] = []
                order.append(sn)
            if any(c[0] == cn for c in tab[sn]):
                res.append("F")
            else:
                tab[sn].append((cn, []))
                res.append("T")
        else:
            hit = next((c for c in tab.get(sn, []) if c[0] == cn), None)
            if hit is None:
                res.append("E")
                continue
            p = int(f[3])
            while len(hit[1]) <= p:
                hit[1].append((U32, U32, 0, 0))
            hit[1][p] = tuple(int(v) for v in f[4:8])
            res.append("k")
    if not order:
        return "".join(res) or "-", "~", order, tab
    dump = "/".join(hx(sn) + "=" + ("_" if not tab[sn] else "|".join(
        hx(cn) + "@" + ("." if not sg else ",".join("%d:%d:%d:%d" % x for x in sg)) for cn, sg in tab[sn])) for sn in order)
    return "".join(res) or "-", dump, order, tab


def coll_in_domain(case):
    t = case.split()
    ss, k = int(t[1]), int(t[2])
    _, _, order, tab = ref_coll(t[4:])
    for op in t[4:]:
        f = op.split(":")
        if not unhx(f[1]) and not all(b < 128 for b in unhx(f[2])):
            return False
    return (ss + k <= (1 << 31) and all(name_ok(sn) and sn for sn in order)
            and all(name_ok(cn) and all(seg_ok(x) for x in sg) for sn in order for cn, sg in tab[sn]))


# ---------------------------------------------------------------- generator
CV_EDGES = [0, 1, 127, 128, 129, 16511, 16512, 16513, 2113663, 2113664, 2113665, 270549119, 270549120, 270549121,
            U32, U32 - 1, 1 << 31, (1 << 31) - 1, 255, 256, 65535, 65536]


def mutate_bytes(rng, b):
    b = bytearray(b)
    for _ in range(rng.choice([1, 1, 2, 4])):
        r = rng.random()
        if not b:
            break
        i = rng.randrange(len(b))
        if r < 0.4:
            b[i] = rng.choice([0, 0x20, 0x80, 0x81, 0x9c, 0x9b, 0xff, 0xfe, 0xc3, 0xa9, 0x41, 0xf0, rng.randrange(256)])
        elif r < 0.6:
            del b[i]
        elif r < 0.8:
            b.insert(i, rng.choice([0, 0x20, 0x81, 0xff, 0x9c, 0x80, 0x41]))
        else:
            del b[i:]
    return bytes(b)


def gen_cases(rng, tier):
    q = tier == "quick"
    cs = []
    # -- varint
    for n in CV_EDGES:
        cs.append(f"cv {n:x} -")
        cs.append(f"cv {n:x} {hx(bytes(rng.randrange(256) for _ in range(rng.randint(1, 4))))}")
    for _ in range(400 if q else 20000):
        n = rng.choice([rng.randrange(1 << rng.randint(1, 32)), rng.choice(CV_EDGES) + rng.randint(-2, 2)]) & U32
        cs.append(f"cv {n:x} {hx(bytes(rng.randrange(256) for _ in range(rng.randint(0, 3))))}")
    for first in range(256):  # exhaustive over the first byte, short and long tails
        for tail in (b"", b"\xff", b"\xff\xff\xff\xff", b"\x00\x01\x02\x03\x04"):
            cs.append("cvd " + hx(bytes([first]) + tail))
    for _ in range(300 if q else 20000):
        cs.append("cvd " + hx(bytes(rng.randrange(256) for _ in range(rng.randint(0, 6)))))
    # -- zigzag
    ZE = [0, 1, 2, 3, 1000, 60031, (1 << 31) - 1, 1 << 31, U32, 1 << 32, (1 << 62) - 1, 1 << 62, (1 << 63) - 1, 1 << 63,
          (1 << 64) - 1]
    for x in ZE:
        for p in ZE:
            cs.append(f"zz {x:x} {p:x}")
            cs.append(f"zzd {x:x} {p:x}")
    for x in range(0, 12):  # exhaustive small scope
        for p in range(0, 8):
            cs.append(f"zz {x:x} {p:x}")
            cs.append(f"zzd {x:x} {p:x}")
    for _ in range(300 if q else 20000):
        p = rng.randrange(1 << rng.randint(1, 64))
        x = rng.choice([rng.randrange(1 << rng.randint(1, 64)), max(0, p + rng.randint(-5, 5)), 2 * p + rng.randint(-2, 2)]) & ((1 << 64) - 1)
        cs.append(f"zz {x:x} {p:x}")
        cs.append(f"zzd {x:x} {p:x}")
    for v in [0, 1, -1, 2, -2, (1 << 62) - 1, 1 << 62, -(1 << 62), -(1 << 62) - 1, (1 << 63) - 1, -(1 << 63), -(1 << 63) + 1]:
        cs.append("zi " + ("-%x" % -v if v < 0 else "%x" % v))
    for v in [0, 1, 2, 3, (1 << 64) - 1, (1 << 64) - 2, (1 << 63), (1 << 63) - 1, (1 << 63) + 1]:
        cs.append(f"zid {v:x}")
    for _ in range(100 if q else 5000):
        v = rng.randrange(-(1 << 63), 1 << 63) >> rng.randint(0, 62)
        cs.append("zi " + ("-%x" % -v if v < 0 else "%x" % v))
        cs.append(f"zid {rng.randrange(1 << 64) >> rng.randint(0, 63):x}")
    # -- utf8 (from_utf8 / from_utf8_lossy)
    U8 = [b"", b"abc", "é".encode(), b"\xc3", b"\xc3\x28", b"\xe2\x82", b"\xe2\x82\xac", b"\xe2\x28\xa1", b"\xed\xa0\x80",
          b"\xf0\x9f\x98\x80", b"\xf0\x9f\x98", b"\xf0\x28\x8c\xbc", b"\xf4\x90\x80\x80", b"\xc0\xaf", b"\xe0\x80\xaf",
          b"\xf5\x80", b"\x80", b"\xbf\xbf", b"a\xffb", b"\xef\xbf\xbd", b"\xe1\x80\xe2\xf0\x91\x92\xf1\xbf\x41"]
    for b in U8:
        cs.append("utf8 " + hx(b))
    for _ in range(300 if q else 20000):
        b = bytes(rng.choice([rng.randrange(128), rng.randrange(0x80, 0xc0), rng.randrange(0xc0, 0x100), 0xe0, 0xed, 0xf0, 0xf4, 0x80, 0xbf, 0x9f, 0xa0, 0x90, 0x8f])
                  for _ in range(rng.randint(1, 7)))
        cs.append("utf8 " + hx(b))
    # -- split / encode_split
    for _ in range(300 if q else 20000):
        a = rand_name(rng, None)
        b = rand_name(rng, a)
        cs.append("split " + hx(a))
        cs.append(f"esplit {hx(a)} {hx(b)}")
    # -- name tables (the priority): bytes and decoded table
    for _ in range(2500 if q else 100000):
        cs.append("names " + names_token(rand_name_table(rng)))
    for n in ([1, 49, 50, 51, 130] if q else [1, 2, 49, 50, 51, 99, 100, 101, 120, 130, 300]):
        cs.append("names " + names_token(rand_name_table(rng, ns=n, maxc=3)))
    cs.append("names " + names_token([[b"x"] * 1 + [b"x %d" % i for i in range(400)]]))  # > 127 contigs: 2-byte count
    cs.append("names " + names_token([[b"A" * 330, b"A" * 329 + b"C", b"A" * 330, b"C" + b"A" * 329, b"A" * 100 + b"C" + b"A" * 229]]))
    for _ in range(150 if q else 5000):  # outside the domain: non-ASCII names (valid UTF-8); outcome agreement only
        t = rand_name_table(rng, maxc=5)
        for s in t:
            for i in range(len(s)):
                if rng.random() < 0.4:
                    s[i] = bad_name(rng, s[i - 1] if i else None)
        cs.append("names " + names_token(t))
    # -- mutated / random name streams
    for _ in range(1500 if q else 40000):
        t = rand_name_table(rng, maxc=5)
        b = ref_enc_names(t)
        r = rng.random()
        if r < 0.15:
            pass
        elif r < 0.85:
            b = mutate_bytes(rng, b)
        else:
            b = bytes(rng.choice([0, 0x20, 0x41, 0x42, 0x81, 0x9c, 0xff, 0x80, 1, 2, 3, rng.randrange(256)]) for _ in range(rng.randint(0, 24)))
        if not names_stream_small(b):
            continue
        avail = rng.choice([len(t), len(t), len(t) + 1, max(0, len(t) - 1), 0, 3])
        isamp = rng.choice([0, 0, 0, 1, 2])
        cs.append(f"dnames {avail} {isamp} {hx(b)}")
    # -- sample names
    for _ in range(150 if q else 5000):
        n = rng.choice([0, 1, 2, 5, 130])
        names = dedup([rand_sample_name(rng, rng.randint(0, n)) for _ in range(n)])
        cs.append("snames " + (",".join(hx(x) for x in names) if names else "~"))
        b = cv(len(names)) + b"".join(x + b"\0" for x in names)
        b = mutate_bytes(rng, b) if rng.random() < 0.7 else b
        r = cv_dec(b, 0)
        if r is None or r[0] <= 20000:
            cs.append("dsnames " + hx(b))
    cs.append("dsnames " + hx(cv(3) + b"a\0b\0a\0"))
    # -- descriptor tables
    cs.append("details 60000 31 1:0:0:60031,1:5:0:60031,1:2:1:60031,1:2:0:60031,1:0:0:60031,1:7:0:60031")
    for _ in range(2500 if q else 60000):
        ss, k, t = rand_seg_table(rng)
        cs.append(f"details {ss} {k} {segs_token(t)}")
    for n in ([50, 130] if q else [49, 50, 51, 100, 130, 300]):
        ss, k, t = rand_seg_table(rng, ns=n)
        cs.append(f"details {ss} {k} {segs_token(t)}")
    for _ in range(300 if q else 10000):  # outside the domain
        ss, k, t = rand_seg_table(rng, domain=False)
        cs.append(f"details {ss} {k} {segs_token(t)}")
    cs.append("details 60000 31 3:2147483647:0:5,3:1:0:5")           # predictor at i32::MAX: prev + 1 overflows
    cs.append("details 60000 31 3:2147483646:0:5,3:2147483647:0:5,3:1:0:5,3:0:1:7")
    cs.append("details 60000 31 3:7:0:5,3:4294967295:0:5")           # u32::MAX against a set predictor: e + 1 overflows
    # -- mutated details streams
    for _ in range(1500 if q else 40000):
        ss, k = rng.choice([(60000, 31), (10, 3), (0, 0)])
        ncont = [rng.choice([0, 1, 2, 3]) for _ in range(rng.choice([0, 1, 2, 3]))]
        counts = [[rng.choice([0, 1, 2, 5]) for _ in range(c)] for c in ncont]
        tot = sum(sum(c) for c in counts)
        s0 = cv(len(ncont)) + b"".join(cv(len(c)) + b"".join(cv(x) for x in c) for c in counts)
        st = [s0] + [b"".join(cv(rng.choice([0, 1, 2, 3, 5, 16, 60031, 60030, 120061, U32, rng.randrange(200), rng.randrange(1 << 32)]))
                              for _ in range(tot)) for _ in range(4)]
        st[4] = b"".join(cv(rng.choice([0, 1, 1, 2])) for _ in range(tot))
        if rng.random() < 0.7:
            j = rng.randrange(5)
            st[j] = mutate_bytes(rng, st[j])
        if not details_stream_small(st[0]) or not group_stream_small(st[1]):
            continue
        have = list(ncont)
        if rng.random() < 0.2 and have:
            have[rng.randrange(len(have))] = max(0, have[0] - 1)
        if rng.random() < 0.1:
            have = have[:-1]
        cs.append("ddetails %d %d %s %d %s" % (ss, k, ",".join(map(str, have)) if have else "~", rng.choice([0, 0, 0, 1]),
                                               " ".join(hx(x) for x in st)))
    # -- whole collections through a real archive (7 zstd level-19 calls per batch: ~0.8 s each in this sandbox)
    # (zstd level 19 dominates: ~0.8 s per call alone, several times that when the machine is busy)
    if q:
        plan = [(1, 50), (3, 2), (50, 50), (51, 50), (101, 50), (130, 50)]
        plan += [(rng.randint(1, 12), 50) for _ in range(3)]
    else:
        plan = [(1, 50), (2, 50), (3, 2), (5, 1), (15, 7), (49, 50), (50, 50), (51, 50), (60, 7), (100, 50), (101, 50),
                (120, 50), (130, 50), (150, 50), (151, 50)]
        plan = plan + [(rng.randint(1, 140), rng.choice([50, 50, 50, 50, 17, 64])) for _ in range(60)]
    for ns, bs in plan:
        cs.append(rand_coll(rng, ns, bs, heavy=(ns <= 12)))
    for _ in range(2 if q else 30):
        cs.append(rand_coll(rng, rng.randint(1, 6), 50, domain=False))
    cs.append("coll 60000 31 50")
    return cs


# ---------------------------------------------------------------- oracle
def oracle(case, impl):
    t = case.split()
    kind = t[0]
    if impl.startswith(("CRASH", "HARNESS-ERROR")):
        return "harness failed: " + impl[:120]
    f = impl.split()
    if kind == "cv":
        n, rest = int(t[1], 16), unhx(t[2])
        if f[1:] != ["OK", "%x" % n, str(len(rest))]:
            return f"CollectionVarInt round trip of {n:#x}: got {' '.join(f[1:])}"
        return None
    if kind == "zz":
        x, p = int(t[1], 16), int(t[2], 16)
        if x < (1 << 63) and p < (1 << 63):
            if impl == "PANIC" or len(f) != 2 or f[1] == "PANIC" or int(f[1], 16) != x:
                return f"zigzag round trip of x={x:#x} pred={p:#x}: got {impl}"
        return None
    if kind == "zi":
        neg = t[1].startswith("-")
        v = -int(t[1][1:], 16) if neg else int(t[1], 16)
        if -(1 << 62) < v < (1 << 62):
            if impl == "PANIC" or f[1] != t[1]:
                return f"zigzag_i64 round trip of {v}: got {impl}"
        return None
    if kind == "names":
        tab = parse_names_token(t[1])
        if not all(name_ok(n) for s in tab for n in s):
            return None
        want = [dedup(s) for s in tab]
        if len(f) != 4 or f[1] != "OK" or int(f[2]) != len(tab) or parse_names_token(f[3]) != want:
            return "contig names changed by serialize/deserialize: got " + " ".join(f[1:])[:300]
        return None
    if kind == "snames":
        names = [] if t[1] == "~" else [unhx(h) for h in t[1].split(",")]
        if not all(name_ok(n) and n for n in names):
            return None
        got = f[2].split(",") if len(f) == 3 else []
        if f[1] != "OK" or [unhx(h) for h in got] != dedup(names):
            return "sample names changed by serialize/deserialize: " + " ".join(f[1:])[:300]
        return None
    if kind == "details":
        ss, k, tab = int(t[1]), int(t[2]), parse_segs_token(t[3])
        if not details_in_domain(ss, k, tab):
            return None
        if len(f) != 7 or f[5] != "OK" or parse_segs_token(f[6]) != tab:
            return "segment descriptor table changed by serialize/deserialize: got " + " ".join(f[5:])[:300]
        return None
    if kind == "coll":
        if not coll_in_domain(case):
            return None
        res, dump, order, _ = ref_coll(t[4:])
        bs = int(t[3])
        nb = (len(order) + bs - 1) // bs
        want = f"{res} {dump} C {nb} OK {len(order)} {dump}"
        if " RELOAD-" in impl:
            return "loading the contig batches a second time into the same collection changes the catalogue: ..." + impl[impl.index(" RELOAD-"):][:160]
        if impl != want:
            i = next((j for j in range(min(len(impl), len(want))) if impl[j] != want[j]), min(len(impl), len(want)))
            return f"catalogue after store/load differs from what was registered (first difference at char {i}): ...{impl[max(0, i - 40):i + 80]}"
        return None
    return None


def nontrivial(case, impl):
    t = case.split()
    if t[0] == "names":
        tab = parse_names_token(t[1])
        return any(len(s) > 1 for s in tab) and all(name_ok(n) for s in tab for n in s)
    if t[0] == "details":
        tab = parse_segs_token(t[3])
        return any(c for s in tab for c in s) and details_in_domain(int(t[1]), int(t[2]), tab)
    if t[0] == "coll":
        return len(t) > 4 and coll_in_domain(case)
    if t[0] in ("dnames", "ddetails", "dsnames"):
        return impl.startswith("OK")
    return True


def search(ctx, budget):
    rng = random.Random(ctx.seed + 1)
    cases = []
    for _ in range(200 * budget):
        cases.append("names " + names_token(rand_name_table(rng)))
        ss, k, t = rand_seg_table(rng)
        cases.append(f"details {ss} {k} {segs_token(t)}")
    for _ in range(budget):
        cases.append(rand_coll(rng, rng.randint(1, 130), 50))
    res = vlib.run_impl(PROP, cases)
    found = [(c, i, oracle(c, i)) for c, i in zip(cases, res) if oracle(c, i)]
    return found, len(cases)


def finding_class(case, impl, why):
    return None
