"""C09 LZ-diff decode inverts encode: generator, oracle (decoded == target, empty iff equal, no 0xFF), search."""
import itertools

PROP = "C09"
SUBCHECKS = ["C09L"]   # size bounds: |encode| <= 24|tgt| + 23, pack and part-metadata bounds (props/C09L.v)
AREAS = ["lz"]
THEOREMS = ["lz_roundtrip", "lz_empty_iff", "lz_no_separator", "lz_small_mml_panics", "find_best_match_lp_sound",
            "lz_roundtrip_any_index", "read_int_append_int", "sym_ok_range"]
RULE = ("cases: enc mml ref tgt (new, prepare, encode, then the decompressor's empty-delta wrapper around decode), "
        "dec mml ref stream (decode of an arbitrary/malformed stream, panics are outcomes), enc0 mml tgt (encode without "
        "prepare), est mml ref tgt bound (estimate), cost mml ref tgt prefix (get_coding_cost_vector), hash v. exhaustive: every (ref, tgt) over {0,1} up to length 6 (7 thorough) and over {0,1,4}, {0,4,30} up "
        "to length 4 (5 thorough, sampled 6) with mml 4..6; N runs 1..6 at every position class; targets shorter than the "
        "key; random and mutation-derived pairs (SNP, indel, N run, IUPAC 5..15, code 30, block moves, prefix/suffix, equal) "
        "up to 3 kB (30 kB thorough), mml 5..32 (+4); structured-random and byte-mutated streams for dec. non-trivial = the "
        "encoding contains a match or N-run op (enc) / the stream has at least 2 ops (dec); distinct = distinct case line")
TRUSTED = ["python oracle in checks/c09.py (compares the implementation's decoded bytes with the target, emptiness with "
           "target == reference, scans for 0xFF)"]
ASSUMPTIONS = ["min_match_len >= 4 (LZDiff::new traps below: u32 underflow of key_len, dev profile)",
               "|reference| + |target| + min_match_len < 2^31 (i32 position deltas, u32 positions)",
               "target symbols satisfy sym_ok (= 0..30 with the generated constants); reference bytes arbitrary",
               "(ht_size as f64 / 0.7) as u64 is modelled as floor(10*count/7) (exact for count < 2^50); the theorems do not depend on it",
               "dev profile arithmetic (overflow checks on); release differs only for min_match_len < 4 and > 18-digit integers in malformed streams"]
PROFILES = ["dev", "release"]
PROFILES_QUICK = ["dev"]


def hx(b):
    return "".join("%02x" % x for x in b) if len(b) else "-"


def unhx(s):
    return [] if s == "-" else [int(s[i:i + 2], 16) for i in range(0, len(s), 2)]


# ------------------------------------------------------------------ a small reference decoder (sizes only), used
# to keep malformed streams from asking the real decoder for multi-GB N runs
def _safe_stream(s, mml):
    i, n = 0, len(s)
    while i < n:
        c = s[i]
        if 65 <= c <= 95 or c == 33:
            i += 1
            continue
        j = i + 1 if c == 30 else i
        nums = []
        # up to two integers
        for _ in range(2):
            k = j
            if k < n and s[k] == 45:
                k += 1
            st = k
            while k < n and 48 <= s[k] <= 57:
                k += 1
            txt = bytes(s[st:k]).decode() or "0"
            if len(txt) > 7:
                return False
            v = int(txt)
            if st > j:
                v = -v
            nums.append(v)
            j = k
            if c == 30 or j >= n or s[j] != 44:
                break
            j += 1
        if c == 30:
            if nums[0] < 0 or nums[0] > 50000:
                return False
        elif len(nums) == 2 and (nums[1] < 0 or nums[1] > 200000):
            return False
        i = max(j + 1, i + 1)
    return True


def _acgt(rng, n):
    return [rng.randint(0, 3) for _ in range(n)]


def _mutate(rng, ref, heavy=False):
    """mutation-derived target"""
    t = list(ref)
    nmut = rng.choice([0, 1, 2, 3, 5, 10, 30]) if not heavy else rng.randint(5, 60)
    for _ in range(nmut):
        if not t:
            t = _acgt(rng, 5)
        p = rng.randint(0, len(t) - 1)
        k = rng.random()
        if k < 0.3:
            t[p] = rng.randint(0, 3)
        elif k < 0.4:
            t[p] = rng.choice([4, 4, 5, 6, 7, 8, 9, 10, 11, 12, 13, 14, 15, 30])
        elif k < 0.55:
            del t[p:p + rng.choice([1, 1, 2, 3, 10, 50])]
        elif k < 0.7:
            t[p:p] = _acgt(rng, rng.choice([1, 1, 2, 3, 10, 50]))
        elif k < 0.8:
            t[p:p] = [4] * rng.choice([1, 2, 3, 4, 5, 6, 7, 12, 40, 300])
        elif k < 0.85:
            L = rng.choice([1, 2, 3, 4, 5, 6, 9])
            t[p:p + L] = [4] * L
        elif k < 0.93:
            # block move / duplication (negative and large position deltas)
            a = rng.randint(0, len(t) - 1)
            L = rng.randint(1, max(1, min(400, len(t) - a)))
            blk = t[a:a + L]
            if rng.random() < 0.5:
                del t[a:a + L]
            q = rng.randint(0, len(t))
            t[q:q] = blk
        else:
            t[p:p] = [rng.choice([30, 30, 5, 15, 26, 27, 29])] * rng.choice([1, 2, 5])
    return t


def _pair(rng, maxlen):
    n = rng.choice([rng.randint(0, min(40, maxlen)), rng.randint(min(20, maxlen), min(300, maxlen)),
                    rng.randint(min(100, maxlen), maxlen), rng.randint(min(100, maxlen), maxlen)])
    kind = rng.random()
    if kind < 0.1:
        ref = [rng.choice([0, 1]) for _ in range(n)]          # low complexity: many candidates per probe
    elif kind < 0.2:
        unit = _acgt(rng, rng.randint(1, 9))
        ref = (unit * (n // len(unit) + 1))[:n]                # tandem repeat
    elif kind < 0.3:
        ref = [(rng.choice([4, 5, 30, 31, 255, 65, 33]) if rng.random() < 0.05 else rng.randint(0, 3)) for _ in range(n)]
    else:
        ref = _acgt(rng, n)
    k = rng.random()
    if k < 0.05:
        tgt = list(ref)
    elif k < 0.10:
        tgt = _acgt(rng, rng.randint(1, max(1, n)))            # unrelated
    elif k < 0.17:
        a = rng.randint(0, max(0, n - 1))
        tgt = ref[a:]                                          # suffix: match to end
    elif k < 0.22:
        tgt = ref[:rng.randint(0, n)] + _acgt(rng, rng.randint(0, 6))
    elif k < 0.27:
        tgt = _acgt(rng, rng.randint(0, 8)) + ref[rng.randint(0, n):]
    elif k < 0.32:
        tgt = _mutate(rng, ref) + ref[-rng.randint(1, 40):] if n else [0]
    else:
        tgt = _mutate(rng, ref, heavy=rng.random() < 0.3)
    tgt = [c if c <= 30 else 0 for c in tgt]
    if not tgt:
        tgt = [rng.randint(0, 3)]
    return ref, tgt


def _mml(rng):
    return rng.choice([5, 5, 6, 7, 8, 12, 15, 18, 20, 20, 24, 31, 32, rng.randint(5, 32), rng.randint(5, 32), 4])


def _ops_stream(rng, reflen, mml):
    """structured random op stream: mostly valid parameters, sometimes not"""
    s, pp = [], 0
    for _ in range(rng.randint(0, 12)):
        k = rng.random()
        if k < 0.35:
            s.append(65 + rng.choice([0, 1, 2, 3, 4, 30, rng.randint(0, 30)]))
            pp += 1
        elif k < 0.45:
            s.append(33)
            pp += 1
        elif k < 0.6:
            s += [30] + list(str(rng.choice([0, 1, 2, 10, 123])).encode()) + [4]
        else:
            pos = rng.randint(0, max(0, reflen)) if rng.random() < 0.85 else rng.randint(-5, reflen + 12)
            s += list(str(pos - pp).encode())
            if rng.random() < 0.3:
                s += [46]
                pp = reflen
            else:
                ln = rng.randint(0, max(0, reflen - max(pos, 0))) if rng.random() < 0.85 else rng.randint(0, reflen + 10)
                s += [44] + list(str(ln).encode()) + [46]
                pp = pos + ln + mml
    return s


_BYTES = [48, 49, 50, 57, 45, 44, 46, 30, 4, 65, 66, 69, 90, 91, 95, 96, 33, 64, 0, 255, 47, 58, 31]


def gen_cases(rng, tier):
    cs = []
    thorough = tier != "quick"
    # ---- exhaustive small scope
    def words(alpha, lo, hi):
        for n in range(lo, hi + 1):
            for w in itertools.product(alpha, repeat=n):
                yield list(w)
    scopes = [((0, 1), 7 if thorough else 6), ((0, 1, 4), 5 if thorough else 4), ((0, 4, 30), 5 if thorough else 4)]
    mm = 0
    for alpha, L in scopes:
        refs = list(words(alpha, 0, L))
        tgts = list(words(alpha, 1, L))
        for r in refs:
            hr = hx(r)
            for t in tgts:
                mm += 1
                cs.append(f"enc {4 + mm % 3} {hr} {hx(t)}")
    if thorough:
        for alpha in [(0, 1, 4), (0, 4, 30)]:
            refs = list(words(alpha, 6, 6))
            tgts = list(words(alpha, 6, 6))
            for _ in range(60000):
                cs.append(f"enc {rng.choice([4, 5, 6])} {hx(rng.choice(refs))} {hx(rng.choice(tgts))}")
    # ---- N runs of length 1..6 (and longer) in various positions; targets shorter than the key
    for mml in ([5, 8, 20] if not thorough else [4, 5, 6, 8, 11, 20, 32]):
        kl = mml - 3
        for run in [1, 2, 3, 4, 5, 6, 7, 10, 11, 14, 104]:
            for pre in [0, 1, 2, kl - 1, kl, kl + 1, 2 * kl + 3, 40]:
                for post in [0, 1, 2, 3, kl - 1, kl, kl + 1, 30]:
                    base = _acgt(rng, max(0, pre) + post)
                    t = base[:max(0, pre)] + [4] * run + base[max(0, pre):]
                    for ref in (base, t, [], t[1:] + [0], [4] * (run + 3)):
                        cs.append(f"enc {mml} {hx(ref)} {hx(t)}")
        for n in range(1, kl + 3):
            t = _acgt(rng, n)
            for ref in (t, t[:-1], t + [1], [], _acgt(rng, 2 * n + 8), t + t):
                cs.append(f"enc {mml} {hx(ref)} {hx(t)}")
    # ---- random and mutation-derived pairs
    npairs = 2500 if not thorough else 40000
    for k in range(npairs):
        mml = _mml(rng)
        if not thorough:
            maxlen = 3000 if k % 23 == 0 else 600
        elif k % 601 == 0:
            maxlen, mml = 30000, rng.choice([14, 18, 20, 24, 32])   # the extracted model is list based: a small
        elif k % 41 == 0:                                           # key on 30 kB costs minutes per case
            maxlen = 4000
        else:
            maxlen = 900
        ref, tgt = _pair(rng, maxlen)
        cs.append(f"enc {mml} {hx(ref)} {hx(tgt)}")
        if k % (3 if not thorough else 7) == 0 and maxlen <= 4000:
            cs.append(f"est {mml} {hx(ref)} {hx(tgt)} {rng.choice([0, 3, 20, 100, 1000000])}")
            cs.append(f"cost {mml} {hx(ref)} {hx(tgt)} {k % 2}")
    # ---- edge / malformed stream
    for _ in range(300 if not thorough else 5000):
        # targets with bytes outside the symbol range (u8 overflow of b'A' + base, padding byte, ...)
        ref, tgt = _pair(rng, 80)
        p = rng.randint(0, len(tgt) - 1)
        tgt[p] = rng.choice([31, 32, 33, 90, 190, 191, 255, 100])
        cs.append(f"enc {_mml(rng)} {hx(ref)} {hx(tgt)}")
    for m in [0, 1, 2, 3]:
        cs.append(f"enc {m} 00010203 0001020300")
        cs.append(f"dec {m} 00010203 41")
    for _ in range(60 if not thorough else 2000):
        cs.append(f"enc0 {_mml(rng)} {hx(_pair(rng, 60)[1])}")
    cs.append("enc 5 - 00")
    cs.append("enc 5 0001 -")
    cs.append("enc 5 - -")
    for _ in range(200):
        cs.append(f"hash {rng.getrandbits(rng.choice([8, 32, 58, 64])):x}")
    nd = 4000 if not thorough else 100000
    for _ in range(nd):
        mml = _mml(rng)
        ref = _acgt(rng, rng.choice([0, 1, 5, 20, 60]))
        if rng.random() < 0.7:
            s = _ops_stream(rng, len(ref), mml)
            for _ in range(rng.choice([0, 0, 0, 1, 2])):       # byte mutations of a structured stream
                if s:
                    q = rng.randint(0, len(s) - 1)
                    r = rng.random()
                    if r < 0.4:
                        s[q] = rng.choice(_BYTES)
                    elif r < 0.7:
                        del s[q]
                    else:
                        s.insert(q, rng.choice(_BYTES))
        else:
            s = [rng.choice(_BYTES) for _ in range(rng.randint(0, 10))]
        if _safe_stream(s, mml):
            cs.append(f"dec {mml} {hx(ref)} {hx(s)}")
    return cs


def canon(case, line):
    # the real panic message is not modelled
    if line.startswith("PANIC"):
        return "PANIC"
    return line


def _ops_in(enc):
    return any(b in (46, 30) for b in enc)


def nontrivial(case, impl):
    t = case.split()
    f = impl.split()
    if t[0] == "enc":
        return len(f) == 4 and f[0] == "E" and _ops_in(unhx(f[1]))
    if t[0] == "dec":
        return len(unhx(t[3])) >= 2 and not impl.startswith("PANIC")
    return True


def sym_ok(c):
    return c <= 30


def oracle(case, impl):
    t = case.split()
    if impl.startswith(("CRASH", "HARNESS-ERROR")):
        return "implementation failed: " + impl[:100]
    if t[0] != "enc":
        return None
    mml = int(t[1])
    ref, tgt = unhx(t[2]), unhx(t[3])
    if mml < 4 or mml > 32 or not tgt or not all(sym_ok(c) for c in tgt):
        return None                      # outside the property's quantifier (edge stream: correspondence only)
    if impl.startswith("PANIC"):
        return "encoder panicked on a valid pair: " + impl[:100]
    f = impl.split()
    if len(f) != 4 or f[0] != "E" or f[2] != "D":
        return "unparsable answer " + impl[:100]
    enc = unhx(f[1])
    if f[3] == "PANIC":
        return "decoder panicked on the encoder's output"
    if unhx(f[3]) != tgt:
        return "decode(encode(target)) != target"
    if (len(enc) == 0) != (tgt == ref):
        return "encoding empty but target != reference" if not enc else "target == reference but encoding not empty"
    if 255 in enc:
        return "encoding contains the pack separator 0xFF"
    return None


def search(ctx, budget):
    found, n = [], 0
    for _ in range(max(1, budget // 10)):
        cases = [c for c in gen_cases(ctx.rng, "quick") if c.startswith("enc ")]
        res = vlib.run_impl(PROP, cases)
        n += len(cases)
        for c, i in zip(cases, res):
            why = oracle(c, i)
            if why:
                found.append((c, i, why))
        if found:
            break
    return found, n


def finding_class(case, impl, why):
    t = case.split()
    if t[0] == "enc" and 30 in unhx(t[3]) and "panicked" in why:
        return "code30-not-decodable"
    return None
