"""C14O - second stage of C14 (a partially written archive is rejected cleanly): ragc_core::Decompressor::open after
Archive::open - params stream, collection stream lookups, the zstd-compressed sample-name table - against the extracted
model coq/model/OpenStage.v (open2).  Every strict prefix of real archives, crafted complete archives whose
collection-samples part holds zstd(payload) for generated payloads, python-built containers (raw-block zstd frames,
duplicate names, parts anywhere), directory mutations; both harness profiles; the model gets the implementation's
profile flag and the zstd table (frame -> what the zstd crate returned) through model_cases."""
import os, hashlib

PROP = "C14O"
AREAS = ["open", "agcv3", "archive", "collection"]
PROFILES = ["dev", "release"]
THEOREMS = ["open2_total_safe", "open2_profile_independent", "open2_total_safe_if_repaired", "open2_old_form_refuted",
            "open2_old_form_panic_iff", "open2_repair_conservative", "open2_loop_is_count_loop", "open2_alloc_bounded", "open2_ok_means_listable", "open2_ok_iff",
            "open2_names_are_c03_decoder", "open2_max_off_irrelevant", "open2_requires_names",
            "prefix_rejected_open2_partial", "open2_complete_archive_ok", "open2_code_shape"]
RULE = ("cases: pre fs from to file (every prefix length in from..to-1 of one valid archive - real ragc archives made by "
        "StreamingQueueCompressor and python-written containers that open - written to a real file on fs = "
        "ext4 (/verif/.cache/tmp) or shm (/dev/shm), opened with ragc_core::Decompressor::open under catch_unwind, "
        "RLIMIT_AS 400 MB, counting allocator); prec = the same on container-level files that are not valid archives (incl. the "
        "props/C14.v file whose 19-byte prefix Archive::open accepts); craft fs variant params payload delta (a complete archive written with "
        "ragc_common::Archive: which of the four required streams exist, 0/1/2 params parts of the given bytes (every length "
        "0..24), collection-samples part = zstd::encode_all(payload) / raw payload / empty / absent / two parts, metadata = "
        "len(payload)+delta; payloads: valid sample tables (ASCII, multi-byte UTF-8, empty names), truncated tables, counts "
        "larger than the data in every varint width, 5-byte varints around the u32 overflow threshold 0xEFDFBF7F/80 and with "
        "all top bits set, non-UTF-8 bytes, NUL-less strings); file fs bytes (python-built containers: raw-block zstd frames, "
        "duplicate stream names, parts outside/overlapping, empty parts, varint metadata that runs past EOF; single-byte "
        "mutations of directories). The result token per file = the place where open stopped (14 error codes / P / O with k, "
        "min_match_len and the sample list) must equal the extracted model's, in both profiles (the model is told whether the "
        "binary traps on overflow and is given the zstd table). non-trivial = a pre chunk beyond 8 bytes or a file that passes "
        "Archive::open; distinct = distinct case line")
TRUSTED = ["python oracle in checks/c14o.py: every strict prefix of a real archive must be refused with an error value (never P, "
           "never a handle), the whole file must give a handle listing the samples pushed; largest single allocation request "
           "inside Decompressor::open <= 256 KiB + 32 * file length + 4 * longest decoded stream (counting allocator)",
           "harness/src/bin/c14o.rs: error message -> code letter table; the zstd table = first part of collection-samples "
           "(located with ragc_common::Archive itself) through zstd::decode_all; a frame missing from the table makes the model "
           "answer K, it cannot make it accept",
           "zstd (crate zstd 0.13 / libzstd) is an oracle: allocations INSIDE zstd::decode_all (window, 128 KiB stream buffers) "
           "are not modelled; only the returned Vec is logged (AZstd)",
           "'every strict prefix is refused' is an exhaustive enumeration per archive, not a theorem (depends on the data bytes); "
           "proved: which directories stage two refuses (open2_ok_iff, prefix_rejected_open2_partial, open2_requires_names)",
           "crafted complete archives are outside C14's prefix quantifier but inside open2_total_safe: since /repo 4d083e0 a PANIC on "
           "any case (prefix, crafted stream, python container) is a failing input (class 'crafted-samples-stream' for crafted "
           "files); a crafted stream whose 5-byte count exceeds u32 and that reaches the table must get the error value V "
           "(not a panic, not a handle with a wrapped count) in both profiles - regression cases in corpus/c14o.cases"]
ASSUMPTIONS = ["bytes are < 256 (file and zstd output)",
               "verbosity 0 (with verbosity > 0 open additionally clones the names for eprintln!, which panics if stderr is closed)",
               "64-bit target (`raw_size as usize` keeps the value)",
               "file length <= the file system's largest offset; model evaluated with max_off = 2^44-4096 (ext4) / 2^63-1 (tmpfs); "
               "open2_max_off_irrelevant: the result does not depend on it",
               "allocation log = buffers sized from input (AFile, AZstd, AName, ATable); Vec<SampleDesc>/HashMap growth is "
               "amortised doubling over ATable entries; anyhow error strings are constant-size"]
M64 = (1 << 64) - 1
CHUNK = 256
EXPECT = {}         # sha1 of the hex of a valid archive -> (k, [sample name bytes]) that the complete file must list
STATS = {"archives": [], "prefixes": 0, "tokens": {}, "observations": {}, "accepted_prefixes": [], "archive_ok_prefixes": 0}
STRICT_CRAFTED = True     # since /repo 4d083e0 (5-byte varint: checked_add) a panic on a crafted file is a failing input
THR = 0xEFDFBF80          # smallest 32-bit value whose sum with THR_4 = 270549120 leaves u32


def hx(b):
    return bytes(b).hex() if len(b) else "-"


def unhx(s):
    return b"" if s == "-" else bytes.fromhex(s)


def varint(v):
    if v == 0:
        return b"\x00"
    nb = (v.bit_length() + 7) // 8
    return bytes([nb]) + v.to_bytes(nb, "big")


def le8(v):
    return (v & M64).to_bytes(8, "little")


def cv(n):
    """CollectionVarInt::encode"""
    t1, t2, t3, t4 = 128, 16512, 2113664, 270549120
    if n < t1:
        return bytes([n])
    if n < t2:
        n -= t1
        return bytes([0x80 + (n >> 8), n & 255])
    if n < t3:
        n -= t2
        return bytes([0xC0 + (n >> 16), (n >> 8) & 255, n & 255])
    if n < t4:
        n -= t3
        return bytes([0xE0 + (n >> 24), (n >> 16) & 255, (n >> 8) & 255, n & 255])
    n -= t4
    return bytes([0xF0]) + n.to_bytes(4, "big")


def zraw(payload):
    """a valid zstd frame holding payload in one raw block (single segment, 1-byte content size)"""
    assert len(payload) < 256
    return b"\x28\xb5\x2f\xfd\x20" + bytes([len(payload)]) + ((len(payload) << 3) | 1).to_bytes(3, "little") + payload


def container(streams, data=b""):
    """streams: list of (name bytes, raw, [(data, meta)] | [('at', off, size)]) -> file bytes"""
    dirs = []
    for name, raw, parts in streams:
        ps = []
        for p in parts:
            if p[0] == "at":
                ps.append((p[1], p[2]))
            else:
                d, m = p
                ps.append((len(data), len(d)))
                data += varint(m) + d
        dirs.append((name, raw, ps))
    footer = varint(len(dirs))
    for name, raw, ps in dirs:
        footer += name + b"\x00" + varint(len(ps)) + varint(raw)
        for o, s in ps:
            footer += varint(o) + varint(s)
    return data + footer + le8(len(footer))


# ------------------------------------------------------------------------------------------------ payloads
def rname(rng):
    k = rng.randrange(10)
    if k == 0:
        return b""
    if k == 1:
        return "séq中\U0001F600"[: rng.randint(1, 5)].encode()
    return bytes(rng.choice(b"abcdefghijklmnopqrstuvwxyzABCXYZ0123456789#_.-") for _ in range(rng.randint(1, 10)))


def table(rng, n=None):
    n = rng.choice([0, 1, 1, 2, 3, 5]) if n is None else n
    names = [rname(rng) for _ in range(n)]
    return cv(n) + b"".join(x + b"\x00" for x in names), names


def payload(rng):
    k = rng.randrange(20)
    t, names = table(rng)
    if k < 5:
        return t
    if k == 5:
        return t[: rng.randint(0, len(t))]                                    # truncated table
    if k == 6:
        return t + bytes(rng.getrandbits(8) for _ in range(rng.randint(1, 6)))  # trailing bytes
    if k == 7:                                                                # count larger than the data
        c = rng.choice([len(names) + 1, len(names) + 2, 127, 128, 16511, 16512, 2113663, 2113664, 270549119, 270549120,
                        270549121, (1 << 32) - 1])
        return cv(c) + t[len(cv(len(names))):]
    if k == 8:                                                                # count smaller than the data
        return cv(max(0, len(names) - 1)) + t[len(cv(len(names))):]
    if k <= 11:                                                               # 5-byte count around the overflow threshold
        first = rng.choice([0xF0, 0xF0, 0xF1, 0xF8, 0xFF])
        v = rng.choice([THR - 2, THR - 1, THR, THR + 1, THR + 2, THR + len(names), THR + len(names) + 1, 0xFFFFFFFF, 0xFFFFFFFE,
                        0xF0000000, 0, 1, len(names), rng.getrandbits(32), rng.getrandbits(32) | 0xF0000000])
        return bytes([first]) + v.to_bytes(4, "big") + t[len(cv(len(names))):]
    if k == 12:                                                               # cut inside a multi-byte count
        c = rng.choice([cv(200), cv(70000), cv(5000000), cv(300000000), b"\xff\xff\xff\xff"])
        return c[: rng.randint(1, len(c))]
    if k == 13:                                                               # non-UTF-8 bytes in a name
        bad = rng.choice([b"\xff", b"\xc0\x80", b"\xe0\x80\x80", b"\xed\xa0\x80", b"\xf4\x90\x80\x80", b"\x80", b"\xc3", b"\xe4\xb8"])
        return cv(2) + b"ok\x00" + rname(rng) + bad + rname(rng) + b"\x00"
    if k == 14:                                                               # NUL-less last string
        return t.rstrip(b"\x00") if names else cv(1) + b"abc"
    if k == 15:
        return bytes(rng.getrandbits(8) for _ in range(rng.randint(0, 12)))   # anything
    if k == 16:
        return cv(3) + b"\x00\x00\x00"                                        # empty names
    if k == 17:
        t, _ = table(rng, rng.choice([130, 150]))                             # 2-byte count, long table
        return t
    if k == 18:
        return b""
    return cv(2) + b"same\x00same\x00"                                        # repeated name


PARAMS16 = (21).to_bytes(4, "little") + (20).to_bytes(4, "little") + (50).to_bytes(4, "little") + (1000).to_bytes(4, "little")


def params(rng):
    if rng.random() < 0.6:
        return PARAMS16
    n = rng.randint(0, 24)
    if rng.random() < 0.5:
        return (PARAMS16 + (0).to_bytes(4, "little") + b"\x01\x02\x03\x04")[:n]
    return bytes(rng.getrandbits(8) for _ in range(n))


def variant(rng):
    if rng.random() < 0.7:
        return "15.1.0.%d.%d" % (rng.randrange(2), rng.randrange(2))
    mask = rng.choice([15, 15, 14, 13, 11, 7, 0, 1, 3, rng.randrange(16)])
    return "%d.%d.%d.%d.%d" % (mask, rng.choice([1, 1, 0, 2]), rng.choice([0, 0, 1, 2, 3, 4]), rng.randrange(2), rng.randrange(2))


def craft_case(rng):
    return "craft %s %s %s %s %d" % (rng.choice(["ext4", "shm"]), variant(rng), hx(params(rng)), hx(payload(rng)),
                                      rng.choice([0, 0, 0, 0, 1, -1, 5]))


def py_container(rng):
    """a complete container written by python: everything Archive's writer cannot produce"""
    p = payload(rng)[:250]
    frame = zraw(p)
    meta = len(p) + rng.choice([0, 0, 0, 1])
    k = rng.randrange(12)
    base = [(b"collection-samples", 0, [(frame, meta)]), (b"collection-contigs", 0, []), (b"collection-details", 0, []),
            (b"file_type_info", 0, [(b"x", 1)]), (b"params", 0, [(params(rng), 0)])]
    if k == 0:
        return container(base)
    if k == 1:      # duplicate name: the later stream wins in the map
        return container(base + [(b"params", 0, [(b"short", 0)])] if rng.random() < 0.5 else
                         [(b"params", 0, [])] + base)
    if k == 2:      # duplicate collection-samples, second one empty / other content
        return container(base + [(b"collection-samples", 0, rng.choice([[], [(zraw(cv(1) + b"zz\x00"), 4)], [(b"", 9)]]))])
    if k == 3:      # the samples part addressed explicitly: overlapping / shifted / running past EOF
        data = varint(meta) + frame + bytes(rng.getrandbits(8) for _ in range(rng.randint(0, 4)))
        off, sz = rng.choice([(0, len(frame)), (0, len(frame) - 1), (0, len(frame) + 1), (1, len(frame)), (len(data), 1),
                              (len(data) - 1, 1), (len(data), 0), (0, len(data)), (len(data) + 1, 0)])
        st = [(b"params", 0, [(PARAMS16, 0)]), (b"collection-samples", 0, [("at", off, sz)]),
              (b"collection-contigs", 0, []), (b"collection-details", 0, [])]
        # params is appended to data after the explicit part
        return container(st, data)
    if k == 4:      # metadata varint with a huge length byte right before the footer (read_varint runs into / past the footer)
        data = bytes([rng.choice([9, 20, 200, 255])]) + bytes(rng.getrandbits(8) for _ in range(rng.randint(0, 3)))
        st = [(b"collection-samples", 0, [("at", 0, rng.choice([1, len(data)]))]), (b"collection-contigs", 0, []),
              (b"collection-details", 0, []), (b"params", 0, [(PARAMS16, 0)])]
        return container(st, data)
    if k == 5:      # params part addressed explicitly: empty part (size 0 -> (empty, 0)), past EOF
        data = varint(0) + PARAMS16
        off, sz = rng.choice([(0, 0), (0, 16), (0, 12), (0, 11), (1, 16), (0, 17), (5, 12), (17, 0), (16, 1)])
        st = [(b"params", 0, [("at", off, sz)]), (b"collection-samples", 0, [(frame, meta)]),
              (b"collection-contigs", 0, []), (b"collection-details", 0, [])]
        return container(st, data)
    if k == 6:      # names that differ in one byte / case / a byte >= 128 (Latin-1 decoding of the directory)
        nm = rng.choice([b"Params", b"params ", b"param", b"params\xc3\xa9", b"collection-samples\x80", b"collection_samples"])
        b2 = [x for x in base]
        i = rng.randrange(len(b2))
        b2[i] = (nm, b2[i][1], b2[i][2])
        return container(b2)
    if k == 7:      # no streams / only some
        return container(rng.sample(base, rng.randint(0, 4)))
    if k == 8:      # two sample parts, cursor must take the first
        b2 = [x for x in base]
        b2[0] = (b"collection-samples", 0, [(frame, meta), (zraw(cv(1) + b"second\x00"), 8)])
        return container(b2)
    if k == 9:      # raw garbage instead of a frame / truncated frame / frame with trailing bytes
        g = rng.choice([frame[:-1], frame + b"\x00", frame[:4], b"\x28\xb5\x2f\xfd", frame + frame, bytes(rng.getrandbits(8) for _ in range(9))])
        b2 = [x for x in base]
        b2[0] = (b"collection-samples", 0, [(g, meta)])
        return container(b2)
    # single-byte mutations of a good container's directory
    b = bytearray(container(base))
    fs = int.from_bytes(b[-8:], "little")
    lo = max(0, len(b) - 8 - fs - 4)
    for _ in range(rng.choice([1, 1, 2, 3])):
        i = rng.randrange(lo, len(b))
        b[i] = rng.choice([0, 1, 255, b[i] ^ (1 << rng.randrange(8)), rng.getrandbits(8)])
    return bytes(b)


def real_archives(rng, n):
    specs = []
    for i in range(n):
        specs.append("mk %d %d %d %d %d %d" % (rng.getrandbits(30), rng.choice([1, 2, 2, 3]), rng.choice([1, 1, 2, 3]),
                                               rng.choice([10, 100, 300, 600, 2000 if i % 5 == 4 else 200]), rng.choice([11, 15, 21, 31]),
                                               rng.choice([100, 200, 1000, 60000])))
    binp = vlib.harness_bin("c14o", "release")
    if not os.path.exists(binp):
        binp = vlib.harness_bin("c14o", "dev")
    res = vlib.run_cases([binp], specs, timeout=1500, shards=min(vlib.NPROC, len(specs)))
    out = []
    for s, r in zip(specs, res):
        if r and not r.startswith(("HARNESS", "PANIC", "CRASH")):
            out.append((s, unhx(r)))
    return out


def expect(b, k, names):
    EXPECT[hashlib.sha1(hx(b).encode()).hexdigest()] = (k, names)


def valid_container(rng):
    """a python-written container that Decompressor::open accepts (directory layout unlike the real writer's)"""
    t, names = table(rng, rng.choice([0, 1, 2, 4]))
    st = [(b"collection-samples", 0, [(zraw(t), len(t))]), (b"collection-contigs", rng.choice([0, 7]), []),
          (b"collection-details", 0, [(b"", 0)] * rng.randrange(2)), (b"file_type_info", 0, [(b"x", 1)]),
          (b"params", rng.choice([0, 16]), [((PARAMS16 + b"\x00\x00\x00\x00")[: rng.choice([12, 16, 20])], 0)])]
    rng.shuffle(st)
    b = container(st)
    expect(b, 21, names)
    return b


def pre_cases(kind, fs, b):
    h = hx(b)
    return [f"{kind} {fs} {lo} {min(lo + CHUNK, len(b) + 1)} {h}" for lo in range(0, len(b) + 1, CHUNK)]


def gen_cases(rng, tier):
    nreal, nvalid, ncont, ncraft, npy = (10, 6, 6, 4000, 4000) if tier == "quick" else (80, 60, 60, 150000, 150000)
    STATS["archives"], STATS["prefixes"] = [], 0
    arch = real_archives(rng, nreal)
    if len(arch) < nreal:
        STATS["mk_failed"] = nreal - len(arch)
    cs = []
    for i, (what, b) in enumerate(arch):
        STATS["archives"].append({"what": what, "bytes": len(b)})
        f = what.split()
        expect(b, int(f[5]), [b"s%d" % j for j in range(int(f[2]))])
        for fs in (("ext4", "shm") if i < 2 else (("ext4", "shm")[i % 2],)):
            STATS["prefixes"] += len(b)
            cs += pre_cases("pre", fs, b)
    for i in range(nvalid):
        b = valid_container(rng)
        STATS["archives"].append({"what": "python container (valid) #%d" % i, "bytes": len(b)})
        STATS["prefixes"] += len(b)
        cs += pre_cases("pre", ("ext4", "shm")[i % 2], b)
    # container-level files that are not valid archives: no panic, agreement with the model; the props/C14.v witness
    conts = [container([(b"a", 0x0200010000000000, [(b"", 0), (b"", 0)])]), container([])]
    conts += [py_container(rng) for _ in range(ncont)]
    for i, b in enumerate(conts):
        STATS["prefixes"] += len(b)
        cs += pre_cases("prec", ("shm", "ext4")[i % 2], b)
    # the pinned witnesses of props/C14O.v and fixed edge cases
    p16 = hx(PARAMS16)
    cs += [f"craft shm 15.1.0.0.0 {p16} f0ffffffff 0", f"craft ext4 15.1.0.0.0 {p16} f0efdfbf80 0",
           f"craft shm 15.1.0.0.0 {p16} f0efdfbf7f 0", f"craft shm 15.1.0.0.0 {p16} f0efdfbf8000 0",
           f"craft ext4 15.1.0.0.0 {p16} ffefdfbf81610000 0", f"craft ext4 15.1.0.0.0 {p16} 02733000733100 0",
           "file shm -", "file ext4 000100000000000000", "file shm 0000000000000000"]
    for n in range(0, 25):
        cs.append("craft %s 15.1.0.0.0 %s 02733000733100 0" % (("ext4", "shm")[n % 2], hx((PARAMS16 + bytes(range(1, 9)))[:n])))
    for _ in range(ncraft):
        cs.append(craft_case(rng))
    for _ in range(npy):
        cs.append("file %s %s" % (rng.choice(["ext4", "shm"]), hx(py_container(rng))))
    return cs


# ------------------------------------------------------------------------------------------------ lines
def split_impl(line):
    """-> (tokens, ck, m, filehex or None, zt list) of an implementation line"""
    i = line.find(" ck=")
    if i < 0:
        return None
    toks = line[:i].split(" ")
    rest = line[i + 1:].split(" ")
    ck = rest[0][3:]
    m = int(rest[1][2:])
    fh, zt = None, []
    j = 2
    if j < len(rest) and rest[j] == "FILE":
        fh = rest[j + 1]
        j += 2
    if j < len(rest) and rest[j] == "ZT":
        zt = rest[j + 1:]
    return toks, ck, m, fh, zt


def model_cases(cases, impl_lines):
    out = []
    for c, line in zip(cases, impl_lines):
        s = split_impl(line)
        t = c.split(" ")
        if s is None:
            out.append("bad " + line[:100].replace(" ", "_") + " CK 0 ZT")
            continue
        toks, ck, m, fh, zt = s
        tail = " CK %s ZT%s" % (ck, "".join(" " + z for z in zt))
        if t[0] == "craft":
            out.append(f"file {t[1]} {fh}{tail}")
        else:
            out.append(c + tail)
    return out


def canon(case, line):
    if line.startswith(("PANIC", "CRASH", "HARNESS-ERROR", "DRIVER-ERROR")):
        return line[:300]
    for mark in (" ck=", " a="):
        i = line.find(mark)
        if i >= 0:
            return line[:i]
    return line


def tokens(impl):
    s = split_impl(impl)
    return s[0] if s else []


def decoded_max(impl):
    s = split_impl(impl)
    if not s:
        return 0
    return max([len(z.split("=")[1]) // 2 for z in s[4] if "=" in z and z.split("=")[1] != "-"] or [0])


def _count(tok):
    k = tok[0] if tok else "?"
    STATS["tokens"][k] = STATS["tokens"].get(k, 0) + 1


def oracle(case, impl):
    t = case.split()
    if impl.startswith(("PANIC", "CRASH", "HARNESS-ERROR")):
        return "implementation crashed (abort / allocation failure under RLIMIT_AS / panic outside catch_unwind): " + impl[:160]
    s = split_impl(impl)
    if s is None:
        return "unparsable implementation line: " + impl[:100]
    toks, ck, m, fh, zt = s
    prof = "dev" if ck == "1" else "release"
    if t[0] in ("pre", "prec"):
        valid = t[0] == "pre"
        lo, hi, n = int(t[2]), int(t[3]), len(unhx(t[4]))
        if len(toks) != min(hi, n + 1) - lo:
            return "wrong number of results"
        for i, c in enumerate(toks):
            k = lo + i
            _count(c)
            if c.startswith("P") and not valid:
                ob = STATS["observations"].setdefault("crafted-samples-stream", {"dev": 0, "release": 0, "first_case": case[:400]})
                ob[prof] += 1
                if STRICT_CRAFTED:
                    return f"Decompressor::open panics on (a prefix of length {k} of) a crafted {n}-byte container"
                continue
            if c.startswith("P"):
                return f"prefix of length {k} of a {n}-byte archive: Decompressor::open panics"
            if c.startswith("?"):
                return f"prefix of length {k}: unknown error message {c[:120]}"
            if valid and k < n and c.startswith("O"):
                return f"strict prefix of length {k} of a {n}-byte archive is not refused: Decompressor::open returns a handle ({c[:60]})"
            if k < n and c != "A":
                STATS["archive_ok_prefixes"] += 1
                if len(STATS["accepted_prefixes"]) < 20:
                    STATS["accepted_prefixes"].append({"archive_bytes": n, "prefix": k, "stage_two_answer": c})
            if valid and k == n and not c.startswith("O"):
                return f"the complete archive does not open ({c[:60]})"
            if valid and k == n:
                want = EXPECT.get(hashlib.sha1(t[4].encode()).hexdigest())
                f = c.split(":")
                got = (int(f[1]), [unhx(x) for x in f[3].split(",")] if f[3] else [])
                if want is not None and got != want:
                    return f"the complete archive lists k={got[0]} samples={got[1]!r}, expected k={want[0]} samples={want[1]!r}"
        if m > 262144 + 32 * n + 4 * decoded_max(impl):
            return f"allocation request of {m} bytes while opening prefixes of a {n}-byte file"
        return None
    c = toks[0] if toks else "?"
    _count(c)
    n = len(unhx(fh)) if fh else (len(unhx(t[2])) if t[0] == "file" else 0)
    if c.startswith("?"):
        return f"unknown error message {c[:120]}"
    if m > 262144 + 32 * n + 4 * decoded_max(impl):
        return f"allocation request of {m} bytes while opening a {n}-byte file"
    if c.startswith("P"):
        ob = STATS["observations"].setdefault("crafted-samples-stream", {"dev": 0, "release": 0, "first_case": case[:400]})
        ob[prof] += 1
        if STRICT_CRAFTED:
            return "Decompressor::open panics on a crafted complete archive"
    if t[0] == "craft" and overflowing_count_reaches_table(t):
        STATS["overflow_regression"] = STATS.get("overflow_regression", 0) + 1
        if c != "V":
            return (f"sample-name stream with a 5-byte count above u32: expected the error value V (Invalid 5-byte varint), "
                    f"got {c[:40]} (regression of /repo 4d083e0: dev panic / release wrap)")
    return None


def overflowing_count_reaches_table(t):
    """craft case whose archive is complete and well-formed up to the sample table, and whose table starts with a 5-byte
    count whose value + THR_4 leaves u32"""
    f = t[2].split(".")
    pay, par = unhx(t[4]), unhx(t[3])
    return (f[0] == "15" and f[1] == "1" and f[2] in ("0", "4") and t[5] == "0" and len(par) >= 12 and len(pay) >= 5
            and pay[0] >= 0xF0 and int.from_bytes(pay[1:5], "big") >= THR)


def nontrivial(case, impl):
    t = case.split()
    if t[0] in ("pre", "prec"):
        return int(t[3]) > 8
    toks = tokens(impl)
    return bool(toks) and not toks[0].startswith("A")


def extra_coverage(ctx):
    return {"archives_enumerated": STATS["archives"], "prefix_files_per_profile": STATS["prefixes"],
            "mk_failed": STATS.get("mk_failed", 0), "answer_distribution_all_profiles": dict(sorted(STATS["tokens"].items())),
            "strict_prefixes_that_pass_Archive_open_and_are_refused_by_stage_two": STATS["archive_ok_prefixes"],
            "examples_of_those": STATS["accepted_prefixes"],
            "overflowing_count_cases_answered_V_all_profiles": STATS.get("overflow_regression", 0),
            "observations": STATS["observations"]}


def search(ctx, budget):
    cases = [craft_case(ctx.rng) for _ in range(500 * budget)] + \
            ["file %s %s" % (ctx.rng.choice(["ext4", "shm"]), hx(py_container(ctx.rng))) for _ in range(500 * budget)]
    found = []
    for prof in PROFILES:
        res = vlib.run_impl(PROP, cases, prof)
        for c, i in zip(cases, res):
            why = oracle(c, i)
            if why is None and tokens(i)[:1] == ["P"]:
                why = "Decompressor::open panics on a crafted complete archive"
            if why:
                found.append((c, i[:4000], f"[{prof}] {why}"))
    return found, len(cases)


def finding_class(case, impl, why):
    if case.startswith(("craft", "file")) and "panics" in why:
        return "crafted-samples-stream"
    if "panics" in why:
        return "open-panics"
    if "not refused" in why:
        return "prefix-accepted"
    return None
