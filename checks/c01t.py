"""C01T - the model writer cannot fail (sub-check of C01): removes the "= Ok" hypotheses from the composition
theorems.  props/C01G.v grand_roundtrip and props/C01.v end_to_end_inputs ASSUME that ModelCreate.model_build returns
Ok (the group store run and Pipeline.create succeed) and that the grouping oracle stays below 2^32.  props/C01T.v
(proofs/Total_proofs.v) PROVES those from hypotheses on the inputs and oracles: create_total / create_outcome (create
= Ok iff no sample repeats a contig name; never Panic), store_run_total (+ the piece-count bound from the input size),
catalogue_is_stored ("every stored descriptor occurs in coll" and conversely), grp_bound_from_catalogue, and restates
the grand round trip as grand_roundtrip_total / text_roundtrip_total: exists b, model_build = Ok b /\\ decode (file) =
input.

Proof-only check: no model run of its own; every function the statements mention is a model that the check of its own
property ties to the code (C01 Pipeline, C02 GroupStore, C03 Collection, C01G ModelCreate)."""

PROP = "C01T"
AREAS = ["agcv3", "kmer", "segment", "pipeline", "groupstore", "tuple", "lz", "collection", "archive", "fasta"]
NO_MODEL_RUN = True
THEOREMS = ["create_total", "create_outcome", "store_run_total", "store_run_total_pieces", "pieces_count",
            "store_run_total_inputs", "catalogue_is_stored", "catalogue_descriptors_in_range", "grp_bound_from_catalogue",
            "model_build_succeeds", "grand_roundtrip_total", "text_samples_names_distinct", "text_roundtrip_total",
            "in_group_id_bound", "catalogue_in_dom_from_inputs", "grand_roundtrip_inputs"]
RULE = ("proof-only sub-check of C01: bin/check rebuilds props/C01T.vo from the regenerated constants, re-runs coqc on "
        "props/C01T.v and requires 'Closed under the global context' under every pinned theorem; the non-vacuity Example "
        "grand_roundtrip_total_nonvacuous discharges every hypothesis of grand_roundtrip_total (incl. the per-group piece "
        "count and the residual size conditions) for the two-sample instance of C01G. No generated cases: the tie of each "
        "composed layer to the Rust code is the correspondence of C01, C02, C03, C01G")
TRUSTED = ["same model functions as C01G (coq/model/ModelCreate.v model_build); nothing new is transcribed from the Rust here",
           "threads are oracles: decisions, group assignment, store schedule, arrival order of registrations (any value)"]
ASSUMPTIONS = ["zstd: zd (zc l x) = Some x and zc l x <> [] for all levels and inputs",
               "inputs: sample names distinct and non-empty, every sample has a contig, contig names distinct within a "
               "sample (create_outcome: otherwise create = Err), symbol codes 0..30, 2*|contig| + min_match_len < 2^31; "
               "1 <= k <= 32; 4 <= min_match_len < 2^32; segment_size < 2^32 and segment_size + k <= 2^31",
               "oracles: decisions_ok; pieces of empty contigs not in LZ groups; the store schedule carries exactly the "
               "emitted pieces; no group receives 2^32-2 pieces (implied by fewer than 2^32-2 pieces in all, implied by "
               "2*(bases+contigs)+2 < 2^32: pieces_count / store_run_total_inputs). NO range hypothesis on group ids "
               "(grp_bound_from_catalogue)",
               "residual size conditions, stated on whatever the writer returns (implications from '= Ok x', never an "
               "assumption that it returns). grand_roundtrip_total: catalogue_in_dom of the catalogue create builds (C03's "
               "domain; outside it Collection.store_all itself can trap, so it cannot sit behind model_build = Ok). "
               "catalogue_in_dom_from_inputs / grand_roundtrip_inputs reduce it to input counts (< 2^32 samples, contigs "
               "per sample, 2*(bases+1) per contig), name bytes 1..127, group ids of emitted pieces < 2^32-1, fewer than "
               "2^31-1 pieces per group (in_group_id_bound), and ONE residual: batch_small (the five detail streams of "
               "each 50-sample batch and their zstd images < 2^32 bytes - depends on zstd output sizes). Both keep: every "
               "part metadata < 2^64 (raw pack lengths = sums of LZ output lengths for which C09 has no length bound, "
               "name stream lengths, the caller's file_type_info value) and file length <= 2^63-1 (sum of zstd output "
               "sizes); lists are unbounded in the model, so these cannot be derived",
               "text_roundtrip_total: text_samples files = Ok arch (the FASTA reader accepts the input - a statement about "
               "the parser, not the writer), sample names non-empty, 2*|contig| + min_match_len < 2^31; shape, alphabet "
               "and distinct contig names are PROVED from the parser (text_samples_names_distinct)"]


def gen_cases(rng, tier):
    return []


def nontrivial(case, impl):
    return False


def oracle(case, impl):
    return None


def finding_class(case, line, why):
    return None
