"""C02 addressing rules / C01 group store (coq/model/GroupStore.v + SegReader.v): generator of real archives
(lib/gen_samples.py sample sets compressed through harness/src/mk.rs), hand-over of the real parts and descriptor
table to the model driver with an arrival order inferred from the observed ids (model_cases), and an independent
python oracle that checks every addressing rule directly on the real parts (no Coq model involved)."""
import os, random, shutil, sys, zlib

sys.path.insert(0, os.path.join(os.path.dirname(os.path.dirname(os.path.abspath(__file__))), "lib"))
import gen_samples as G  # noqa

PROP = "C02"
SUBCHECKS = ["C02B", "C02S"]   # whole-archive spec decoder (props/C02B.v); strict mode accepts every written file (props/C02S.v)
AREAS = ["groupstore"]
THEOREMS = ["consts_writer_eq_reader", "consts_eq_spec", "store_then_get", "every_segment_registered", "run_no_trap",
            "rounds_irrelevant", "step_on_nothing_is_noop", "one_ref_part", "delta_addressing", "raw_addressing",
            "pack_layout", "no_separator_in_entry", "desc_len_is_decoded_len", "metadata_convention"]
PROFILES = ["dev", "release"]
PROFILES_QUICK = ["dev"]
RULE = ("trace validation on real archives: case `gs <dir> <params>` = a sample set (FASTA files) compressed by the real "
        "StreamingQueueCompressor exactly as ragc-cli drives it; the harness dumps, per segment group, every part of "
        "x<id>r and x<id>d (metadata, marker, stored length, unpacked bytes, and the size the real compressor gives for "
        "those bytes) and every descriptor with its decoded stored bytes. The extracted model (a) runs "
        "SegReader.get_segment on the real parts for every descriptor (LZ decode = the C09 model) and (b) re-runs "
        "GroupStore.gprocess/finalize_group on the group's segments in an arrival order inferred from the ids "
        "(reference, other id-0 segments, then ids ascending, duplicates next to their first use; split into 1..4 rounds "
        "and also as one round; in multi-file mode additionally the real two rounds - reference sample, then the rest - "
        "through GroupStore.gstep WITH the model's sort) with the real LZ encodings, and must print the same line: every part's metadata / marker "
        "/ length / unpacked bytes (= every pack's entry list, placeholder, pack boundaries at 49/50), every in-group id, "
        "raw length and decoded segment. non-trivial = an archive with an LZ group holding at least one delta entry; "
        "distinct = distinct case line")
TRUSTED = ["python oracle in checks/c02.py (own split of the packs at 0xFF, own id -> (pack, entry) arithmetic with 50/16/0x7f written out)",
           "ocaml/c02/driver.ml: lz_enc as a table of the real encodings, compress_ref/compress_pack as dummies of the real "
           "compressed length, dwm = identity on parts unpacked by the real decompress_segment_with_marker, LZ decode = "
           "extracted model/LZ.v (C09)",
           "checks/c02.py model_cases: the arrival order per group is inferred, not observed (any order consistent with the ids "
           "gives the same parts: rounds_irrelevant + de-duplication only against pending entries)",
           "lib/gen_samples.py + harness/src/mk.rs (the way ragc-cli drives the library)"]
ASSUMPTIONS = ["codecs_ok: part compression and LZ-diff round trips on their domains, compressed reference non-empty, no 0xFF in an "
               "LZ encoding (C12, C09)",
               "ops_ok: stored segment shorter than 2^32; raw groups: no byte 0xFF (codes 0..30); LZ groups: segments in the C09/C12 "
               "domains (non-empty, codes 0..30, lengths below 2^31)",
               "fewer than 2^32 - 2 segments per group (u32 id counter; run_no_trap)",
               "compression never fails (`?` on the zstd calls is not modelled); a worker that swallows such an error is outside the model",
               "one SegmentGroupBuffer per group id (the group registry is the other half of C01)"]
CASEROOT = os.path.join(os.path.dirname(os.path.dirname(os.path.abspath(__file__))), ".cache", "c02cases")
STATS = {}          # case -> dict of counters (filled by oracle)
PACK, NRAW, SEP, PH = 50, 16, 0xFF, 0x7F


def unhx(s):
    return b"" if s == "-" else bytes.fromhex(s)


# ------------------------------------------------------------------------------------------------ generator
def dup_heavy(rng, nsamples, clen, div):
    """one base contig; later samples are either a fresh mutation of it or an exact copy of an earlier sample
    (=> equal deltas arriving close together: de-duplication) or of the base (=> id 0 reuse)"""
    base = G.rand_seq(rng, clen)
    out = [("S000", [("chr0", base)])]
    for si in range(1, nsamples):
        r = rng.random()
        if r < 0.25 and si > 1:
            seq = out[si - 1][1][0][1] if rng.random() < 0.7 else out[rng.randrange(1, si)][1][0][1]
        elif r < 0.35:
            seq = base
        else:
            seq = G.mutate(rng, base, div)
        out.append((f"S{si:03d}", [("chr0", seq or "A")]))
    return out


def _write(i, tag, samples, params, mode="multi"):
    d = os.path.join(CASEROOT, f"{tag}-{i}")
    shutil.rmtree(d, ignore_errors=True)
    if mode == "single":
        G.write_case(d, samples, mode="single")
    else:
        if len(samples) == 1:       # mk.rs: a single input file means PanSN mode; keep multi-file mode with a stub
            samples = samples + [("S999", [("stub", "ACGTACGTAC")])]
        G.write_case(d, samples, mode="multi")
    return f"gs {d} {params}"


def gen_cases(rng, tier, label=None):
    label = label or tier
    tag = f"{label}-{rng.getrandbits(32):08x}"
    os.makedirs(CASEROOT, exist_ok=True)
    for old in os.listdir(CASEROOT):           # keep the cache from growing without bound
        if old.startswith(label + "-") and not old.startswith(tag):
            shutil.rmtree(os.path.join(CASEROOT, old), ignore_errors=True)
    n = {"quick": (9, 4, 3, 4, 3, 2), "thorough": (260, 70, 40, 70, 40, 20)}[tier]
    cs, i = [], 0
    for _ in range(n[0]):                      # ordinary sets
        cs.append(_write(i, tag, G.gen_set(rng), G.rand_params(rng))); i += 1
    for j in range(n[1]):                      # many samples sharing LZ groups: > 50 and > 100 deltas in one group
        ns = [60, 125, 103, 160][j % 4] if tier == "quick" else rng.choice([52, 60, 101, 103, 125, 160, 230])
        p = f"{rng.choice([11, 15, 21])},{rng.choice([100, 200, 1000])},{rng.choice([15, 20, 25])},50,{rng.choice([1, 2, 4, 8])},{1 << 31},0"
        cs.append(_write(i, tag, G.gen_big_group(rng, ns, clen=rng.choice([300, 600]), div=rng.choice([0.01, 0.03])), p)); i += 1
    for j in range(n[2]):                      # > 784 orphan contigs: a raw group passes 49 and 99 entries
        s = G.gen_set(rng, nsamples=rng.choice([1, 2, 3]), shape="many_short")
        if j % 2 == 0:                         # at least 1700 orphans: every raw group passes 99 entries
            s[-1] = (s[-1][0], s[-1][1] + [(f"u{q}", G.rand_seq(rng, rng.randint(1, 7), "ACGTNRYK")) for q in range(900)])
        cs.append(_write(i, tag, s, G.rand_params(rng))); i += 1
    for j in range(n[3]):                      # duplicates: de-duplicated deltas, id-0 reuse, pack boundaries
        ns = rng.choice([20, 55, 70, 110, 130])
        p = f"{rng.choice([9, 15, 21, 31])},{rng.choice([50, 100, 300])},{rng.choice([15, 20])},50,{rng.choice([1, 3, 4, 16])},{1 << 31},0"
        cs.append(_write(i, tag, dup_heavy(rng, ns, rng.choice([150, 400, 900]), rng.choice([0.005, 0.02, 0.05])), p)); i += 1
    for j in range(n[4]):                      # single-file (PanSN) mode
        s = G.gen_set(rng) if j % 2 else dup_heavy(rng, rng.choice([6, 60]), 300, 0.02)
        cs.append(_write(i, tag, s, G.rand_params(rng), mode="single")); i += 1
    for j in range(n[5]):                      # tiny references (stored raw) and short contigs around k
        k = rng.choice([9, 11, 15])
        s = [(f"S{si:03d}", [(f"c{c}", G.rand_seq(rng, rng.choice([k, k + 1, k + 3, 2 * k, 30, 45]))) for c in range(rng.choice([1, 3, 6]))])
             for si in range(rng.choice([2, 5, 12]))]
        cs.append(_write(i, tag, s, f"{k},{rng.choice([20, 50])},15,50,{rng.choice([1, 2])},{1 << 31},0")); i += 1
    return cs


# ------------------------------------------------------------------------------------------------ parsing the dump
def parse(line):
    """-> (head tokens, [group dict]) ; group: gid, nref, ndelta, R [part], P [part], D [desc] (tokens kept verbatim)"""
    t = line.split(" ")
    if t[0] != "OK":
        return None, None
    head, groups, i = t[1:4], [], 4
    cur = None
    while i < len(t):
        if t[i] == "G":
            cur = {"gid": int(t[i + 1]), "nref": t[i + 2], "ndelta": t[i + 3], "R": [], "P": [], "D": [], "tok": [t[i], t[i + 1], t[i + 2], t[i + 3]]}
            groups.append(cur)
            i += 4
        else:
            cur[t[i]].append(t[i + 1])
            cur["tok"] += [t[i], t[i + 1]]
            i += 2
    return head, groups


def part(tok):
    meta, marker, slen, clen, cm, h = tok.split(":")
    return {"meta": int(meta), "marker": marker, "slen": int(slen), "clen": int(clen), "cmarker": int(cm), "unp": unhx(h)}


def desc(tok):
    s, c, idx, gid_id, rc, ln, h = tok.split(":")
    return {"s": s, "c": c, "idx": int(idx), "id": int(gid_id), "rc": rc, "len": int(ln), "data": unhx(h)}


def arrival(gid, descs):
    ids = [d["id"] for d in descs]
    order = []
    if gid >= NRAW:
        zeros = [i for i, x in enumerate(ids) if x == 0]
        order += zeros                                           # the reference, then every other "same as reference"
    order += sorted((i for i, x in enumerate(ids) if x != 0 or gid < NRAW), key=lambda i: (ids[i], i))
    return order


def model_cases(cases, impl_lines):
    out = []
    for c, line in zip(cases, impl_lines):
        head, groups = parse(line)
        if head is None:
            out.append("gs " + line)
            continue
        rng = random.Random(zlib.crc32(c.encode()))
        toks = ["gs"] + head
        first = None
        try:
            files = [l for l in open(os.path.join(c.split(" ")[1], "order.txt")).read().split("\n") if l]
            if len(files) >= 2:
                first = files[0].split(".fa")[0].encode().hex()
        except OSError:
            pass
        for g in groups:
            toks += g["tok"]
            if g["D"]:
                order = arrival(g["gid"], [desc(d) for d in g["D"]])
                cuts = sorted(rng.sample(range(1, len(order)), min(len(order) - 1, rng.choice([0, 1, 2, 3])))) if len(order) > 1 else []
                rounds, prev = [], 0
                for cpos in cuts + [len(order)]:
                    rounds.append(order[prev:cpos]); prev = cpos
                if rng.random() < 0.3:
                    rounds.insert(rng.randrange(len(rounds) + 1), [])      # an empty round in between (step on nothing)
                toks += ["A", "|".join(",".join(str(i) for i in r) for r in rounds)]
                if first is not None:
                    # multi-file mode: the reference sample's segments arrive in the first sync round, all others in
                    # the final one (mk.rs: drain + sync_and_flush after the first file); catalogue order, the model sorts
                    r1 = [i for i, d in enumerate(g["D"]) if d.split(":", 1)[0] == first]
                    r2 = [i for i, d in enumerate(g["D"]) if d.split(":", 1)[0] != first]
                    toks += ["T", ",".join(map(str, r1)) + "|" + ",".join(map(str, r2))]
        out.append(" ".join(toks))
    return out


# ------------------------------------------------------------------------------------------------ oracle
def split_pack(b):
    if not b or b[-1] != SEP:
        return None
    return b[:-1].split(bytes([SEP]))


def oracle(case, line):
    head, groups = parse(line)
    if head is None:
        return "no archive / no dump: " + line[:200]
    st = dict(lz_gt50=0, lz_gt100=0, raw_gt49=0, raw_gt99=0, dedup=0, id0_reuse=0, stored_raw=0, stored_compressed=0,
              groups=len(groups), descriptors=0, lz_with_delta=0, tuple_ref=0)
    x = int(head[2].split("=")[1])
    if x != 2 * len(groups):
        return f"{x} x* streams for {len(groups)} groups"
    for g in groups:
        gid = g["gid"]
        if g["nref"] == "-" or g["ndelta"] == "-":
            return f"group {gid}: stream missing (ref {g['nref']}, delta {g['ndelta']})"
        R, P, D = [part(p) for p in g["R"]], [part(p) for p in g["P"]], [desc(d) for d in g["D"]]
        st["descriptors"] += len(D)
        if not D:
            return f"group {gid}: streams without any descriptor"
        lz = gid >= NRAW
        if len(R) != (1 if lz else 0):
            return f"group {gid}: {len(R)} reference parts"
        for kind, p in [("R", p) for p in R] + [("P", p) for p in P]:
            if p["meta"] == 0:
                st["stored_raw"] += 1
                if p["slen"] != len(p["unp"]):
                    return f"group {gid}: metadata 0 but stored length differs"
                if p["clen"] < len(p["unp"]):
                    return f"group {gid}: stored raw although the compressed form ({p['clen']}) is shorter than {len(p['unp'])}"
            else:
                st["stored_compressed"] += 1
                if p["meta"] != len(p["unp"]):
                    return f"group {gid}: metadata {p['meta']} != unpacked size {len(p['unp'])}"
                if not p["slen"] < p["meta"]:
                    return f"group {gid}: stored compressed although not shorter"
                if p["slen"] != p["clen"] or int(p["marker"]) != p["cmarker"]:
                    return f"group {gid}: part not reproducible by the real compressor"
                if kind == "P" and p["marker"] != "0":
                    return f"group {gid}: pack marker {p['marker']}"
                if kind == "R" and p["marker"] == "1":
                    st["tuple_ref"] += 1
        packs = []
        for j, p in enumerate(P):
            e = split_pack(p["unp"])
            if e is None:
                return f"group {gid}: pack {j} does not end with the separator"
            if not (1 <= len(e) <= PACK) or (j + 1 < len(P) and len(e) != PACK):
                return f"group {gid}: pack {j} of {len(P)} has {len(e)} entries"
            packs.append(e)
        if not lz and packs and packs[0][0] != bytes([PH]):
            return f"group {gid}: raw pack 0 entry 0 is not the placeholder"
        nslots = sum(len(e) for e in packs)
        used = set()
        ids = {}
        for d in D:
            if d["len"] != len(d["data"]):
                return f"group {gid}: raw_length {d['len']} != decoded length {len(d['data'])}"
            i = d["id"]
            ids.setdefault(i, []).append(d)
            if lz and i == 0:
                if d["data"] != R[0]["unp"]:
                    return f"group {gid}: id 0 segment differs from the reference part"
                continue
            if i == 0:
                return f"group {gid}: raw group uses id 0"
            slot = i - 1 if lz else i
            pj, pe = slot // PACK, slot % PACK
            if pj >= len(packs) or pe >= len(packs[pj]):
                return f"group {gid}: id {i} addresses no entry"
            used.add(slot)
            ent = packs[pj][pe]
            if lz and not ent:
                return f"group {gid}: id {i} names an empty LZ entry"
            if not lz and ent != d["data"]:
                return f"group {gid}: raw entry of id {i} differs from the decoded segment"
        want = set(range(0 if lz else 1, nslots))
        if used != want:
            return f"group {gid}: entries not referenced by any descriptor / ids not dense: {sorted(want ^ used)[:5]}"
        for i, ds in ids.items():
            if i >= 1 and len(ds) > 1:
                st["dedup"] += 1
                closing = (i % PACK == 0) if lz else (i % PACK == PACK - 1)
                if closing:
                    return f"group {gid}: id {i} closes a pack and is used twice"
                if len({d["data"] for d in ds}) != 1:
                    return f"group {gid}: id {i} shared by different segments"
        if lz and len(ids.get(0, [])) > 1:
            st["id0_reuse"] += 1
        ne = nslots if lz else nslots - (1 if packs else 0)
        if lz:
            st["lz_gt50"] += ne > 50; st["lz_gt100"] += ne > 100; st["lz_with_delta"] += ne > 0
        else:
            st["raw_gt49"] += ne > 49; st["raw_gt99"] += ne > 99
    STATS[case] = st
    return None


def nontrivial(case, line):
    st = STATS.get(case)
    return bool(st and st["lz_with_delta"] > 0)


def extra_coverage(ctx):
    keys = ["lz_gt50", "lz_gt100", "raw_gt49", "raw_gt99", "dedup", "id0_reuse", "stored_raw", "stored_compressed", "tuple_ref"]
    return {"archives_with": {k: sum(1 for s in STATS.values() if s[k] > 0) for k in keys},
            "totals": {k: sum(s[k] for s in STATS.values()) for k in keys + ["groups", "descriptors"]},
            "archives": len(STATS)}


def search(ctx, budget):
    """implementation-only hunt: more archives through the oracle"""
    rng = random.Random(ctx.seed ^ 0xC02)
    cs = gen_cases(rng, "quick", "search")
    while len(cs) < budget:
        cs += gen_cases(rng, "quick", "search%d" % len(cs))
    cs = cs[:budget]
    lines = vlib.run_impl(PROP, cs, "dev")          # noqa: F821 (vlib is injected by bin/check)
    found = []
    for c, l in zip(cs, lines):
        why = oracle(c, l)
        if why:
            found.append((c, l, why))
    return found, len(cs)


def finding_class(case, line, why):
    return None
