"""C15 write failures during create are reported: generator (library-level histories and bare BufWriter runs under a
moving RLIMIT_FSIZE), python oracle (container semantics re-stated), CLI-level fault enumeration (extra_checks), search."""
import concurrent.futures as cf
import os, random, re, shutil, subprocess, time

PROP = "C15"
AREAS = ["sink", "archive"]
THEOREMS = ["all_sites_propagate", "no_write_before_finalize", "finalize_ok_all_written", "write_fault_reported",
            "fault_file_within_limit", "fault_leaves_prefix", "no_success_with_truncated_file", "cli_exit_code", "history_ok_all_written",
            "site_add_meta_needed", "site_add_data_needed", "site_fb_add_needed", "site_close_ser_needed",
            "site_ser_footer_needed", "site_ser_len_needed", "site_ser_flush_needed", "site_fin_flush_needed",
            "site_fin_close_needed", "site_cli_finalize_needed", "site_cli_create_needed", "close_flush_redundant"]
RULE = ("fault injection = soft RLIMIT_FSIZE with SIGXFSZ ignored (EFBIG at byte granularity: the kernel stores the part of a "
        "request that fits). cases (harness c15.rs vs extracted model): bw cap pol ops (a bare std BufWriter<File>: write_all / "
        "flush / limit changes; exhaustive: capacities 0..4 x up to 3 writes of 0..5 bytes x flush placements x every limit; "
        "random: capacities up to 64, writes around the capacity) and hist cap pol ops (a real ragc_common::Archive in output "
        "mode: register / add_part / add_part_buffered / flush_buffers / set_raw_size / limit changes, then close, then drop; "
        "for each of the generated histories EVERY static limit from 0 to size+2, plus histories with limits that move between "
        "calls, plus histories above 4 MiB so that the BufWriter flushes mid-way and parts above the capacity take the direct "
        "path). compared: Ok/Err of every call, of close, length + FNV-1a of the file after drop. "
        "finalize level (extra_checks, harness `fin` cases): the whole create pipeline in-process, driven as ragc-cli's "
        "create_archive drives it and ending in StreamingQueueCompressor::finalize, on 2 (quick) / 3 (thorough) small sample "
        "sets under EVERY limit n in 0..size+2, and sampled limits on an archive above 4 MiB (thorough): n < size -> finalize "
        "returns Err, n >= size -> Ok and the unlimited run's file; the model, run on the write sequence recovered from the "
        "unlimited archive, must predict Ok/Err, file length and content of every run. "
        "CLI level (extra_checks): the release `ragc create -t 2` of /repo's working tree under `prlimit --fsize=n` for limits n in "
        "0..size+2 of small archives (every n when the time budget allows - always in the thorough tier; otherwise the last 11 "
        "offsets, the footer start, every part boundary and a stride through data and footer), and sampled limits on an "
        "archive above 4 MiB (thorough); the model is run on the write sequence recovered from the unlimited archive and must "
        "predict exit class, file length and content (a prefix of the complete file) of every run. "
        "non-trivial = a limit below the archive size (a fault was injected); distinct = distinct case line")
TRUSTED = ["python oracle in checks/c15.py (container writer re-stated: varint, footer, flush order)",
           "RLIMIT_FSIZE + ignored SIGXFSZ as the fault injector: only EFBIG-style permanent faults are produced on the real "
           "file; moving limits give transient faults at call granularity; ENOSPC on a tiny file system was not run (no mount "
           "rights in the sandbox) - it is the partial=true limit policy of the model",
           "CLI runs use GLIBC_TUNABLES=glibc.malloc.hugetlb=1 (page size of malloc'ed memory only; makes zstd's level-19 "
           "context allocation 10x faster in this VM)",
           "std's Termination for Result (Err from main = exit status 1) and std::io::BufWriter (transcribed in Sink.v, "
           "validated by the bw cases at capacities 0..64)",
           "file contents are compared through length + 64-bit FNV-1a in the harness cases, byte for byte in the CLI runs"]
ASSUMPTIONS = ["a write call that returns Ok has stored all its bytes (no model of ENOSPC surfacing after a successful write, "
               "delayed allocation, or errors at close(2)/fsync: the code calls neither sync_all nor checks close)",
               "every part of the create pipeline is buffered in memory until finalize (pinned from the source text: "
               "no unbuffered add_part, one flush_buffers, one close in agc_compressor.rs / collection.rs)",
               "failures of File::create / of the workers before finalize are outside this model (they return Err through `?` "
               "before any part is written; the Archive's Drop then writes a footer-only file and the exit status is non-zero)"]
M64 = (1 << 64) - 1
_STATE = {}


_cap = []


def cap():
    """the capacity archive.rs gives its BufWriter, as the translator read it (coq/gen/Consts_sink.v); looked up when first
    used, i.e. after bin/check regenerated the constants"""
    if not _cap:
        v = 4 * 1024 * 1024
        try:
            txt = open(os.path.join(os.path.dirname(os.path.dirname(os.path.abspath(__file__))), "coq/gen/Consts_sink.v")).read()
            m = re.search(r"Definition ar_bufwriter_cap : N := (\d+)\.", txt)
            if m:
                v = int(m.group(1))
        except OSError:
            pass
        _cap.append(v)
    return _cap[0]


def hx(b):
    return "".join("%02x" % x for x in b) if b else "-"


def unhx(s):
    return b"" if s == "-" else bytes.fromhex(s)


def fnv(b):
    h = 0xcbf29ce484222325
    for x in b:
        h = ((h ^ x) * 0x100000001b3) & M64
    return h


def prefix_fnvs(b, lens):
    """FNV-1a of b[:n] for every n in lens, one pass"""
    want = sorted(set(n for n in lens if 0 <= n <= len(b)))
    out, h, j = {}, 0xcbf29ce484222325, 0
    for n in want:
        for x in b[j:n]:
            h = ((h ^ x) * 0x100000001b3) & M64
        j = n
        out[n] = h
    return out


_dc = {}


def data_of(s):
    if s in _dc:
        return _dc[s]
    if s.startswith("@"):
        l, seed = s[1:].split(".")
        n, x = int(l, 16), int(seed, 16)
        out = bytearray(n)
        for i in range(n):
            x = (x * 1103515245 + 12345) & 0x7fffffff
            out[i] = (x >> 16) & 0xff
        b = bytes(out)
    else:
        b = unhx(s)
    if len(_dc) < 5000:
        _dc[s] = b
    return b


def data_len(s):
    if s.startswith("@"):
        return int(s[1:].split(".")[0], 16)
    return 0 if s == "-" else len(s) // 2


# --------------------------------------------------------------------------------------------- python container writer
def varint(v):
    if v == 0:
        return b"\0"
    nb = (v.bit_length() + 7) // 8
    return bytes([nb]) + v.to_bytes(nb, "big")


def py_history(ops, want_bytes=True):
    """Container-level semantics of a history with no I/O error -> (results per op, complete file bytes | length)"""
    streams, smap, buf, res = [], {}, {}, []
    out = bytearray()
    off = 0

    def add(sid, d, m):
        nonlocal off
        if sid >= len(streams):
            return False
        mb = varint(m)
        dl = data_len(d)
        streams[sid]["parts"].append((off, dl))
        if want_bytes:
            out.extend(mb); out.extend(data_of(d))
        off += len(mb) + dl
        return True

    for o in ops:
        f = o.split(":")
        if f[0] == "r":
            if f[1] in smap:
                res.append("%x" % smap[f[1]])
            else:
                smap[f[1]] = len(streams); streams.append({"name": unhx(f[1]), "raw": 0, "parts": []})
                res.append("%x" % (len(streams) - 1))
        elif f[0] == "a":
            res.append("ok" if add(int(f[1], 16), f[2], int(f[3], 16)) else "err")
        elif f[0] == "b":
            buf.setdefault(int(f[1], 16), []).append((f[2], int(f[3], 16))); res.append("-")
        elif f[0] == "f":
            taken, r = buf, "ok"
            buf = {}
            for sid in sorted(taken):
                for d, m in taken[sid]:
                    if not add(sid, d, m):
                        r = "err"; break
                if r == "err":
                    break
            res.append(r)
        elif f[0] == "s":
            sid = int(f[1], 16)
            if sid < len(streams):
                streams[sid]["raw"] = int(f[2], 16)
            res.append("-")
        elif f[0] == "l":
            res.append("-")
    footer = bytearray(varint(len(streams)))
    for s in streams:
        footer += s["name"] + b"\0" + varint(len(s["parts"])) + varint(s["raw"])
        for po, ps in s["parts"]:
            footer += varint(po) + varint(ps)
    if want_bytes:
        return res, bytes(out) + bytes(footer) + len(footer).to_bytes(8, "little")
    return res, off + len(footer) + 8


# --------------------------------------------------------------------------------------------- generators
def rdata(rng, big=False):
    k = rng.random()
    if k < 0.12:
        return "-"
    if k < 0.8:
        return hx(bytes(rng.getrandbits(8) for _ in range(rng.randint(1, 24))))
    return "@%x.%x" % (rng.randint(25, 300), rng.getrandbits(31))


def rmeta(rng):
    return rng.choice([0, 1, 7, 255, 256, rng.randint(0, 70000), rng.getrandbits(rng.choice([8, 16, 32, 64])), M64])


def gen_ops(rng, pipeline):
    ns = rng.choice([1, 2, 3, rng.randint(1, 6)])
    names = []
    while len(names) < ns:
        n = hx(bytes(rng.randint(0x21, 0x7e) for _ in range(rng.choice([1, 2, 5, rng.randint(1, 12)]))))
        if n not in names:
            names.append(n)
    ops = ["r:" + n for n in names]
    nops = rng.choice([1, 2, 4, rng.randint(1, 10)])
    for _ in range(nops):
        sid = rng.randrange(ns)
        if rng.random() < 0.03:
            sid = rng.choice([ns, ns + 3, M64])
        k = rng.random()
        if pipeline or k < 0.55:
            ops.append("b:%x:%s:%x" % (sid, rdata(rng), rmeta(rng)))
        elif k < 0.85:
            ops.append("a:%x:%s:%x" % (sid, rdata(rng), rmeta(rng)))
        elif k < 0.93:
            ops.append("f")
        else:
            ops.append("s:%x:%x" % (sid, rmeta(rng)))
    if pipeline:
        for i in range(ns):
            if rng.random() < 0.5:
                ops.insert(rng.randint(ns, len(ops)), "s:%x:%x" % (i, rmeta(rng)))
        ops.append("f")
    elif rng.random() < 0.85:
        ops.append("f")
    return ops


def with_moving_limits(rng, ops, size):
    out = []
    for o in ops:
        if rng.random() < 0.35:
            out.append(rng.choice(["l:inf", "l:1:%x" % rng.randint(0, size + 4), "l:1:%x" % rng.randint(0, max(1, size // 2))]))
        out.append(o)
    if rng.random() < 0.6:
        out.append(rng.choice(["l:inf", "l:inf", "l:1:%x" % rng.randint(0, size + 4)]))
    return out


def big_hist(rng):
    """histories around the 4 MiB BufWriter: buffer filled to the brim, flush mid-way, a part >= capacity (direct path)"""
    ops = ["r:61", "r:62"]
    shape = rng.randrange(4)
    if shape == 0:      # several MB-sized parts: flush_buf in the middle of add_part
        sizes = [rng.randint(900_000, 1_600_000) for _ in range(rng.randint(3, 5))]
    elif shape == 1:    # one part above the capacity: straight to the file
        sizes = [rng.randint(10, 2000), cap() + rng.randint(0, 3000), rng.randint(10, 2000)]
    elif shape == 2:    # fill the buffer exactly (metadata 1 byte for meta 0): spare == len boundary
        a = rng.randint(1000, 100000)
        sizes = [a, cap() - a - 2 - rng.choice([0, 1, 2]), rng.randint(1, 50)]
    else:
        sizes = [rng.randint(1_000_000, 2_200_000), rng.randint(1_900_000, 2_300_000), rng.randint(1, 300_000)]
    for i, n in enumerate(sizes):
        kind = "b" if rng.random() < 0.7 else "a"
        ops.append("%s:%x:@%x.%x:%x" % (kind, rng.randrange(2), n, rng.getrandbits(31), 0 if shape == 2 else rmeta(rng)))
    ops.append("f")
    _, size = py_history(ops, want_bytes=False)
    total = sum(sizes)
    lim = rng.choice([size, size - 1, size - 8, size - 9, cap(), cap() - 1, cap() + 1, rng.randint(0, size), rng.randint(0, size),
                      total, sizes[0], sizes[0] + 1, 0])
    pol = "inf" if rng.random() < 0.15 else "L1:%x" % max(0, lim)
    if rng.random() < 0.3:
        ops = with_moving_limits(rng, ops, size)
    return "hist %x %s %s" % (cap(), pol, " ".join(ops))


def gen_bw_exhaustive():
    cs = []
    lens = [0, 1, 2, 3, 5]
    for cap in range(0, 5):
        for a in lens:
            for b in lens:
                for c in [None] + lens:
                    ws = [a, b] + ([c] if c is not None else [])
                    total = sum(ws)
                    toks, x = [], 1
                    for n in ws:
                        toks.append("w:" + hx(bytes(range(x, x + n)))); x += n
                    for fl in (0, 1, 2):   # no flush, flush at the end, flush after the first write too
                        t = list(toks)
                        if fl >= 1:
                            t.append("f")
                        if fl == 2:
                            t.insert(1, "f")
                        for lim in range(0, total + 2):
                            cs.append("bw %x L1:%x %s" % (cap, lim, " ".join(t)))
    return cs


def gen_bw_random(rng, n):
    cs = []
    for _ in range(n):
        cap = rng.choice([0, 1, 2, 3, 4, 7, 8, 9, 16, 33, 64])
        toks, total = [], 0
        for _ in range(rng.randint(1, 9)):
            k = rng.random()
            if k < 0.7:
                ln = rng.choice([0, 1, cap, max(0, cap - 1), cap + 1, rng.randint(0, 2 * cap + 3), rng.randint(0, 12)])
                toks.append("w:" + hx(bytes(rng.getrandbits(8) for _ in range(ln)))); total += ln
            elif k < 0.85:
                toks.append("f")
            else:
                toks.append(rng.choice(["l:inf", "l:1:%x" % rng.randint(0, total + 10)]))
        if rng.random() < 0.7:
            toks.append("f")
        pol = rng.choice(["inf", "L1:%x" % rng.randint(0, total + 2), "L1:%x" % rng.randint(0, total + 2)])
        cs.append("bw %x %s %s" % (cap, pol, " ".join(toks)))
    return cs


def gen_cases(rng, tier):
    quick = tier == "quick"
    cs = gen_bw_exhaustive() if not quick else gen_bw_exhaustive()[::3]
    cs += gen_bw_random(rng, 1500 if quick else 40000)
    # every static limit on generated histories; two thirds of them have the create pipeline's shape
    nh = 40 if quick else 600
    for i in range(nh):
        ops = gen_ops(rng, pipeline=(i % 3 != 0))
        _, size = py_history(ops, want_bytes=False)
        for lim in range(0, size + 3):
            cs.append("hist %x L1:%x %s" % (cap(), lim, " ".join(ops)))
        cs.append("hist %x inf %s" % (cap(), " ".join(ops)))
        for _ in range(6 if quick else 20):
            cs.append("hist %x %s %s" % (cap(), rng.choice(["inf", "L1:%x" % rng.randint(0, size + 2)]),
                                         " ".join(with_moving_limits(rng, ops, size))))
    for _ in range(6 if quick else 80):
        cs.append(big_hist(rng))
    cs += [
        "hist %x inf r:61 b:0:0102:7 f" % cap(),
        "hist %x L1:0 r:61 b:0:0102:7 f" % cap(),
        "hist %x L1:15 r:61 b:0:0102:7 f" % cap(),
        "hist %x L1:16 r:61 b:0:0102:7 f" % cap(),
        "hist %x L1:5 r:61 b:0:0102:7 f l:inf" % cap(),                 # the limit is lifted before close: nothing was lost
        "hist %x L1:3 r:61 a:0:0102:7 l:inf" % cap(),                   # a buffered failure surfaces at close only if it persists
        "hist %x L1:5 r:61 b:0:0102:7" % cap(),                         # not flushed: dropped by close (C13), footer only
    ]
    return cs


# --------------------------------------------------------------------------------------------- oracle
def fields(line):
    d = {}
    for tok in line.split():
        if "=" in tok:
            k, v = tok.split("=", 1)
            d[k] = v
    return d


def static_limit(t):
    """(limit | None for unlimited, True) when the policy never moves, else (None, False)"""
    if any(o.startswith("l:") for o in t[3:]):
        return None, False
    if t[2] == "inf":
        return None, True
    return int(t[2].split(":")[1], 16), True


def oracle(case, impl):
    if impl.startswith(("PANIC", "CRASH", "HARNESS-ERROR")):
        return "implementation failed: " + impl[:160]
    t = case.split()
    g = fields(impl)
    lim, static = static_limit(t)
    if t[0] == "bw":
        ops = t[3:]
        res = g.get("R", "-").split(",") if g.get("R", "-") != "-" else []
        data = b"".join(data_of(o[2:]) for o in ops if o.startswith("w:"))
        last_w = max([i for i, o in enumerate(ops) if o.startswith("w:")], default=-1)
        flushed = any(o == "f" for o in ops[last_w + 1:]) or last_w < 0
        if "err" not in res and flushed:
            if g.get("F") != "%x.%x" % (len(data), fnv(data)):
                return "BufWriter: every call returned Ok and the last write was flushed, but the file is not the data written"
        if static and lim is not None and lim < len(data) and flushed and "err" not in res:
            return "BufWriter: data does not fit the limit but no call reported an error"
        return None
    if t[0] != "hist":
        return None
    ops = t[3:]
    big = sum(data_len(o.split(":")[2]) for o in ops if o[:2] in ("a:", "b:")) > 300000
    if big:
        want_res, size = py_history(ops, want_bytes=False)
        sig_ok = g.get("F", "").split(".")[0] == "%x" % size
    else:
        want_res, full = py_history(ops)
        size = len(full)
        sig_ok = g.get("F") == "%x.%x" % (size, fnv(full))
    res = g.get("W", "-").split(",") if g.get("W", "-") != "-" else []
    reported = "err" in res or g.get("C") != "ok"
    if not reported and not sig_ok:
        return ("no call reported an error and close returned Ok, but the file is not the complete archive "
                f"(file {g.get('F')}, complete size {size:x})")
    if static and lim is not None and lim < size and not reported:
        return f"the complete archive ({size} bytes) does not fit the limit {lim} but no call and not close reported an error"
    if static and (lim is None or lim >= size) and g.get("W") != ",".join(want_res):
        return f"results differ from the container semantics although nothing can fail: got {g.get('W')} want {','.join(want_res)}"
    return None


def nontrivial(case, impl):
    return "err" in impl


# --------------------------------------------------------------------------------------------- CLI level
def rd_varint(b, p):
    nb = b[p]
    return int.from_bytes(b[p + 1:p + 1 + nb], "big"), p + 1 + nb


def archive_ops(b):
    """write sequence of an archive produced by one flush_buffers + close: (ops tokens, footer start, part starts) or
    (None, why, None) when the layout is not that of a single flush in stream order"""
    fsz = int.from_bytes(b[-8:], "little")
    fs = len(b) - 8 - fsz
    if fs < 0:
        return None, "footer length field exceeds the file", None
    foot = b[fs:len(b) - 8]
    ns, p = rd_varint(foot, 0)
    streams = []
    for _ in range(ns):
        e = foot.index(b"\0", p)
        name = foot[p:e]
        npart, p = rd_varint(foot, e + 1)
        raw, p = rd_varint(foot, p)
        parts = []
        for _ in range(npart):
            o, p = rd_varint(foot, p)
            s, p = rd_varint(foot, p)
            parts.append((o, s))
        streams.append((name, raw, parts))
    if p != len(foot):
        return None, "footer has trailing bytes", None
    ops = ["r:" + hx(n) for n, _, _ in streams]
    ops += ["s:%x:%x" % (i, raw) for i, (_, raw, _) in enumerate(streams) if raw]
    pos, starts = 0, []
    for i, (_, _, parts) in enumerate(streams):
        for o, s in parts:
            if o != pos:
                return None, f"part of stream {i} at offset {o}, expected {pos}: parts are not in one flush_buffers order", None
            starts.append(o)
            m, q = rd_varint(b, o)
            ops.append("b:%x:%s:%x" % (i, hx(b[q:q + s]), m))
            pos = q + s
    if pos != fs:
        return None, f"data area ends at {pos}, footer starts at {fs}", None
    return ops, fs, starts


def run_create(cli, inputs, out, limit, extra=()):
    env = dict(os.environ, GLIBC_TUNABLES="glibc.malloc.hugetlb=1", RUST_BACKTRACE="0")
    lim = "unlimited" if limit is None else str(limit)
    cmd = ["sh", "-c", "trap '' XFSZ; exec prlimit --fsize=" + lim + ' "$@"', "sh", cli, "create", "-o", out, "-t", "2", "-v", "0"]
    cmd += list(extra) + inputs
    try:
        p = subprocess.run(cmd, capture_output=True, timeout=600, env=env)
        rc, err = p.returncode, p.stderr.decode(errors="replace")
    except subprocess.TimeoutExpired:
        rc, err = 124, "timeout"
    data = None
    if os.path.exists(out):
        data = open(out, "rb").read()
        os.unlink(out)
    return rc, err, data


def rc_class(rc, err):
    if rc == 0:
        return "0"
    if rc == 101 or "panicked" in err:
        return "panic"
    if rc < 0 or rc >= 128:
        return "signal"
    return "1"


def make_inputs(rng, d, kind):
    os.makedirs(d, exist_ok=True)
    files = []
    if kind == "big":
        n = 18_500_000                      # 2 bits per base: > 4 MiB of segment data
        s = "".join(rng.choices("ACGT", k=n))
        p = os.path.join(d, "big.fa")
        with open(p, "w") as f:
            f.write(">chrR\n")
            for i in range(0, n, 80000):
                f.write(s[i:i + 80000] + "\n")
        return [p]
    nsamp = {"tiny": 1, "small": 2, "three": 3}[kind]
    base = "".join(rng.choice("ACGT") for _ in range({"tiny": 60, "small": 500, "three": 1200}[kind]))
    for i in range(nsamp):
        s = list(base)
        for _ in range(4 * i):
            s[rng.randrange(len(s))] = rng.choice("ACGT")
        p = os.path.join(d, f"s{i}.fa")
        with open(p, "w") as f:
            f.write(f">chr1 sample {i}\n{''.join(s)}\n")
            if kind == "three" and i != 1:
                f.write(f">chr2\n{''.join(rng.choice('ACGTN') for _ in range(150))}\n")
        files.append(p)
    return files


def limit_order(rng, size, fs, starts, big):
    """limits in priority order (all of 0..size+2 for small archives)"""
    # the first 16 are run even when the machine is too slow for the budget: one of each kind of place
    first = [size - 1, size, size - 8, size - 9, 0, fs, fs - 1, (fs + size - 8) // 2, fs // 2, size - 4, 1, size + 2,
             starts[1] if len(starts) > 1 else 2, size - 2, fs + 1, size + 1]
    first += list(range(size - 8, size + 3)) + [0, 1, fs - 1, fs, fs + 1]
    for s in starts[:40]:
        first += [s, s + 1]
    if big:
        first += [cap() - 1, cap(), cap() + 1, cap() + 4096, 2 * cap(), fs - 2, fs + 5, rng.randint(0, fs), rng.randint(0, fs),
                  rng.randint(cap(), max(cap(), fs)), (fs + size) // 2]
        rest = []
    else:
        foot = list(range(fs, size - 8))
        data = list(range(0, fs))
        stride_f = foot[::max(1, len(foot) // 24)]
        stride_d = data[::max(1, len(data) // 24)]
        rest = stride_f + stride_d
        others = list(range(0, size + 3))
        rng.shuffle(others)
        rest += others
    seen, out = set(), []
    for n in first + rest:
        if 0 <= n <= size + 2 and n not in seen:
            seen.add(n); out.append(n)
    return out


def cli_faults(ctx, budget_s):
    res = []           # (kind, name, detail, fail)
    ok, log, cli = vlib.build_cli("release")
    if not ok:
        return [("harness", "cargo build of ragc-cli (release) failed", log[-800:], None)]
    rng = random.Random(ctx.seed ^ 0xC15)
    work = os.path.join(vlib.CACHE, "tmp", f"c15-cli-{os.getpid()}")
    shutil.rmtree(work, ignore_errors=True)
    os.makedirs(work)
    kinds = ["tiny", "small"] if ctx.tier == "quick" else ["tiny", "small", "three", "big"]
    kinds = getattr(ctx, "c15_kinds", None) or kinds       # the search after a broken obligation forces the > 4 MiB archive
    stats = []
    per = budget_s / len(kinds)
    try:
        for kind in kinds:
            d = os.path.join(work, kind)
            inputs = make_inputs(rng, d, kind)
            t0 = time.time()
            rc, err, full = run_create(cli, inputs, os.path.join(d, "full.agc"), None)
            t_one = time.time() - t0
            if rc != 0 or not full:
                res.append(("harness", f"ragc create failed without a limit ({kind})", err[-600:], None))
                continue
            size = len(full)
            ops, fs, starts = archive_ops(full)
            if ops is None:
                res.append(("correspondence", f"archive layout ({kind})", str(fs), None))
                continue
            order = limit_order(rng, size, fs, starts, kind == "big")
            exhaustive_possible = kind != "big"
            done = {}
            deadline = time.time() + per
            workers = 4 if kind == "big" else 12

            def one(n):
                return n, run_create(cli, inputs, os.path.join(d, f"o{n}.agc"), n)

            with cf.ThreadPoolExecutor(max_workers=workers) as ex:
                it = iter(order)
                pending = set()
                stop = False
                while True:
                    while not stop and len(pending) < workers:
                        n = next(it, None)
                        if n is None or (time.time() > deadline and len(done) + len(pending) >= 16):
                            stop = True
                            break
                        pending.add(ex.submit(one, n))
                    if not pending:
                        break
                    fin, pending = cf.wait(pending, return_when=cf.FIRST_COMPLETED)
                    for f in fin:
                        n, r = f.result()
                        done[n] = r
            limits = sorted(done)
            # model predictions for the same limits
            mcases, chunk = [], 24 if kind != "big" else 4
            for i in range(0, len(limits), chunk):
                mcases.append("cli %x 1 code %s | %s" % (cap(), " ".join(ops), " ".join("%x" % n for n in limits[i:i + chunk])))
            mout = vlib.run_model(PROP, mcases, timeout=3000)
            pred = {}
            for i, line in enumerate(mout):
                g = fields(line)
                if "R" not in g:
                    res.append(("model", f"driver failed on a cli case ({kind})", line[:300], None))
                    continue
                if i == 0 and g.get("S") != "%x.%x" % (size, fnv(full)) and kind != "big":
                    res.append(("correspondence", f"model's complete file differs from the real archive ({kind})",
                                f"model {g.get('S')} real {size:x}.{fnv(full):x}", None))
                if kind == "big" and i == 0 and g.get("S", "").split(".")[0] != "%x" % size:
                    res.append(("correspondence", f"model's complete file length differs from the real archive ({kind})", g.get("S", ""), None))
                for n, r in zip(limits[i * chunk:(i + 1) * chunk], g["R"].split(",")):
                    pred[n] = r
            nfault = 0
            for n in limits:
                rc, err, data = done[n]
                cls = rc_class(rc, err)
                data = data if data is not None else b""
                casename = f"cli-create {kind} size={size} limit={n}"
                implline = f"exit={rc} class={cls} file={len(data)} stderr={err.strip()[-160:]!r}"
                if n < size:
                    nfault += 1
                    if cls == "0":
                        res.append(("", "", "", (casename, implline, "[cli] create exited 0 although the archive could not be written "
                                                  f"completely: {len(data)} of {size} bytes on disk")))
                    elif cls in ("panic", "signal"):
                        res.append(("", "", "", (casename, implline, f"[cli] write failure ended in a {cls}, not in an error exit")))
                else:
                    if cls != "0":
                        res.append(("", "", "", (casename, implline, "[cli] create failed although the limit is not below the archive size")))
                    elif data != full:
                        res.append(("", "", "", (casename, implline, "[cli] exit 0 but the file differs from the unlimited run's file")))
                # model vs real: exit class (0 / not 0), file length, file is the prefix of the complete file
                p = pred.get(n)
                if p is None:
                    continue
                pe, pfin, plen, pkind = p.split(":")
                real_kind = "full" if data == full else ("prefix" if full.startswith(data) else "differs")
                if (pe == "0") != (cls == "0") or int(plen, 16) != len(data) or pkind != real_kind:
                    res.append(("correspondence", f"model/C15 vs ragc create ({kind}, limit {n})",
                                f"model exit={pe} finalize={pfin} len={int(plen, 16)} {pkind}; real exit={rc} len={len(data)} {real_kind}", None))
            stats.append({"inputs": kind, "archive_size": size, "footer_start": fs, "parts": len(starts),
                          "limits_run": len(limits), "limits_below_size": nfault,
                          "every_limit_0_to_size_plus_2": exhaustive_possible and len(limits) == size + 3,
                          "seconds_per_create": round(t_one, 2)})
    finally:
        shutil.rmtree(work, ignore_errors=True)
    _STATE["cli"] = stats
    return res


FIN_PARAMS = "31,60000,20,50,2,2147483648,0"      # the CLI's defaults, 2 threads


def fin_faults(ctx, budget_s):
    """the create pipeline in-process (harness `fin` cases: mk::create = what ragc-cli's create_archive does, ending in
    StreamingQueueCompressor::finalize) under every limit the time budget allows; model on the recovered write sequence"""
    res = []
    rng = random.Random(ctx.seed ^ 0xF15)
    work = os.path.join(vlib.CACHE, "tmp", f"c15-fin-{os.getpid()}")
    shutil.rmtree(work, ignore_errors=True)
    os.makedirs(work)
    kinds = ["tiny", "small"] if ctx.tier == "quick" else ["tiny", "small", "three", "big"]
    stats = []
    old_tun = os.environ.get("GLIBC_TUNABLES")
    os.environ["GLIBC_TUNABLES"] = "glibc.malloc.hugetlb=1"
    try:
        for kind in kinds:
            d = os.path.join(work, kind)
            inputs = make_inputs(rng, d, kind)
            open(os.path.join(d, "order.txt"), "w").write("".join(os.path.basename(p) + "\n" for p in inputs))
            t0 = time.time()
            first = vlib.run_cases([vlib.harness_bin("c15", "dev")], [f"fin {d} {FIN_PARAMS} inf"], timeout=900, shards=1)[0]
            t_one = time.time() - t0
            g = fields(first)
            if g.get("E") != "ok" or "P" not in g:
                res.append(("harness", f"in-process create failed without a limit ({kind})", first[:400], None))
                continue
            full = open(g["P"], "rb").read()
            os.unlink(g["P"])
            size = len(full)
            ops, fs, starts = archive_ops(full)
            if ops is None:
                res.append(("correspondence", f"archive layout ({kind})", str(fs), None))
                continue
            order = limit_order(rng, size, fs, starts, kind == "big")
            share = budget_s / len(kinds)
            # repeated in-process runs are far cheaper than the first one (the zstd contexts' memory is reused):
            # every limit unless the machine is very slow
            fit = int(share * 16 * 8 / max(t_one, 0.05))
            count = len(order) if (t_one < 5 or fit >= len(order)) else max(64, fit)
            limits = sorted(order[:count])
            cases = [f"fin {d} {FIN_PARAMS} {n:x}" for n in limits]
            out = vlib.run_cases([vlib.harness_bin("c15", "dev")], cases, timeout=3000)
            full_fnv = fnv(full)
            mcases, chunk = [], (4 if kind == "big" else 24)
            for i in range(0, len(limits), chunk):
                mcases.append("cli %x 1 code %s | %s" % (cap(), " ".join(ops), " ".join("%x" % n for n in limits[i:i + chunk])))
            mout = vlib.run_model(PROP, mcases, timeout=3000)
            pred = {}
            for i, line in enumerate(mout):
                gm = fields(line)
                if "R" not in gm:
                    res.append(("model", f"driver failed on a cli case ({kind})", line[:300], None))
                    continue
                if i == 0 and gm.get("S") != "%x.%x" % (size, full_fnv):
                    res.append(("correspondence", f"model's complete file differs from the real archive (fin {kind})",
                                f"model {gm.get('S')} real {size:x}.{full_fnv:x}", None))
                for n, r in zip(limits[i * chunk:(i + 1) * chunk], gm["R"].split(",")):
                    pred[n] = r
            nfault = 0
            flens = []
            for line in out:
                gi = fields(line)
                if "F" in gi and gi["F"] != "none":
                    flens.append(int(gi["F"].split(".")[0], 16))
            pf = prefix_fnvs(full, flens + [size])
            for n, c, line in zip(limits, cases, out):
                gi = fields(line)
                if "E" not in gi or "F" not in gi or gi["F"] == "none":
                    res.append(("", "", "", (c, line[:300], "[finalize] the in-process create did not return (panic / crash) under a file size limit")))
                    continue
                flen = int(gi["F"].split(".")[0], 16)
                is_prefix = flen <= size and gi["F"] == "%x.%x" % (flen, pf[flen])
                kind_real = "full" if (is_prefix and flen == size) else ("prefix" if is_prefix else "differs")
                if n < size:
                    nfault += 1
                    if gi["E"] == "ok":
                        res.append(("", "", "", (c, line[:300], "[finalize] StreamingQueueCompressor::finalize returned Ok although the "
                                                 f"archive could not be written completely: {flen} of {size} bytes on disk")))
                else:
                    if gi["E"] != "ok":
                        res.append(("", "", "", (c, line[:300], "[finalize] create failed although the limit is not below the archive size")))
                    elif kind_real != "full":
                        res.append(("", "", "", (c, line[:300], "[finalize] Ok but the file differs from the unlimited run's file")))
                p = pred.get(n)
                if p is None:
                    continue
                pe, pfin, plen, pkind = p.split(":")
                if pfin != gi["E"] or int(plen, 16) != flen or pkind != kind_real:
                    res.append(("correspondence", f"model/C15 vs in-process create ({kind}, limit {n})",
                                f"model finalize={pfin} len={int(plen, 16)} {pkind}; real {line[:120]} {kind_real}", None))
            stats.append({"inputs": kind, "archive_size": size, "footer_start": fs, "parts": len(starts),
                          "limits_run": len(limits), "limits_below_size": nfault,
                          "every_limit_0_to_size_plus_2": len(limits) == size + 3, "seconds_per_create": round(t_one, 2)})
    finally:
        if old_tun is None:
            os.environ.pop("GLIBC_TUNABLES", None)
        else:
            os.environ["GLIBC_TUNABLES"] = old_tun
        shutil.rmtree(work, ignore_errors=True)
    _STATE["fin"] = stats
    return res


def extra_checks(ctx):
    quick = ctx.tier == "quick"
    fin_budget = float(os.environ.get("VERIF_C15_FIN_BUDGET", 40 if quick else 900))
    cli_budget = float(os.environ.get("VERIF_C15_CLI_BUDGET", 30 if quick else 600))
    return fin_faults(ctx, fin_budget) + cli_faults(ctx, cli_budget)


def extra_coverage(ctx):
    cli = _STATE.get("cli", [])
    fin = _STATE.get("fin", [])
    return {"finalize_fault_runs": fin, "finalize_runs_total": sum(x["limits_run"] for x in fin),
            "cli_fault_runs": cli, "cli_runs_total": sum(x["limits_run"] for x in cli),
            "cli_note": "limits run in priority order until the time budget (VERIF_C15_FIN_BUDGET / VERIF_C15_CLI_BUDGET seconds) is used up; "
                        "every_limit_0_to_size_plus_2 says whether the enumeration was exhaustive for that archive"}


def search(ctx, budget):
    """a broken obligation (a `?` gone): look for a run that reports success with a truncated file"""
    rng = ctx.rng
    cases = []
    for i in range(30 * budget):
        ops = gen_ops(rng, pipeline=(i % 2 == 0))
        _, size = py_history(ops, want_bytes=False)
        for lim in sorted(set([0, 1, size - 1, size - 8, size - 9] + [rng.randint(0, size) for _ in range(6)])):
            if lim >= 0:
                cases.append("hist %x L1:%x %s" % (cap(), lim, " ".join(ops)))
        cases.append("hist %x L1:%x %s" % (cap(), rng.randint(0, size), " ".join(with_moving_limits(rng, ops, size))))
    res = vlib.run_impl(PROP, cases)
    found = [(c, i, oracle(c, i)) for c, i in zip(cases, res) if oracle(c, i)]
    if not found:
        # a `?` that only matters once the BufWriter spills (> 4 MiB archives) or only in the footer: enumerate faults on
        # the big archive too, whatever the tier (a seeded change that dropped flush_buffers' error went without a failing
        # input in the quick tier before this)
        ctx.c15_kinds = ["big", "small"]
        for kind, name, detail, fail in cli_faults(ctx, 420 if budget <= 20 else 1200):
            if fail is not None:
                found.append(fail)
    return found, len(cases)


def finding_class(case, impl, why):
    return None
