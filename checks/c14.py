"""C14 a partially written archive is rejected cleanly (archive level): every strict prefix of several archives
and an arbitrary-bytes stream through the real Archive::open / Decompressor::open and the model's deserialize."""
import os
PROP = "C14"
SUBCHECKS = ["C14O"]   # second stage: Decompressor::open (params, stream lookups, sample names) on arbitrary bytes (props/C14O.v)
AREAS = ["archive"]
PROFILES = ["dev", "release"]
THEOREMS = ["open_total_safe", "alloc_bounded", "reads_alloc_bounded", "open_ok_iff", "prefix_rejected_partial",
            "prefix_rejected_trailer_partial", "prefix_in_footer_accepted_refuted", "varint_len_is_usize"]
RULE = ("cases: prefixes fs from to file (every prefix length in from..to-1 of one archive, written to a real file on "
        "fs = ext4 (/verif/.cache/tmp) or shm (/dev/shm), opened with Archive::open and, when that returns a handle, "
        "Decompressor::open, each under catch_unwind, RLIMIT_AS 400 MB, counting allocator), open fs bytes (one "
        "arbitrary file). archives: real ragc archives made by StreamingQueueCompressor (1-3 samples, 1-3 contigs of "
        "10..2000 bases, k 11..31, several segment sizes) and container-level archives (python writer: 0..6 streams, "
        "empty parts, large raw sizes); EVERY offset 0..len is enumerated (len itself must open), in both harness "
        "profiles. arbitrary stream: random files, random bodies with crafted length fields (0, len-8, len-7, top bit "
        "set, 2^63, 2^64-1, around 2^44), tiny valid directories, crafted footers (huge stream / part counts, parts "
        "outside the file, offset+size overflow, unterminated names, length bytes 9..255), single-byte mutations of "
        "real archives' directory. model prediction compared: class E/O/P of Archive::open per file. "
        "non-trivial = file of at least 8 bytes; distinct = distinct case line")
TRUSTED = ["python oracle in checks/c14.py: every strict prefix must be refused (class E, or O followed by an error of "
           "Decompressor::open - such prefixes are listed in the evidence), the whole file O, never P/CRASH; "
           "largest single allocation inside Archive::open <= 64 KiB + 32 * file length (counting allocator in the harness)",
           "Decompressor::open is run on the real code only (not modelled here): its class is reported after an O",
           "'every strict prefix is refused' is an exhaustive enumeration per archive, not a theorem (depends on the data bytes)"]
ASSUMPTIONS = ["file length <= the file system's largest offset (a file of that length exists)",
               "bytes are < 256",
               "allocation log = the two `vec![0u8; n]` sized from file content (footer buffer, part buffer); Vec<Part>/String "
               "growth is bounded by 16x the footer bytes consumed and is covered by the harness' counting allocator only"]
M64 = (1 << 64) - 1
CHUNK = 256
STATS = {"archives": [], "prefixes": 0, "arbitrary": 0, "archive_level_accepts": {}}


def hx(b):
    return bytes(b).hex() if len(b) else "-"


def unhx(s):
    return b"" if s == "-" else bytes.fromhex(s)


def varint(v):
    if v == 0:
        return b"\x00"
    nb = (v.bit_length() + 7) // 8
    return bytes([nb]) + v.to_bytes(nb, "big")


def le8(v):
    return (v & M64).to_bytes(8, "little")


def container(streams):
    """streams: list of (name bytes, raw, [(data, meta)]) -> file bytes, all parts written in stream order"""
    data, dirs = b"", []
    for name, raw, parts in streams:
        ps = []
        for d, m in parts:
            ps.append((len(data), len(d)))
            data += varint(m) + d
        dirs.append((name, raw, ps))
    footer = varint(len(dirs))
    for name, raw, ps in dirs:
        footer += name + b"\x00" + varint(len(ps)) + varint(raw)
        for o, s in ps:
            footer += varint(o) + varint(s)
    return data + footer + le8(len(footer))


def rand_container(rng):
    ns = rng.choice([0, 1, 2, 3, 6])
    names = [b"params", b"collection-samples", b"x0d", b"x0r", b"splitters", b"a"]
    st = []
    for i in range(ns):
        parts = []
        for _ in range(rng.choice([0, 1, 1, 2, 4])):
            d = bytes(rng.getrandbits(8) for _ in range(rng.choice([0, 1, 5, 20, rng.randint(0, 120)])))
            parts.append((d, rng.choice([0, 1, 255, 256, 1 << 32, M64, rng.getrandbits(16)])))
        st.append((names[i], rng.choice([0, 0, 7, 1 << 20, 0x0200010000000000, M64]), parts))
    return container(st)


def crafted(rng, base):
    """one arbitrary / adversarial file"""
    k = rng.randrange(16)
    rb = lambda n: bytes(rng.getrandbits(8) for _ in range(n))
    if k == 0:
        return rb(rng.randint(0, 40))
    if k <= 3:
        body = rb(rng.choice([0, 1, 7, 8, 9, rng.randint(0, 300)]))
        n = len(body)
        fs = rng.choice([0, 1, 2, n, n - 1, n + 1, max(0, n - 8), n + 8, 1 << 63, (1 << 63) + n, M64, M64 - 7, M64 - n,
                         (1 << 64) - 8 - n if n else 5, (1 << 44) - 4096, (1 << 44) - 4096 - n, 1 << 44, (1 << 63) - 1,
                         rng.getrandbits(64), rng.getrandbits(64) | (1 << 63), rng.getrandbits(16), rng.getrandbits(8)])
        return body + le8(fs)
    if k == 4:
        return rb(rng.choice([0, 3, 50])) + b"\x00" + le8(1)                 # tiny valid directory: no streams
    if k <= 9:
        # a crafted footer behind a random data area
        data = rb(rng.choice([0, 1, 20, 200]))
        f = b""
        kind = rng.randrange(10)
        name = bytes(rng.randint(1, 255) for _ in range(rng.randint(0, 8)))
        if kind == 0:
            f = varint(rng.choice([M64, 1 << 63, 1 << 32, 1000])) + name + b"\x00" + varint(0) + varint(0)
        elif kind == 1:
            f = varint(1) + name + b"\x00" + varint(rng.choice([M64, 1 << 40, 3])) + varint(5) + varint(0) + varint(0)
        elif kind == 2:
            f = varint(1) + name                                             # unterminated name
        elif kind == 3:
            off, sz = rng.choice([(M64, 2), (M64, 1), (1 << 63, 1 << 63), (0, M64), (len(data), 1), (len(data), 0),
                                  (0, len(data)), (0, len(data) + 1), (len(data) + 1, 0), (1 << 50, 1), (5, 1 << 62)])
            f = varint(2) + b"p\x00" + varint(1) + varint(9) + varint(off) + varint(sz) + b"q\x00" + varint(0) + varint(0)
        elif kind == 4:
            nb = rng.choice([9, 16, 100, 254, 255])
            f = bytes([nb]) + rb(rng.choice([nb, nb - 1, nb + 5]))
        elif kind == 5:
            f = varint(1) + b"p\x00" + bytes([255]) + rb(255) + varint(0)
        elif kind == 6:
            f = varint(3) + b"p\x00" + varint(0) + varint(0) + b"p\x00" + varint(0) + varint(1) + b"\xc3\xa9\x00" + varint(0) + varint(2)
        elif kind == 7:
            f = b""
        elif kind == 8:
            f = varint(1) + b"p\x00" + varint(2) + varint(M64) + varint(0) + varint(0) + varint(0)   # second part missing
        else:
            f = rb(rng.randint(1, 60))
        return data + f + le8(len(f) + rng.choice([0, 0, 0, 1, -1]))
    # mutation of a real archive's directory / length field / last data bytes
    b = bytearray(base)
    fs = int.from_bytes(b[-8:], "little")
    lo = max(0, len(b) - 8 - fs - 4)
    for _ in range(rng.choice([1, 1, 2, 3])):
        i = rng.randrange(lo, len(b))
        b[i] = rng.choice([0, 1, 255, b[i] ^ (1 << rng.randrange(8)), rng.getrandbits(8)])
    if k == 15:
        b = b[: rng.randrange(lo, len(b))] + bytes(rng.getrandbits(8) for _ in range(rng.randint(0, 9)))
    return bytes(b)


def real_archives(rng, n):
    """real ragc archives through the harness' `mk` case (StreamingQueueCompressor)"""
    specs = []
    for i in range(n):
        big = (i % 12 == 11)
        specs.append("mk %d %d %d %d %d %d" % (rng.getrandbits(30), rng.choice([1, 2, 2, 3]), rng.choice([1, 1, 2, 3]),
                                               rng.choice([10, 100, 300, 600, 2000 if big else 200]),
                                               rng.choice([11, 15, 21, 31]), rng.choice([100, 200, 1000, 60000])))
    binp = vlib.harness_bin("c14", "release")
    if not os.path.exists(binp):
        binp = vlib.harness_bin("c14", "dev")
    res = vlib.run_cases([binp], specs, timeout=1500, shards=min(vlib.NPROC, len(specs)))
    out = []
    for s, r in zip(specs, res):
        if r and not r.startswith(("HARNESS", "PANIC", "CRASH")):
            out.append((s, unhx(r)))
    return out


def prefix_cases(b):
    cs = []
    h = hx(b)
    for fs in ("ext4", "shm"):
        for lo in range(0, len(b) + 1, CHUNK):
            cs.append(f"prefixes {fs} {lo} {min(lo + CHUNK, len(b) + 1)} {h}")
    return cs


def gen_cases(rng, tier):
    nreal, ncont, narb = (5, 3, 1500) if tier == "quick" else (70, 30, 60000)
    STATS["archives"], STATS["prefixes"] = [], 0
    arch = [("real " + s, b) for s, b in real_archives(rng, nreal)]
    if len(arch) < nreal:
        STATS["mk_failed"] = nreal - len(arch)
    for i in range(ncont):
        arch.append(("container #%d" % i, rand_container(rng)))
    # the 9-byte archive with no stream, and the in-footer counterexample of props/C14.v
    arch.append(("container empty", container([])))
    arch.append(("container raw=0x0200010000000000", container([(b"a", 0x0200010000000000, [(b"", 0), (b"", 0)])])))
    cs = []
    for what, b in arch:
        STATS["archives"].append({"what": what, "bytes": len(b)})
        STATS["prefixes"] += 2 * len(b)
        cs += prefix_cases(b)
    bases = [b for _, b in arch if len(b) > 16]
    for _ in range(narb):
        cs.append("open %s %s" % (rng.choice(["ext4", "shm"]), hx(crafted(rng, rng.choice(bases)))))
    STATS["arbitrary"] = narb
    cs += ["open shm -", "open ext4 -", "open shm 00", "open shm 000100000000000000", "open ext4 000100000000000000",
           "open shm ffffffffffffffff", "open ext4 ffffffffffffffff", "open shm 0000000000000000",
           "open shm 0000000000000080", "open ext4 f8ffffffffffffff"]
    return cs


def canon(case, line):
    if line.startswith(("PANIC", "CRASH", "HARNESS-ERROR", "DRIVER-ERROR")):
        return line
    cls = line.split(" ")[0]
    return "".join(ch for ch in cls if ch.isupper())


def classes(impl):
    """['E', 'Oo', ...] one entry per file"""
    out = []
    for ch in impl.split(" ")[0]:
        if ch.isupper():
            out.append(ch)
        elif out:
            out[-1] += ch
    return out


def maxalloc(impl):
    for tok in impl.split(" "):
        if tok.startswith("m="):
            return int(tok[2:])
    return 0


def oracle(case, impl):
    t = case.split()
    if impl.startswith(("PANIC", "CRASH", "HARNESS-ERROR")):
        return "implementation crashed (abort / allocation failure under RLIMIT_AS / panic outside catch_unwind): " + impl[:160]
    cl = classes(impl)
    if t[0] == "open":
        n = len(unhx(t[2]))
        if any(c.startswith("P") or c.endswith("p") for c in cl):
            return "open panics on this file: " + impl[:60]
        if maxalloc(impl) > 65536 + 32 * n:
            return f"allocation of {maxalloc(impl)} bytes while opening a {n}-byte file"
        return None
    if t[0] == "prefixes":
        lo, hi, n = int(t[2]), int(t[3]), len(unhx(t[4]))
        if len(cl) != min(hi, n + 1) - lo:
            return "wrong number of results"
        for i, c in enumerate(cl):
            k = lo + i
            if "P" in c or "p" in c:
                return f"prefix of length {k} of a {n}-byte archive: panic ({c})"
            if k < n and c == "Oe":
                # Archive::open returns a directory, Decompressor::open (the user-facing open) refuses: no
                # handle from which samples can be read; recorded, see props/C14.v prefix_in_footer_accepted_refuted
                key = (t[4][:40], k)
                if key not in STATS["archive_level_accepts"]:
                    STATS["archive_level_accepts"][key] = {"archive_hex_head": t[4][:40], "archive_bytes": n, "prefix": k}
            elif k < n and c != "E":
                return (f"strict prefix of length {k} of a {n}-byte archive is not refused: Archive::open and "
                        f"Decompressor::open both return a handle")
            if k == n and not c.startswith("O"):
                return "the complete archive does not open"
        if maxalloc(impl) > 65536 + 32 * n:
            return f"allocation of {maxalloc(impl)} bytes while opening prefixes of a {n}-byte file"
    return None


def nontrivial(case, impl):
    t = case.split()
    if t[0] == "open":
        return len(unhx(t[2])) >= 8
    return int(t[3]) > 8


def extra_coverage(ctx):
    return {"archives_enumerated": STATS["archives"], "prefix_files_per_profile": STATS["prefixes"],
            "arbitrary_files_per_profile": STATS["arbitrary"], "mk_failed": STATS.get("mk_failed", 0),
            "strict_prefixes_accepted_by_Archive_open_but_refused_by_Decompressor_open": list(STATS["archive_level_accepts"].values())[:20]}


def search(ctx, budget):
    base = container([(b"params", 0, [(b"0123456789ab", 0)])])
    cases = ["open %s %s" % (ctx.rng.choice(["ext4", "shm"]), hx(crafted(ctx.rng, base))) for _ in range(2000 * budget)]
    found = []
    for prof in PROFILES:
        res = vlib.run_impl(PROP, cases, prof)
        found += [(c, i, f"[{prof}] {oracle(c, i)}") for c, i in zip(cases, res) if oracle(c, i)]
    return found, len(cases)


def finding_class(case, impl, why):
    if "panic" in why:
        return "open-panics"
    if "not refused" in why:
        return "prefix-accepted"
    return None
