"""C17G - the CLI model joined with the whole-archive theorems (sub-check of C17): a user-level end-to-end statement.

C17 (coq/model/Cli.v, props/C17.v) models the dispatch of ragc-cli/src/main.rs over a file-system model with TWO abstract
parameters: `decode` (what Decompressor::open + get_sample + the output letters give for the bytes of an archive file) and
the outcome `pr` of the compression pipeline behind `create`.  C01G (ModelCreate.model_build / model_create, grand_roundtrip,
text_roundtrip), C16/C19 (Fasta.v) and C15 (Sink.v) are about FILE BYTES and FASTA TEXT.  This check instantiates the two
parameters and states the result in terms of the input text only:
  coq/model/CliGrand.v      cli_decode zd   bytes --AgcV3.decode zd--> catalogue --Fasta.out_letters--> Cli.archive
                            create_pipe     FASTA texts --Fasta.v reader / sample naming / catalogue grouping--> sample set
                                            --model_create--> PipeFinalized (file bytes)
                            create_pipe_io  the same with model_build's Archive history (everything before finalize) replayed
                                            on C15's fallible file (any policy, any BufWriter capacity), Sink.main_io
                            input_contigs / input_samples / input_records / fasta_of / expected_getset / expected_listset /
                            expected_listctg: the answers spelled out from the records of the input text
  coq/proofs/CliGrand_proofs.v, coq/props/C17G.v
    cli_decode_answers             decode zd bytes = Ok cat -> Cli.v's get_sample / list_contigs / list_samples on it
    parsed_is_input, create_view_is_input, read_back_is_norm
                                   the parsed sample set (and C16's create_view) = the named records with a base of the input
                                   texts, sample names in order of first appearance, sequences in C16's normal form
    cli_create_then_getset (+ _file)   modelled `create` exits 0 (pipeline := model_create) -> for every non-empty request of
                                   input sample names (repeats allowed) modelled `getset out.agc names` exits 0 and writes
                                   exactly concat (map (fun s => fasta_of (input_records files s)) names) to stdout / -o file
    cli_getset_zero_iff            after such a create getset exits 0 EXACTLY when every requested name is an input sample
    cli_listset_after_create, cli_listctg_after_create
    history_before_finalize        model_build's history = buffered calls ++ [flush]; C15's complete_file of it = b_file b
    cli_create_fault_or_roundtrip  over C15's fallible file: exit 0 -> the bytes on disk are model_build's file and the
                                   pipeline outcome is create_pipe's (so the theorems above apply to that run); a size limit
                                   below the archive size -> exit non-zero, nothing printed, at most `limit` bytes left
    cli_create_io_then_getset      the getset statement for the run over the fallible file

Proof-only check: no separate correspondence run.  Cli.v is tied to the real binary by C17's correspondence, Fasta.v by
C16/C19, Sink.v by C15, AgcV3.decode to real archive bytes by C02B, model_build's layers by C01/C02/C03/C09/C12/C13; the
constants the new model file reaches (output letters, stream names, `?` sites) are regenerated from the Rust text on every
run (AREAS)."""

PROP = "C17G"
AREAS = ["agcv3", "kmer", "segment", "pipeline", "groupstore", "tuple", "lz", "collection", "archive", "fasta", "sink"]
NO_MODEL_RUN = True
THEOREMS = ["cli_decode_answers", "parsed_is_input", "create_view_is_input", "read_back_is_norm",
            "cli_create_then_getset", "cli_create_then_getset_file", "cli_getset_zero_iff", "cli_listset_after_create", "cli_listctg_after_create",
            "history_before_finalize", "cli_create_fault_or_roundtrip", "cli_create_io_then_getset"]
RULE = ("proof-only sub-check of C17: bin/check rebuilds props/C17G.vo from the regenerated constants, re-runs coqc on "
        "props/C17G.v and requires 'Closed under the global context' under every pinned theorem; the definitions the statements "
        "use are pinned by reflexivity Examples (cli_decode_def, create_pipe_def, expected_def); the non-vacuity Example "
        "cli_grand_nonvacuous takes the instance of C01G text_roundtrip_nonvacuous (two FASTA texts with a PanSN header, a "
        "non-IUPAC letter and a record without bases; toy zstd), discharges every hypothesis of the theorems, runs the modelled "
        "create on the empty file system (exit Zero) and then getset (stdout with a repeated name, -o file), listset, listctg and "
        "a getset with an unknown name by vm_compute on the bytes model_create wrote: the outputs are the expected texts, written "
        "out as bytes; cli_fault_or_roundtrip_nonvacuous runs create over C15's file with room for the archive (exit Zero, same "
        "pipeline outcome) and with 7 limits below its size x 2 kinds of failing write x 3 BufWriter capacities (exit NonZero, at "
        "most `limit` bytes left). No generated cases: the tie of each composed layer to the Rust code is the correspondence of "
        "C17, C16, C19, C15, C02B, C01, C02, C03, C09, C12, C13")
TRUSTED = ["coq/model/CliGrand.v cli_decode is a DEFINITION: it decodes the WHOLE archive eagerly (None as soon as one contig "
           "does not decode) while Decompressor::open is lazy; the two agree on files where every contig decodes, which is "
           "what the theorems are about (C01G grand_roundtrip); on a damaged archive cli_decode is stricter than the binary "
           "(C17 damaged_metadata_nonvacuous shows the lazy behaviour with C17's abstract decode)",
           "create_pipe / create_pipe_io are DEFINITIONS joining Fasta.v's reader (C16/C19), ModelCreate.model_create (C01G) "
           "and Sink.main_io (C15); that the concurrent pipeline of the binary produces model_create's parts is checked per "
           "archive by C01/C04/C05L, not proved (DESIGN 11.5b); what a failed pipeline leaves at the output path when the "
           "failure is not a write fault is a free parameter (`leftover`)",
           "Cli.v reads the archive eagerly, so a temp / -o path equal to the archive path is outside its faithful range: "
           "the statements carry the (unused) hypotheses tmp <> output, out <> output",
           "header lines are ASCII (Fasta.v trims the ASCII members of Unicode White_Space); gzip input (C19 file_bytes) is "
           "not part of create_pipe: the texts are the bytes after decompression"]
ASSUMPTIONS = ["the hypotheses of C01G text_roundtrip, unchanged: zstd round trip and non-empty output; 1 <= k <= 32; "
               "4 <= min_match_len < 2^32; segment_size < 2^32 and segment_size + k <= 2^31; text_samples files = Ok arch "
               "(create accepts the FASTA inputs); sample names non-empty; 2*|contig| + min_match_len < 2^31; decisions_ok; "
               "group ids below 2^32; the registration schedule is a permutation; ops_carry; model_build = Ok b; "
               "catalogue_in_dom; parts_meta_u64; file length <= 2^63-1",
               "all_first_line_ok files: every input text starts with '>' or a blank line (C16 first_line_ok; outside it the "
               "code takes the first line as a header - C16 first_line_is_a_header_refuted); not needed by "
               "cli_create_fault_or_roundtrip",
               "the modelled create exits Zero (Cli.run_main on CmdCreate with pr := create_pipe .. files, resp. "
               "create_pipe_io .. pol cap files); given text_samples = Ok and model_build = Ok this is exactly "
               "create_dispatch f = DProceed (C17 create_dispatch_proceeds_iff)",
               "request: non-empty list of sample names of the input (In n (input_samples files)), repeats allowed; the temp "
               "path and the -o path can be created (not in the file system's nocreate list); out <> tmp",
               "read_back_is_norm: the sequence has none of the bytes [ \\ ] ^ _ ` { | } ~ DEL (they are read back as N each; "
               "C16 odd_bytes_read_back_as_N)"]


def gen_cases(rng, tier):
    return []


def nontrivial(case, impl):
    return False


def oracle(case, impl):
    return None


def finding_class(case, line, why):
    return None
