"""C12 segment and pack compression is lossless: generator, oracle (round trip on the real code, plus a from-scratch
rational repetitiveness test and tuple unpacker in Python), search."""
import itertools, os, re
from fractions import Fraction

PROP = "C12"
SUBCHECKS = ["C12F"]   # Flocq: the f64 repetitiveness decision equals the exact-rational one of the model (props/C12F.v)
AREAS = ["tuple"]
THEOREMS = ["tuples_roundtrip", "tuples_injective", "tuples_are_bytes", "rep_decision_exact", "rep_total",
            "ref_segment_roundtrip", "delta_segment_roundtrip", "ref_part_roundtrip", "ref_part_total",
            "pack_part_roundtrip"]
PROFILES = ["dev"]      # the model is the dev profile (checked arithmetic); release differs on malformed tuple streams only
RULE = ("cases: pk x (bytes_to_tuples, then tuples_to_bytes of it; full bytes compared), un t (tuples_to_bytes on arbitrary/"
        "malformed streams incl. panics), exh alphabet len prefix (every string: count, round-trip count, digest of packed "
        "bytes), ref (compress_reference_segment: marker, pre-zstd payload obtained by decoding the real frame, round trip "
        "through decompress_segment_with_marker, frame == fresh-context frame at the translated level), dlt (compress_segment/"
        "_configured/_plain at a level), mk/mkraw (decompress_segment_with_marker on genuine frames of arbitrary payloads with "
        "arbitrary markers, empty input, non-frames), hist (same input after different context histories). zstd frame bytes are "
        "never compared with the model. exhaustive: pk lines for {0..3}<=6,{0..5}<=5,{0..15}<=3,{0,255}<=8,boundary symbols<=4; exh "
        "quick {0..3}<=9,{0..5}<=7,{0..15}<=5,{0,255}<=12 / thorough {0..3}<=11,{0..5}<=9,{0..15}<=7 (model+impl) and {0..15}=8 "
        "(impl only, oracle); ref exhaustive over {0,1}<=12 and {0,1,4}<=8 (both sides of 1/2 incl. equality); random "
        "periodic/mutated strings up to 100 kB. extra: 4 (quick) / 48 (thorough) archives written by the real CLI, every ref/delta "
        "part re-derived by the model's store_ref_part/store_pack_part with the zstd oracle pinned to the real frame and read "
        "by load_part (coverage.archive_parts counts each of the 4 ref and 2 pack outcomes). non-trivial = non-empty input and a non-error answer; distinct = distinct case line")
TRUSTED = ["zstd (libzstd via zstd-safe) as oracle: Section hypotheses zd (zc l x) = Some x and x <> [] -> zc l x <> [], "
           "exercised on every ref/dlt/mk/hist case; compress never fails with a compressBound-sized buffer",
           "f64 vs exact rational agreement of check_repetitiveness: argued in coq/model/SegCompress.v, tested on both sides of 1/2",
           "part-level wrappers (agc_compressor.rs writer sites / decompressor.rs get_segment) are private code inside large "
           "functions: tied by translator items part_writer/part_reader and by re-deriving every ref/delta part of archives "
           "written by the real CLI with the model's store_*_part (zstd oracle pinned to the real frame); the reader's five "
           "lines around decompress_segment_with_marker are only tied by the translator item and the end-to-end properties",
           "python oracle in checks/c12.py (round-trip comparison, rational repetitiveness, tuple unpacker)"]
ASSUMPTIONS = ["zstd round trip and non-empty frames for non-empty input (Section hypotheses, visible in the theorem statements)",
               "inputs shorter than 2^31 for totality of compress_reference_segment (i32 counters trap beyond that in the dev profile)",
               "compression level >= 0 (model levels are N)"]

CONSTS = os.path.join(os.path.dirname(os.path.dirname(os.path.abspath(__file__))), "coq/gen/Consts_tuple.v")


def consts():
    txt = open(CONSTS).read()
    d = {m.group(1): int(m.group(2)) for m in re.finditer(r"Definition (\w+) : N := (\d+)\.", txt)}
    return d


def hx(b):
    return "".join("%02x" % x for x in b) if b else "-"


def unhx(s):
    return [] if s == "-" else [int(s[i:i + 2], 16) for i in range(0, len(s), 2)]


# ------------------------------------------------------------------------------------------ generators
def periodic(rng, n, alpha, period, q):
    base = [rng.choice(alpha) for _ in range(period)]
    return [(rng.choice(alpha) if rng.random() < q else base[i % period]) for i in range(n)]


def rand_string(rng, nmax):
    kind = rng.random()
    n = rng.choice([rng.randint(0, 40), rng.randint(0, 300), rng.randint(0, nmax)])
    alpha = rng.choice([[0, 1, 2, 3], [0, 1, 2, 3], [0, 1, 2, 3, 4], list(range(6)), list(range(16)), list(range(17)),
                        [0, 255], list(range(256)), [0, 1, 2, 3, 30], [4, 5], [3, 4], [5, 6], [15, 16]])
    if kind < 0.3:
        return [rng.choice(alpha) for _ in range(n)]
    period = rng.choice([1, 2, 3, 4, 5, 7, 8, 16, 30, 31, 32, 33, 40, rng.randint(4, 31)])
    q = rng.choice([0.0, 0.02, 0.1, 0.2, 0.25, 0.28, 0.29, 0.3, 0.31, 0.32, 0.35, 0.4, 0.5, 0.75])
    s = periodic(rng, n, alpha, period, q)
    if kind > 0.9 and n:
        # a few symbols >= 4: counted in cnt, not in cur_size
        for _ in range(rng.randint(1, 1 + n // 10)):
            s[rng.randrange(n)] = rng.choice([4, 5, 15, 16, 30, 255])
    return s


def rand_tuples(rng):
    n = rng.choice([0, 1, 2, 3, rng.randint(0, 12), rng.randint(0, 200)])
    body = [rng.choice([0, 1, 0x1b, 0xd7, 0xd8, 0xff, rng.randint(0, 255)]) for _ in range(n)]
    marker = rng.choice([0x10, 0x20, 0x21, 0x30, 0x31, 0x32, 0x40, 0x41, 0x42, 0x43, 0x22, 0x2f, 0x33, 0x3f, 0x44, 0x4f, 0x00, 0x01,
                         0x0f, 0x11, 0x1f, 0x50, 0x5f, 0xf0, 0xff, rng.randint(0, 255)])
    return body + [marker]


def gen_cases(rng, tier):
    q = tier == "quick"
    k = consts()
    lt, lp, ld = k["sc_ref_tuples_level"], k["sc_ref_plain_level"], k["sc_delta_level"]
    cs = []
    A4, A6, A16, A2, B = list(range(4)), list(range(6)), list(range(16)), [0, 255], [0, 3, 4, 5, 6, 15, 16, 255]
    # -- exhaustive, full bytes compared line by line
    for alpha, n in ((A4, 6), (A6, 5), (A16, 3), (A2, 8), (B, 4)):
        for l in range(0, n + 1):
            for w in itertools.product(alpha, repeat=l):
                cs.append("pk " + hx(w))
    # -- exhaustive, digests (prefix-sharded so that the 16 processes share the work)
    for alpha, n in ((A4, 9 if q else 11), (A6, 7 if q else 9), (A16, 5 if q else 7), (A2, 12 if q else 16), (B, 6 if q else 7)):
        for l in range(0, n + 1):
            plen = min(l, 2 if l <= 6 else 3)
            if len(alpha) ** l <= 4096:
                plen = 0
            for pre in itertools.product(alpha, repeat=plen):
                cs.append(f"exh {hx(alpha)} {l} {hx(pre)}")
    # -- tuples_to_bytes on arbitrary streams: every marker byte behind short bodies, then random
    for m in range(256):
        cs.append("un " + hx([m]))
        for body in ([0], [0xff], [0x1b, 0x05], [0xd7, 0xd8, 0x00], [1, 2, 3, 4, 5]):
            cs.append("un " + hx(body + [m]))
    for _ in range(2000 if q else 100000):
        cs.append("un " + hx(rand_tuples(rng)))
    # -- repetitiveness decision: exhaustive small strings (offsets start at 4: both sides of 1/2 and equality)
    for alpha, n in (([0, 1], 12 if q else 14), ([0, 1, 4], 8 if q else 10), ([0, 4], 9 if q else 12)):
        for l in range(0, n + 1):
            for w in itertools.product(alpha, repeat=l):
                cs.append(f"ref {lt} {lp} {hx(w)}")
    # -- random strings: pack, reference, delta at every level, context histories
    levels = [0, 1, 3, 9, 11, 13, 17, 19, 22] if q else list(range(0, 23))
    nmax = 3000
    for i in range(4000 if q else 60000):
        s = rand_string(rng, nmax)
        r = rng.random()
        if r < 0.25:
            cs.append("pk " + hx(s))
        elif r < 0.65:
            cs.append(f"ref {lt} {lp} {hx(s)}")
        elif r < 0.85:
            mode = rng.choice("cpd")
            lv = ld if mode == "d" else rng.choice(levels + [ld, lt, lp])
            cs.append(f"dlt {mode} {lv} {hx(s)}")
        elif r < 0.93:
            cs.append(f"hist {lt} {lp} {ld} {hx(s)} {hx(rand_string(rng, nmax))}")
        else:
            cs.append(f"mk {rng.choice([0, 1, 1, 2, 7, 255])} {rng.choice([1, 3, lt])} {hx(rand_tuples(rng))}")
    for lv in levels:
        for s in ([], [0], [0, 1, 2, 3] * 8, [rng.randint(0, 3) for _ in range(500)]):
            cs.append(f"dlt c {lv} {hx(s)}")
    # -- large inputs (bytes are Coq N in the model: keep their number small)
    for i in range(8 if q else 80):
        n = rng.choice([100000, 99999, 65537, rng.randint(20000, 100000)])
        alpha = rng.choice([[0, 1, 2, 3], [0, 1, 2, 3], list(range(6)), list(range(16)), list(range(256))])
        s = periodic(rng, n, alpha, rng.choice([5, 17, 31, 1000]), rng.choice([0.02, 0.29, 0.3, 0.31, 0.75]))
        cs.append("pk " + hx(s))
        cs.append(f"ref {lt} {lp} {hx(s)}")
        if i % 3 == 0:
            cs.append(f"dlt d {ld} {hx(s)}")
            cs.append(f"hist {lt} {lp} {ld} {hx(s)} {hx(s[::-1][: n // 2])}")
    # -- empty input / not-a-frame short cuts (first byte never starts a zstd or skippable frame magic)
    for m in (0, 1, 2, 255):
        cs.append(f"mkraw {m} -")
        for _ in range(5 if q else 50):
            g = [rng.randint(0, 0x27)] + [rng.randint(0, 255) for _ in range(rng.randint(0, 30))]
            cs.append(f"mkraw {m} {hx(g)}")
    return cs


# ------------------------------------------------------------------------------------------ oracle
def py_rep_ge_half(x, k):
    """exact rational check_repetitiveness decision, from scratch: True = some offset reaches the threshold"""
    thr = Fraction(k["rep_thr_num"], k["rep_thr_den"])
    for off in range(k["rep_off_lo"], k["rep_off_hi"]):
        cnt = cur = 0
        for j in range(len(x) - off):
            cnt += x[j] == x[j + off]
            cur += x[j] < k["rep_base_limit"]
        if cur > 0 and Fraction(cnt, cur) >= thr:
            return True
    return False


def py_unpack(t):
    """independent reading of the tuple format (AGC segment.h): returns the bytes or None when malformed"""
    if not t:
        return []
    w, rem = t[-1] >> 4, t[-1] & 15
    if w == 1:
        return t[:-1]
    radix = {2: 16, 3: 6, 4: 4}.get(w)
    if radix is None or len(t) < 2 or rem >= w:
        return None
    out = []
    for c in t[:-2]:
        out += [(c // radix ** (w - 1 - i)) % radix for i in range(w)]
    c = t[-2]
    out += [(c // radix ** (rem - 1 - i)) % radix for i in range(rem)]
    return out


_K = None


def oracle(case, impl):
    global _K
    if _K is None:
        _K = consts()
    t = case.split()
    kind = t[0]
    if impl.startswith(("CRASH", "HARNESS-ERROR")):
        return "implementation failed: " + impl[:100]
    if kind == "pk":
        f = impl.split()
        if impl.startswith("PANIC") or len(f) != 2:
            return "bytes_to_tuples / tuples_to_bytes failed on a byte string: " + impl[:100]
        if f[1] != t[1]:
            return "tuples_to_bytes(bytes_to_tuples(x)) != x"
        if py_unpack(unhx(f[0])) != unhx(t[1]):
            return "packed bytes do not decode to x under an independent reading of the tuple format"
        return None
    if kind == "exh":
        m = re.fullmatch(r"n=(\d+) ok=(\d+) h=[0-9a-f]+", impl)
        if not m or m.group(1) != m.group(2):
            return "some string of the enumerated set does not round-trip: " + impl[:100]
        return None
    if kind == "ref":
        m = re.fullmatch(r"m=(\d+) pay=(\S+) rt=(\S+) lv=(\d) ne=(\d)", impl)
        if not m:
            return "compress_reference_segment failed: " + impl[:100]
        if m.group(3) != "1":
            return "decompress_segment_with_marker(compress_reference_segment(x)) != x"
        if m.group(5) != "1":
            return "zstd returned an empty frame (hypothesis zstd_nonempty of the theorems is not met by the real library)"
        x = unhx(t[3])
        if len(x) <= 4000:
            want = _K["sc_marker_plain"] if py_rep_ge_half(x, _K) else _K["sc_marker_tuples"]
            if int(m.group(1)) != want:
                return f"marker {m.group(1)} but the exact repetitiveness test says {want}"
        return None
    if kind == "dlt":
        m = re.fullmatch(r"pay=(\S+) rt=(\S+) rs=(\S+) lv=(\d) ne=(\d)", impl)
        if not m:
            return "compress_segment failed: " + impl[:100]
        if m.group(2) != "1" or m.group(3) != "1" or m.group(1) != t[3]:
            return "decompress(compress_segment(x)) != x"
        if m.group(5) != "1":
            return "zstd returned an empty frame (hypothesis zstd_nonempty of the theorems is not met by the real library)"
        return None
    if kind == "hist":
        m = re.fullmatch(r"m=(\d+) m2=(\d+) rt=(\S+) same=(\S+)", impl)
        if not m:
            return "context-history case failed: " + impl[:100]
        if m.group(3) != "1,1,1,1,1" or m.group(1) != m.group(2):
            return "round trip or marker depends on the compression context's history"
        return None
    return None     # un / mk / mkraw: malformed inputs, no property claim (correspondence only)


def nontrivial(case, impl):
    t = case.split()
    if impl.startswith(("PANIC", "ERR", "CRASH")):
        return t[0] in ("un", "mk", "mkraw")
    if t[0] == "exh":
        return True
    return t[-1] != "-"


def canon(case, line):
    return "PANIC" if line.startswith("PANIC") else line


# ------------------------------------------------------------------------------------------ extra, search
def _impl_only(cases, what):
    res = vlib.run_impl(PROP, cases, timeout=3000)
    out = []
    for c, i in zip(cases, res):
        why = oracle(c, i)
        if why:
            out.append(("", "", "", (c, i, f"[{what}] {why}")))
    return out


_EXTRA = {}


def _fasta_set(rng, d):
    """a few small samples: random contigs (tuple-packed references), tandem repeats (plain references), tiny and
    N-containing contigs (parts stored raw because compression does not help), later samples = mutated copies"""
    base = []
    for i in range(rng.randint(3, 6)):
        n = rng.choice([30000, 12000, 3000, 400, 60, 25, rng.randint(20, 5000)])
        kind = rng.random()
        if kind < 0.3:
            u = [rng.choice("ACGT") for _ in range(rng.randint(2, 40))]
            c = (u * (n // len(u) + 1))[:n]
        elif kind < 0.4:
            c = [rng.choice("AC") for _ in range(n)]
        else:
            c = [rng.choice("ACGT") for _ in range(n)]
        if rng.random() < 0.3 and n > 100:
            a = rng.randrange(n - 50)
            c[a:a + rng.randint(1, 40)] = list("N" * rng.randint(1, 40))
        base.append(c)
    files = []
    for sm in range(rng.randint(2, 4)):
        q = 0.0 if sm == 0 else rng.choice([0.0, 0.005, 0.03])
        path = os.path.join(d, f"s{sm}.fa")
        with open(path, "w") as f:
            for i, c in enumerate(base):
                t = [(rng.choice("ACGT") if rng.random() < q else b) for b in c]
                f.write(f">c{i}\n")
                for j in range(0, len(t), 70):
                    f.write("".join(t[j:j + 70]) + "\n")
        files.append(path)
    return files


def _archive_checks(ctx, narch):
    """part level: real archives written by the real CLI; every reference / delta part is (a) read back through the
    real decompress_segment_with_marker, (b) re-derived by the model's store_ref_part / store_pack_part from the raw
    bytes with the zstd oracle pinned to the real frame, (c) read by the model's load_part with the oracle pinned to
    the real payload.  (b) ties the model's marker choice and `compressed.len() < raw.len()` rule to the private writer
    code of agc_compressor.rs; the frame bytes themselves are never predicted."""
    import shutil, tempfile
    out = []
    ok, log, cli = vlib.build_cli("release")
    if not ok:
        return [("harness", "cargo build of the ragc CLI failed", log[-800:], None)]
    k = consts()
    stats = {"archives": 0, "ref_parts": 0, "delta_parts": 0, "ref_tuple_compressed": 0, "ref_plain_compressed": 0,
             "ref_tuple_raw": 0, "ref_plain_raw": 0, "delta_compressed": 0, "delta_raw": 0}
    os.makedirs(os.path.join(vlib.CACHE, "tmp"), exist_ok=True)
    d = tempfile.mkdtemp(prefix="c12-", dir=os.path.join(vlib.CACHE, "tmp"))
    try:
        plans = []
        for a in range(narch):
            sub = os.path.join(d, str(a))
            os.makedirs(sub)
            files = _fasta_set(ctx.rng, sub)
            level = k["cfg_compression_level"]     # StreamingQueueConfig::default(); the CLI's -c never reaches the config
            agc = os.path.join(sub, "a.agc")
            cmd = [cli, "create", "-o", agc, "-k", str(ctx.rng.choice([15, 21, 31])), "-s", str(ctx.rng.choice([300, 1000, 5000])),
                   "-v", "0", "-t", str(ctx.rng.choice([1, 4]))] + files
            plans.append((agc, level, cmd))
        import concurrent.futures as cf
        with cf.ThreadPoolExecutor(max_workers=min(8, vlib.NPROC)) as ex:
            results = list(ex.map(lambda pl: vlib.sh(pl[2], timeout=900), plans))
        jobs = []
        for (agc, level, cmd), (rc, o) in zip(plans, results):
            if rc != 0 or not os.path.exists(agc):
                out.append(("harness", "ragc create failed on a generated FASTA set", (" ".join(cmd) + " :: " + o[-400:]), None))
                continue
            jobs.append((agc, level))
        lines = vlib.run_impl(PROP, [f"arch {agc} {level}" for agc, level in jobs], timeout=1200)
        mcases, expect, origin = [], [], []
        for (agc, level), line in zip(jobs, lines):
            if line.startswith(("ERR", "PANIC", "CRASH", "HARNESS")):
                out.append(("correspondence", "reading the parts of a real archive failed", line[:300], None))
                continue
            stats["archives"] += 1
            for rec in ([] if line == "-" else line.split(";")):
                kind, name, p, meta, data, x, frame, marker, pay = rec.split(",")
                isref = kind == "R"
                stats["ref_parts" if isref else "delta_parts"] += 1
                if x in ("ERR", "PANIC"):
                    out.append(("", "", "", (f"arch-part {name} {p} meta={meta} data={data[:200]}", x,
                                               "a stored part does not decompress with its stored marker")))
                    continue
                if int(meta) != 0 and int(meta) != (0 if x == "-" else len(x) // 2):
                    out.append(("", "", "", (f"arch-part {name} {p} meta={meta}", f"decoded length {len(x) // 2}",
                                               "metadata of a compressed part is not the raw length")))
                if isref:
                    stats["ref_%s_%s" % ("plain" if marker == "0" else "tuple", "raw" if meta == "0" else "compressed")] += 1
                    mcases.append(f"wref {x} {frame}")
                else:
                    stats["delta_" + ("raw" if meta == "0" else "compressed")] += 1
                    mcases.append(f"wpack {level} {x} {frame}")
                expect.append(f"{data} {meta}")
                origin.append(f"{name} part {p}")
                mcases.append(f"lpart {meta} {data} {pay if meta != '0' else '-'}")
                expect.append(x)
                origin.append(f"{name} part {p}")
        got = vlib.run_model(PROP, mcases, timeout=1200) if mcases else []
        bad = [(c, g, e, o_) for c, g, e, o_ in zip(mcases, got, expect, origin) if g != e]
        stats["model_part_cases"] = len(mcases)
        stats["model_part_mismatches"] = len(bad)
        if bad:
            c, g, e, o_ = bad[0]
            out.append(("correspondence", "part-level model (store_*_part / load_part) vs parts of a real archive",
                        f"{len(bad)} of {len(mcases)} differ; first ({o_}): case {c[:300]} model {g[:200]} archive {e[:200]}", None))
    finally:
        shutil.rmtree(d, ignore_errors=True)
    _EXTRA["archive_parts"] = stats
    return out


def extra_checks(ctx):
    """quick and thorough: part-level check on real archives.  thorough only: the implementation alone on every string
    of length 8 over {0..15} (4.3e9 strings; the extracted model covers lengths <= 7 in the correspondence run)"""
    out = _archive_checks(ctx, 4 if ctx.tier == "quick" else 48)
    if ctx.tier == "thorough":
        A16 = list(range(16))
        cases = [f"exh {hx(A16)} 8 {hx(p)}" for p in itertools.product(A16, repeat=3)]
        _EXTRA["impl_only_exhaustive_16^8_shards"] = len(cases)
        out += _impl_only(cases, "impl-only exhaustive")
    return out


def extra_coverage(ctx):
    return dict(_EXTRA)


def search(ctx, budget):
    rng = ctx.rng
    k = consts()
    lt, lp, ld = k["sc_ref_tuples_level"], k["sc_ref_plain_level"], k["sc_delta_level"]
    cases = []
    for alpha, n in ((list(range(4)), 10), (list(range(6)), 8), (list(range(16)), 6), ([0, 255], 14), ([3, 4, 5, 6, 15, 16], 7)):
        for l in range(n + 1):
            for pre in itertools.product(alpha, repeat=min(l, 2)):
                cases.append(f"exh {hx(alpha)} {l} {hx(pre)}")
    for _ in range(200 * budget):
        s = rand_string(rng, 20000)
        cases.append(rng.choice([f"pk {hx(s)}", f"ref {lt} {lp} {hx(s)}", f"dlt c {rng.randint(0, 22)} {hx(s)}", f"dlt d {ld} {hx(s)}"]))
    res = vlib.run_impl(PROP, cases, timeout=3000)
    found = [(c, i, oracle(c, i)) for c, i in zip(cases, res) if oracle(c, i)]
    return found, len(cases)


def finding_class(case, impl, why):
    return None
