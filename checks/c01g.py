"""C01G - grand round trip (sub-check of C01): ONE model function from the inputs of `ragc create` to the bytes of
the archive (coq/model/ModelCreate.v model_build / model_create = Pipeline.create ; GroupStore.run / finalize with the
LZ and SegCompress codecs ; Collection.store_all ; the Container history register / add_part_buffered / flush / close)
and the theorem that the decoder written from the AGC v3 format rules (coq/spec/AgcV3.v) reads back exactly the
input from those bytes (props/C01G.v grand_roundtrip; proofs/Grand_proofs.v).  It joins props/C01.v
end_to_end_inputs / end_to_end_catalogue with props/C02B.v writer_conforms.

Proof-only check: there is no separate correspondence run.  Every layer model_build is composed of is tied to the
code by the check of its own property (C01 Pipeline, C02 GroupStore/SegReader, C03 Collection, C09 LZ, C12
SegCompress/Tuple, C13 Container, C07 Range, C02B the spec decoder on real archive bytes); the constants the new
model file reads (stream names, params layout, catalogue batch) are regenerated from the Rust text on every run
(AREAS) and are proved equal to the pinned format constants in props/C02B.v writer_eq_spec."""

PROP = "C01G"
AREAS = ["agcv3", "kmer", "segment", "pipeline", "groupstore", "tuple", "lz", "collection", "archive", "fasta"]
NO_MODEL_RUN = True
THEOREMS = ["grand_roundtrip", "model_create_build", "model_build_total", "history_wf", "history_state", "readers_agree",
            "text_samples_shape", "text_roundtrip"]
RULE = ("proof-only sub-check of C01: bin/check rebuilds props/C01G.vo from the regenerated constants, re-runs coqc on "
        "props/C01G.v and requires 'Closed under the global context' under every pinned theorem; the non-vacuity Example "
        "grand_roundtrip_nonvacuous runs model_build on a two-sample input (split segment, reverse-complemented pieces, raw "
        "group + two LZ groups, two store rounds, toy zstd) by vm_compute, discharges every hypothesis of grand_roundtrip "
        "and computes AgcV3.decode / decode_strict of the produced file bytes = the input; text_roundtrip_nonvacuous does the "
        "same from two FASTA texts (Fasta.v reader and catalogue grouping, C16's create_view). No generated cases: the tie of "
        "each composed layer to the Rust code is the correspondence of C01, C02, C02B, C03, C07, C09, C12, C13, C16, C19")
TRUSTED = ["coq/model/ModelCreate.v: the ORDER of Archive calls (registration order of the seven fixed streams, x<id>d before "
           "x<id>r per new group, add_part_buffered for every part, params/splitters/segment-splitters/catalogue/"
           "file_type_info last, one flush, close) is a hand transcription of agc_compressor.rs with_splitters/finalize; "
           "it is observed on real archives by C02B (stream directory) and C13, not by this check",
           "the interleaving of buffered segment parts of different streams is abstracted (flush_buffers sorts by stream "
           "id; per stream the order is the group store's); groups are registered in the order of their first non-empty op",
           "threads are oracles: decisions, group assignment, store schedule, arrival order of registrations (any value)"]
ASSUMPTIONS = ["zstd: zd (zc l x) = Some x and zc l x <> [] for all levels and inputs (hypotheses of grand_roundtrip)",
               "inputs: sample names distinct and non-empty, every sample has a contig, symbol codes 0..30, "
               "2*|contig| + min_match_len < 2^31; 1 <= k <= 32; 4 <= min_match_len < 2^32; segment_size < 2^32 and "
               "segment_size + k <= 2^31; decisions_ok (split positions leave k+1 symbols on both sides); group ids "
               "below 2^32; pieces of empty contigs not in LZ groups; the store schedule carries exactly the emitted pieces",
               "model_build = Ok b (the group store does not trap: fewer than 2^32-2 segments per group, C02 run_no_trap; "
               "create succeeds: no repeated contig name in a sample); model_build_total: nothing else can fail",
               "domain hypotheses on intermediate objects, inherited from C03 and C13: catalogue_in_dom (names over bytes "
               "1..127, ids below 2^31, group ids below 2^32-1, stream sizes below 2^32), every part metadata below 2^64, "
               "file not longer than 2^63-1 bytes",
               "text_roundtrip: text_samples files = Ok arch (create accepts the FASTA inputs), sample names non-empty, "
               "2*|contig| + min_match_len < 2^31; shape / alphabet hypotheses are PROVED from the parser (text_samples_shape)"]


def gen_cases(rng, tier):
    return []


def nontrivial(case, impl):
    return False


def oracle(case, impl):
    return None


def finding_class(case, line, why):
    return None
