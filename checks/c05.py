"""C05 the compression pipeline always terminates: scenario generator, hand-over of the logged trace of the real
pipeline to the model driver (model_cases: only renames the queue records' thread ids to worker indices), and an
independent python oracle that judges the logged run directly (completed, every contig segmented and in exactly one
round, every worker through every barrier of every round, every worker exited)."""
PROP = "C05"
SUBCHECKS = ["C05L"]   # links Protocol.v to Queue.v (C06 contract) and Determinism.v (C04 rounds): props/C05L.v
AREAS = ["queue"]
THEOREMS = ["inv_reachable", "no_lost_wakeup", "deadlock_free", "oversize_blocks_old_rule_refuted",
            "measure_decreases", "terminates", "run_reaches_final", "final_complete", "enabledb_sound", "stuckb_sound",
            "queue_close_wakes_all_in_source"]
RULE = ("trace validation + stuck detection: each case (scheduler seed, 1..16 threads, queue capacity from 0 / below one "
        "contig to 2^64-1, mode s = concatenated (token block every <pack> contigs) or m, script of push / drain / "
        "sync_and_flush calls; upper-case mode = wait for finalize() to return) is run on the REAL "
        "StreamingQueueCompressor in a forked child under the H1 perturbation scheduler with a watchdog (no record for "
        "60 s = HANG, >= 20x the largest gap seen in 4000 finished runs on the loaded machine; after two hung runs a "
        "shard skips its remaining cases); a hung run is replayed too and the model says whether the state is stuck "
        "(under the current push rule and under the pre-fix rule); the H2/H3 log is replayed through the extracted Protocol.step: every record must be an enabled "
        "transition (or a check on the model state that holds: admission numbers, sizes, item taken is maximal for "
        "ContigTask::cmp, round composition = the model's raw buffers), and the last model state must be final with "
        "rounds = token blocks and every contig segmented. script shapes: the CLI's multi-file shape (reference contigs, "
        "drain, sync_and_flush, other samples), the CLI's single-file shape (drain after the first sample), and random "
        "placements of 0..6 drain / sync_and_flush calls; contig sizes 1..60 / 100..3000 / around and above the capacity. "
        "non-trivial = at least 2 workers, at least one contig, and (a push waited, or a pull waited, or >= 2 rounds); "
        "distinct = distinct case line")
TRUSTED = ["python oracle in checks/c05.py (independent of the Coq model)",
           "tid -> worker index renaming in checks/c05.py: model_cases (per-thread sequences of pull results matched "
           "with per-worker sequences of reports)",
           "hook log order: queue records are written under the queue lock; pipeline records by the acting thread "
           "(barrier records just before Barrier::wait, CLAIM just after the atomic claim); the driver's placement of "
           "unlogged silent steps is described at the top of ocaml/c05/driver.ml",
           "std::sync::{Mutex, Condvar, Barrier} behave as documented (Barrier::wait transcribed from library/std/src/sync/barrier.rs)"]
ASSUMPTIONS = ["fairness: every thread that has an enabled non-stuttering step eventually takes a step (the OS scheduler); "
               "the theorems give: some thread always has one until the final state, and no run has infinitely many of them",
               "no worker returns Err from phase 2 (prepare_batch_parallel), which would skip barriers: a fault, outside the property",
               "the sum of the sizes of simultaneously queued contigs is below 2^64 (they are resident in memory): "
               "current_size + size is modelled without the usize overflow",
               "num_threads >= 1, pack_size >= 1; RAGC_SYNC_PER_SAMPLE unset (it would add TokenBlocks, which the theorems cover)"]

U64 = (1 << 64) - 1


# --------------------------------------------------------------------------------------------- generator
def _sizes(rng, cap):
    r = rng.random()
    if r < 0.35:
        return rng.randint(1, 60)
    if r < 0.7:
        return rng.randint(100, 3000)
    if r < 0.9 and 0 < cap < 5000:
        return max(1, cap + rng.choice([-2, -1, 0, 1, 2, cap, 7]))
    return rng.choice([1, 2, 21, 22, 999, 1000, 1001, 4000])


def _gen_case(rng, full_ratio=0.1):
    seed = rng.randint(0, 2 ** 32) if rng.random() < 0.9 else 0
    thr = rng.choice([1, 1, 2, 2, 2, 3, 3, 4, 4, 5, 6, 8, 8, 12, 16])
    cap = rng.choice([0, 1, 10, 50, 100, 100, 400, 1000, 1000, 4096, 1 << 20, 1 << 31, 1 << 63, U64])
    single = rng.random() < 0.5
    pack = rng.choice([1, 1, 2, 2, 3, 5, 8, 50]) if single else 50
    ncont = rng.choice([0, 1, 2, 3, 5, 8, 8, 13, 20, 40])
    nsamp = rng.randint(1, 4)
    # contigs grouped by sample (samples in order)
    per = [0] * nsamp
    for _ in range(ncont):
        per[rng.randrange(nsamp)] += 1
    ops = []
    shape = rng.random()
    for si, k in enumerate(per):
        for _ in range(k):
            ops.append("c%d:%d" % (si, _sizes(rng, cap)))
        if shape < 0.6 and si == 0 and nsamp > 1:
            # the CLI's shapes: drain after the reference sample (+ sync_and_flush in multi-file mode)
            ops.append("d")
            if not single:
                ops.append("s")
    if shape >= 0.6:
        # random placement of 0..6 drain / sync_and_flush calls
        for _ in range(rng.randint(0, 6)):
            ops.insert(rng.randint(0, len(ops)), rng.choice(["d", "s", "s"]))
    mode = "s" if single else "m"
    if rng.random() < full_ratio:
        mode = mode.upper()
    return "run %d %d %x %s %d %s" % (seed, thr, cap, mode, pack, ",".join(ops) if ops else "-")


def gen_cases(rng, tier):
    n = 60 if tier == "quick" else 2000
    fixed = [
        # the fixed defect C05-F1: one contig larger than the capacity (cap 1K, 2 kB contig)
        "run 1 4 400 m 50 c0:2000",
        "run 2 1 0 m 50 c0:1,c0:1",
        "run 3 2 1 s 1 c0:2,c0:2,c1:2",
        # tokens queued behind contigs, zero-size pushes that wait because an oversize contig is queued
        "run 7 3 10 s 2 c0:200,c0:50,c0:30,c1:10,d,c1:300",
        "run 3 4 40 s 1 -",
        "run 5 16 100 m 50 c0:2000,c0:50,d,s,c1:10,c1:3000",
        "run 0 1 ffffffffffffffff M 50 c0:100",
        "run 9 2 400 S 2 c0:2000,c0:50,c1:10,c1:3000,s,d",
    ]
    return fixed + [_gen_case(rng, 0.0 if tier == "quick" else 0.005) for _ in range(n - len(fixed))]


# ------------------------------------------------------------------------------------- parsing the log
def _split(impl):
    """status, fields, events (lists of strings)"""
    if "|" not in impl:
        return impl.split(" ", 1)[0] if impl else "", [], None
    head, log = impl.split("|", 1)
    h = head.split()
    log = log.strip()
    evs = [] if log in ("-", "") else [e.split(",") for e in log.split(";")]
    return (h[0] if h else ""), h[1:], evs


def _script(case):
    t = case.split()
    thr, cap, mode, pack = int(t[2]), int(t[3], 16), t[4], int(t[5])
    ops = [] if t[6] == "-" else t[6].split(",")
    return thr, cap, mode, pack, ops


def _expected_rounds(case):
    thr, cap, mode, pack, ops = _script(case)
    nc = sum(1 for o in ops if o[0] == "c")
    return (nc // pack if mode in "sS" else 0) + sum(1 for o in ops if o == "s") + 1


def _tidmap(evs, thr):
    """auto-assigned thread ids of the workers (1000, 1001, .. in order of first queue access) -> worker index.
    Every pull result (T / N record of a thread) is reported by the same thread in its next pipeline record
    (W <wid> TOK / CTG name / EXIT)."""
    kind_of_seq = {}
    nxt = None
    nctg = 0
    for e in evs:
        if e[0] == "P" and len(e) >= 2 and e[1] in ("CTG", "TOK"):
            nxt = e[1]
        elif e[0] == "A":
            if nxt == "CTG":
                kind_of_seq[e[2]] = "CTG:c%d" % nctg
                nctg += 1
            else:
                kind_of_seq[e[2]] = "TOK"
    outs, reps = {}, {}
    for e in evs:
        if e[0] == "T":
            outs.setdefault(e[1], []).append(kind_of_seq.get(e[2], "?"))
        elif e[0] == "N":
            outs.setdefault(e[1], []).append("EXIT")
        elif e[0] in ("WE", "KE"):
            outs.setdefault(e[1], [])
        elif e[0] == "W" and len(e) >= 3 and e[2] in ("TOK", "CTG", "EXIT"):
            reps.setdefault(e[1], []).append("CTG:" + e[3].split("/")[-1] if e[2] == "CTG" else e[2])

    def compatible(t, w):
        o, r = outs.get(t, []), reps.get(w, [])
        return len(o) - len(r) in (0, 1) and o[:len(r)] == r

    def rep_kind(e):
        return "CTG:" + e[3].split("/")[-1] if e[2] == "CTG" else e[2]

    def solve(start, t2w, w2t, pending):
        """walk the log from record `start`; branch where several threads could be the reporting worker"""
        for idx in range(start, len(evs)):
            e = evs[idx]
            if e[0] in ("T", "N") and e[1] != "0":
                if e[1] in pending:
                    return None                       # the previous pull result of this thread was never reported
                pending[e[1]] = kind_of_seq.get(e[2], "?") if e[0] == "T" else "EXIT"
            elif e[0] == "W" and len(e) >= 3 and e[2] in ("TOK", "CTG", "EXIT"):
                w, k = e[1], rep_kind(e)
                if w in w2t:
                    if pending.get(w2t[w]) != k:
                        return None
                    del pending[w2t[w]]
                    continue
                cands = [t for t in sorted(pending, key=int) if t not in t2w and pending[t] == k and compatible(t, w)]
                for t in cands:
                    a2, b2, p2 = dict(t2w), dict(w2t), dict(pending)
                    a2[t] = w
                    b2[w] = t
                    del p2[t]
                    r = solve(idx + 1, a2, b2, p2)
                    if r is not None:
                        return r
                return None
        return t2w, w2t

    r = solve(0, {}, {}, {})
    if r is None:
        return None, "no consistent assignment of thread ids to workers"
    t2w, w2t = r
    # threads that never reported (only possible in a hung run): any free index
    free = [str(i) for i in range(thr) if str(i) not in w2t]
    for t in sorted(outs, key=int):
        if t != "0" and t not in t2w:
            if not free:
                return None, "more threads than workers"
            t2w[t] = free.pop(0)
    return t2w, None


def model_cases(cases, impl_lines):
    out = []
    for c, i in zip(cases, impl_lines):
        st, fields, evs = _split(i)
        if st not in ("DONE", "JOINED", "HANG") or evs is None:
            out.append(c + " || " + ("SKIP" if st == "SKIP" else "NOTRACE"))
            continue
        thr = _script(c)[0]
        t2w, err = _tidmap(evs, thr)
        if t2w is None:
            out.append(c + " || MAPFAIL")
            continue
        ren = []
        for e in evs:
            if e[0] in ("WF", "KF", "A", "R", "C", "WE", "KE", "N", "T"):
                e = [e[0], "p" if e[1] == "0" else t2w.get(e[1], "?")] + e[2:]
            ren.append(",".join(e))
        out.append("%s || %s | %s" % (c, st, ";".join(ren) if ren else "-"))
    return out


def canon(case, line):
    if line.startswith("SKIP") or line.startswith("NOTRACE SKIP"):
        return "SKIP"
    if line.startswith("DONE ") or line.startswith("JOINED ") or line.startswith("OK final"):
        return "OK final"
    if line.startswith("HANG"):
        return "HANG"
    return line[:300]


def nontrivial(case, impl):
    st, fields, evs = _split(impl)
    if st not in ("DONE", "JOINED"):
        return False
    thr = _script(case)[0]
    kinds = [e[0] for e in evs]
    nctg = sum(1 for e in evs if e[0] == "P" and e[1] == "CTG")
    rounds = sum(1 for e in evs if e[0] == "ROUND")
    return thr >= 2 and nctg >= 1 and ("WF" in kinds or "WE" in kinds or rounds >= 2)


# ------------------------------------------------------------------------------------------------ oracle
def oracle(case, impl):
    """the property itself, judged on the real run's log without the Coq model"""
    st, fields, evs = _split(impl)
    if st == "SKIP":
        return None          # skipped after two hung runs in the same shard (those are reported)
    if st == "HANG":
        return "the pipeline hung: no record for %s ms" % (fields[0] if fields else "?")
    if st not in ("DONE", "JOINED"):
        return "implementation failed: " + impl[:200]
    try:
        return _oracle(case, st, evs)
    except Exception as ex:  # malformed log
        return "oracle could not read the log: %r" % (ex,)


def _oracle(case, st, evs):
    thr, cap, mode, pack, ops = _script(case)
    sizes = [int(o.split(":")[1]) for o in ops if o[0] == "c"]
    pushed = [int(e[2]) for e in evs if e[0] == "P" and e[1] == "CTG"]
    if pushed != sizes:
        return "contigs pushed %r differ from the script %r" % (pushed[:10], sizes[:10])
    names = ["c%d" % i for i in range(len(sizes))]
    # every admitted item taken exactly once
    adm = [e[2] for e in evs if e[0] == "A"]
    tk = [e[2] for e in evs if e[0] == "T"]
    if sorted(adm) != sorted(tk) or len(set(tk)) != len(tk):
        return "admitted items and taken items differ"
    # every contig pulled by exactly one worker and segmented by it
    holder = {}
    seg = {}
    cur = {}
    for e in evs:
        if e[0] == "W" and e[2] == "CTG":
            nm = e[3].split("/")[-1]
            if nm in holder:
                return "contig %s pulled twice" % nm
            holder[nm] = e[1]
            cur[e[1]] = nm
        elif e[0] == "W" and e[2] == "SEGMENTED":
            nm = cur.pop(e[1], None)
            if nm is None:
                return "SEGMENTED without a contig"
            seg[nm] = seg.get(nm, 0) + 1
    for nm in names:
        if seg.get(nm, 0) != 1:
            return "contig %s segmented %d times" % (nm, seg.get(nm, 0))
    # every contig in exactly one ROUND line
    inround = {}
    rounds = [e for e in evs if e[0] == "ROUND"]
    for r in rounds:
        for x in (r[1].split("+") if len(r) > 1 and r[1] else []):
            nm = x.split("/")[-1]
            inround[nm] = inround.get(nm, 0) + 1
    for nm in names:
        if inround.get(nm, 0) != 1:
            return "contig %s is in %d ROUND records" % (nm, inround.get(nm, 0))
    if set(inround) - set(names):
        return "a ROUND record names an unknown contig"
    # rounds: expected number, every worker through B1..B4 + ROUND-DONE of every round, in order
    R = _expected_rounds(case)
    if len(rounds) != R:
        return "%d rounds, expected %d token blocks" % (len(rounds), R)
    ntok = sum(1 for e in evs if e[0] == "P" and e[1] == "TOK")
    if ntok != R * thr:
        return "%d tokens pushed, expected %d" % (ntok, R * thr)
    want = ["TOK", "B1", "B2", "B3", "B4", "ROUND-DONE"] * R + ["EXIT"]
    for w in range(thr):
        got = [e[2] for e in evs if e[0] == "W" and e[1] == str(w) and e[2] in ("TOK", "B1", "B2", "B3", "B4", "ROUND-DONE", "EXIT")]
        if got != want:
            return "worker %d: barrier sequence %r..., expected %d full rounds then EXIT" % (w, got[-8:], R)
    # barrier discipline: nobody logs B(k+1) / ROUND-DONE of a round before everybody logged Bk of that round
    cnt = {}
    for e in evs:
        if e[0] == "W" and e[2] in ("B1", "B2", "B3", "B4", "ROUND-DONE"):
            k = ("B1", "B2", "B3", "B4", "ROUND-DONE").index(e[2])
            key = e[1]
            cnt.setdefault(key, [0] * 5)
            rnd = cnt[key][k]
            cnt[key][k] += 1
            if k > 0:
                for w in range(thr):
                    if cnt.get(str(w), [0] * 5)[k - 1] <= rnd:
                        return "worker %s passed barrier %d of round %d before worker %d arrived" % (e[1], k, rnd, w)
    if not evs or evs[-1][:2] != ["P", "JOINED"]:
        return "the log does not end with P JOINED"
    if sum(1 for e in evs if e[0] == "N") != thr or sum(1 for e in evs if e[0] == "C") != 1:
        return "close / None records"
    return None


def search(ctx, budget):
    cases = [_gen_case(ctx.rng, 0.0) for _ in range(40 * budget)]
    res = vlib.run_impl(PROP, cases)
    found = [(c, i, oracle(c, i)) for c, i in zip(cases, res) if oracle(c, i)]
    return found, len(cases)


def finding_class(case, impl, why):
    if impl.startswith("HANG"):
        thr, cap, mode, pack, ops = _script(case)
        if any(int(o.split(":")[1]) > cap for o in ops if o[0] == "c"):
            return "oversize-item-blocks-forever"
        return "pipeline-hang"
    return None
