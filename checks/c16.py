"""C16 every successfully created archive is fully extractable (any FASTA text): generator, oracle (an independent
FASTA reader / normaliser in Python), search.  Library cases run GenomeIO / GenomeWriter; `cli` cases run the real
`ragc` binary (create, listset, listctg, getset) from the harness, so a failing CLI input replays like any other case.
checks/c19.py imports the helpers of this file (same model, same case language)."""
import itertools, os

PROP = "C16"
AREAS = ["fasta"]
THEOREMS = ["parser_exact", "parser_complete", "pushed_complete", "no_record_lost", "first_line_is_a_header_refuted",
            "code_range", "extraction_normal_form", "odd_bytes_read_back_as_N", "dropped_bytes_vanish",
            "final_newline_irrelevant", "duplicate_rejected", "collect_per_sample", "collect_fails_only_on_duplicate",
            "create_view_complete"]
RULE = ("cases: parse <text> (GenomeIO::read_contig_converted loop over a Cursor), wr <id> <letters> (GenomeWriter 80-column "
        "wrapping), cli <k,s,m,t> name=file ... (real ragc create; if exit 0: listset, listctg + getset of every listed "
        "sample; 1 file = single-file PanSN mode, several = one sample per file). parse: exhaustive over all texts of "
        "length <= 6 (quick) / <= 7 (thorough) over {'>', LF, 'A', ' ', CR} (+ 'n' and '#' up to length 5/6), every "
        "byte 0..127 at the start / inside / at the end of a header and every byte 0..255 inside a sequence line, "
        "random structured texts (printable headers incl. '>' '#' and blanks, all letters, digits, gaps -*., empty "
        "records, blank lines anywhere, CR/LF mixed, missing final newline) and a malformed stream (nameless records, "
        "headless first line, random bytes). cli: the same structured texts as reference and as non-reference sample, "
        "similar samples with non-IUPAC letters (code 30) inside LZ-coded segments, duplicate headers, nameless records, "
        "empty files. non-trivial = at least one record delivered or an error (parse), create succeeded with at least "
        "one sample or failed (cli); distinct = distinct case line")
TRUSTED = ["python oracle in checks/c16.py (records split at '>' lines, header trimming, upper-casing, IUPAC table, "
           "PanSN / file-stem sample naming)",
           "C01 (lossless archive) between what create pushes and what getset prints: exercised by the cli cases, "
           "proved elsewhere"]
ASSUMPTIONS = ["header lines are ASCII (the code trims Unicode white space of a lossily decoded string; the model the "
               "ASCII white space 9..13, 32)",
               "parser_complete / pushed_complete / no_record_lost: the first line starts with '>' or is blank "
               "(otherwise the code takes it as a header: first_line_is_a_header_refuted)",
               "extraction_normal_form: no byte 91..96 / 123..127 in sequence lines (outside the property's alphabet; "
               "they are kept and read back as N: odd_bytes_read_back_as_N)"]
IUPAC = b"ACGTNRYSWKMBDHVU"
CODE = {c: i for i, c in enumerate(IUPAC)}
WS = (9, 10, 11, 12, 13, 32)
_EXTRA = {}

# the real CLI (release build of /repo's working tree); the harness reads $RAGC_CLI
try:
    _ok, _log, _cli = vlib.build_cli("release")  # noqa: F821  (vlib is injected by bin/check)
    if _ok:
        os.environ["RAGC_CLI"] = _cli
    else:
        _EXTRA["cli_build_failed"] = _log[-400:]
except NameError:
    pass


def hx(b):
    return bytes(b).hex() if b else "-"


def unhx(s):
    return b"" if s == "-" else bytes.fromhex(s)


# ------------------------------------------------------------------------------------------ the property's own reader
def py_lines(t):
    out, i = [], 0
    while i < len(t):
        j = t.find(b"\n", i)
        j = len(t) if j < 0 else j + 1
        out.append(t[i:j])
        i = j
    return out


def name_of(h):
    h = h.lstrip(b">")
    a, b = 0, len(h)
    while a < b and h[a] in WS:
        a += 1
    while b > a and h[b - 1] in WS:
        b -= 1
    return h[a:b]


def py_records(t):
    """records split at the lines starting with '>'; what precedes the first one is a record with an empty header"""
    recs = []
    for l in py_lines(t):
        if l[:1] == b">" or not recs:
            if l[:1] == b">":
                recs.append([l, b""])
                continue
            recs.append([b"", b""])
        recs[-1][1] += l
    return recs


def is_letter(c):
    return 65 <= c <= 90 or 97 <= c <= 122


def norm(seq):
    out = bytearray()
    for c in seq:
        if is_letter(c):
            u = c & 0xDF
            out.append(u if u in CODE else 78)
    return bytes(out)


def first_line_ok(t):
    ls = py_lines(t)
    return not ls or ls[0][:1] == b">" or name_of(ls[0]) == b""


def in_alphabet(t):
    """no kept non-letter (91..96, 123..127) in a sequence line"""
    for h, s in py_records(t):
        if any(91 <= c <= 96 or 123 <= c <= 127 for c in s):
            return False
    return True


def spec_contigs(t):
    """'ERR' (a record with letters but no name) or [(name, normalised letters)] of the records with >= 1 letter"""
    out = []
    for h, s in py_records(t):
        n, q = name_of(h), norm(s)
        if q and not n:
            return "ERR"
        if q:
            out.append((n, q))
    return out


def stem_sample(fname):
    s = fname
    if b"." in s[1:] and s != b"..":
        s = s[:s.rindex(b".")]
    while s.endswith(b".fa"):
        s = s[:-3]
    while s.endswith(b".fasta"):
        s = s[:-6]
    return s


def sample_for(fname, name):
    p = name.split(b"#")
    return p[0] + b"#" + p[1] if len(p) >= 3 else stem_sample(fname)


def spec_view(files):
    """files: [(name, plain text)] -> 'MUSTFAIL' (a record with bases and no name) or
    [(sample, [(contig, letters)])] in order of first appearance"""
    view, idx = [], {}
    for fname, t in files:
        cs = spec_contigs(t)
        if cs == "ERR":
            return "MUSTFAIL"
        for n, q in cs:
            s = sample_for(fname, n)
            if s not in idx:
                idx[s] = len(view)
                view.append((s, []))
            view[idx[s]][1].append((n, q))
    return view


def has_duplicate(files):
    v = spec_view(files)
    if v == "MUSTFAIL":
        return False
    return any(len({n for n, _ in cs}) != len(cs) for _, cs in v)


def parse_files(toks):
    """name=file[=plain] tokens -> [(name, text as the reader sees it)]"""
    out = []
    for t in toks:
        f = t.split("=")
        name = unhx(f[0])
        out.append((name, unhx(f[2]) if len(f) == 3 and name.endswith(b".gz") else unhx(f[1])))
    return out


def show_view(v):
    if not v:
        return "OK -"
    return "OK " + ";".join(hx(s) + "=" + ",".join(hx(n) + ":" + hx(q) for n, q in cs) for s, cs in v)


# ------------------------------------------------------------------------------------------ generators
SEQ_EXTRA = b"0123456789-*. "
LETTERS = bytes(range(65, 91)) + bytes(range(97, 123))


def gen_header(rng, used, pansn=None):
    for _ in range(50):
        kind = rng.random()
        if pansn is not None:
            core = pansn + b"#" + rand_printable(rng, rng.randint(1, 6), b"#")
        elif kind < 0.5:
            core = b"ctg%d" % rng.randint(0, 99) + (b" " + rand_printable(rng, rng.randint(1, 12)) if rng.random() < 0.4 else b"")
        else:
            core = rand_printable(rng, rng.randint(1, 20))
        n = name_of(core)
        if n and n not in used:
            used.add(n)
            return core
    n = b"u%d" % len(used)
    used.add(n)
    return n


def rand_printable(rng, n, avoid=b""):
    return bytes(rng.choice([c for c in range(32, 127) if c not in avoid]) for _ in range(n))


def rand_seqline(rng, n, letters):
    out = bytearray()
    for _ in range(n):
        x = rng.random()
        if x < 0.06:
            out.append(rng.choice(SEQ_EXTRA))
        elif x < 0.07:
            out.append(62 if out else 65)            # '>' inside a line, never at its start
        else:
            out.append(rng.choice(letters))
    return bytes(out)


def gen_text(rng, nrec=None, letters=None, pansn=None, maxlen=60):
    """a FASTA text of the property's input space; unique (trimmed) names"""
    letters = letters or rng.choice([b"ACGT", b"ACGTN", IUPAC, IUPAC + IUPAC.lower(), LETTERS, LETTERS, b"acgtXxJjOo"])
    eolmode = rng.choice(["lf", "lf", "crlf", "mixed"])
    E = lambda: b"\n" if eolmode == "lf" else b"\r\n" if eolmode == "crlf" else rng.choice([b"\n", b"\r\n"])
    parts = []
    for _ in range(rng.choice([0, 0, 0, 1, 2])):
        parts.append(rng.choice([b"", b" ", b"\t ", b">", b"> "]) + E())
    used = set()
    nrec = rng.choice([0, 1, 1, 2, 3, 5]) if nrec is None else nrec
    for _ in range(nrec):
        h = gen_header(rng, used, pansn)
        parts.append(b">" * rng.choice([1, 1, 1, 2]) + rng.choice([b"", b"", b" ", b"\t"]) + h + rng.choice([b"", b"", b" ", b"  \t"]) + E())
        kind = rng.random()
        if kind < 0.12:
            pass                                                     # no sequence line at all
        elif kind < 0.2:
            for _ in range(rng.randint(1, 3)):
                parts.append(rng.choice([b"", b" ", b"123", b"-*."]) + E())   # sequence lines without a base
        else:
            total = rng.choice([1, 2, 5, 17, rng.randint(1, maxlen)])
            w = rng.choice([1, 2, 7, 60, 80, 1000])
            while total > 0:
                if rng.random() < 0.1:
                    parts.append(E())                                # interior blank line
                n = min(w, total)
                parts.append(rand_seqline(rng, n, letters) + E())
                total -= n
        for _ in range(rng.choice([0, 0, 0, 1])):
            parts.append(E())
    t = b"".join(parts)
    if t and rng.random() < 0.25:
        t = t[:-2] if t.endswith(b"\r\n") else t[:-1]                # missing final newline
    return t


def gen_malformed(rng):
    kind = rng.random()
    if kind < 0.25:                                                  # nameless record with / without bases
        return gen_text(rng, 1) + rng.choice([b">\n", b"> \r\n", b">>\n", b"\n"]) + rng.choice([b"AC\n", b"12\n", b"", b"n"]) + gen_text(rng, 1)
    if kind < 0.45:                                                  # headless first line
        return rng.choice([b"ACGT\n", b"name\nGG\n", b" x \n", b"12\n"]) + gen_text(rng, rng.randint(0, 2))
    if kind < 0.7:                                                   # random ASCII bytes, '>' and LF frequent
        return bytes(rng.choice([62, 10, 13, 32, 65, 97, 78, 35, rng.randrange(128)]) for _ in range(rng.randint(0, 40)))
    lines = []                                                       # any byte in sequence lines, ASCII in header lines
    for i in range(rng.randint(1, 6)):
        if i == 0 or rng.random() < 0.4:
            lines.append(b">" + bytes(rng.randrange(128) for _ in range(rng.randint(0, 8))).replace(b"\n", b"") + b"\n")
        else:
            l = bytes(rng.randrange(256) for _ in range(rng.randint(0, 12))).replace(b"\n", b"")
            lines.append((b"A" if l[:1] == b">" else b"") + l + b"\n")
    return b"".join(lines)


def ftok(name, data, plain=None):
    return hx(name) + "=" + hx(data) + ("=" + hx(plain) if plain is not None else "")


def mutate(rng, s, rate, letters):
    out = bytearray()
    for c in s:
        x = rng.random()
        if x < rate * 0.5:
            out.append(rng.choice(letters))
        elif x < rate * 0.7:
            pass
        elif x < rate:
            out.append(c)
            out.append(rng.choice(b"ACGT"))
        else:
            out.append(c)
    return bytes(out)


def wrap_text(name, seq, w=70, eol=b"\n"):
    return b">" + name + eol + b"".join(seq[i:i + w] + eol for i in range(0, len(seq), w))


def params(rng):
    return "%d,%d,%d,%d" % (rng.choice([11, 15, 21, 31]), rng.choice([60, 100, 300, 1000]), rng.choice([15, 20]), rng.choice([1, 2, 3, 4]))


def gen_cli_cases(rng, n):
    cs = []
    ref_plain = wrap_text(b"ref1", bytes(rng.choice(b"ACGT") for _ in range(400))) + b">ref2\nACGTNNRY\n"
    # outside the property's alphabet, run for agreement: the kept non-letters inside LZ-coded segments
    # ([ \\ ] ^ _ ` { | } ~ DEL -> code 30 -> N; the backquote alone is the regression case of 1a45edb: its table
    # entry was the filler 32, which the LZ decoder could not read back)
    for odd in (b"[\\]^_{|}~\x7f", b"`"):
        base = bytes(rng.choice(b"ACGT") for _ in range(300))
        cs.append(f"cli {params(rng)} " + ftok(b"r.fa", wrap_text(b"c1", base)) + " "
                  + ftok(b"s.fa", wrap_text(b"c1", mutate(rng, base, 0.03, odd) + odd[:1])))
    for i in range(n):
        kind = i % 6
        p = params(rng)
        if kind == 0:                                # odd text as the only (reference) sample: single-file mode
            cs.append(f"cli {p} " + ftok(b"s.fa", gen_text(rng)))
        elif kind == 1:                              # odd text as non-reference sample
            cs.append(f"cli {p} " + ftok(b"r.fa", ref_plain) + " " + ftok(b"s.fa", gen_text(rng)))
        elif kind == 2:                              # odd text as reference, odd text as sample
            cs.append(f"cli {p} " + ftok(b"r.fa", gen_text(rng)) + " " + ftok(b"s.fa", gen_text(rng)) + " " + ftok(b"t.fa", gen_text(rng, 1)))
        elif kind == 3:                              # similar samples with non-IUPAC / IUPAC letters inside LZ-coded segments
            L = rng.choice([300, 900, 2500])
            base = bytes(rng.choice(b"ACGT") for _ in range(L))
            # the reference's largest symbol code decides its packing (ACGT=0..3 N=4 R=5 Y=6 S=7 ... U=15, other=30):
            # alphabets ending exactly at each boundary, not only "all letters"
            r = mutate(rng, base, rng.choice([0, 0.01, 0.03]),
                       rng.choice([b"N", b"RYK", b"X", LETTERS, b"R", b"Y", b"RY", b"NRY", b"S", b"YS", b"U", b"BDHV"]))
            files = [ftok(b"r.fa", wrap_text(b"c1", r, rng.choice([60, 80])))]
            for j in range(rng.choice([1, 2, 3])):
                s = mutate(rng, base, rng.choice([0.005, 0.02, 0.1]), rng.choice([b"X", b"xjo", LETTERS, IUPAC, b"ACGT"]))
                if rng.random() < 0.5:
                    # runs of N (4+ are run-length coded by the LZ layer, shorter ones are literals) and of other
                    # letters inside an LZ-coded sample, followed by sequence that matches the reference again
                    for _ in range(rng.randint(1, 3)):
                        q = rng.randrange(len(s) + 1)
                        run = rng.choice([b"N", b"N", b"N", b"n", b"X", b"R"]) * rng.choice([3, 4, 5, 12, 40, 300])
                        s = s[:q] + run + s[q:] if rng.random() < 0.5 else s[:q] + run + s[q + len(run):]
                if rng.random() < 0.3:
                    s = s.lower()
                files.append(ftok(b"s%d.fa" % j, wrap_text(b"c1", s, rng.choice([1, 60, 100000]), rng.choice([b"\n", b"\r\n"]))
                                  + (b">short\nX\n" if rng.random() < 0.3 else b"")))
            cs.append(f"cli {p} " + " ".join(files))
        elif kind == 4:                              # malformed: must fail or be complete
            cs.append(f"cli {p} " + ftok(b"r.fa", ref_plain) + " " + ftok(b"s.fa", gen_malformed_ascii(rng)))
        else:                                        # PanSN headers in a single file / duplicates / empty inputs
            x = rng.random()
            if x < 0.4:
                t = b"".join(gen_text(rng, rng.randint(1, 3), pansn=b"S%d#%d" % (j, rng.randint(0, 2))) + b"\n" for j in range(rng.randint(1, 3)))
                cs.append(f"cli {p} " + ftok(b"all.fa", t))
            elif x < 0.75:
                t = gen_text(rng, 2) + b"\n"
                rs = [r for r in py_records(t) if name_of(r[0])]
                dup = (b">" + name_of(rs[0][0]) + b"\n" + rng.choice([b"ACGT\n", b"G\n", b"\n", b""])) if rs else b">d\nA\n>d\nC\n"
                cs.append(f"cli {p} " + (ftok(b"r.fa", ref_plain) + " " if rng.random() < 0.5 else "") + ftok(b"s.fa", t + dup))
            else:
                cs.append(f"cli {p} " + ftok(b"r.fa", rng.choice([b"", b"\n", b">x\n", ref_plain])) + " " + ftok(b"s.fa", rng.choice([b"", b">e\n\n", b">y\nA"])))
    return cs


def gen_malformed_ascii(rng):
    for _ in range(20):
        t = gen_malformed(rng)
        if all(c < 128 for c in t):
            return t
    return b">\nAC\n"


FIXED = [
    b">a\nACGT\n>b\nTG\n", b"", b"\n", b">a", b">a\n", b">a\n\n", b">\nAC\n", b"> \n12\n>b\nA", b"ACGT\n>a\nGG\n",
    b"\n\n>a desc  \r\nacgtXJ-*.12 n\r\nRYK\r\n>empty\n>b\n\nAC>GT\n>c", b">>> x >y \x0b\n`{~[\\]^_@\x7fZz\n",
    b">a\n>b\nACGT\n", b"\n>a\nAC\n", b">a\r\nAC\r\n\r\n>b\r\n\r\nGT", b">a\nAC\n>\n\n>b\nG\n", b">a\rb\nAC\n",
]


def gen_cases(rng, tier):
    quick = tier == "quick"
    cs = ["parse " + hx(t) for t in FIXED]
    for alpha, n in (((62, 10, 65, 32, 13), 6 if quick else 7), ((62, 10, 65, 110, 35, 32), 5 if quick else 6)):
        for l in range(n + 1):
            for w in itertools.product(alpha, repeat=l):
                cs.append("parse " + hx(bytes(w)))
    for b in range(128):
        for t in (b">" + bytes([b]) + b"ab\nAC\n", b">ab" + bytes([b]) + b"\nAC\n", b">a" + bytes([b]) + b"b\nAC\n", bytes([b]) + b"\n>q\nAC\n"):
            cs.append("parse " + hx(t))
    for b in range(256):
        cs.append("parse " + hx(b">s\nA" + bytes([b]) + b"C\n"))
        if b != 62:
            cs.append("parse " + hx(b">s\n" + bytes([b]) + b"\n"))
    for _ in range(4000 if quick else 150000):
        cs.append("parse " + hx(gen_text(rng)))
    for _ in range(1500 if quick else 50000):
        cs.append("parse " + hx(gen_malformed(rng)))
    for n in [0, 1, 79, 80, 81, 159, 160, 161, 240] + [rng.randint(0, 700) for _ in range(20 if quick else 400)]:
        cs.append("wr " + hx(rand_printable(rng, rng.randint(1, 12)).strip() or b"x") + " " + hx(bytes(rng.choice(IUPAC) for _ in range(n))))
    cli = gen_cli_cases(rng, 36 if quick else 900)
    _EXTRA["cli_cases"] = len(cli)
    return cs + cli


# ------------------------------------------------------------------------------------------ verdicts
def canon(case, line):
    return line


def nontrivial(case, impl):
    k = case.split(" ", 1)[0]
    if k in ("parse", "cli"):
        return impl not in ("OK -",)
    return True


def decode_recs(line):
    if line == "OK -":
        return []
    return [tuple(unhx(x) for x in r.split(":")) for r in line[3:].split(",")]


def oracle(case, impl):
    t = case.split()
    if impl.startswith(("PANIC", "CRASH", "HARNESS-ERROR", "TIMEOUT")):
        return "implementation failed: " + impl[:120]
    if t[0] == "parse":
        text = unhx(t[1])
        if not first_line_ok(text) or not in_alphabet(text):
            return None                                   # outside the property's input space: agreement with the model only
        want = spec_contigs(text)
        if impl == "ERR":
            return None if want == "ERR" else "reader fails on a text without a nameless record with bases"
        got = [(n, c) for n, c in decode_recs(impl) if c]
        if want == "ERR":
            return "a record with bases and no name is silently dropped"
        if any(x > 15 and x != 30 for _, c in got for x in c):
            return "a symbol code outside 0..15 / 30 on a text of the property's alphabet"
        got = [(n, bytes(IUPAC[x] if x < 16 else 78 for x in c)) for n, c in got]   # what extraction prints
        wantc = want
        if got != wantc:
            miss = [n for n, _ in wantc if n not in [g for g, _ in got]]
            return ("record(s) with >= 1 base left out: %r" % miss) if miss else "records differ from the normalised input"
        return None
    if t[0] == "wr":
        idb, letters = unhx(t[1]), unhx(t[2])
        want = b">" + idb + b"\n" + b"".join(letters[i:i + 80] + b"\n" for i in range(0, len(letters), 80))
        return None if unhx(impl) == want else "GenomeWriter output is not the 80-column FASTA of the contig"
    if t[0] == "cli":
        files = parse_files(t[2:])
        if impl == "FAIL":
            return None                                   # create failed with an error: allowed by the property
        if not impl.startswith("OK"):
            return "create succeeded but the archive is not fully extractable / create crashed: " + impl[:160]
        if not all(first_line_ok(x) and in_alphabet(x) for _, x in files):
            return None
        want = spec_view(files)
        if want == "MUSTFAIL":
            return "create exit 0 although a record has bases and no name (it is silently dropped)"
        if impl != show_view(want):
            return "listset/listctg/getset of the created archive differ from the normalised input records"
        return None
    return None


def search(ctx, budget):
    rng = ctx.rng
    cases = gen_cli_cases(rng, 12 * budget) + ["parse " + hx(gen_text(rng)) for _ in range(2000 * budget)]
    res = vlib.run_impl(PROP, cases, timeout=3000)  # noqa: F821
    found = [(c, i, oracle(c, i)) for c, i in zip(cases, res) if oracle(c, i)]
    return found, len(cases)


def finding_class(case, impl, why):
    t = case.split()
    if t[0] == "cli":
        files = parse_files(t[2:])
        if has_duplicate(files):
            return "duplicate-contig-name"
        if any(96 in s for _, x in files for _, s in py_records(x)) and not impl.startswith("OK"):
            return "backquote-code32"
    return None


def explained_by_known(b, known_seen):
    # the model assumes C01/C09 (what is pushed comes back); a listed finding of that kind explains a cli mismatch
    return b[0] == "correspondence" and bool(known_seen)


def extra_coverage(ctx):
    return dict(_EXTRA)
