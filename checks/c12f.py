"""C12F - f64 vs exact rational arithmetic in the repetitiveness decision (sub-check of C12).
segment_compression.rs check_repetitiveness computes `cnt as f64 / cur_size as f64` (i32 counters), keeps an f64 running
maximum (`frac > best_frac`), breaks on `best_frac >= 0.5`, and compress_reference_segment decides on
`repetitiveness < 0.5`.  coq/model/SegCompress.v does all of that in exact rationals (frac_gt / frac_ge_thr /
frac_lt_thr); the agreement was an argument in a comment.  Here it is proved with Flocq 4.1.0 (IEEE754.Binary / Bits):
  * rnd_div_lt_half    (real layer)   round_NE_binary64(cnt/cur) < 1/2  <->  2*cnt < cur        (0 <= cnt, 0 < cur < 2^53)
  * f64_div_vs_half    (Binary layer, only Flocq primitives in the statement)  conversions exact, quotient finite and
                       correctly rounded, b64_compare q 0.5 = Lt <-> 2*cnt < cur, Gt/Eq <-> cur <= 2*cnt
  * f64_frac_lt_thr    the two f64 tests against 0.5 = SegCompress.frac_lt_thr / frac_ge_thr
  * check_rep_f_agrees / compress_reference_segment_f_eq / f64_decision_exact / check_rep_f_total: the whole loop with an
                       f64 running maximum (FloatThr_proofs.rep_loop_f) fails exactly when the rational model fails and
                       takes the same marker decision, so compress_reference_segment_f = compress_reference_segment.

Proof-only check: nothing is run; the tie of rep_count / the offsets / the marker values to the Rust code is C12's
correspondence, the threshold and offsets are regenerated from the Rust text (AREAS) and f64_ops_spelled proves that the
f64 constant 0x3FE0000000000000 is rep_thr_num / rep_thr_den."""

PROP = "C12F"
AREAS = ["tuple"]
NO_MODEL_RUN = True
THEOREMS = ["rnd_div_lt_half", "f64_div_vs_half", "f64_ops_spelled", "f64_frac_lt_thr", "check_rep_f_agrees",
            "compress_reference_segment_f_eq", "f64_decision_exact", "check_rep_f_total"]
RULE = ("proof-only sub-check of C12: bin/check rebuilds props/C12F.vo from the regenerated constants, re-runs coqc on "
        "props/C12F.v and compares Print Assumptions of every pinned theorem with the allow-list; the theorems depend on "
        "the four standard-library axioms behind Coq.Reals/Flocq (ClassicalDedekindReals.sig_forall_dec, "
        "ClassicalDedekindReals.sig_not_dec, FunctionalExtensionality.functional_extensionality_dep, Classical_Prop.classic) "
        "and on nothing else.  Non-vacuity: f64_div_nonvacuous evaluates Flocq's Bdiv/Bcompare on the i32 quotient closest "
        "to 1/2 from below (1073741823/2147483647) and on exactly 1/2; f64_both_sides runs the f64 loop on the inputs of C12 "
        "rep_both_sides plus one with cnt > cur_size.  No generated cases")
TRUSTED = ["reading of the Rust text: `i32 as f64` and f64 `/` are IEEE-754 binary64 operations rounded to nearest even "
           "(Flocq binary_normalize / b64_div with mode_NE), the literals 0.5 and 0.0 are the doubles 0x3FE0000000000000 and "
           "+0, `<` `>` `>=` on f64 are the IEEE comparisons (Flocq b64_compare, false on NaN); no fast-math / x87 excess "
           "precision (x86-64 and aarch64 Rust use SSE2/NEON doubles)",
           "Flocq 4.1.0 as installed (user-contrib/Flocq) and the axioms of Coq's classical real numbers: "
           "ClassicalDedekindReals.sig_forall_dec, ClassicalDedekindReals.sig_not_dec, "
           "FunctionalExtensionality.functional_extensionality_dep, Classical_Prop.classic",
           "FloatThr_proofs.rep_loop_f is a hand copy of SegCompress.rep_loop with the three rational tests replaced by "
           "f64_frac / f64_gt / f64_ge; it is not extracted or run against the code (the counting function rep_count, "
           "the offsets and the markers are C12's and are run there)"]
ASSUMPTIONS = ["rnd_div_lt_half: 0 <= cnt, 0 < cur < 2^53; f64_div_vs_half / f64_frac_lt_thr: additionally cnt < 2^53 "
               "(no cnt <= cur: cnt counts all equal pairs, cur_size only ACGT, so the fraction can exceed 1)",
               "loop level: none (rep_count returns None instead of letting an i32 counter pass 2^31, so every counter "
               "that reaches a division is below 2^31); check_rep_f_total: |data| < 2^31"]


def gen_cases(rng, tier):
    return []


def nontrivial(case, impl):
    return False


def oracle(case, impl):
    return None


def finding_class(case, line, why):
    return None
