"""C13 archive container returns what was stored: generator, spec-level oracle (python, from the op list), search."""
PROP = "C13"
AREAS = ["archive"]
THEOREMS = ["varint_roundtrip", "varint_bytes", "fixed_u64_roundtrip", "register_idempotent",
            "container_refines_spec", "flush_commits_everything"]
RULE = ("cases: vi v rest (encode_varint then decode_varint with a remainder), rv bytes (decode_varint on arbitrary "
        "bytes), fx v rest (fixed u64), hist wops | rops (writer history on a real Archive file in /dev/shm, close, "
        "reopen, reads). histories: 1..40 streams, re-registration, immediate/buffered mixes, flushes in the middle, "
        "unflushed tails, unknown stream ids, empty parts, data 0..64 kB (mostly < 40 B), metadata and raw sizes at "
        "every byte-length boundary 0,2^8-1,2^8,...,2^64-1, long batches (21..300 parts buffered over 2..6 interleaved "
        "streams before one flush, each read back by index), reads in random order (sequential and by id, past the "
        "end, unknown ids, name lookups); edge stream: non-ASCII / NUL / empty names (outside the theorem's domain, "
        "model vs code only). compared: op results, file length + FNV-1a of the whole file, directory, every read. "
        "non-trivial = a history whose reads returned at least one non-empty part; distinct = distinct case line")
TRUSTED = ["python oracle in checks/c13.py (abstract container semantics re-stated from the property text)",
           "file bytes and part data are compared through length + 64-bit FNV-1a, not byte by byte"]
ASSUMPTIONS = ["stream names over bytes 1..127 (a byte >= 128 is re-encoded by `byte as char`, NUL ends the name)",
               "metadata, raw sizes < 2^64; the finished file is shorter than 2^64 bytes and within the file system's largest offset",
               "parts still buffered at close are dropped (close does not flush): the statement covers histories with a flush before close; "
               "other histories are specified as 'dropped' and checked the same way",
               "write errors of the sink are out of scope (C15)"]
M64 = (1 << 64) - 1
BOUND = sorted(set([0, 1, 127, 128, M64, M64 - 1] + [(1 << (8 * k)) - 1 for k in range(1, 9)] +
                   [1 << (8 * k) for k in range(1, 8)] + [(1 << (8 * k)) + 1 for k in range(1, 8)]))


def hx(b):
    return "".join("%02x" % x for x in b) if b else "-"


def unhx(s):
    return b"" if s == "-" else bytes.fromhex(s)


def fnv(b):
    h = 0xcbf29ce484222325
    for x in b:
        h = ((h ^ x) * 0x100000001b3) & M64
    return h


_dcache = {}


def data_of(s):
    """-> (length, fnv) of a data token"""
    if s in _dcache:
        return _dcache[s]
    if s.startswith("@"):
        l, seed = s[1:].split(".")
        n, x = int(l, 16), int(seed, 16)
        out = bytearray()
        for _ in range(n):
            x = (x * 1103515245 + 12345) & 0x7fffffff
            out.append((x >> 16) & 0xff)
        b = bytes(out)
    else:
        b = unhx(s)
    r = (len(b), fnv(b))
    if len(_dcache) < 200000:
        _dcache[s] = r
    return r


def rmeta(rng):
    k = rng.random()
    if k < 0.5:
        return rng.choice(BOUND)
    if k < 0.8:
        return rng.randint(0, 300)
    return rng.getrandbits(rng.choice([8, 16, 24, 32, 40, 48, 56, 64]))


def rdata(rng):
    k = rng.random()
    if k < 0.15:
        return "-"
    if k < 0.75:
        return hx(bytes(rng.getrandbits(8) for _ in range(rng.randint(1, 40))))
    if k < 0.97:
        return "@%x.%x" % (rng.randint(1, 2000), rng.getrandbits(31))
    return "@%x.%x" % (rng.choice([65535, 65536, rng.randint(2000, 65536)]), rng.getrandbits(31))


def rname(rng, edge):
    if edge and rng.random() < 0.5:
        return rng.choice(["c3a9", "61c3a962", "e282ac", "610062", "00", "-", "f09f9880", "c280", "7f", "01", "c3bf61"])
    n = rng.choice([1, 2, 3, rng.randint(1, 30)])
    return hx(bytes(rng.randint(0x20, 0x7e) for _ in range(n)))


def gen_hist(rng, edge=False):
    ns = rng.choice([1, 2, 3, 5, rng.randint(1, 12), rng.randint(1, 40)])
    names = []
    while len(names) < ns:
        n = rname(rng, edge)
        if n not in names:
            names.append(n)
    w = []
    reg = 0
    nops = rng.choice([0, 1, 3, rng.randint(1, 25), rng.randint(10, 80)])
    pbad = rng.choice([0, 0, 0.05])
    first = rng.randint(1, ns)
    for i in range(first):
        w.append("r:" + names[i])
    reg = first
    for _ in range(nops):
        k = rng.random()
        sid = rng.randrange(reg) if reg else 0
        if rng.random() < pbad:
            sid = rng.choice([reg, reg + 1, 1 << 32, (1 << 63), M64, rng.randint(0, 2 * ns)])
        if k < 0.12:
            if reg < ns and rng.random() < 0.6:
                w.append("r:" + names[reg]); reg += 1
            else:
                w.append("r:" + rng.choice(names[:max(reg, 1)]))        # re-registration
        elif k < 0.45:
            w.append("a:%x:%s:%x" % (sid, rdata(rng), rmeta(rng)))
        elif k < 0.82:
            # buffered, possibly for a stream registered only later (the id is checked at flush time)
            if rng.random() < 0.03 and reg < ns:
                sid = reg
            w.append("b:%x:%s:%x" % (sid, rdata(rng), rmeta(rng)))
        elif k < 0.92:
            w.append("f")
        else:
            w.append("s:%x:%x" % (sid, rmeta(rng)))
    if rng.random() < 0.9:
        w.append("f")
    r = []
    nr = rng.choice([0, 3, rng.randint(1, 30), rng.randint(10, 120)])
    for _ in range(nr):
        k = rng.random()
        sid = rng.randrange(reg) if reg else 0
        if rng.random() < 0.04:
            sid = rng.choice([reg, reg + 7, M64, 1 << 63])
        if k < 0.45:
            r.append("g:%x" % sid)
        elif k < 0.9:
            r.append("i:%x:%x" % (sid, rng.choice([0, 1, 2, rng.randint(0, 12), rng.randint(0, 12), 1 << 40, M64])))
        else:
            r.append("n:" + rng.choice(names + ["6e6f7065"]))
    return "hist " + " ".join(w) + " | " + " ".join(r)


def gen_hist_batch(rng):
    """long buffered batches: 21..300 parts buffered over 2..6 streams with interleaved ids before ONE flush (sorting the
    batch by stream id must keep the insertion order inside each stream; short batches do not exercise a sort's
    large-input path), a few immediate additions in between, then every part read back by index and sequentially"""
    ns = rng.randint(2, 6)
    names = [hx(b"s%d" % i) for i in range(ns)]
    w = ["r:" + n for n in names]
    count = [0] * ns
    for _ in range(rng.choice([1, 1, 2])):
        for j in range(rng.choice([21, 24, 33, 60, rng.randint(21, 120), rng.randint(100, 300)])):
            sid = rng.randrange(ns)
            if rng.random() < 0.06:
                w.append("a:%x:%s:%x" % (sid, rdata(rng), rmeta(rng)))
            else:
                w.append("b:%x:%s:%x" % (sid, hx(bytes([j & 255, j >> 8, rng.getrandbits(8)])), j + 1000))
            count[sid] += 1
        w.append("f")
    r = []
    for sid in range(ns):
        idx = list(range(count[sid]))
        if rng.random() < 0.5:
            rng.shuffle(idx)
        r += ["i:%x:%x" % (sid, i) for i in idx[:80]]
    for sid in rng.sample(range(ns), ns):
        r += ["g:%x" % sid] * min(count[sid] + 1, 40)
    return "hist " + " ".join(w) + " | " + " ".join(r)


def gen_cases(rng, tier):
    cs = []
    for v in BOUND:
        for rest in ["-", "00", "ff01", hx(bytes(rng.getrandbits(8) for _ in range(rng.randint(1, 12))))]:
            cs.append("vi %x %s" % (v, rest))
        cs.append("fx %x %s" % (v, rng.choice(["-", "aa", "0102030405060708"])))
    nsmall = 600 if tier == "quick" else 20000
    for _ in range(nsmall):
        cs.append("vi %x %s" % (rmeta(rng), rng.choice(["-", hx(bytes(rng.getrandbits(8) for _ in range(rng.randint(1, 9))))])))
        # arbitrary bytes through the decoder: every length byte 0..255, short and long bodies
        nb = rng.choice([rng.randint(0, 9), rng.randint(0, 255), 255, 8, 9])
        body = rng.choice([nb, max(0, nb - 1), nb + 3, rng.randint(0, 300)])
        cs.append("rv " + hx(bytes([nb]) + bytes(rng.getrandbits(8) for _ in range(body))))
        cs.append("fx %x %s" % (rmeta(rng), "-"))
    cs.append("rv -")
    nh = 2000 if tier == "quick" else 100000
    for i in range(nh):
        cs.append(gen_hist(rng, edge=(i % 25 == 0)))
    for i in range(nh // 20):
        cs.append(gen_hist_batch(rng))
    # fixed small histories: the property's own examples and the corner cases named in the model
    cs += [
        "hist |",
        "hist r:61 |",
        "hist r:61 r:61 r:62 r:61 | n:61 n:62 n:63",
        "hist r:61 a:0:-:2a | g:0 g:0 i:0:0",
        "hist r:61 b:0:0102:7 | g:0 i:0:0",                       # not flushed: dropped at close
        "hist r:61 b:1:0102:7 r:62 f | g:1 i:1:0",                # id registered after buffering
        "hist r:61 b:0:01:1 b:5:02:2 b:0:03:3 f b:0:04:4 f | g:0 g:0 g:0 g:0",   # flush stops at the unknown id
        "hist r:61 r:62 b:1:aa:1 b:0:bb:2 a:1:cc:3 b:1:dd:4 b:0:ee:5 f | g:0 g:0 g:0 g:1 g:1 g:1 g:1",
        "hist r:61 s:0:ffffffffffffffff a:0:00:ffffffffffffffff | i:0:0",
        "hist r:61 s:0:200010000000000 a:0:-:0 a:0:-:0 | g:0 g:0 g:0",
    ]
    return cs


# --------------------------------------------------------------------------------------------- oracle
def in_domain(name_hex):
    b = unhx(name_hex)
    return all(1 <= x <= 127 for x in b)


def expected(case):
    """abstract semantics of a history -> (W list, D list, R list) or None when a name is outside the domain"""
    t = case.split()[1:]
    k = t.index("|") if "|" in t else len(t)
    wops, rops = t[:k], t[k + 1:]
    streams, pending, W = [], [], []
    for o in wops:
        f = o.split(":")
        if f[0] == "r":
            if not in_domain(f[1]):
                return None
            ids = [i for i, s in enumerate(streams) if s["name"] == f[1]]
            if ids:
                W.append("%x" % ids[0])
            else:
                streams.append({"name": f[1], "raw": 0, "parts": []})
                W.append("%x" % (len(streams) - 1))
        elif f[0] == "a":
            sid = int(f[1], 16)
            if sid < len(streams):
                streams[sid]["parts"].append((f[2], int(f[3], 16))); W.append("ok")
            else:
                W.append("err")
        elif f[0] == "b":
            pending.append((int(f[1], 16), f[2], int(f[3], 16))); W.append("-")
        elif f[0] == "f":
            res = "ok"
            for sid, d, m in sorted(pending, key=lambda x: x[0]):      # stable
                if sid < len(streams):
                    streams[sid]["parts"].append((d, m))
                else:
                    res = "err"
                    break
            pending = []
            W.append(res)
        elif f[0] == "s":
            sid = int(f[1], 16)
            if sid < len(streams):
                streams[sid]["raw"] = int(f[2], 16)
            W.append("-")
    D = ["%s/%x/%x" % (s["name"], s["raw"], len(s["parts"])) for s in streams]

    def view(p):
        n, h = data_of(p[0])
        return "%x.%x.%x" % (n, h, p[1] if n else 0)
    cur = [0] * len(streams)
    R = []
    for o in rops:
        f = o.split(":")
        if f[0] == "n":
            if not in_domain(f[1]):
                return None
            ids = [i for i, s in enumerate(streams) if s["name"] == f[1]]
            R.append("%x" % ids[0] if ids else "none")
            continue
        sid = int(f[1], 16)
        if sid >= len(streams):
            R.append("err"); continue
        ps = streams[sid]["parts"]
        if f[0] == "g":
            if cur[sid] >= len(ps):
                R.append("end")
            else:
                R.append(view(ps[cur[sid]])); cur[sid] += 1
        else:
            pid = int(f[2], 16)
            R.append(view(ps[pid]) if pid < len(ps) else "err")
    return W, D, R


def fields(impl):
    d = {}
    for tok in impl.split():
        if "=" in tok:
            k, v = tok.split("=", 1)
            d[k] = [] if v == "-" else v.split(",")
    return d


def oracle(case, impl):
    if impl.startswith(("PANIC", "CRASH", "HARNESS-ERROR")):
        return "implementation failed: " + impl[:120]
    t = case.split()
    if t[0] == "vi":
        v = int(t[1], 16)
        f = impl.split()
        if len(f) != 3 or int(f[1], 16) != v:
            return f"varint round trip lost the value {v:x}: {impl[:80]}"
        if int(f[2]) != len(unhx(f[0])):
            return "bytes_read differs from the encoded length"
        return None
    if t[0] == "fx":
        f = impl.split()
        if len(f) != 2 or int(f[1], 16) != int(t[1], 16) or len(unhx(f[0])) != 8:
            return "fixed u64 round trip failed"
        return None
    if t[0] != "hist":
        return None
    e = expected(case)
    if e is None:
        return None
    W, D, R = e
    g = fields(impl)
    if g.get("W") != W:
        return f"operation results differ from the container semantics: got {g.get('W')} want {W}"
    if g.get("O") != ["ok"]:
        return "reopening the closed archive failed"
    if g.get("D") != D:
        return f"directory after reopen differs: got {g.get('D')} want {D}"
    if g.get("R") != R:
        bad = [i for i, (a, b) in enumerate(zip(g.get("R", []), R)) if a != b][:1]
        return f"a read does not return what was stored (read #{bad}): got {g.get('R')} want {R}"
    return None


def nontrivial(case, impl):
    if not case.startswith("hist"):
        return True
    g = fields(impl)
    return any(x.count(".") == 2 and not x.startswith("0.") for x in g.get("R", []))


def search(ctx, budget):
    cases = [gen_hist(ctx.rng, edge=False) for _ in range(300 * budget)]
    res = vlib.run_impl(PROP, cases)
    found = [(c, i, oracle(c, i)) for c, i in zip(cases, res) if oracle(c, i)]
    return found, len(cases)


def finding_class(case, impl, why):
    return None
