"""C11 splitter selection: generator of references, oracle (the property's laws re-evaluated in Python on the
real output: canonical k-mers packed from scratch and counted, spacing law on the real segment lengths), search."""
import itertools

PROP = "C11"
AREAS = ["kmer", "segment"]
THEOREMS = ["sort_instance_ok", "singletons_exact", "duplicates_exact", "sets_strictly_increasing",
            "splitters_subset_singletons", "singletons_duplicates_disjoint", "invariant_under_permutation",
            "kmer_multiset_revcomp", "invariant_under_revcomp", "interior_spacing",
            "remove_non_singletons_spec", "with_duplicates_same_kept", "find_candidate_kmers_multi_spec",
            "skip_empty_same"]
RULE = ("cases: spl k segment_size threads contigs (reference = contigs of numeric codes 0..15,30; the harness writes "
        "ref.fa and a PanSN file whose first sample is the reference, reads them with GenomeIO and runs "
        "determine_splitters in a local rayon pool of <threads> threads, determine_splitters_streaming and "
        "determine_splitters_streaming_first_sample; V=ok iff the three returned the same three sets; then the real "
        "split_at_splitters_with_size cuts every reference contig with the returned splitters, L = segment lengths); "
        "pair tag k seg t1 t2 ref1 ref2 (tag perm: ref2 = ref1 with the contigs permuted; rc: some contigs "
        "reverse-complemented; both: both; same: same reference, two thread counts); rns vb values "
        "(remove_non_singletons[_with_duplicates]); cand k contigs (find_candidate_kmers[_multi]). exhaustive: every "
        "single contig over {0,1,4} up to length 6 (quick) / 8 (thorough) and every pair of contigs up to length 2/3, "
        "k in {2,3}, segment_size in {0,2,4}; random references: 1..7 contigs, N runs, IUPAC codes and code 30, internal and "
        "cross-contig repeats, duplicated contigs, reverse-complemented copies, contigs shorter than k, low-complexity "
        "contigs, k in 1..32, segment_size 0..200 and 60000, threads 1..16; big k seg t1 t2 ref: 6 (quick) / 40 (thorough) "
        "references of 66k..300k bases with runs of 2 and 3 equal k-mers (duplicated / reverse-complemented / partially "
        "repeated contigs) under two thread counts, judged by the oracle only (the list-based Coq model is not run on "
        "them). non-trivial = at least one splitter "
        "returned; distinct = distinct case line")
TRUSTED = ["python oracle in checks/c11.py (from-scratch packing and counting of canonical k-mers, the laws of the property)",
           "rayon's par_iter().map().collect() returns the results in the order of the input slice (modelled as map); "
           "thread-count independence is then checked on the real code (pair same cases, threads 1..16)",
           "rdst radix_sort_unstable / sort_unstable return a sorted permutation (Section hypothesis sort_ok of every theorem; "
           "the executable model uses the standard library's merge sort, proved to satisfy it: sort_instance_ok)",
           "GenomeIO maps FASTA letters to the numeric codes of the case (re-checked by the harness on every case)"]
ASSUMPTIONS = ["k in 1..32 (Kmer::new overflows its shift for k > 32, k = 0 shifts by 64)",
               "segment_size + contig length < 2^64 (current_len cannot wrap)",
               "sets are only filled and queried for membership (AHashSet<u64>)",
               "interior_spacing as proved: every segment except the first and the last two has at least "
               "segment_size + k bases (the k-base overlap included), i.e. at least segment_size bases as the property says"]
M64 = (1 << 64) - 1
COMP = {0: 3, 1: 2, 2: 1, 3: 0}
# complement at the letter level for the other codes (N R Y S W K M B D H V U, code 30 = any other letter)
COMP_IUPAC = {4: 4, 5: 6, 6: 5, 7: 7, 8: 8, 9: 10, 10: 9, 11: 14, 14: 11, 12: 13, 13: 12, 15: 15, 30: 30}


def hx(b):
    return "".join("%02x" % x for x in b) if b else "-"


def unhx(s):
    return [] if s == "-" else [int(s[i:i + 2], 16) for i in range(0, len(s), 2)]


def pack(w, k):
    v = 0
    for b in w:
        v = v * 4 + b
    return (v << (64 - 2 * k)) & M64


def kcanon(w, k):
    return min(pack(w, k), pack([3 - b for b in reversed(w)], k))


def kmers_of(c, k):
    """canonical values of all ACGT-only windows of c, in order"""
    out = []
    run = 0
    for i, b in enumerate(c):
        run = run + 1 if b < 4 else 0
        if run >= k:
            out.append(kcanon(c[i + 1 - k:i + 1], k))
    return out


def kmers_of_fast(c, k):
    """same values as kmers_of, by rolling the two packings (used for the large references only; the first windows are
    cross-checked against kmers_of on every call)"""
    out = []
    mask = (1 << (2 * k)) - 1
    sh = 64 - 2 * k
    fwd = rc = run = 0
    for b in c:
        if b < 4:
            run += 1
            fwd = ((fwd << 2) | b) & mask
            rc = (rc >> 2) | ((3 - b) << (2 * (k - 1)))
            if run >= k:
                out.append(min(fwd, rc) << sh)
        else:
            run = fwd = rc = 0
    head = kmers_of(c[:k + 200], k)
    if out[:len(head)] != head:
        raise AssertionError("kmers_of_fast disagrees with kmers_of")
    return out


def revcomp(c):
    return [COMP.get(b, COMP_IUPAC.get(b, b)) for b in reversed(c)]


def ref_str(contigs):
    return ",".join(hx(c) for c in contigs) if contigs else "-"


def parse_ref(s):
    return [] if s == "-" else [unhx(x) for x in s.split(",")]


def spl_case(k, seg, t, contigs):
    return f"spl {k} {seg} {t} {ref_str(contigs)}"


def pair_case(tag, k, seg, t1, t2, r1, r2):
    return f"pair {tag} {k} {seg} {t1} {t2} {ref_str(r1)} {ref_str(r2)}"


# ------------------------------------------------------------------------------------------ generator
def rand_contig(rng, n, style=None):
    style = rng.random() if style is None else style
    if style < 0.45:
        c = [rng.randint(0, 3) for _ in range(n)]
    elif style < 0.6:        # N runs and other codes
        c = []
        while len(c) < n:
            x = rng.random()
            if x < 0.02:
                c += [4] * rng.choice([1, 1, 2, 3, 7, 30])
            elif x < 0.03:
                c.append(rng.choice([5, 6, 7, 8, 9, 10, 11, 12, 13, 14, 15, 30]))
            else:
                c.append(rng.randint(0, 3))
        c = c[:n]
    elif style < 0.72:       # short period / homopolymer: every k-mer repeated
        p = rng.randint(1, 4)
        unit = [rng.randint(0, 3) for _ in range(p)]
        c = [unit[i % p] for i in range(n)]
        for _ in range(rng.randint(0, 3)):
            if n:
                c[rng.randrange(n)] = rng.randint(0, 4)
    elif style < 0.85:       # two-letter alphabet
        a, b = rng.sample(range(4), 2)
        c = [rng.choice([a, b]) for _ in range(n)]
    else:                    # internal repeats (direct and inverted)
        c = [rng.randint(0, 3) for _ in range(n)]
        for _ in range(rng.randint(1, 3)):
            if n > 4:
                p, q = rng.randrange(n), rng.randrange(n)
                seg = c[p:p + rng.randint(2, max(2, n // 3))]
                if rng.random() < 0.4:
                    seg = revcomp(seg)
                c = (c[:q] + seg + c[q:])[:max(n, 1)]
    return c


def rand_reference(rng, k, budget):
    nc = rng.choice([1, 1, 2, 2, 3, 4, 5, 7])
    contigs = []
    for _ in range(nc):
        kind = rng.random()
        if kind < 0.12:
            n = rng.randint(1, max(1, k - 1))                 # shorter than k
        elif kind < 0.2:
            n = rng.choice([k, k + 1, 2 * k, 2 * k + 1])
        else:
            n = rng.randint(k, max(k + 1, budget // nc))
        contigs.append(rand_contig(rng, n))
    # relations between contigs
    for _ in range(rng.choice([0, 0, 1, 1, 2])):
        x = rng.random()
        src = rng.choice(contigs)
        if x < 0.25:
            contigs.append(list(src))                         # duplicated contig
        elif x < 0.5:
            contigs.append(revcomp(src))                      # reverse-complemented copy
        elif x < 0.75 and len(src) > 2:
            p = rng.randrange(len(src))
            piece = src[p:p + rng.randint(1, len(src))]       # shared piece
            dst = rng.choice(contigs)
            q = rng.randrange(len(dst) + 1)
            dst[q:q] = piece if rng.random() < 0.6 else revcomp(piece)
        else:
            c = list(src)                                     # diverged copy
            for _ in range(rng.randint(1, 4)):
                if c:
                    c[rng.randrange(len(c))] = rng.randint(0, 4)
            contigs.append(c)
    rng.shuffle(contigs)
    return [c for c in contigs if c] or [[0]]


def rand_params(rng):
    k = rng.choice([rng.randint(1, 32), rng.randint(2, 8), rng.randint(2, 8), 3, 5, 11, 21, 31, 32, 1])
    seg = rng.choice([0, 1, 2, 3, 5, 8, 13, 20, 20, 35, 50, 50, 100, 200, 60000, rng.randint(0, 80)])
    return k, seg


def rand_case(rng, budget=900):
    k, seg = rand_params(rng)
    ref = rand_reference(rng, k, budget)
    t = rng.choice([1, 2, 3, 4, 8, 16])
    x = rng.random()
    if x < 0.45:
        return spl_case(k, seg, t, ref)
    t2 = rng.choice([1, 2, 3, 5, 16])
    if x < 0.6:
        return pair_case("same", k, seg, t, rng.choice([u for u in (1, 2, 4, 7, 16) if u != t]), ref, ref)
    if x < 0.75:
        r2 = list(ref)
        rng.shuffle(r2)
        return pair_case("perm", k, seg, t, t2, ref, r2)
    if x < 0.9:
        r2 = [revcomp(c) if rng.random() < 0.6 else c for c in ref]
        return pair_case("rc", k, seg, t, t2, ref, r2)
    r2 = [revcomp(c) if rng.random() < 0.5 else c for c in ref]
    rng.shuffle(r2)
    return pair_case("both", k, seg, t, t2, ref, r2)


def big_case(rng):
    """a reference with more than 65536 k-mers (rayon's work splitting, block-wise scans and radix-sort thresholds
    only come into play there), with repeated k-mers in runs of 2 and 3 at random alignments: duplicated,
    reverse-complemented and partially repeated contigs; two thread counts on the same reference.  The Coq model
    (list-based membership, quadratic) is not run on these: the theorems are size-independent and the answer is
    judged by the independent oracle (canon maps the line to a constant on both sides)."""
    k = rng.choice([21, 15, 31, 17, 12, 32])
    n = rng.choice([66000, 70021, 90001, 131100, 150000]) + rng.randint(0, 40)
    a = [rng.randint(0, 3) for _ in range(n)]
    for _ in range(rng.randint(0, 3)):                         # a few N runs
        p = rng.randrange(n)
        a[p:p + rng.choice([1, 3, 10])] = [4] * rng.choice([1, 3, 10])
    shape = rng.random()
    if shape < 0.35:
        ref = [a, revcomp(a)]
    elif shape < 0.6:
        m = rng.randrange(n // 3, n)
        ref = [a, list(a[:m]), revcomp(a[m // 2:])]            # runs of 2 and 3
    elif shape < 0.8:
        b = [rng.randint(0, 3) for _ in range(rng.randint(1000, 40000))]
        ref = [a, b, list(a), revcomp(b[len(b) // 3:])]
    else:
        ref = [a + revcomp(a[: rng.randrange(k, n)])]          # one contig, inverted repeat inside
    if rng.random() < 0.5:
        rng.shuffle(ref)
    seg = rng.choice([1000, 60000, 200, 5000])
    t1 = rng.choice([2, 2, 3, 4, 5, 7, 8, 16])
    t2 = rng.choice([1, 1, 2, 3, 6])
    return f"big {k} {seg} {t1} {t2} {ref_str(ref)}"


def canon(case_, line):
    return "not-modelled" if case_.startswith("big ") else line


def gen_exhaustive(l1, l2):
    cs = []
    alpha = (0, 1, 4)
    for k in (2, 3):
        for seg in (0, 2, 4):
            for n in range(1, l1 + 1):
                for c in itertools.product(alpha, repeat=n):
                    cs.append(f"spl {k} {seg} 2 {hx(c)}")
            for n in range(1, l2 + 1):
                for m in range(1, l2 + 1):
                    for c in itertools.product(alpha, repeat=n):
                        for d in itertools.product(alpha, repeat=m):
                            cs.append(f"spl {k} {seg} 2 {hx(c)},{hx(d)}")
    return cs


def gen_cases(rng, tier):
    A, C, G, T, N_ = 0, 1, 2, 3, 4
    cs = [
        # the repository's own unit tests
        spl_case(3, 100, 2, [[0, 0, 0, 1], [2, 2, 2, 3]]),
        spl_case(3, 100, 2, [[0, 1, 2, 3], [0, 1, 2, 3]]),
        spl_case(3, 100, 2, [[0, 0, 0, 0], [1, 1, 1, 1]]),
        spl_case(3, 100, 2, [[0, 1, 2, 3] * 3, [0] * 4 + [1] * 4 + [2] * 4]),
        # corners: contig of exactly k bases, only N, k = 32 and k = 1, every contig shorter than k, segment_size 0
        spl_case(3, 0, 1, [[0, 0, 1]]), spl_case(3, 5, 1, [[4, 4, 4, 4]]), spl_case(5, 2, 3, [[0, 1], [2, 3, 0]]),
        spl_case(32, 3, 4, [[(i * 7 + i // 3) % 4 for i in range(80)]]),
        spl_case(32, 3, 4, [[3] * 40, [0] * 40]),
        spl_case(1, 0, 4, [[0, 1, 2, 3]]), spl_case(1, 2, 4, [[0, 1], [1]]),
        spl_case(2, 0, 16, [[0, 0, 1, 2, 2, 3, 1, 3, 0, 2]]),
        "rns 0 -", "rns 0 5", "rns 0 5,5", "rns 3 1,1", "rns 1 1,1,1,2", "rns 0 1,2,2,3,3,3,4,5,5,6",
        "rns 2 1,1,2,3,3,4,5,5", "rns 0 ffffffffffffffff,ffffffffffffffff,0",
        "cand 3 0001020300010203", "cand 3 00010203,03020100", "cand 3 000001,020203",
    ]
    if tier == "quick":
        cs += gen_exhaustive(6, 2)
        nrand, budget = 600, 900
    else:
        cs += gen_exhaustive(8, 3)
        nrand, budget = 8000, 1500
    for _ in range(nrand):
        cs.append(rand_case(rng, budget))
    for _ in range(nrand // 4):
        n = rng.randint(0, 40)
        vals = sorted(rng.choice([rng.randint(0, 12), rng.getrandbits(64)]) for _ in range(n))
        if rng.random() < 0.15:
            rng.shuffle(vals)                                  # unsorted input: the model transcribes the loops, not a spec
        cs.append(f"rns {rng.choice([0, 0, 0, 1, 2, n, n + 3])} " + (",".join("%x" % v for v in vals) if vals else "-"))
        k = rng.randint(1, 8)
        ref = rand_reference(rng, k, 120)
        cs.append(f"cand {k} {ref_str(ref if rng.random() < 0.6 else ref[:1])}")
    for _ in range(6 if tier == "quick" else 40):
        cs.append(big_case(rng))
    return cs


# ------------------------------------------------------------------------------------------ oracle
def parse_answer(a):
    f = dict(x.split("=", 1) for x in a.split())
    def st(s):
        return [] if s == "-" else [int(x, 16) for x in s.split(",")]
    lens = [] if f["L"] == "-" else [[int(x) for x in c.split(",")] for c in f["L"].split(";")]
    return st(f["S"]), st(f["G"]), st(f["D"]), f["V"], lens


def nontrivial(case_, impl):
    t = case_.split()
    if t[0] in ("spl", "pair", "big"):
        return "S=-" not in impl.split(" | ")[0].split()[:1]
    return True


def check_one(k, seg, contigs, ans):
    """the laws that speak about one reference"""
    S, G_, D, V, lens = ans
    if V != "ok":
        return "the three variants do not return the same sets: " + V[:200]
    for name, l in (("splitters", S), ("singletons", G_), ("duplicates", D)):
        if l != sorted(set(l)):
            return name + " printed out of order (harness)"
    cnt = {}
    for c in contigs:
        for v in (kmers_of_fast(c, k) if len(c) > 3000 else kmers_of(c, k)):
            cnt[v] = cnt.get(v, 0) + 1
    once = sorted(v for v, n in cnt.items() if n == 1)
    more = sorted(v for v, n in cnt.items() if n > 1)
    bad = [v for v in S if cnt.get(v, 0) != 1]
    if bad:
        return "splitter %x is not a canonical k-mer occurring exactly once in the reference (occurs %d times)" % (bad[0], cnt.get(bad[0], 0))
    if set(G_) & set(D):
        return "singleton and duplicate sets intersect"
    if G_ != once:
        return "singleton set is not the set of canonical k-mers occurring exactly once"
    if D != more:
        return "duplicate set is not the set of canonical k-mers occurring more than once"
    if not set(S) <= set(G_):
        return "a splitter is not in the singleton set"
    if len(lens) != len(contigs):
        return "segment lengths missing for a contig"
    for c, ls in zip(contigs, lens):
        if sum(ls) - k * (len(ls) - 1) != len(c) or any(x < k for x in ls[1:]):
            return "segments do not tile the contig with k-base overlaps"
        for i, x in enumerate(ls):
            if 1 <= i and i + 3 <= len(ls):
                if x < seg:
                    return "interior segment %d of a reference contig has %d < segment_size = %d bases" % (i, x, seg)
                if x < seg + k:
                    return "interior segment %d has %d < segment_size + k bases (theorem interior_spacing)" % (i, x)
    return None


def oracle(case_, impl):
    t = case_.split()
    if impl.startswith(("PANIC", "CRASH", "HARNESS-ERROR")):
        return "implementation failed: " + impl[:160]
    try:
        if t[0] == "spl":
            return check_one(int(t[1]), int(t[2]), parse_ref(t[4]), parse_answer(impl))
        if t[0] == "pair":
            tag, k, seg = t[1], int(t[2]), int(t[3])
            r1, r2 = parse_ref(t[6]), parse_ref(t[7])
            i1, i2 = impl.split(" | ")
            a1, a2 = parse_answer(i1), parse_answer(i2)
            why = check_one(k, seg, r1, a1) or check_one(k, seg, r2, a2)
            if why:
                return why
            if a1[1] != a2[1] or a1[2] != a2[2]:
                return {"perm": "singleton/duplicate sets change with the contig order",
                        "rc": "singleton/duplicate sets change when contigs are reverse-complemented",
                        "both": "singleton/duplicate sets change under permutation + reverse complement",
                        "same": "singleton/duplicate sets change with the thread count"}[tag]
            if tag in ("perm", "same") and a1[0] != a2[0]:
                return "splitter set changes with the " + ("contig order" if tag == "perm" else "thread count")
            if tag == "same" and i1 != i2:
                return "answers differ between thread counts"
            return None
        if t[0] == "big":
            k, seg, ref = int(t[1]), int(t[2]), parse_ref(t[5])
            i1, i2 = impl.split(" | ")
            why = check_one(k, seg, ref, parse_answer(i1))
            if why:
                return why
            if i1 != i2:
                return "answers differ between thread counts %s and %s on a large reference" % (t[3], t[4])
            return None
        if t[0] == "rns":
            vb = int(t[1])
            vals = [] if t[2] == "-" else [int(x, 16) for x in t[2].split(",")]
            f = dict(x.split("=", 1) for x in impl.split())
            kept = [] if f["K"] == "-" else [int(x, 16) for x in f["K"].split(",")]
            dups = [] if f["D"] == "-" else [int(x, 16) for x in f["D"].split(",")]
            tail = vals[vb:]
            if tail == sorted(tail):
                if kept != vals[:vb] + [v for v in tail if tail.count(v) == 1]:
                    return "remove_non_singletons does not keep exactly the values occurring once"
                if dups != sorted({v for v in tail if tail.count(v) > 1}):
                    return "duplicated values not collected"
            return None
        if t[0] == "cand":
            k = int(t[1])
            ref = parse_ref(t[2])
            f = dict(x.split("=", 1) for x in impl.split())
            m = [] if f["M"] == "-" else [int(x, 16) for x in f["M"].split(",")]
            allk = [v for c in ref for v in kmers_of(c, k)]
            if m != sorted(v for v in set(allk) if allk.count(v) == 1):
                return "find_candidate_kmers_multi is not the sorted list of singletons"
            if "C" in f and f["C"] != f["M"]:
                return "find_candidate_kmers differs from find_candidate_kmers_multi on one contig"
            return None
    except Exception as e:
        return "unparsable answer (%s): %s" % (e, impl[:120])
    return "unknown case kind"


def search(ctx, budget):
    import random
    rng = random.Random(ctx.seed + 1)
    cases = [rand_case(rng, 600) for _ in range(150 * budget)]
    res = vlib.run_impl(PROP, cases)
    found = [(c, i, oracle(c, i)) for c, i in zip(cases, res) if oracle(c, i)]
    return found, len(cases)


def finding_class(case_, impl, why):
    return None
