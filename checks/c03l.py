"""C03L - length bounds on the name streams of the catalogue codec (sub-check of C03) and what the grand composition
needs from them.

props/C03.v proves the round trip of the name codec (coq/model/Names.v, CVarint.v), not a bound on the SIZE of its output;
props/C09L.v (parts_meta_u64_from_inputs / parts_meta_u64_in_dom) therefore keeps the residual hypothesis "the metadata of
the collection-samples / collection-contigs parts (lengths of Names.ser_sample_names / ser_names streams, catalogue_meta)
below 2^64".  props/C03L.v closes it:
  varint_len                 a CollectionVarInt is at most 5 bytes,
  rle_len / field_len        a field costs at most 2 * |field| + 1 bytes, for ANY previous field and pending run count,
  split_len                  encode_split prev cs <= 2 * |join cs| + 1,
  name_len                   one contig name after ANY previous name <= 2 * |name| + 2 bytes (met: name_bound_tight),
  contigs_len / names_len / sample_names_len   the streams: 5 per count, 2 * |name| + 2 per contig name, |name| + 1 per
                             sample name,
  catalogue_streams_meta / catalogue_streams_u64   Collection.store_all, any batch size / zstd: every collection-samples /
                             collection-contigs part has metadata <= 5 + 5 * cat_size (name bytes + samples + contigs of
                             the catalogue; the per-batch clearing of contigs never grows it); cat_size < 2^60 => < 2^64,
  catalogue_names_are_inputs the catalogue Pipeline.create builds has exactly the input's sample / contig names,
  parts_meta_u64_total       C09L parts_meta_u64_in_dom with the name-stream hypothesis replaced by
                             input_name_size samples < 2^60 (+ distinct non-empty sample names): parts_meta_u64 (b_wops b)
                             for every model_build ... = Ok b,
  grand_roundtrip_total_names   C01T grand_roundtrip_total with its residual reduced to the file length bound,
                             input_name_size < 2^60 and snd fti < 2^64.
Proofs: coq/proofs/Names_len.v.

Proof-only check: no separate correspondence run.  The model functions the theorems speak about (Names.ser_names /
ser_sample_names, Collection.store_all, Pipeline.create, ModelCreate.model_build) are tied to the Rust code by the checks of
C03, C01, C01G; the constants they read (varint thresholds, markers, run cap) are regenerated from the Rust text on every
run (AREAS) - the bounds do not depend on their values."""

PROP = "C03L"
AREAS = ["collection", "agcv3", "kmer", "segment", "pipeline", "groupstore", "tuple", "lz", "archive", "fasta"]
NO_MODEL_RUN = True
THEOREMS = ["varint_len", "rle_len", "field_len", "split_len", "name_len", "contigs_len", "names_len", "sample_names_len",
            "catalogue_streams_meta", "catalogue_streams_u64", "catalogue_names_are_inputs", "parts_meta_u64_total",
            "grand_roundtrip_total_names"]
RULE = ("proof-only sub-check of C03: bin/check rebuilds props/C03L.vo from the regenerated constants, re-runs coqc on "
        "props/C03L.v and requires 'Closed under the global context' under every pinned theorem; the non-vacuity Examples "
        "compute concrete streams (a name meeting the 2 * |name| + 2 bound exactly, a run/literal/run field, a two-sample "
        "ser_names and ser_sample_names stream) and discharge every hypothesis of parts_meta_u64_total on the two-sample "
        "instance of props/C01G.v by vm_compute (input_name_size = 15; the name parts really written carry metadata 7 and "
        "12 <= 5 + 5 * 15). No generated cases: the tie of Names / Collection / Pipeline / ModelCreate to the Rust code is "
        "the correspondence of C03, C01, C01G")
TRUSTED = ["nothing new: the theorems are about coq/model/Names.v, CVarint.v, Collection.v, Pipeline.v, ModelCreate.v as "
           "they stand (checked against the Rust code by C03, C01, C01G); the order of Archive calls in ModelCreate.v is "
           "C01G's trusted transcription"]
ASSUMPTIONS = ["varint_len, rle_len, field_len, split_len, name_len, contigs_len, names_len, sample_names_len: none (any "
               "bytes, any previous name)",
               "catalogue_streams_meta: store_all = Ok; catalogue_streams_u64: additionally cat_size (samples c) < 2^60",
               "catalogue_names_are_inputs: distinct non-empty sample names, no sample without contigs (inputs_ok), "
               "create = Ok",
               "parts_meta_u64_total: the hypotheses of C09L parts_meta_u64_in_dom (1 <= k <= 32, decisions_ok, ops_carry, "
               "inputs_in_dom, file_type_info metadata < 2^64, model_build = Ok b) with the name-stream hypothesis replaced "
               "by inputs_ok and input_name_size samples (name bytes + samples + contigs) < 2^60",
               "grand_roundtrip_total_names: the hypotheses of C01T grand_roundtrip_total with 'parts_meta_u64 (b_wops b)' "
               "replaced by input_name_size < 2^60 and snd fti < 2^64; the RESIDUALS that stay: lenN (b_file b) <= 2^63 - 1 "
               "(zstd output sizes) and catalogue_in_dom (reduced by C01T catalogue_in_dom_from_inputs to batch_small)"]


def gen_cases(rng, tier):
    return []


def nontrivial(case, impl):
    return False


def oracle(case, impl):
    return None


def finding_class(case, line, why):
    return None
