"""C05L - link of the three concurrency models (sub-check of C05).  C04 (coq/model/Determinism.v), C05
(coq/model/Protocol.v) and C06 (coq/model/Queue.v) were built independently: Protocol.v carries its own copy of the
bounded queue, Determinism.v its own abstraction of queue and barrier.  props/C05L.v pins the machine-checked links:

Part 1 (model/ConcLink.v, proofs/ConcLink_proofs.v) - queue refinement: a projection `abs` of a Protocol state onto a
Queue.v state (items with priority = lexicographic rank of ContigTask's (priority, cost, reversed sequence), current
size, closed, next_seq, blocked / woken producer and consumers) and `qevents` of a Protocol label onto a list of Queue
events such that every Protocol step is matched by a valid Queue.step sequence on the projected state (forward
simulation, queue_refinement_step / queue_refinement); corollaries: C06's size_accounting, exactly_once, bounded and
priority hold in every reachable state of the pipeline (queue_contract, take_priority).

Part 2 (model/ConcLinkR.v, proofs/ConcLink_rounds.v) - rounds link: Protocol.v refines part A of Determinism.v
(protocol_refines_determinism); the contigs recorded per barrier round by Protocol's ghost `rounds` are the ones C04's
rounds_as_intended predicts (rounds_link); the multi-file and the single-file scripts of the two models correspond
(multifile_match, singlefile_match); hence every maximal run terminates (C05) AND yields the same archive parts (C04):
terminating_and_deterministic, terminating_and_deterministic_singlefile.

Proof-only check: no separate correspondence run.  The three models are tied to the Rust code by the checks of C04, C05
and C06 (trace replay through the extracted step functions); this check adds no new model of the code."""

PROP = "C05L"
AREAS = ["determinism"]
NO_MODEL_RUN = True
THEOREMS = ["rank_order_embedding", "queue_refinement_step", "queue_refinement", "queue_refinement_reachable",
            "queue_contract", "take_priority", "protocol_refines_determinism", "rounds_link", "multifile_match",
            "terminating_and_deterministic", "singlefile_match", "terminating_and_deterministic_singlefile"]
RULE = ("proof-only sub-check of C05: bin/check rebuilds props/C05L.vo, re-runs coqc on props/C05L.v and requires 'Closed "
        "under the global context' under every pinned theorem. Non-vacuity Examples (vm_compute on closed terms): "
        "rank_nonvacuous; refinement_nonvacuous (a concrete 7-step Protocol trace with a push sleeping in not_full.wait, "
        "woken by a take, and a worker woken by a push: its projected trace of 6 Queue events runs from Queue.init and ends "
        "in the projection); overflow_outside_contract (sizes summing to 2^64: Protocol.v admits, Queue.v traps - the domain "
        "hypothesis script_bounded is needed); part2_nonvacuous (two files, 2 workers / capacity 5 vs 3 workers / capacity "
        "1000: both Protocol runs reach a final state, the recorded rounds are the two files, every hypothesis of rounds_link "
        "and terminating_and_deterministic holds); singlefile_nonvacuous (C04's witness input, pack 2, 1 worker / capacity 1000 "
        "vs 3 workers / capacity 1: both runs final, same 5 rounds). No generated cases")
TRUSTED = ["nothing new is modelled: Queue.v, Protocol.v, Determinism.v are the models of C06, C05, C04 (tied to the Rust code "
           "by those checks); ConcLink.v / ConcLinkR.v contain only the projections and the vocabulary of the statements",
           "Protocol.v's ghost `rounds` / `rawbuf` bookkeeping (what worker 0 drains at a barrier) is what "
           "terminating_and_deterministic feeds to C04's pipeline model: one raw buffer per round (C04's schedule_independent "
           "covers every distribution over worker buffers)"]
ASSUMPTIONS = ["part 1: old_rule = false (the repaired push loop), at least one worker, script_bounded (sequence numbers "
               "below 2^64, contig sizes summing to less than 2^64: Queue.v traps on usize overflow, Protocol.v does not model "
               "it; rank is an order embedding only for cost, sequence < 2^64)",
               "part 2: script_match (the Determinism script has the same pushes and polls as Protocol's operation list, then "
               "close) and C04's wf_script; for terminating_and_deterministic the hypotheses of C04.multifile_deterministic "
               "(priority bound 2*contigs + 4 < i32::MAX - 1_000_000, distinct (sample, contig) keys, streams of distinct "
               "group buffers disjoint, final packs on distinct streams)",
               "single-file mode (singlefile_match, terminating_and_deterministic_singlefile; proofs/ConcLink_single.v): the "
               "current pack-boundary rule (Determinism.current_rule, read by the translator), samples contiguous, same pack "
               "size on both sides; rounds_link and protocol_refines_determinism are mode independent"]


def gen_cases(rng, tier):
    return []


def nontrivial(case, impl):
    return False


def oracle(case, impl):
    return None


def finding_class(case, line, why):
    return None
