"""C09L - size bound of the LZ-diff encoder (sub-check of C09) and what the grand composition needs from it.

props/C09.v proves the round trip of LZ.encode (coq/model/LZ.v), not a bound on the LENGTH of its output; the grand round
trip (props/C01T.v grand_roundtrip_total) therefore carries the residual hypothesis parts_meta_u64 (every part's metadata
below 2^64): the metadata of a delta pack is the raw length of the pack, a sum of encoded lengths.  props/C09L.v pins
  encode_len_bound            |encode mml rf tgt| <= 24 * |tgt| + 23 for EVERY mml / reference / target (no hypothesis),
  lz_encode_len_any_index     the same for lz_encode on any state, hash, index,
  encode_len_in_domain / encode_len_u32    in the domain of lz_roundtrip (|rf| + |tgt| + mml < 2^31): |enc| < 2^36,
  token_sizes                 literal = 1 byte, N-run token <= 12, match token <= 23, bang rewriting keeps the length,
  pack_len_bound / pack_len_u64   GroupStore.pack_bytes of <= 50 entries of <= B bytes: <= 50 * (B + 1) + 2 (< 2^42 for B < 2^36),
  store_meta_bound            GroupStore.run + finalize, any schedule / codecs: delta part metadata <= 50 * (B + 1), reference
                              part metadata <= L when every pushed segment has <= L symbols and |lz_enc r t| <= B,
  group_parts_meta / parts_meta_u64_from_inputs   ModelCreate.model_build = Ok b: every x<id>d / x<id>r part has metadata
                              <= 1200 * L + 1200 (L = longest input contig); parts_meta_u64 (b_wops b) from L <= 2^50, the
                              file_type_info metadata < 2^64 and the name-stream parts' metadata < 2^64,
  catalogue_meta              the remaining metadata are lengths of Names.ser_sample_names / ser_names streams; details parts: 0.
Proofs: coq/proofs/LZ_len.v, coq/proofs/LZ_len_store.v.

Proof-only check: no separate correspondence run.  The model functions the theorems speak about (LZ.encode, GroupStore.run /
finalize / pack_bytes, ModelCreate.model_build) are tied to the Rust code by the checks of C09, C02, C01 / C01G; the constants
they read are regenerated from the Rust text on every run (AREAS)."""

PROP = "C09L"
AREAS = ["lz", "groupstore", "agcv3", "kmer", "segment", "pipeline", "tuple", "collection", "archive", "fasta"]
NO_MODEL_RUN = True
THEOREMS = ["encode_len_bound", "lz_encode_len_any_index", "encode_len_in_domain", "encode_len_u32", "token_sizes",
            "pack_len_bound", "pack_len_u64", "store_meta_bound", "mc_lz_enc_len", "group_parts_meta",
            "parts_meta_u64_from_inputs", "inputs_in_dom_len", "parts_meta_u64_in_dom", "catalogue_meta"]
RULE = ("proof-only sub-check of C09: bin/check rebuilds props/C09L.vo from the regenerated constants, re-runs coqc on "
        "props/C09L.v and requires 'Closed under the global context' under every pinned theorem; the non-vacuity Examples "
        "compute concrete encodings (17 bytes for 32 symbols; literals only; an N-run; a to-the-end match) within the bound, "
        "a concrete pack, and discharge every hypothesis of parts_meta_u64_from_inputs on the two-sample instance of "
        "props/C01G.v by vm_compute. No generated cases: the tie of LZ.encode / GroupStore / ModelCreate to the Rust code is "
        "the correspondence of C09, C02, C01")
TRUSTED = ["nothing new: the theorems are about coq/model/LZ.v, GroupStore.v, ModelCreate.v as they stand (checked against the "
           "Rust code by C09, C02, C01G); the order of Archive calls in ModelCreate.v is C01G's trusted transcription"]
ASSUMPTIONS = ["encode_len_bound, lz_encode_len_any_index, token_sizes, pack_len_bound, mc_lz_enc_len, catalogue_meta: none",
               "encode_len_in_domain: the hypotheses of C09 lz_roundtrip (4 <= mml, target non-empty over codes 0..30, "
               "|rf| + |tgt| + mml < 2^31)",
               "store_meta_bound: run = Ok st; every pushed segment has at most L symbols; |lz_enc r t| <= B for |t| <= L; "
               "L <= B; 1 <= B",
               "group_parts_meta: 1 <= k <= 32, decisions_ok, ops_carry (the schedule carries exactly the emitted pieces), "
               "every input contig has at most L symbols, model_build = Ok b",
               "parts_meta_u64_from_inputs: additionally L <= 2^50, file_type_info metadata < 2^64, and the RESIDUAL: the "
               "metadata of the collection-samples / collection-contigs parts (lengths of the serialized name streams) < 2^64 "
               "- a bound on Names.ser_names in terms of the input names is not proved"]


def gen_cases(rng, tier):
    return []


def nontrivial(case, impl):
    return False


def oracle(case, impl):
    return None


def finding_class(case, line, why):
    return None
