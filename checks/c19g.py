"""C19G - the FASTA->gzip layer joined with the user-level statement of C17G (sub-check of C19): `ragc create` over input
FILE BYTES.

C17G (coq/model/CliGrand.v, props/C17G.v) states create -> getset / listset / listctg in terms of the input TEXTS: its
`create_pipe` takes the bytes after decompression.  C19 (coq/model/Fasta.v, props/C19.v) says how a file becomes a text:
`Fasta.file_bytes gunzip name data` = `gunzip data` when the file NAME has the extension gz (GenomeIO::open /
MultiFileIterator::open_file: `path.extension() == Some("gz")` -> flate2 MultiGzDecoder; code and model detect gzip by name,
not by magic bytes), the data themselves otherwise; `Fasta.input_stream` = that text through the reader and the naming rule,
Err when the decoder fails.  DESIGN 11.5b listed "the FASTA->gzip layer (C19: gzip input is not part of C17G's create_pipe)"
as not inside one theorem.  This check closes it:
  coq/model/CliGz.v          fb_stream / fb_samples   single-file / multi-file mode over Fasta.input_stream (C19's entry point)
                             create_pipe_files(_io)   CliGrand.create_pipe(_io) with that stream
                             file_texts               the decompressed texts under the files' names (None: a decoder failed)
                             same_input               presentations of one input (same / gz vs plain / two member splits)
                             toy_gzip, toy_gunzip     a byte-stuffing toy codec for the non-vacuity example
  coq/proofs/CliGz_proofs.v, coq/props/C19G.v
    create_pipe_files_is_create_pipe (+ _io_is_create_pipe_io), create_pipe_files_plain
                                   for ANY gunzip: decoders succeed -> create over the file bytes IS C17G's create over the
                                   decompressed texts; plain-named files are their own texts
    create_depends_on_input_stream create depends on a file only through Fasta.input_stream (a theorem about create_pipe_files)
    gz_transparent / gz_transparent_all / gz_transparent_fa
                                   under C19's oracle hypothesis gunzip_members: S.gz holding ANY member split of a text vs a
                                   plain file with the text (same derived sample name, e.g. S.fa.gz / S.fa): same pipeline
                                   outcome (byte-identical archive or the same failure), same exit status and process state of
                                   the modelled `ragc create`, and that outcome is C17G's create_pipe on the text
    cli_create_files_then_getset (+ _file), cli_files_getset_zero_iff, cli_files_listset_after_create,
    cli_files_listctg_after_create, cli_create_files_fault_or_roundtrip, cli_create_files_io_then_getset
                                   C17G's seven create-then-query theorems restated over input file bytes; the answers are
                                   spelled out from the records of the DECOMPRESSED texts
    gz_refusal                     a *.gz input the decoder rejects -> pipeline fails (also over C15's sink), create exits NonZero,
                                   prints nothing, touches no path but the output path, where it leaves exactly `leftover`
    create_zero_decompressed       create exits Zero -> every decoder succeeded: the decompressed texts exist

Proof-only check: no separate correspondence run.  Fasta.v's gzip detection and reader are tied to the real code by C19's
correspondence (fname / rd / shas cases: real MultiGzDecoder on single-member, multi-member, BGZF files; sha256 equality of
archives created from .fa and .fa.gz presentations), Cli.v by C17, the rest as listed in checks/c17g.py; the constants the
model files reach (gz extension, stem trimming, output letters, stream names) are regenerated from the Rust text on every
run (AREAS)."""

PROP = "C19G"
AREAS = ["agcv3", "kmer", "segment", "pipeline", "groupstore", "tuple", "lz", "collection", "archive", "fasta", "sink"]
NO_MODEL_RUN = True
THEOREMS = ["create_pipe_files_is_create_pipe", "create_pipe_files_io_is_create_pipe_io", "create_pipe_files_plain",
            "create_depends_on_input_stream", "gz_transparent", "gz_transparent_all", "gz_transparent_fa",
            "cli_create_files_then_getset", "cli_create_files_then_getset_file", "cli_files_getset_zero_iff",
            "cli_files_listset_after_create", "cli_files_listctg_after_create", "cli_create_files_fault_or_roundtrip",
            "cli_create_files_io_then_getset", "gz_refusal", "create_zero_decompressed"]
RULE = ("proof-only sub-check of C19: bin/check rebuilds props/C19G.vo from the regenerated constants, re-runs coqc on "
        "props/C19G.v and requires 'Closed under the global context' under every pinned theorem; the definitions the statements "
        "use are pinned by the reflexivity Example create_pipe_files_def (detection by the extension gz, input_stream, single / "
        "multi mode, file_texts); toy_gzip_meets_oracle proves that the toy codec satisfies C19's gunzip_members for every member "
        "list; the non-vacuity Example c19g_nonvacuous takes C17G's instance with r.fa replaced by r.fa.gz = three toy members "
        "cutting the text inside both header lines, discharges every hypothesis (C19's oracle, C17G's on the decompressed "
        "texts, same_input), and by vm_compute: file_texts gives the texts, create over the file bytes has the SAME pipeline "
        "outcome and the SAME final process state as C17G's create over the plain texts (byte-identical archive, exit Zero), "
        "getset prints the decompressed records; a truncated member and a plain text under the *.gz name make create exit "
        "NonZero with the state unchanged; gzip bytes under a plain name are read as they are (different outcome). No generated "
        "cases: the tie of each layer to the Rust code is the correspondence of C19 (gzip detection, MultiGzDecoder, sha256 of "
        "archives from .fa / .fa.gz), C16, C17, C15, C02B, C01, C02, C03, C09, C12, C13")
TRUSTED = ["coq/model/CliGz.v create_pipe_files / create_pipe_files_io are DEFINITIONS: CliGrand.create_pipe(_io) with "
           "Fasta.input_stream (C19's file entry point: file_bytes, then the reader and the naming rule) in place of "
           "Fasta.contig_stream on a text; single-file mode applies create's samples-sorted check to that stream exactly as "
           "Fasta.stream_single does.  Everything trusted by C17G (cli_decode eager, create_pipe joins the layer models, the "
           "concurrent pipeline = model_create checked per archive, `leftover` free) and by C19 (python oracle, flate2 as an "
           "oracle) is inherited",
           "gzip detection is by file NAME in the code and in the model (extension gz), not by magic bytes: a gzip stream under "
           "another name is parsed as text, a plain text named *.gz goes to the decoder and is refused (c19g_nonvacuous shows "
           "both on the toy codec; C19's fname cases tie the rule to the real code)",
           "the decoder is a whole-file function `gunzip : bytes -> option bytes` (None = MultiGzDecoder returns an io error "
           "somewhere in the file).  The real reader streams: contigs read before the corrupt point are pushed before the error "
           "surfaces; in the model a failing input yields no stream at all.  Both exit non-zero; what is at the output path "
           "then is the free parameter `leftover`",
           "NOT carried by the models, hence not claimed: that a refused input leaves NO archive at the output path.  Cli.v / "
           "CliGrand.v leave what a pipeline failing before any write fault leaves there to `leftover`; C15's Sink.v models write "
           "faults of the output file only.  gz_refusal states: exactly `leftover` if Some, nothing changed if None or if the "
           "argument checks fail first.  Closing it needs a model of when create_archive creates the output file relative to "
           "reading the inputs: main.rs 642-684 reads the FIRST input completely (splitter pass) before "
           "StreamingQueueCompressor::with_splitters opens the output file (agc_compressor.rs Archive::open), the other inputs "
           "after.  Observed on the release binary (truncated member / bad CRC / plain text named *.gz; 2026-09-23): refused "
           "first input -> exit 1 and NO file at the output path; refused later input -> exit 1 and a 0-byte file there "
           "(leftover = Some []).  Same runs: S.fa.gz (two members) and S.fa give byte-identical archives, alone and after "
           "another input"]
ASSUMPTIONS = ["sections 1, 3, 4 (create_pipe_files_is_create_pipe .., the seven cli_*files* theorems, gz_refusal, "
               "create_zero_decompressed): NO hypothesis on gunzip - any function; `file_texts gunzip files = Some texts` names "
               "the decompressed texts (they exist whenever create exits Zero: create_zero_decompressed)",
               "the seven cli_*files* theorems: exactly the hypotheses of the C17G theorem of the same name, on the decompressed "
               "texts: zstd round trip and non-empty output; 1 <= k <= 32; 4 <= min_match_len < 2^32; segment_size < 2^32 and "
               "segment_size + k <= 2^31; all_first_line_ok texts; text_samples texts = Ok arch; sample names non-empty; "
               "2*|contig| + min_match_len < 2^31; decisions_ok; group ids below 2^32; the registration schedule is a "
               "permutation; ops_carry; model_build = Ok b; catalogue_in_dom; parts_meta_u64; file length <= 2^63-1; the "
               "modelled create exits Zero; request names are input samples; temp / -o paths creatable and distinct",
               "section 2 (gz_transparent, gz_transparent_all, gz_transparent_fa): exactly C19's gunzip_members - MultiGzDecoder on "
               "a concatenation of gzip members (non-empty list) yields the concatenation of their contents; plus, for general "
               "names, is_gz_name ngz = true, is_gz_name nplain = false, equal derived sample names (proved for S.fa.gz / S.fa by "
               "C19 sample_name_gz_invariant, used in gz_transparent_fa)",
               "gz_refusal: the file is among the inputs, its name has the extension gz, gunzip returns None on its bytes"]


def gen_cases(rng, tier):
    return []


def nontrivial(case, impl):
    return False


def oracle(case, impl):
    return None


def finding_class(case, line, why):
    return None
