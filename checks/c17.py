"""C17 CLI extraction composes and exit codes tell the truth: generator (real archives made with `ragc create`),
oracle (concatenation of the single-sample extractions, exit-status truthfulness; computed in Python, independent
of the Coq model), search, metadata.

Everything runs the real binary: lib/vlib.py build_cli("release") (from /repo's working tree) is built at
generation time and handed to harness/src/bin/c17.rs through VERIF_RAGC_CLI.  A case line is self-contained: it
carries the archive file (hex), what single-sample observation of that archive gave (the model's input) and the
request, so the same file goes to the model driver and to the harness, and a replay needs nothing else."""
import concurrent.futures as cf
import hashlib, itertools, os, re, subprocess, sys, tempfile

sys.path.insert(0, os.path.join(os.path.dirname(os.path.dirname(os.path.abspath(__file__))), "lib"))
import gen_samples  # noqa

PROP = "C17"
SUBCHECKS = ["C17G"]   # user-level end-to-end: ragc create TEXT; ragc getset names = FASTA of the normalised input (props/C17G.v)
AREAS = []
THEOREMS = ["requested_names", "requested_prefix_archive_order", "starts_with_spec", "getset_composes_stdout",
            "getset_composes_file", "getset_unknown_nonzero", "getset_zero_complete", "failures_nonzero",
            "create_zero_implies_archive", "create_dispatch_proceeds_iff", "create_then_listset",
            "num_threads_positive", "listset_ok", "listctg_ok", "wrap80", "parse_capacity_spec"]
RULE = ("cases = invocations of the real ragc binary: getset <archive> x <request> x {stdout, -o new file, -o existing "
        "file, -o in a missing directory}; requests = every non-empty list of <= 3 existing names with repeats (<= 2 for "
        "the 4-sample set) + random lists of 4..9 names + prefixes (empty, matching 1, several - archive order differs "
        "from sorted order -, none, longer than any name) + unknown name alone/first/middle/last + no names; archives = "
        "3 (quick) real archives (multi-file, single-file PanSN, longer contigs with IUPAC letters) + missing file + "
        "truncations + garbage + one flipped byte (content taken from single-sample observation); listset/listctg "
        "likewise; create x {--batch, --adaptive, --concatenated, both, --cpp-agc, -t 0/16 (thorough: 1, 3), -v 0, no "
        "inputs, ~45 --queue-capacity strings (parsed value compared through the verbose banner; dev-profile binary "
        "for the overflowing ones)}; every create that exits 0 (5 quick / 13 thorough really compress) is followed by "
        "listset and one getset per input sample (full length). non-trivial = not a successful single-name getset; distinct = distinct case line")
TRUSTED = ["clap's argument parsing (the harness always passes options before `--`)",
           "python oracle in checks/c17.py (FASTA rendering at 80 columns, parse_capacity re-implementation)",
           "process exit plumbing of anyhow/std (Err -> 1, panic -> 101): exercised, not modelled",
           "the archive content handed to the model is what single-sample runs of the same binary return "
           "(listset, listctg, getset <one name>)"]
ASSUMPTIONS = ["the -o path differs from the temp file $TMPDIR/agc_extract_<pid>.fasta and from the archive path",
               "argument strings are ASCII (Rust trims / upper-cases Unicode-aware, the model byte-wise)",
               "built without the cpp_agc feature (the default build)",
               "create: the model decides the dispatch and the exit status per pipeline result; that the pipeline "
               "finalizes on valid input and registers every sample is C01/C15 (checked here on every exit-0 create)",
               "no other process touches the temp file or the output while getset runs"]
PROFILES = ["dev"]          # profile of the *harness* binary only; the ragc binary under test is the release build

CACHE = os.path.join(vlib.CACHE, "c17") if "vlib" in globals() else "/verif/.cache/c17"
STATE = {"cli": None, "cli_dev": None, "build_err": None, "invocations": 0, "archives": [], "singles": {},
         "anomalies": []}
IUPAC = "ACGTNRYSWKMBDHVU"


def hx(b):
    if isinstance(b, str):
        b = b.encode()
    return b.hex() if b else "-"


def unhx(s):
    return b"" if s == "-" else bytes.fromhex(s)


# ------------------------------------------------------------------------------------------ running the binary
def ragc(args, timeout=600, tmpdir=None, dev=False):
    env = dict(os.environ)
    env["RUST_BACKTRACE"] = "0"
    if tmpdir:
        env["TMPDIR"] = tmpdir
    STATE["invocations"] += 1
    try:
        p = subprocess.run([STATE["cli_dev" if dev else "cli"]] + args, env=env, stdin=subprocess.DEVNULL,
                           stdout=subprocess.PIPE, stderr=subprocess.PIPE, timeout=timeout)
        return p.returncode, p.stdout, p.stderr.decode(errors="replace")
    except subprocess.TimeoutExpired:
        return 124, b"", "[timeout]"


def ensure_cli():
    if STATE["cli"] or STATE["build_err"]:
        return
    with cf.ThreadPoolExecutor(2) as ex:
        fr = ex.submit(vlib.build_cli, "release")
        fd = ex.submit(vlib.build_cli, "dev")
        ok, out, path = fr.result()
        okd, outd, pathd = fd.result()
    if not ok:
        STATE["build_err"] = out[-1500:]
        return
    STATE["cli"] = path
    os.environ["VERIF_RAGC_CLI"] = path
    if okd:
        STATE["cli_dev"] = pathd
        os.environ["VERIF_RAGC_CLI_DEV"] = pathd
    os.makedirs(CACHE, exist_ok=True)


def cli_id():
    h = hashlib.sha256(open(STATE["cli"], "rb").read()).hexdigest()[:16]
    return h


def make_archive(samples, mode):
    """samples: [(name, [(contig, seq)])] -> bytes of the archive `ragc create` writes (cached per binary+content)"""
    key = hashlib.sha256((cli_id() + mode + repr(samples)).encode()).hexdigest()[:24]
    path = os.path.join(CACHE, key + ".agc")
    if os.path.exists(path):
        return open(path, "rb").read()
    with tempfile.TemporaryDirectory(dir=CACHE) as d:
        gen_samples.write_case(d, samples, mode)
        order = open(os.path.join(d, "order.txt")).read().split()
        out = os.path.join(d, "out.agc")
        rc, _, err = ragc(["create", "-v", "0", "-o", out] + [os.path.join(d, f) for f in order], tmpdir=d)
        if rc != 0 or not os.path.exists(out):
            raise RuntimeError(f"ragc create failed on a generated set (rc={rc}): {err[-400:]}")
        data = open(out, "rb").read()
    with open(path + ".tmp%d" % os.getpid(), "wb") as f:
        f.write(data)
    os.replace(path + ".tmp%d" % os.getpid(), path)
    return data


def parse_fasta(b):
    recs = []
    for line in b.split(b"\n"):
        if line.startswith(b">"):
            recs.append([line[1:], b""])
        elif line and recs:
            recs[-1][1] += line
    return recs


def observe(arc_bytes):
    """what the binary itself says about an archive file, one sample at a time -> (content string, singles)"""
    with tempfile.TemporaryDirectory(dir=CACHE) as d:
        p = os.path.join(d, "a.agc")
        open(p, "wb").write(arc_bytes)
        rc, out, _ = ragc(["listset", p], timeout=120, tmpdir=d)
        if rc != 0:
            return "-", {}
        names = [x for x in out.split(b"\n") if x]
        parts, singles = [], {}
        for n in names:
            rcl, outl, _ = ragc(["listctg", p, "--", os.fsdecode(n)], timeout=120, tmpdir=d)
            ctg = [l.split(b"\t", 1)[1] for l in outl.split(b"\n") if b"\t" in l] if rcl == 0 else []
            rcg, outg, _ = ragc(["getset", p, "--", os.fsdecode(n)], timeout=120, tmpdir=d)
            for f in os.listdir(d):
                if f.startswith("agc_extract_"):
                    os.unlink(os.path.join(d, f))
            if rcg == 0:
                recs = parse_fasta(outg)
                if rcl != 0 or [r[0] for r in recs] != ctg:
                    # the binary contradicts itself on one archive: reported through extra_checks as a failing input
                    STATE["anomalies"].append((f"listctg A:{arc_bytes.hex()} - stdout {hx(n)}",
                                               f"rc={rcl} contigs={[c.decode(errors='replace') for c in ctg]}",
                                               "listctg and getset <same sample> disagree on the contig names: getset "
                                               f"exits 0 with {[r[0].decode(errors='replace') for r in recs]}"))
                singles[n] = outg
                parts.append(hx(n) + "=" + ",".join(hx(c) + "/" + hx(s) for c, s in recs))
            elif rcl == 0:
                parts.append(hx(n) + "=" + ",".join(hx(c) + "/!" for c in ctg))     # names load, the data does not
            else:
                parts.append(hx(n) + "=!")      # listed, but its contig metadata does not load: listctg fails too
        return (";".join(parts) if parts else "."), singles


def content_of_set(samples, mode):
    """the case-language content of an *input* set (for create cases): single mode uses the PanSN names"""
    parts = []
    for name, contigs in samples:
        if mode == "single":
            parts.append(hx(f"{name}#1") + "=" + ",".join(hx(f"{name}#1#{c}") + "/" + hx(s) for c, s in contigs))
        else:
            parts.append(hx(name) + "=" + ",".join(hx(c) + "/" + hx(s) for c, s in contigs))
    return ";".join(parts)


def parse_content(c):
    if c in ("-",):
        return None
    if c in (".", ""):
        return []
    res = []
    for s in c.split(";"):
        nm, cs = s.split("=", 1)
        contigs = []
        if cs == "!":
            contigs = None
        elif cs:
            for x in cs.split(","):
                cn, d = x.split("/", 1)
                contigs.append((unhx(cn), None if d == "!" else unhx(d)))
        res.append((unhx(nm), contigs))
    return res


def render(contigs):
    out = b""
    for n, s in contigs:
        out += b">" + n + b"\n"
        for i in range(0, len(s), 80):
            out += s[i:i + 80] + b"\n"
    return out


if "--replay" in sys.argv and "vlib" in globals():
    ensure_cli()            # a replay does not go through gen_cases: the harness still needs the current binary


# ------------------------------------------------------------------------------------------ generator
def rename(samples, names):
    return [(n, c) for n, (_, c) in zip(names, samples)]


def quick_sets(rng, tier):
    sets = []
    a = gen_samples.gen_set(rng, nsamples=3, ncontigs=2, clen=300, div=0.01)
    sets.append(("multi", rename(a, ["HG02", "HG01#2", "HG01#1"])))          # archive order != sorted order
    b = gen_samples.gen_set(rng, nsamples=4, ncontigs=2, clen=200, div=0.03)
    sets.append(("single", b))                                               # S000#1 .. S003#1
    c = gen_samples.gen_set(rng, nsamples=2, ncontigs=3, clen=1500, div=0.03)
    c = [(n, [(cn, gen_samples.mutate(rng, s, 0.0, iupac_rate=0.01, nrun_rate=0.002)) for cn, s in cs]) for n, cs in c]
    sets.append(("multi", rename(c, ["x", "xy"])))
    if tier != "quick":
        for _ in range(8):
            s = gen_samples.gen_set(rng, clen=rng.choice([100, 300, 800]))
            sets.append((rng.choice(["multi", "single"]), s))
    return sets


def request_lists(rng, names, tier):
    n = len(names)
    maxlen = 3 if n <= 3 else 2
    reqs = [list(t) for k in range(1, maxlen + 1) for t in itertools.product(names, repeat=k)]
    for _ in range(6 if tier == "quick" else 40):
        reqs.append([rng.choice(names) for _ in range(rng.randint(4, 9))])
    return reqs


def prefixes_for(names):
    ps = {b"", names[0], names[0][:-1], names[0] + b"0", b"Q", names[-1][:1]}
    common = os.path.commonprefix(names)
    ps.add(common)
    if len(names) > 1:
        ps.add(os.path.commonprefix(names[1:]))
    return sorted(ps)


CAP_STRINGS = [b"1K", b"7", b"2G", b"512M", b"1k", b"2g", b"3m", b" 2g ", b"\t7\n", b"+5", b"0", b"0K", b"00012",
               b"16777216K", b"18014398509481984K", b"17179869184G", b"17592186044416M", b"18446744073709551615",
               b"18446744073709551616", b"99999999999999999999K", b"1X", b"", b" ", b"K", b"k", b"M", b"G", b"1KK",
               b"1 K", b"-5", b"5-", b"+", b"++5", b"+5K", b"0x10", b"1e3", b"1.5G", b"G1", b"1KB", b"1Kb", b"2GG",
               b"2 g", b"1_000", b"1,000", b"12a4"]


def gen_cases(rng, tier):
    ensure_cli()
    if STATE["build_err"]:
        return []
    sets = quick_sets(rng, tier)
    with cf.ThreadPoolExecutor(min(8, len(sets))) as ex:
        arcs = list(ex.map(lambda ms: make_archive(ms[1], ms[0]), sets))
    cs = []
    first = None
    for (mode, samples), arc in zip(sets, arcs):
        content, singles = observe(arc)
        A = "A:" + arc.hex()
        for n, b in singles.items():
            STATE["singles"][(hashlib.sha256(A.encode()).hexdigest(), n)] = b
        parsed = parse_content(content) or []
        names = [n for n, _ in parsed]
        STATE["archives"].append({"mode": mode, "bytes": len(arc), "samples": [n.decode() for n in names]})
        if not names:
            continue
        if first is None:
            first = (A, content, names, arc)
        dests = itertools.cycle(["stdout", "file", "file", "stdout", "filepre"])
        for req in request_lists(rng, names, tier):
            for dst in ("stdout", "file") if len(req) <= 2 else (next(dests),):
                cs.append(f"getset {A} {content} {dst} nop " + " ".join(hx(x) for x in req))
        for p in prefixes_for(names):
            for dst in ("stdout", "file"):
                cs.append(f"getset {A} {content} {dst} p:{hx(p)}")
        cs.append(f"getset {A} {content} stdout p:{hx(names[0][:1])} {hx(names[-1])}")      # prefix wins over names
        # failures on a good archive
        bad = b"nosuch"
        for req in ([bad], [bad, names[0]], [names[0], bad], [names[0], bad, names[-1]], [names[-1], names[0], bad],
                    [names[0][:-1]], [names[0] + b"x"]):
            for dst in ("stdout", "file"):
                cs.append(f"getset {A} {content} {dst} nop " + " ".join(hx(x) for x in req))
        cs.append(f"getset {A} {content} stdout nop")
        cs.append(f"getset {A} {content} file nop")
        cs.append(f"getset {A} {content} baddir nop {hx(names[0])}")
        cs.append(f"getset {A} {content} baddir p:-")
        for dst in ("stdout", "file", "baddir", "filepre"):
            cs.append(f"listset {A} {content} {dst}")
        cs.append(f"listctg {A} {content} stdout " + " ".join(hx(x) for x in names))
        cs.append(f"listctg {A} {content} file {hx(names[-1])} {hx(names[0])} {hx(names[-1])}")
        cs.append(f"listctg {A} {content} stdout {hx(names[0])} {hx(bad)}")
        cs.append(f"listctg {A} {content} file {hx(bad)}")
        cs.append(f"listctg {A} {content} baddir {hx(names[0])}")
    # unreadable archives: missing, truncated, garbage, one flipped byte (content = what observation gives)
    if first:
        A, content, names, arc = first
        req = " ".join(hx(x) for x in names[:2])
        for dst in ("stdout", "file"):
            cs.append(f"getset missing - {dst} nop {req}")
            cs.append(f"getset missing - {dst} p:-")
        cs.append("listset missing - stdout")
        cs.append(f"listctg missing - stdout {hx(names[0])}")
        cs.append("info missing")
        cs.append(f"info {A}")
        damaged = [arc[:0], arc[:7], arc[:len(arc) // 2], arc[:-1], arc[:-9], arc + b"\0",
                   bytes(rng.randrange(256) for _ in range(300))]
        for _ in range(2 if tier == "quick" else 12):
            i = rng.randrange(len(arc))
            damaged.append(arc[:i] + bytes([arc[i] ^ (1 << rng.randrange(8))]) + arc[i + 1:])
        with cf.ThreadPoolExecutor(8) as ex:
            obs = list(ex.map(observe, damaged))
        for d, (c2, singles) in zip(damaged, obs):
            A2 = "A:" + (d.hex() if d else "")
            for n, b in singles.items():
                STATE["singles"][(hashlib.sha256(A2.encode()).hexdigest(), n)] = b
            ns = [n for n, _ in (parse_content(c2) or [])] or names
            cs.append(f"getset {A2} {c2} stdout nop " + " ".join(hx(x) for x in ns[:2]))
            cs.append(f"getset {A2} {c2} file nop " + " ".join(hx(x) for x in reversed(ns)))
            cs.append(f"getset {A2} {c2} stdout p:-")
            cs.append(f"listset {A2} {c2} stdout")
            cs.append(f"listctg {A2} {c2} stdout {hx(ns[0])}")
    # create: flag combinations
    small = gen_samples.gen_set(rng, nsamples=3, ncontigs=2, clen=250, div=0.01)
    M = "M:" + content_of_set(small, "multi")
    S = "S:" + content_of_set(small, "single")
    for fl in (["batch"], ["adaptive"], ["concatenated"], ["batch", "adaptive"], ["batch", "concatenated"],
               ["adaptive", "concatenated"], ["batch", "adaptive", "concatenated"], ["cpp"], ["cpp", "batch"],
               ["batch", "v=0"], ["adaptive", "v=0"], ["batch", "q=" + hx(b"zz")], ["batch", "v=0", "q=" + hx(b"zz")],
               ["adaptive", "v=0", "q=" + hx(b"zz")], ["batch", "t=0"], ["adaptive", "t=16"]):
        cs.append(f"create {M} " + " ".join(fl))
        if len(fl) == 1:
            cs.append(f"create {S} " + " ".join(fl))
    cs.append("create N:.")
    cs.append("create N:. batch")
    for q in CAP_STRINGS:
        # --adaptive bails right after the banner: the capacity string is parsed (and printed) without compressing
        cs.append(f"create {M} adaptive q={hx(q)}")
    for q in (b"1X", b"", b"2 g", b"99999999999999999999K"):
        cs.append(f"create {M} q={hx(q)}")
        cs.append(f"create {M} v=0 q={hx(q)}")
    if STATE["cli_dev"]:
        for q in (b"18014398509481984K", b"17179869184G", b"17592186044416M", b"1K", b"1X"):
            cs.append(f"create {M} dev adaptive q={hx(q)}")
    # the ones that really compress (about 15 s each on a loaded machine)
    ok_flags = [[], ["t=0"], ["t=16"], ["q=" + hx(b"7")]]
    if tier != "quick":
        ok_flags += [["t=1"], ["q=" + hx(b"1K")], ["v=0", "t=0"], ["q=" + hx(b"18014398509481984K")], ["t=3"],
                     ["q=" + hx(b" 2g ")], ["v=2"]]
    for i, fl in enumerate(ok_flags):
        cs.append(f"create {M if i % 3 != 1 else S} " + " ".join(fl))
    # one file holding one sample: before the -t 0 fix this exited 0 with sequence-less contigs
    one = "M:" + content_of_set(small[:1], "multi")
    cs.append(f"create {one} t=0")
    if tier != "quick":
        cs.append(f"create {one}")
    # spread the slow cases over the shards
    slow = [c for c in cs if c.startswith("create") and expected_create(c.split())[0] is None]
    slowset = set(slow)
    fast = [c for c in cs if c not in slowset]
    step = max(1, len(fast) // (len(slow) + 1))
    out = []
    for i, c in enumerate(fast):
        out.append(c)
        if slow and i % step == step - 1:
            out.append(slow.pop())
    return out + slow


# ------------------------------------------------------------------------------------------ oracle
def py_parse_capacity(s, checked=False):
    try:
        t = s.decode("ascii")
    except UnicodeDecodeError:
        return "err", None
    t = t.strip(" \t\n\x0b\x0c\r").upper()
    steps = 0
    for suf, k in (("K", 1), ("M", 2), ("G", 3)):
        if t.endswith(suf):
            t, steps = t[:-1], k
            break
    body = t[1:] if t.startswith("+") else t
    if not body or any(ch not in "0123456789" for ch in body):
        return "err", None
    v = int(body)
    if v >= 1 << 64:
        return "err", None
    for _ in range(steps):
        v *= 1024
        if v >= 1 << 64:
            if checked:
                return "panic", None
            v &= (1 << 64) - 1
    return "ok", v


def expected_create(t):
    """(reason why it must fail | None, capacity printed in the banner | None)"""
    set_, flags = t[1], t[2:]
    opt = {f.split("=", 1)[0]: f.split("=", 1)[1] for f in flags if "=" in f}
    v = int(opt.get("v", "1"))
    q = unhx(opt["q"]) if "q" in opt else b"2G"
    st, cap = py_parse_capacity(q, "dev" in flags)
    banner = cap if (v > 0 and "batch" not in flags and st == "ok") else None
    if set_.startswith("N:"):
        return "no input files", None
    if v > 0 and "batch" not in flags and st != "ok":
        return "bad queue capacity string", banner
    if "cpp" in flags:
        return "--cpp-agc without the feature", banner
    if "batch" in flags:
        return "--batch is not available", banner
    if "adaptive" in flags or "concatenated" in flags:
        return "--adaptive/--concatenated unsupported", banner
    if st != "ok":
        return "bad queue capacity string", banner
    return None, banner


def fields(line):
    return dict(x.split("=", 1) for x in line.split() if "=" in x)


def oracle(case, impl):
    t = case.split()
    if impl.startswith(("PANIC", "CRASH", "HARNESS-ERROR")):
        return "harness failed: " + impl[:200]
    f = fields(impl)
    rc = f.get("rc", "?")
    if rc == "timeout":
        return "no exit status: the process did not terminate within the time limit"
    zero = rc == "0"
    if t[0] == "create":
        why, banner = expected_create(t)
        if why:
            if zero:
                return f"exit 0 although create must fail ({why})"
            if f.get("arc") != "absent" and not t[1].startswith("N:"):
                return f"create failed ({why}) but left an archive file behind"
            return None
        if not zero:
            return f"exit {rc} on a create that should succeed: err={f.get('err')}"
        if f.get("arc") != "present":
            return "create exited 0 but the archive does not exist"
        if f.get("listed") != "all":
            return f"create exited 0 but listset does not list every input sample: {f.get('listed')}"
        if f.get("data") != "ok":
            return f"create exited 0 but a sample does not extract with its full length: {f.get('data')}"
        return None
    if t[0] == "info":
        # not implemented: it opens nothing and prints nothing, so success is never the truth (C17-F: it used to exit 0)
        return "info exits 0 without doing anything (the archive is not even opened)" if zero else None
    arc, content, dst = t[1], parse_content(t[2]), t[3]
    why = None
    if arc == "missing":
        why = "archive file missing"
    elif content is None:
        why = "archive does not open"
    elif dst == "baddir" and t[0] != "getset":
        why = "-o in a missing directory"
    want = None
    if why is None:
        byname = {}
        for n, cs in content:
            byname.setdefault(n, cs)
        if t[0] == "listset":
            want = b"".join(n + b"\n" for n, _ in content)
        elif t[0] == "listctg":
            req = [unhx(x) for x in t[4:]]
            unknown = [n for n in req if byname.get(n) is None]
            if unknown:
                why = "unknown sample (or unloadable contig metadata) %r" % unknown[0]
            else:
                want = b"".join(n + b"\t" + c + b"\n" for n in req for c, _ in byname[n])
        else:
            pfx, req = t[4], [unhx(x) for x in t[5:]]
            if pfx != "nop":
                p = unhx(pfx[2:])
                req = [n for n, _ in content if n.startswith(p)]
                if not req:
                    why = "prefix matches nothing"
            elif not req:
                why = "neither names nor prefix"
            if why is None:
                badn = [n for n in req if byname.get(n) is None or any(s is None for _, s in byname[n])]
                if badn:
                    why = "unknown or unreadable sample %r" % badn[0]
                elif dst == "baddir":
                    why = "-o in a missing directory"
                else:
                    key = hashlib.sha256(arc.encode()).hexdigest()
                    want = b"".join(render(byname[n]) for n in req)
                    singles = [STATE["singles"].get((key, n)) for n in req]
                    if all(s is not None for s in singles) and b"".join(singles) != want:
                        return "single-sample extraction differs from the 80-column rendering of its own records"
    if why:
        return f"exit 0 on a failure ({why})" if zero else None
    if not zero:
        return f"exit {rc} on a request that should succeed"
    got = unhx(f.get("out", "-")) if dst == "stdout" else (None if f.get("file") == "absent" else unhx(f.get("file")))
    if got != want:
        return ("output differs from the concatenation of the single-sample extractions: %d bytes, expected %d"
                % (-1 if got is None else len(got), len(want)))
    if dst != "stdout" and f.get("out", "-") != "-":
        return "bytes on stdout although -o was given"
    return None


def canon(case, line):
    line = re.sub(r"rc=nz\([^)]*\)", "rc=nz", line)
    if case.startswith("create N:"):
        # clap rejects an empty input list (exit 2) before create_archive's own `No input files provided`
        line = re.sub(r"err=(clap|noinputs|batch)", "err=noinputs|clap", line)
        line = re.sub(r"cap=\S+", "cap=*", line)
    return line


def nontrivial(case, impl):
    t = case.split()
    if t[0] == "getset":
        return not (t[4] == "nop" and len(t) == 6 and impl.startswith("rc=0"))
    return True


def finding_class(case, impl, why):
    t = case.split()
    if t[0] == "info":
        return "info-noop-exit0"
    if t[0] == "create" and "t=0" in t and ("timeout" in impl or "data=lost" in impl):
        return "create-threads-zero"
    return None


def search(ctx, budget):
    import random
    rng = random.Random(ctx.seed + 17)
    cases = [c for c in gen_cases(rng, "quick") if not (c.startswith("create") and expected_create(c.split())[0] is None)]
    res = vlib.run_impl(PROP, cases)
    found = [(c, i, oracle(c, i)) for c, i in zip(cases, res) if oracle(c, i)]
    return found, len(cases)


def extra_checks(ctx):
    ensure_cli()
    if STATE["build_err"]:
        return [("harness", "cargo build -p ragc-cli --release of /repo's working tree failed", STATE["build_err"], None)]
    return [("correspondence", "listctg vs getset", why, (c, i, why)) for c, i, why in STATE["anomalies"]]


def extra_coverage(ctx):
    return {"cli_binary": STATE["cli"], "cli_dev_binary": STATE["cli_dev"],
            "cli_invocations_at_generation": STATE["invocations"], "archives": STATE["archives"]}
