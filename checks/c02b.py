"""C02B - whole-archive part of C02: the AGC v3 decoder written from the format rules (coq/spec/AgcV3.v), extracted and
run in STRICT mode on the real bytes of real archives; its catalogue must equal ragc's own reader's and the input.
Generator of real archives (lib/gen_samples.py sets compressed through harness/src/mk.rs) with forced rare shapes,
a mutation stream (archives re-serialised through ragc_common::Archive with one format rule broken), hand-over of the
real file bytes + zstd table to the extracted decoder (model_cases), independent python oracle (ragc's extraction ==
truth.json)."""
import json, os, random, shutil, sys

sys.path.insert(0, os.path.join(os.path.dirname(os.path.dirname(os.path.abspath(__file__))), "lib"))
import gen_samples as G  # noqa

PROP = "C02B"
AREAS = ["agcv3", "groupstore", "archive", "collection", "tuple", "lz"]
THEOREMS = ["writer_eq_spec", "reader_eq_spec", "stream_names", "stream_names_wf", "decode_is_reader", "strict_sound",
            "codecs_instance", "container_half", "catalogue_half", "segment_half", "writer_conforms"]
PROFILES = ["dev"]
RULE = ("case `dec <dir> <params>` = a sample set (FASTA files) compressed by the real StreamingQueueCompressor exactly as "
        "ragc-cli drives it; the harness prints ragc's own extraction (Decompressor::list_samples/get_sample: names hex, "
        "bases as codes), the bytes of the .agc file and every zstd frame of it decompressed with the zstd crate. The "
        "extracted AgcV3.decode_strict (spec decoder + every addressing rule re-checked with the pinned constants) is run on "
        "those REAL file bytes with zd = lookup in that table and must print the same catalogue (names, order, bases); the "
        "python oracle compares ragc's extraction with truth.json (the input). case `mut <dir> <params> <kind> <seed>` = the "
        "same archive re-serialised through ragc_common::Archive with one rule broken (separator flipped/dropped, packs "
        "swapped, placeholder, 0/2 reference parts, metadata off/raw/zero, pack marker, a byte of a descriptor stream, params "
        "fields, stream name): outcome agreement - whenever the strict decoder accepts, ragc's reader must succeed with the "
        "same catalogue; a strict error code is always acceptable (the strict mode is stricter than ragc's reader). "
        "non-trivial = a dec case with at least one LZ group delta pack, or a mut case whose archive was rejected with a "
        "specific code; distinct = distinct case line")
TRUSTED = ["python oracle in checks/c02b.py (ragc's extraction == truth.json, IUPAC letter <-> code table written out)",
           "ocaml/c02b/driver.ml: zd = hash table from frame bytes to the bytes the zstd crate returned for it (zstd is the only "
           "oracle of the decoder); hex parsing, printing",
           "harness/src/bin/c02b.rs: which byte ranges of the archive are zstd frames (collection parts, the 5 frames of a "
           "details part after its 10 prefix varints, x* parts with metadata != 0 minus the marker byte); a frame missing from "
           "the table makes the decoder fail, it cannot make it succeed wrongly",
           "coq/spec/AgcV3.v: the pinned constants and rules are a hand transcription of the AGC v3 format (provenance in its header)",
           "lib/gen_samples.py + harness/src/mk.rs (the way ragc-cli drives the library)"]
ASSUMPTIONS = ["zstd: zd (zc l x) = Some x, zc l x <> [] (Section-style hypotheses of writer_conforms, catalogue_half, codecs_instance)",
               "writer_conforms: the archive content is GIVEN as the abstract container state (any op history whose streams hold "
               "Collection.store_all's parts, GroupStore's finalize parts and the 16-byte params); that the real pipeline produces "
               "such a history is C01/C04's business and is checked here on every real archive by the correspondence",
               "ops_ok / codec domains as in C02 (segments non-empty, codes 0..30, lengths below 2^31, raw groups without 0xFF); "
               "4 <= min_match_len; k, min_match_len, segment size below 2^32; later segments of a contig have at least k symbols (C10)",
               "catalogue hypotheses of C03 batches_roundtrip (names over bytes 1..127, ids below 2^31, stream lengths below 2^32)"]
CASEROOT = os.path.join(os.path.dirname(os.path.dirname(os.path.abspath(__file__))), ".cache", "c02bcases")
IMPL = {}           # case -> (status, catalogue string, stats dict) of the implementation (filled by model_cases)
MODEL = {}          # case -> model line head (filled by canon)
KINDS = ["flipsep", "dropsep", "swappacks", "placeholder", "tworefs", "noref", "metaoff", "metaraw", "metazero", "marker",
         "details", "ppack", "pk", "praw", "rename", "none"]


# ------------------------------------------------------------------------------------------------ generator
def _write(i, tag, samples, mode="multi"):
    d = os.path.join(CASEROOT, f"{tag}-{i}")
    shutil.rmtree(d, ignore_errors=True)
    if mode == "single":
        G.write_case(d, samples, mode="single")
    else:
        if len(samples) == 1:       # mk.rs: a single input file means PanSN mode; keep multi-file mode with a stub
            samples = samples + [("S999", [("stub", "ACGTACGTAC")])]
        G.write_case(d, samples, mode="multi")
    return d


def _pack(rng):
    """-l / pack_size.  The format's pack cardinality is the constant 50 (params stream, pack closing) whatever the
    option says; a writer that lets the option leak into `params` or into the pack layout is caught by params_ok /
    the pack rules of the strict decoder only when the option differs from 50"""
    return rng.choice([50, 50, 1, 2, 5, 20, 49, 51, 100, 1000])


def small_params(rng, k=None, s=None):
    k = k or rng.choice([9, 11, 15, 21, 31, 32])
    s = s or rng.choice([50, 100, 200, 500, 1000, 60000])
    return f"{k},{s},{rng.choice([15, 18, 20, 25, 32])},{_pack(rng)},{rng.choice([1, 2, 3, 4, 8, 16])},{rng.choice([1 << 31, 1 << 20, 4096])},{rng.choice([0, 0, 0, 0.1])}"


def shape_ordinary(rng):
    return G.gen_set(rng, nsamples=rng.choice([1, 2, 3, 4]), ncontigs=rng.choice([1, 2, 3]), clen=rng.choice([300, 800, 1500, 3000])), small_params(rng), "multi"


def shape_tiny_refs(rng):
    """stored-raw references: contigs of k .. 45 random symbols (zstd cannot shrink them)"""
    k = rng.choice([9, 11, 15])
    s = [(f"S{si:03d}", [(f"c{c}", G.rand_seq(rng, rng.choice([k, k + 1, k + 3, 2 * k, 30, 45]))) for c in range(rng.choice([1, 3, 6]))])
         for si in range(rng.choice([2, 5, 8]))]
    return s, f"{k},{rng.choice([20, 50])},15,{_pack(rng)},{rng.choice([1, 2])},{1 << 31},0", "multi"


def shape_repetitive(rng):
    """plain-zstd references (repetitive) next to tuple-packed ones (random)"""
    unit = G.rand_seq(rng, rng.choice([2, 3, 5, 8, 13]))
    rep = (unit * 400)[: rng.choice([600, 1200, 2500])]
    base = [("rep", rep), ("rnd", G.rand_seq(rng, rng.choice([600, 1500]))), ("half", rep[:300] + G.rand_seq(rng, 500))]
    s = [("S000", base)] + [(f"S{si:03d}", [(n, G.mutate(rng, q, 0.01) or "A") for n, q in base]) for si in range(1, rng.choice([2, 3]))]
    return s, small_params(rng, s=rng.choice([200, 500, 60000])), "multi"


def shape_iupac(rng):
    """tuple width changes with the largest symbol: <4 (ACGT), <6 (N, R), <16 (all IUPAC), plus N runs"""
    alph = rng.choice(["ACGTN", "ACGTNR", "ACGTNRYSWKMBDHVU", "ACGTNRYSWKMBDHVU"])
    base = [(f"c{c}", "".join(rng.choice(alph if rng.random() < 0.1 else "ACGT") for _ in range(rng.choice([400, 900, 2000])))) for c in range(rng.choice([1, 2, 3]))]
    s = [("S000", base)] + [(f"S{si:03d}", [(n, G.mutate(rng, q, 0.02, iupac_rate=0.01, nrun_rate=0.002) or "N") for n, q in base]) for si in range(1, rng.choice([2, 3, 4]))]
    return s, small_params(rng), "multi"


def shape_big_lz(rng):
    """> 50 entries in one LZ group, > 50 samples = several catalogue batches"""
    ns = rng.choice([64, 70, 103])
    k, sz = rng.choice([(11, 100), (15, 200), (11, 200)])
    p = f"{k},{sz},{rng.choice([15, 20, 25])},{_pack(rng)},{rng.choice([1, 2, 4, 8])},{1 << 31},0"
    return G.gen_big_group(rng, ns, clen=rng.choice([300, 450]), div=0.03), p, "multi"


def shape_many_short(rng):
    """> 784 contigs shorter than k: every raw group passes 49 entries (second pack)"""
    s = G.gen_set(rng, nsamples=rng.choice([1, 2]), ncontigs=1, clen=300, shape="many_short")
    s[-1] = (s[-1][0], s[-1][1][:1 + 830])
    return s, small_params(rng, k=rng.choice([9, 11, 15]), s=rng.choice([100, 500])), "multi"


def shape_revcomp(rng):
    """later samples are reverse complements of the first: re-oriented segments"""
    base = [(f"c{c}", G.rand_seq(rng, rng.choice([500, 1200, 2500]))) for c in range(rng.choice([1, 2, 3]))]
    s = [("S000", base)]
    for si in range(1, rng.choice([2, 3, 4])):
        s.append((f"S{si:03d}", [(n, G.revcomp(G.mutate(rng, q, 0.01, iupac_rate=rng.choice([0, 0.005]))) or "A") for n, q in base]))
    return s, small_params(rng, s=rng.choice([100, 200, 500])), "multi"


def shape_single(rng):
    return G.gen_set(rng, nsamples=rng.choice([2, 3, 5]), ncontigs=rng.choice([1, 2, 3]), clen=rng.choice([300, 800, 1500])), small_params(rng), "single"


SHAPES = [("ordinary", shape_ordinary), ("tiny_refs", shape_tiny_refs), ("repetitive", shape_repetitive), ("iupac", shape_iupac),
          ("big_lz", shape_big_lz), ("many_short", shape_many_short), ("revcomp", shape_revcomp), ("single", shape_single)]


def gen_cases(rng, tier, label=None):
    label = label or tier
    tag = f"{label}-{rng.getrandbits(32):08x}"
    os.makedirs(CASEROOT, exist_ok=True)
    for old in os.listdir(CASEROOT):
        if old.startswith(label + "-") and not old.startswith(tag):
            shutil.rmtree(os.path.join(CASEROOT, old), ignore_errors=True)
    reps = {"quick": [5, 2, 3, 3, 2, 2, 3, 2], "thorough": [90, 30, 40, 40, 25, 10, 40, 25]}[tier]
    cs, i = [], 0
    dirs = []
    for (name, f), n in zip(SHAPES, reps):
        for _ in range(n):
            s, p, mode = f(rng)
            d = _write(i, tag + "-" + name, s, mode); i += 1
            cs.append(f"dec {d} {p}")
            if name in ("ordinary", "tiny_refs", "big_lz", "revcomp", "iupac", "many_short"):
                dirs.append((d, p, name))
    # mutation stream: every kind on several archives (big_lz / many_short have streams with two packs)
    nmut = {"quick": 2, "thorough": 18}[tier]
    for kind in KINDS:
        if kind == "swappacks":
            pool = [x for x in dirs if x[2] in ("big_lz", "many_short")]
        elif kind == "placeholder":
            pool = [x for x in dirs if x[2] in ("many_short", "tiny_refs", "ordinary")]
        else:
            pool = [x for x in dirs if x[2] != "many_short"]
        for j in range(nmut if kind != "none" else 1):
            d, p, _ = pool[rng.randrange(len(pool))]
            cs.append(f"mut {d} {p} {kind} {rng.randrange(1, 1 << 30)}")
    return cs


# ------------------------------------------------------------------------------------------------ lines
def split_impl(line):
    """-> (status, catalogue string, stats string, tail = ' FILE ...' or None)"""
    t = line.split(" ", 2)
    if len(t) < 3 or t[1] != "CAT":
        return line.split(" ", 1)[0], None, None, None
    rest = t[2]
    i = rest.find(" FILE ")
    j = rest.find(" ST ")
    if i < 0 or j < 0:
        return t[0], None, None, None
    return t[0], rest[:j], rest[j + 4:i], rest[i:]


def model_cases(cases, impl_lines):
    out = []
    for c, line in zip(cases, impl_lines):
        st, cat, stats, tail = split_impl(line)
        sd = {}
        if stats and stats != "-":
            sd = {k: int(v) for k, v in (x.split("=") for x in stats.split(","))}
        IMPL[c] = (st, cat, sd)
        out.append("dec" + tail if tail is not None else "dec " + line[:200])
    return out


FAIL_HEADS = ("PANIC", "CREATE-ERR", "NOPLACE", "READ-ERR", "WRITE-ERR", "HARNESS-ERROR")


def canon(case, line):
    """model line: itself (a strict error on a mutant becomes STRICT-REJECTS); implementation line: an object that
    compares equal to the model's canonical line under the agreement rule (bin/check calls canon on the implementation's
    line first, so the rule for mutants - a strict rejection is always acceptable - is applied at comparison time)"""
    if " FILE " in line or line.startswith(FAIL_HEADS):
        return _Deferred(case, line)
    MODEL[case] = line[:40] if line.startswith("ERR ") else "OK"
    if case.startswith("mut ") and line.startswith("ERR "):
        return "STRICT-REJECTS"
    return line


class _Deferred:
    """implementation line of a case; compared with the (already canonical) model line"""
    def __init__(self, case, line):
        self.case, self.line = case, line

    def _val(self, other):
        kind = self.case.split(" ", 1)[0]
        st, cat, _, tail = split_impl(self.line)
        if tail is None:
            return self.line[:300]
        if kind == "mut" and other == "STRICT-REJECTS":
            return "STRICT-REJECTS"
        return f"{st} CAT {cat}"

    def __eq__(self, other):
        if isinstance(other, _Deferred):
            return self.line == other.line
        return self._val(other) == other

    def __ne__(self, other):
        return not self.__eq__(other)


# ------------------------------------------------------------------------------------------------ oracle
IUPAC = "ACGTNRYSWKMBDHVU"


def parse_cat(cat):
    """-> [(sample bytes, [(contig bytes, codes as list of int)])]"""
    t = cat.split(" ") if cat else []
    out, i = [], 0
    while i < len(t):
        if t[i] != "S":
            raise ValueError("catalogue token " + t[i][:20])
        name, n = bytes.fromhex(t[i + 1]) if t[i + 1] != "-" else b"", int(t[i + 2])
        i += 3
        cs = []
        for _ in range(n):
            nm, bases = t[i].split(":")
            cs.append((bytes.fromhex(nm) if nm != "-" else b"", [] if bases == "-" else [ord(ch) - 65 for ch in bases]))
            i += 1
        out.append((name, cs))
    return out


def oracle(case, line):
    kind = case.split(" ")[0]
    st, cat, stats, tail = split_impl(line)
    if kind == "mut":
        return None                                    # corrupted archives are outside the property; agreement only
    if tail is None:
        return "no archive / no extraction: " + line[:200]
    if st != "OK":
        return "ragc's reader failed on its own archive: " + line[:200]
    if str(MODEL.get(case, "")).startswith("ERR"):
        # the property itself: a reader built only from the format rules must recover every archive ragc writes
        return "the format-rule (strict) decoder rejects an archive ragc wrote: " + str(MODEL[case])
    truth = json.load(open(os.path.join(case.split(" ")[1], "truth.json")))
    got = parse_cat(cat)
    if [s for s, _ in got] != [s.encode() for s, _ in truth]:
        return "sample names / order differ from the input"
    for (s, cs), (_, tcs) in zip(got, truth):
        if [c for c, _ in cs] != [c.encode() for c, _ in tcs]:
            return f"contig names / order of {s!r} differ from the input"
        for (c, codes), (_, seq) in zip(cs, tcs):
            want = [IUPAC.index(ch) if ch in IUPAC else 4 for ch in seq.upper()]
            if codes != want:
                return f"bases of {s!r}/{c!r} differ from the input (len {len(codes)} vs {len(want)})"
    return None


def nontrivial(case, line):
    st, cat, sd = IMPL.get(case, (None, None, {}))
    if case.startswith("dec"):
        return bool(sd and sd.get("pack_raw", 0) + sd.get("pack_comp", 0) > 0 and sd.get("ref_plain", 0) + sd.get("ref_tuples", 0) + sd.get("ref_raw", 0) > 0)
    return MODEL.get(case, "").startswith("ERR ")


def extra_coverage(ctx):
    dec = {c: v for c, v in IMPL.items() if c.startswith("dec")}
    keys = ["ref_plain", "ref_tuples", "ref_raw", "pack_raw", "pack_comp", "lz_multi", "raw_multi", "rc"]
    arch = {k: sum(1 for v in dec.values() if v[2].get(k, 0) > 0) for k in keys}
    arch["batches_gt1"] = sum(1 for v in dec.values() if v[2].get("batches", 0) > 1)
    arch["maxsym_ge4"] = sum(1 for v in dec.values() if v[2].get("maxsym", 0) >= 4)
    arch["maxsym_ge6"] = sum(1 for v in dec.values() if v[2].get("maxsym", 0) >= 6)
    arch["single_file"] = sum(1 for c in dec if "-single-" in c)
    muts = {}
    for c in IMPL:
        if c.startswith("mut"):
            kind = c.split(" ")[3]
            m = MODEL.get(c, "?")
            key = m if m.startswith("ERR ") else ("accepted" if m.startswith("OK") else m[:20])
            impl = IMPL[c][0]
            muts.setdefault(kind, {}).setdefault(f"strict {key} / ragc {impl}", 0)
            muts[kind][f"strict {key} / ragc {impl}"] += 1
    return {"dec_archives": len(dec), "dec_archives_with": arch,
            "segments_decoded": sum(v[2].get("segs", 0) for v in dec.values()),
            "largest_archive_bytes": max([v[2].get("bytes", 0) for v in dec.values()] or [0]),
            "mutants": muts}


def search(ctx, budget):
    rng = random.Random(ctx.seed ^ 0xC02B)
    cs = [c for c in gen_cases(rng, "quick", "search") if c.startswith("dec")]
    while len(cs) < budget:
        cs += [c for c in gen_cases(rng, "quick", "search%d" % len(cs)) if c.startswith("dec")]
    cs = cs[:budget]
    lines = vlib.run_impl(PROP, cs, "dev")          # noqa: F821 (vlib is injected by bin/check)
    found = []
    for c, l in zip(cs, lines):
        why = oracle(c, l)
        if why:
            found.append((c, l[:4000], why))
    return found, len(cs)


def finding_class(case, line, why):
    return None
