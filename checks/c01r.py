"""C01R - the group registry (sub-check of C01): which group id a stored segment goes to (coq/model/Registry.v).
Generator of real archives (lib/gen_samples.py sets through harness/src/mk.rs) incl. > 16 orphans, duplicated contigs,
reverse complements, palindromic k-mer pairs (front == back) and the raw-key collision shapes (a splitter k-mer of value
< 16, i.e. poly-A, at the end of a contig); inference of the heuristics' answers from the real descriptor table
(model_cases); an independent python re-implementation of the registry rules that re-checks the invariants on the REAL
group ids (oracle)."""
import json, os, random, shutil, sys

sys.path.insert(0, os.path.join(os.path.dirname(os.path.dirname(os.path.abspath(__file__))), "lib"))
import gen_samples as G  # noqa

PROP = "C01R"
AREAS = ["kmer", "segment", "registry", "groupstore", "pipeline"]
THEOREMS = ["registry_source_pinned", "registry_injective", "registry_dense", "map_monotone", "add_known_never_drops",
            "process_new_allocates_nothing", "missing_fallback_unreachable", "buffer_per_group", "buffers_persist",
            "stored_label", "case2_key_rule", "same_key_same_group", "orphans_round_robin", "raw_groups_only_orphans",
            "raw_key_copied", "orphans_only_raw_refuted", "raw_only_orphans_refuted", "raw_key_hit_witness",
            "ops_carry_placements", "group_of_is_a_function", "stored_ids_distinct", "parts_agree_with_pipeline"]
PROFILES = ["dev"]
RULE = ("case `reg <dir> <params>` = a sample set (FASTA files) compressed by the real StreamingQueueCompressor exactly as "
        "ragc-cli drives it, hook log on; the harness prints k, the splitter set, the contigs of every sync round (ROUND "
        "events), the segment streams of the archive directory in registration order and the full descriptor table "
        "(sample, contig, part, group id, in-group id, rc flag, raw length). model_cases cuts every input contig with an "
        "independent python segmentation, aligns raw segments with descriptors (lengths tell splits), and infers the "
        "heuristics' answer per raw segment (existing-group candidates, middle k-mer, split decision) from the observed "
        "groups; the extracted Segment.split_at_splitters_with_size + Registry.run_rounds are run from reg_init with those "
        "answers and must print the same (sample, contig, part, group id, rc flag) table and the same stream registration "
        "order: every group id, every orientation flag (Case 2 and split halves are computed, not inferred), every part "
        "number. The python oracle re-checks on the real ids: same Case-2 key => same id, distinct registered keys => "
        "distinct ids, ids >= 16 dense in registration order, flag = (front >= back), orphans round robin over 0..15 in "
        "classification order, stream order; deviations explained by the raw-key collision (a registered key (g, MISSING) "
        "with g < 16) are counted, not flagged. non-trivial = >= 2 rounds and >= 3 LZ groups or > 16 orphans; distinct = "
        "distinct case line")
TRUSTED = ["python oracle and inference in checks/c01r.py (own k-mer packing, segmentation and registry rules; an answer that "
           "explains nothing makes the model line differ, it cannot make it agree)",
           "ocaml/c01r/driver.ml: parsing, the identity as s_seg_part iteration order, printing",
           "harness/src/bin/c01r.rs: footer parser for the stream names, matching names against stream_delta_name / stream_ref_name",
           "lib/gen_samples.py + harness/src/mk.rs (the way ragc-cli drives the library); ROUND hook events (H3)"]
ASSUMPTIONS = ["fewer than 2^32 - 16 groups and 2^32 orphans per run (AtomicU32::fetch_add wraps; theorems carry `no_wrap`)",
               "contig names distinct within a round (push rejects a repeated name)",
               "the heuristics are total functions returning (key, flag) / middle / decision: any answers (oracle); "
               "find_middle_splitter never returns MISSING (hypothesis `mid_ok` where used)",
               "s_seg_part iteration order is some permutation of the insertions",
               "fallback_frac > 0 archives: a fallback key that is not registered cannot be read off the archive; such cases "
               "are checked for consistency only (hook wanted: the classified key per raw segment)"]
CASEROOT = os.path.join(os.path.dirname(os.path.dirname(os.path.abspath(__file__))), ".cache", "c01rcases")
M64 = (1 << 64) - 1
MISS = M64
INFO = {}        # case -> dict(stats) filled by model_cases
UNDERIVED = set()


def hx(b):
    return "".join("%02x" % x for x in b) if len(b) else "-"


# ------------------------------------------------------------------------------------------------ k-mers, segmentation
def pack(w, k):
    v = 0
    for b in w:
        v = v * 4 + b
    return (v << (64 - 2 * k)) & M64


def kcanon(w, k):
    d, r = pack(w, k), pack([3 - b for b in reversed(w)], k)
    return min(d, r), d <= r


def segment(c, k, spl):
    """split_at_splitters_with_size re-done from its description: -> [(start, end, front, back, fdir, bdir)]"""
    n = len(c)
    if n < k:
        return [(0, n, MISS, MISS, False, False)]
    out, start, front, fdir, run = [], 0, MISS, False, 0
    for pos, b in enumerate(c):
        if b > 3:
            run = 0
            continue
        run += 1
        if run >= k:
            v, isdir = kcanon(c[pos + 1 - k:pos + 1], k)
            if v in spl:
                out.append((start, pos + 1, front, v, fdir if front != MISS else False, isdir))
                start, front, fdir, run = pos + 1 - k, v, isdir, 0
    if start < n:
        if front == MISS:
            out.append((start, n, MISS, MISS, False, False))
        else:
            out.append((start, n, front, MISS, fdir, False))
    return out or [(0, n, MISS, MISS, False, False)]


# ------------------------------------------------------------------------------------------------ registry rules (python)
class Reg:
    """the registry as the Rust reads (independent of Registry.v): map_segments, counters, buffers"""
    def __init__(self, fb, nosplit=False):
        self.map = {(MISS, MISS): 0}
        self.gc, self.rgc, self.vlen = 16, 0, 16
        self.bufs = {}            # key -> group id of the buffer
        self.streams = []
        self.fb, self.nosplit = fb, nosplit
        self.vl = []              # (gid, item) in add_known order
        self.registered = []      # keys in registration order

    @staticmethod
    def pick(fb_en, cur, fbans, inv):
        kf, kb, sr = cur
        if (kf == MISS or kb == MISS) and fb_en:
            a, b, s = fbans
            if a != MISS and b != MISS:
                return (a, b, (not s) if inv else s)
        return cur

    def key_of(self, seg, ans):
        _, _, front, back, fdir, bdir = seg
        one, fbans = ans.get("one", (MISS, MISS, False)), ans.get("fb", (MISS, MISS, False))
        if front != MISS and back != MISS:
            return (front, back, False) if front < back else (back, front, True)
        if front != MISS:
            return self.pick(self.fb, one, fbans, False)
        if back != MISS:
            return self.pick(self.fb, (one[0], one[1], not one[2]), fbans, True)
        return self.pick(self.fb, (MISS, MISS, False), fbans, False)

    def classify(self, seg, ans, part, apply=True):
        """-> ([(part, classified gid, flag, key)], part increment, kind)"""
        _, _, front, back, _, _ = seg
        kf, kb, sr = self.key_of(seg, ans)
        key = (kf, kb)
        if key in self.map:
            if key == (MISS, MISS):
                g = self.rgc % 16
                if apply:
                    self.rgc = (self.rgc + 1) & 0xFFFFFFFF
                return [(part, g, sr, key)], 1, "orphan"
            return [(part, self.map[key], sr, key)], 1, "known"
        if not self.nosplit and kf != MISS and kb != MISS and kf != kb and ans.get("mid") is not None:
            m = ans["mid"]
            lk = (kf, m) if kf <= m else (m, kf)
            rk = (m, kb) if m <= kb else (kb, m)
            if lk in self.map and rk in self.map:
                sd = ans.get("sd", "n")
                if sd == "a":
                    lrc, rrc = ((m >= back, front >= m) if sr else (front >= m, m >= back))
                    lp, rp = (part + 1, part) if sr else (part, part + 1)
                    return [(lp, self.map[lk], lrc, lk), (rp, self.map[rk], rrc, rk)], 2, "split"
                if sd == "l":
                    return [(part, self.map[lk], (m >= back) if sr else (front >= m), lk)], 1, "assign"
                if sd == "r":
                    return [(part, self.map[rk], (front >= m) if sr else (m >= back), rk)], 1, "assign"
        g = self.gc
        if apply:
            self.map[key] = g
            self.registered.append(key)
            self.gc = (self.gc + 1) & 0xFFFFFFFF
            self.vlen = max(self.vlen, g + 1)
        return [(part, g, sr, key)], 1, "new"

    def key_of_gid(self, g):
        if g < 16:
            return (g, MISS)
        ks = [k for k, v in self.map.items() if v == g]
        return max(ks) if ks else (MISS, MISS)

    def end_round(self):
        """prepare_batch_parallel + cleanup_batch_parallel: -> [(stored gid, item)]"""
        if not self.vl:
            return []
        coll = sorted(self.vl, key=lambda x: x[0])        # per group; the order inside a group does not matter here
        existing = set(self.bufs.values())
        for g in sorted({g for g, _ in coll if g not in existing}):
            for kind in "dr":
                if (g, kind) not in self.streams:
                    self.streams.append((g, kind))
        out, batch = [], {}
        for g, it in coll:
            k = self.key_of_gid(g)
            batch[k] = g
            if k not in self.bufs:
                self.bufs[k] = g
            out.append((self.bufs[k], it))
        for k, g in batch.items():
            self.map.setdefault(k, g)
        self.vl = []
        return out


# ------------------------------------------------------------------------------------------------ impl line
def parse(line):
    if not line.startswith("OK "):
        return None
    f = dict(x.split("=", 1) for x in line.split(" ")[1:])
    d = []
    if f["D"] != "-":
        for e in f["D"].split(";"):
            s, c, p, g, i, rc, ln = e.split(":")
            d.append((s, c, int(p), int(g), int(i), rc == "1", int(ln)))
    rounds = [] if f["R"] == "-" else [[tuple(x.split(":")) for x in r.split(",")] for r in f["R"].split("/")]
    streams = [] if f["G"] == "-" else [tuple(x.split(":")) for x in f["G"].split(",")]
    spl = set() if f["spl"] == "-" else {int(x, 16) for x in f["spl"].split(",")}
    return {"k": int(f["k"]), "spl": spl, "rounds": rounds, "streams": streams, "D": d}


def truth_codes(case):
    d = case.split(" ")[1]
    t = json.load(open(os.path.join(d, "truth.json")))
    out = {}
    for s, cs in t:
        for c, q in cs:
            out[(hx(s.encode()), hx(c.encode()))] = [G.CODE.get(ch, 4) for ch in q.upper()]
    return out


def analyse(case, line):
    """inference + independent re-check. -> dict(model_case=..., problems=[...], stats={...})"""
    P = parse(line)
    if P is None:
        return {"model_case": "reg-error " + line[:100], "problems": ["no archive: " + line[:200]], "stats": {}}
    params = case.split(" ")[2].split(",")
    k = P["k"]
    ff = float(params[6]) if len(params) > 6 else 0.0
    fb = ff != 0.0
    contigs = truth_codes(case)
    descs = {}
    for s, c, p, g, i, rc, ln in P["D"]:
        descs.setdefault((s, c), []).append((p, g, rc, ln))
    problems, deviations = [], []
    reg = Reg(fb)
    stats = {"rounds": len(P["rounds"]), "orphans": 0, "case2": 0, "case3": 0, "splits": 0, "assigns": 0, "known": 0, "new": 0,
             "front_eq_back": 0, "rc_case2": 0, "collision_misroutes": 0, "small_key_hits": 0, "unexplained": 0}
    toks = []
    group_first_case2 = {}
    # look-ahead for fallback keys (ff > 0): the first Case-2 key observed unsplit in each group
    segs_of = {}
    for key, codes in contigs.items():
        segs_of[key] = segment(codes, k, P["spl"])
    for (s, c), ds in descs.items():
        ds.sort()
        sg = segs_of.get((s, c))
        if sg is None:
            problems.append(f"[hard] descriptor for an unknown contig {s}:{c}")
            continue
        pi = 0
        for seg in sg:
            L = seg[1] - seg[0]
            if pi < len(ds) and ds[pi][3] == L:
                if seg[2] != MISS and seg[3] != MISS:
                    kk = (min(seg[2], seg[3]), max(seg[2], seg[3]))
                    if ds[pi][2] == (seg[2] >= seg[3]):
                        group_first_case2.setdefault(ds[pi][1], kk)
                pi += 1
            else:
                pi += 2
    seen = set()
    def gid_match(r, og):
        """classified group of a candidate vs the observed STORED group (equal up to the raw-key collision)"""
        if r[1] == og:
            return True
        kk = r[3]
        if kk[1] == MISS and kk[0] < 16 and og == kk[0]:
            return True                                   # key (x, MISSING), x < 16, stored in raw group x
        return kk == (MISS, MISS) and og >= 16 and reg.map.get((r[1], MISS), -1) == og   # orphan in the colliding LZ group
    real_of_item = {}
    for rnd in P["rounds"]:
        toks.append("R")
        order = sorted(rnd, key=lambda sc: (bytes.fromhex(sc[0]) if sc[0] != "-" else b"", bytes.fromhex(sc[1]) if sc[1] != "-" else b""))
        for (s, c) in order:
            if (s, c) in seen:
                problems.append(f"[hard] contig {s}:{c} in two rounds")
            seen.add((s, c))
            codes = contigs.get((s, c))
            if codes is None:
                problems.append(f"[hard] round contig {s}:{c} not in truth.json")
                continue
            ds = descs.get((s, c), [])
            if [d[0] for d in ds] != list(range(len(ds))):
                problems.append(f"[hard] part numbers of {s}:{c} are not 0..n-1")
            part, answers = 0, []
            for place, seg in enumerate(segs_of[(s, c)]):
                L = seg[1] - seg[0]
                front, back = seg[2], seg[3]
                obs = None
                if part < len(ds) and ds[part][3] == L:
                    obs = [ds[part]]
                elif part + 1 < len(ds) and ds[part][3] + ds[part + 1][3] == L + k:
                    obs = [ds[part], ds[part + 1]]
                if obs is None:
                    problems.append(f"{s}:{c} raw segment {place} (len {L}) does not match the descriptors at part {part}")
                    answers.append("d")
                    part += 1
                    continue
                # candidate answers
                cands = [{}]
                both = front != MISS and back != MISS
                if both:
                    kf, kb = (front, back) if front < back else (back, front)
                    if (kf, kb) not in reg.map and kf != kb:
                        mids = {x for (a, b) in reg.map for x in (a, b) if a != MISS and b != MISS}
                        for m in sorted(mids):
                            lk = (kf, m) if kf <= m else (m, kf)
                            rk = (m, kb) if m <= kb else (kb, m)
                            if lk in reg.map and rk in reg.map:
                                cands += [{"mid": m, "sd": sd} for sd in "alr"]
                else:
                    v = front if front != MISS else back
                    if v != MISS:
                        isdir = seg[4] if front != MISS else (not seg[5])
                        cands = [{"one": (v, MISS, False) if isdir else (MISS, v, True)}]
                        for (a, b) in list(reg.map):
                            if a != MISS and b != MISS and v in (a, b):
                                cands += [{"one": (a, b, False)}, {"one": (a, b, True)}]
                    if fb:
                        base = list(cands)
                        fbk = [kk for kk in reg.map if kk[0] != MISS and kk[1] != MISS]
                        la = group_first_case2.get(obs[0][1])
                        if la is not None and la not in reg.map:
                            fbk.append(la)
                        for b0 in base[:1]:
                            for (a, b) in fbk:
                                cands += [dict(b0, fb=(a, b, False)), dict(b0, fb=(a, b, True))]
                chosen = None
                for a in cands:
                    res, inc, kind = reg.classify(seg, a, part, apply=False)
                    if len(res) != len(obs):
                        continue
                    res_s = sorted(res)
                    if all(r[0] == o[0] and gid_match(r, o[1]) and r[2] == o[2] for r, o in zip(res_s, obs)):
                        chosen = a
                        break
                if chosen is None:
                    stats["unexplained"] += 1
                    if fb:
                        UNDERIVED.add(case)
                    else:
                        problems.append(f"{s}:{c} raw segment {place}: no answer of the heuristics explains the observed "
                                        f"descriptors {obs} (front={front:x} back={back:x})")
                    chosen = {}
                res, inc, kind = reg.classify(seg, chosen, part, apply=True)
                for r in res:
                    reg.vl.append((r[1], (s, c, r[0], r[2])))
                # ---- independent checks on the REAL ids
                if kind == "orphan":
                    stats["orphans"] += 1
                elif both:
                    stats["case2"] += 1
                    if front == back:
                        stats["front_eq_back"] += 1
                    if front >= back and kind in ("known", "new"):
                        stats["rc_case2"] += 1
                else:
                    stats["case3"] += 1
                stats["splits"] += kind == "split"
                stats["assigns"] += kind == "assign"
                stats["known"] += kind == "known"
                stats["new"] += kind == "new"
                if kind in ("known", "new") and both and len(obs) == 1 and obs[0][2] != (front >= back):
                    problems.append(f"{s}:{c} part {part}: Case-2 flag {obs[0][2]} but front >= back is {front >= back}")
                if kind == "known" and res[0][3][1] == MISS and res[0][3][0] < 16 and res[0][1] < 16:
                    stats["small_key_hits"] += 1
                    deviations.append(f"{s}:{c} part {part}: one-k-mer key ({res[0][3][0]:x}, MISSING) found as raw group {res[0][1]}")
                a = chosen
                tri = lambda t: "%x.%x.%d" % (t[0], t[1], 1 if t[2] else 0)
                if not a:
                    answers.append("d")
                else:
                    answers.append("~".join([tri(a.get("one", (MISS, MISS, False))), tri(a.get("fb", (MISS, MISS, False))),
                                             ("%x" % a["mid"]) if a.get("mid") is not None else "n", a.get("sd", "n")]))
                part += inc
            if part != len(ds):
                problems.append(f"{s}:{c}: {len(ds)} descriptors but the raw segments account for {part}")
            toks.append(f"{s}:{c}:{hx(bytes(codes))}:{','.join(answers)}")
        # end of round: stored groups, compared with the real table
        for g, (s, c, pt, rc) in reg.end_round():
            real = next((d for d in descs.get((s, c), []) if d[0] == pt), None)
            if real is None:
                problems.append(f"{s}:{c} part {pt} has no real descriptor")
            elif real[1] != g or real[2] != rc:
                problems.append(f"{s}:{c} part {pt}: real (group {real[1]}, rc {real[2]}) but the registry rules give (group {g}, rc {rc})")
    missing = [sc for sc in descs if sc not in seen]
    if missing:
        problems.append(f"[hard] {len(missing)} contigs with descriptors were in no ROUND event, e.g. {missing[0]}")
    # ---- invariants on the real ids (no use of the inferred answers beyond which keys were REGISTERED)
    gids = sorted({d[1] for ds in descs.values() for d in ds})
    sg = [(int(g), kind) for g, kind, _ in P["streams"]]
    lz_streams = sorted({g for g, _ in sg if g >= 16})
    if lz_streams != list(range(16, 16 + len(lz_streams))):
        problems.append(f"[hard] LZ group ids with streams are not dense from 16: {lz_streams[:20]}")
    if any(g not in {x for x, _ in sg} for g in gids):
        problems.append("[hard] a descriptor's group has no stream")
    if reg.gc != 16 + len(lz_streams) and not UNDERIVED & {case}:
        problems.append(f"{len(lz_streams)} LZ groups have streams but {reg.gc - 16} keys were registered")
    for i in range(0, len(sg) - 1, 2):
        if not (sg[i][0] == sg[i + 1][0] and sg[i][1] == "d" and sg[i + 1][1] == "r"):
            problems.append(f"[hard] stream pair {i}: {sg[i]} {sg[i + 1]} is not x<id>d then x<id>r")
            break
    if [(g, kd) for g, kd in sg] != [(g, kd) for g, kd in reg.streams]:
        problems.append(f"stream registration order differs: real {sg[:12]} rules {reg.streams[:12]}")
    # distinct registered keys <-> distinct ids, dense in registration order
    if [reg.map[kk] for kk in reg.registered] != list(range(16, 16 + len(reg.registered))):
        problems.append("registered keys do not carry 16, 17, .. in registration order")
    # misroutes: a segment whose classified key says LZ group G stored in a raw group, or an orphan stored in an LZ group
    coll = {g0: G_ for (g0, m_), G_ in reg.map.items() if m_ == MISS and g0 < 16 and G_ >= 16}
    if coll:
        for (s, c), ds in descs.items():
            sgs = segs_of[(s, c)]
            if len(sgs) == 1 and sgs[0][2] == MISS and sgs[0][3] == MISS and ds and ds[0][1] >= 16 and not fb:
                stats["collision_misroutes"] += 1
                deviations.append(f"orphan {s}:{c} stored in LZ group {ds[0][1]}")
        for g0, G_ in coll.items():
            if reg.bufs.get((g0, MISS)) == g0:
                n = sum(1 for ds in descs.values() for d in ds if d[1] == g0)
                deviations.append(f"key ({g0:x}, MISSING) registered as group {G_} but its segments are stored in raw group {g0} ({n} entries)")
                stats["collision_misroutes"] += 1
    elif not fb:
        for (s, c), ds in descs.items():
            sgs = segs_of[(s, c)]
            orphan = len(sgs) == 1 and sgs[0][2] == MISS and sgs[0][3] == MISS
            for d in ds:
                if orphan and d[1] >= 16:
                    problems.append(f"orphan {s}:{c} stored in LZ group {d[1]} without a colliding key")
                if not orphan and d[1] < 16 and not stats["small_key_hits"]:
                    problems.append(f"{s}:{c} part {d[0]} (not an orphan) stored in raw group {d[1]}")
    stats["lz_groups"] = len(lz_streams)
    stats["deviations"] = deviations[:6]
    mc = f"reg {k} {','.join('%x' % x for x in sorted(P['spl'])) if P['spl'] else '-'} {1 if fb else 0} 0 " + " ".join(toks)
    return {"model_case": mc, "problems": problems, "stats": stats}


def model_cases(cases, impl_lines):
    out = []
    for c, l in zip(cases, impl_lines):
        try:
            a = analyse(c, l)
        except Exception as e:                       # a malformed line is a finding of the harness, not a crash of the check
            a = {"model_case": "reg-error", "problems": [f"analysis failed: {e!r}"], "stats": {}}
        INFO[c] = a
        out.append(a["model_case"])
    return out


def canon(case, line):
    """both lines reduced to: stream registration order + (sample, contig, part, group, rc) sorted"""
    if line.startswith("OK k="):
        P = parse(line)
        d = sorted((s, c, p, g, rc) for s, c, p, g, _, rc, _ in P["D"])
        ds = ";".join(f"{s}:{c}:{p}:{g}:{1 if rc else 0}" for s, c, p, g, rc in d) or "-"
        gs = ",".join(f"{g}:{kd}" for g, kd, _ in P["streams"]) or "-"
        if case in UNDERIVED:
            return "UNDERIVED"
        return f"G={gs} D={ds}"
    if line.startswith("OK gc="):
        if case in UNDERIVED:
            return "UNDERIVED"
        t = line.split(" ")
        f = dict(x.split("=", 1) for x in t[1:])
        return f"G={f['G']} D={f['D']}"
    return line[:300]


def oracle(case, line):
    a = INFO.get(case)
    if a is None:
        try:
            a = analyse(case, line)
        except Exception as e:
            return f"analysis failed: {e!r}"
        INFO[case] = a
    probs = a["problems"]
    if case in UNDERIVED:        # fallback key not derivable: only what does not depend on the inferred answers
        probs = [p for p in probs if p.startswith("[hard]")]
    if probs:
        return "; ".join(probs[:3])
    return None


def nontrivial(case, line):
    st = INFO.get(case, {}).get("stats", {})
    return bool(st) and st.get("rounds", 0) >= 2 and (st.get("lz_groups", 0) >= 3 or st.get("orphans", 0) > 16)


def extra_coverage(ctx):
    keys = ["orphans", "case2", "case3", "splits", "assigns", "known", "new", "front_eq_back", "rc_case2",
            "collision_misroutes", "small_key_hits", "unexplained"]
    tot = {k: sum(v["stats"].get(k, 0) for v in INFO.values() if v.get("stats")) for k in keys}
    arch = {k: sum(1 for v in INFO.values() if v.get("stats") and v["stats"].get(k, 0) > 0) for k in keys}
    arch["orphans_gt16"] = sum(1 for v in INFO.values() if v.get("stats") and v["stats"].get("orphans", 0) > 16)
    arch["rounds_gt2"] = sum(1 for v in INFO.values() if v.get("stats") and v["stats"].get("rounds", 0) > 2)
    devs = [d for v in INFO.values() if v.get("stats") for d in v["stats"].get("deviations", [])][:8]
    return {"registry_totals": tot, "archives_with": arch, "archives": len(INFO),
            "fallback_cases_consistency_only": len(UNDERIVED), "raw_key_collision_deviations": devs}


# ------------------------------------------------------------------------------------------------ generator
def _write(tag, i, samples, mode="multi"):
    d = os.path.join(CASEROOT, f"{tag}-{i}")
    shutil.rmtree(d, ignore_errors=True)
    if mode == "multi" and len(samples) == 1:
        samples = samples + [("S999", [("stub", "ACGTACGTAC")])]
    G.write_case(d, samples, mode=mode)
    return d


def params(rng, k=None, s=None, ff=0, threads=None):
    k = k or rng.choice([9, 11, 15, 21, 31, 32])
    s = s or rng.choice([50, 100, 200, 500, 1000])
    return f"{k},{s},{rng.choice([15, 18, 20, 25])},50,{threads or rng.choice([1, 2, 3, 4, 8, 16])},{rng.choice([1 << 31, 1 << 20, 4096])},{ff}"


def nopoly(s):
    return s.replace("AAAA", "ACGA").replace("TTTT", "TGCT")


def shape_ordinary(rng):
    return G.gen_set(rng, nsamples=rng.choice([2, 3, 4, 6]), ncontigs=rng.choice([1, 2, 3, 5]), clen=rng.choice([300, 800, 1500, 3000])), params(rng), "multi"


def shape_many_short(rng):
    s = G.gen_set(rng, nsamples=rng.choice([2, 3]), ncontigs=rng.choice([1, 2]), clen=400, shape="many_short")
    n = rng.choice([20, 40, 100, 300])
    s[-1] = (s[-1][0], s[-1][1][:3 + n])
    # orphans in the reference sample too (round 1), so that the raw keys are copied before round 2
    s[0] = (s[0][0], s[0][1] + [(f"u{j}", G.rand_seq(rng, rng.randint(1, 7))) for j in range(rng.choice([0, 3, 18, 35]))])
    return s, params(rng, k=rng.choice([9, 11, 15]), s=rng.choice([50, 100, 200])), "multi"


def shape_dup_rc(rng):
    """duplicated contigs and reverse complements: the same key reached from both orientations"""
    base = [(f"c{c}", G.rand_seq(rng, rng.choice([400, 900, 1800]))) for c in range(rng.choice([1, 2, 3]))]
    s = [("S000", base)]
    for si in range(1, rng.choice([2, 3, 4])):
        cs = []
        for n, q in base:
            m = G.mutate(rng, q, rng.choice([0, 0.005, 0.02])) or "A"
            cs.append((n, G.revcomp(m) if rng.random() < 0.5 else m))
            if rng.random() < 0.4:
                cs.append((n + "_dup", q))
            if rng.random() < 0.3:
                cs.append((n + "_rc", G.revcomp(q)))
        s.append((f"S{si:03d}", cs))
    return s, params(rng, s=rng.choice([50, 100, 200])), "multi"


def shape_divergent(rng):
    """high divergence and rearrangements: new keys in later samples, split attempts, assigns"""
    k = rng.choice([9, 11, 15])
    base = G.rand_seq(rng, rng.choice([1500, 3000]))
    s = [("S000", [("c0", base)])]
    for si in range(1, rng.choice([3, 5, 8])):
        q = base
        for _ in range(rng.choice([1, 2, 4])):
            a = rng.randrange(len(q)); b = min(len(q), a + rng.choice([40, 120, 400]))
            kind = rng.random()
            if kind < 0.4:
                q = q[:a] + q[b:]                                  # deletion: a splitter lost, a new key
            elif kind < 0.7:
                q = q[:a] + G.rand_seq(rng, b - a) + q[b:]          # replaced stretch
            else:
                q = q[:a] + G.revcomp(q[a:b]) + q[b:]               # inversion
        s.append((f"S{si:03d}", [("c0", G.mutate(rng, q, rng.choice([0, 0.002, 0.01])) or "A")]))
    return s, params(rng, k=k, s=rng.choice([50, 100, 200])), "multi"


def shape_palindrome(rng):
    """front == back: a later sample contains a splitter window of the reference and, one stretch further, its reverse
    complement (the splitter set comes from a pre-pass through the harness, case `spl`)"""
    k = rng.choice([9, 11, 15]); seg = rng.choice([50, 100])
    ref = G.rand_seq(rng, rng.choice([600, 1200]))
    p = f"{k},{seg},15,50,{rng.choice([1, 4])},{1 << 31},0"
    d = os.path.join(CASEROOT, "_spl")
    shutil.rmtree(d, ignore_errors=True)
    G.write_case(d, [("S000", [("c0", ref)]), ("S001", [("x", "A")])], mode="multi")
    line = vlib.run_impl(PROP, [f"spl {d} {p}"], "dev")[0]          # noqa: F821 (vlib is injected by bin/check)
    spl = set() if not line.startswith("OK ") or line == "OK -" else {int(x, 16) for x in line[3:].split(",")}
    ends = [e for (_, e, _, b, _, _) in segment([G.CODE[c] for c in ref], k, spl) if b != MISS]
    cs = []
    for j, e in enumerate(ends[: rng.choice([2, 4, 8])]):
        w = ref[e - k:e]
        filler = nopoly(G.rand_seq(rng, rng.choice([5, 30, 80])))
        # S w filler rc(w) T : the raw segment from w to rc(w) has front == back
        cs.append((f"p{j}", ref[max(0, e - 60):e] + filler + G.revcomp(w) + G.rand_seq(rng, rng.choice([0, 10, 60]))))
        if rng.random() < 0.5:    # twice the same palindromic pair: same key (v, v), second one KNOWN
            cs.append((f"q{j}", G.rand_seq(rng, 20) + w + nopoly(G.rand_seq(rng, 25)) + G.revcomp(w) + G.rand_seq(rng, 15)))
    return [("S000", [("c0", ref)]), ("S001", cs or [("c0", ref)]), ("S002", [("c0", G.mutate(rng, ref, 0.01) or "A")] + cs[:2])], p, "multi"


def shape_polyA(rng, which=None):
    """the raw-key collision: poly-A (k-mer value 0) is a splitter and ends a contig, so a one-k-mer key (0, MISSING) /
    (MISSING, 0) arises; orphans in the same or a later round"""
    k = rng.choice([9, 11, 15]); seg = 50
    which = which or rng.choice("ABC")
    r1 = nopoly(G.rand_seq(rng, seg))[:-1] + "C"
    tail = "G" + nopoly(G.rand_seq(rng, rng.choice([6, 8])))
    ref = r1 + "A" * k + tail
    mid = r1 + "A" * k + "G" + nopoly(G.rand_seq(rng, 150))
    orph = lambda n, p: [(f"{p}{j:02d}", G.rand_seq(rng, rng.randint(1, k - 1))) for j in range(n)]
    if which == "A":      # the key and orphans in the same round: the key's segments land in raw group 0
        s = [("S000", [("chr0", ref)] + orph(rng.choice([1, 3, 20]), "o")), ("S001", [("chr0", ref[:20] + "G" + ref[21:])] + orph(2, "q"))]
    elif which == "B":    # the key first, orphans later: every 16th orphan lands in the LZ group
        s = [("S000", [("chr0", ref)]), ("S001", [("chr0", ref[:20] + "G" + ref[21:])] + orph(rng.choice([3, 20, 40]), "o"))]
    else:                 # orphans first (raw keys copied into map_segments), the key later: found as KNOWN raw group
        s = [("S000", [("chr0", mid)] + orph(rng.choice([1, 17, 20]), "o")), ("S001", [("chr0", ref), ("chr1", G.revcomp(ref))] + orph(3, "q"))]
    return s, f"{k},{seg},15,50,{rng.choice([1, 3])},{1 << 31},0", "multi"


def shape_single(rng):
    """single-file (PanSN) mode: a sync round every 50 contigs, globally"""
    s = G.gen_set(rng, nsamples=rng.choice([2, 3, 5]), ncontigs=rng.choice([2, 3, 5]), clen=rng.choice([200, 500]))
    extra = rng.choice([0, 60, 130])
    if extra:
        i = rng.randrange(len(s))
        s[i] = (s[i][0], s[i][1] + [(f"z{j}", G.rand_seq(rng, rng.choice([3, 7, 40, 120]))) for j in range(extra)])
    return s, params(rng, k=rng.choice([9, 11, 15]), s=rng.choice([50, 100])), "single"


def shape_fallback(rng):
    s, p, m = shape_ordinary(rng) if rng.random() < 0.5 else shape_divergent(rng)
    return s, ",".join(p.split(",")[:6] + [rng.choice(["0.1", "0.5", "1"])]), m


SHAPES = [("ordinary", shape_ordinary), ("many_short", shape_many_short), ("dup_rc", shape_dup_rc), ("divergent", shape_divergent),
          ("palindrome", shape_palindrome), ("polyA", shape_polyA), ("single", shape_single), ("fallback", shape_fallback)]


def gen_cases(rng, tier, label=None):
    label = label or tier
    tag = f"{label}-{rng.getrandbits(32):08x}"
    os.makedirs(CASEROOT, exist_ok=True)
    for old in os.listdir(CASEROOT):
        if old.startswith(label + "-") and not old.startswith(tag):
            shutil.rmtree(os.path.join(CASEROOT, old), ignore_errors=True)
    reps = {"quick": [8, 5, 6, 8, 4, 6, 4, 3], "thorough": [500, 200, 300, 500, 200, 200, 200, 150]}[tier]
    cs, i = [], 0
    for (name, f), n in zip(SHAPES, reps):
        for j in range(n):
            s, p, mode = f(rng, "ABC"[j % 3]) if name == "polyA" else f(rng)
            d = _write(tag + "-" + name, i, s, mode); i += 1
            cs.append(f"reg {d} {p}")
    return cs


def search(ctx, budget):
    rng = random.Random(ctx.seed ^ 0xC01B)
    cs = []
    while len(cs) < budget:
        cs += gen_cases(rng, "quick", "search%d" % len(cs))
    cs = cs[:budget]
    lines = vlib.run_impl(PROP, cs, "dev")          # noqa: F821 (vlib is injected by bin/check)
    found = []
    for c, l in zip(cs, lines):
        INFO.pop(c, None)
        why = oracle(c, l)
        if why:
            found.append((c, l[:4000], why))
    return found, len(cs)


def finding_class(case, line, why):
    return None
