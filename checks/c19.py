"""C19 extraction is invariant under how the input is presented: generator (presentations of generated sample
sets: plain / gzip / multi-member gzip / BGZF, widths, LF / CRLF, case; PanSN file vs per-sample files), oracle
(the same records whatever the presentation; identical archive sha256), search.  Shares the Fasta model, the case
language and the Python FASTA reader with checks/c16.py; `shas` / `pairv` / `pairn` / `cli` cases run the real
`ragc` binary from the harness."""
import gzip, importlib.util, os, struct, sys, zlib

PROP = "C19"
AREAS = ["fasta"]
SUBCHECKS = ["C19G"]   # gzip layer joined with C17G: ragc create over input FILE BYTES (props/C19G.v)
THEOREMS = ["parse_render", "presentation_invariant", "letters_read_back", "gz_invariant", "gz_member_boundaries",
            "sample_name_gz_invariant", "create_input_invariant", "parse_concat", "streams_equal", "pansn_vs_files",
            "pansn_naming", "plain_naming"]
RULE = ("cases: pr <w> <lf|crlf> <u|l|m> records (real reader on render w eol mask records; widths 1,2,59,60,61,80,100000 x "
        "LF/CRLF x upper/lower/mixed on every record set), fname <name> (MultiFileIterator's sample name and gzip "
        "detection on a real file of that name), rd <name> <file> <plain> (GenomeIO::open on python-made gzip: one member "
        "at levels 1/6/9, members cut anywhere incl. inside a header and at every offset of a small text, empty members, "
        "FNAME field, BGZF blocks with the EOF block), stream files... (MultiFileIterator on per-sample files vs on the "
        "PanSN concatenation), shas <k,s,m,t> <n> groups... (real ragc create of one sample set under several "
        "presentations: sha256 of the archives must coincide; view of the first), pairv / pairn (PanSN file vs per-sample "
        "files with the same headers: identical listset/listctg/getset; vs per-sample files with plain headers: same "
        "samples and sequences, contig names without the sample# prefix). non-trivial = at least one record / sample; "
        "distinct = distinct case line")
TRUSTED = ["python oracle (checks/c16.py reader + this file's renderer, gzip/BGZF writers)",
           "flate2 MultiGzDecoder is an oracle in the model (Section hypothesis gunzip_members); exercised by the rd/shas cases",
           "byte-identical archives: follows from identical (sample, contig, codes) streams because create is a function of "
           "that stream and of the parameters (C04 determinism); observed as sha256 equality on the real binary"]
ASSUMPTIONS = ["names: non-empty ASCII without LF, not starting with '>' or white space, not ending with white space; "
               "sequences non-empty, letters only (good_rec)",
               "pansn_vs_files: every file ends with a newline (or is empty) and starts with '>' (or is empty); every header "
               "has at least two '#'; the single file passes create's samples-sorted check",
               "gunzip_members: MultiGzDecoder on a concatenation of gzip members yields the concatenation of their contents"]
_EXTRA = {}

_spec = importlib.util.spec_from_file_location("prop_c16_helpers", os.path.join(os.path.dirname(os.path.abspath(__file__)), "c16.py"))
H = importlib.util.module_from_spec(_spec)
H.vlib = vlib  # noqa: F821
_spec.loader.exec_module(H)
sys.path.insert(0, os.path.join(os.path.dirname(os.path.dirname(os.path.abspath(__file__))), "lib"))
import gen_samples as GS  # noqa: E402

hx, unhx, ftok = H.hx, H.unhx, H.ftok
WIDTHS = [1, 2, 59, 60, 61, 80, 100000]
EOLS = [("lf", b"\n"), ("crlf", b"\r\n")]
MASKS = ["u", "l", "m"]


# ------------------------------------------------------------------------------------------ presentations
def set_case(seq, m):
    if m == "u":
        return seq.upper()
    if m == "l":
        return seq.lower()
    return bytes((c | 0x20) if i % 3 else (c & 0xDF) for i, c in enumerate(seq))


def render(recs, w, eol, m):
    out = []
    for name, seq in recs:
        out.append(b">" + name + eol)
        s = set_case(seq, m)
        for i in range(0, len(s), w):
            out.append(s[i:i + w] + eol)
    return b"".join(out)


def bgzf_block(data):
    c = zlib.compressobj(6, zlib.DEFLATED, -15)
    comp = c.compress(data) + c.flush()
    total = 12 + 6 + len(comp) + 8
    return (b"\x1f\x8b\x08\x04" + struct.pack("<IBBH", 0, 0, 0xFF, 6) + b"BC" + struct.pack("<HH", 2, total - 1)
            + comp + struct.pack("<II", zlib.crc32(data) & 0xFFFFFFFF, len(data)))


def cut(rng, data, n, inside_header=False):
    """n cut points; with inside_header the first one falls inside a header line"""
    pts = sorted(rng.randrange(len(data) + 1) for _ in range(n)) if data else []
    if inside_header and data:
        starts = [i for i in range(len(data)) if data[i:i + 1] == b">"]
        if starts:
            s = rng.choice(starts)
            e = data.find(b"\n", s)
            pts = sorted(pts[1:] + [rng.randint(s + 1, max(s + 1, e))])
    chunks, last = [], 0
    for p in pts:
        chunks.append(data[last:p])
        last = p
    chunks.append(data[last:])
    return chunks


def gz_variant(rng, data, kind):
    if kind == "single":
        return gzip.compress(data, rng.choice([1, 6, 9]), mtime=0)
    if kind == "multi":
        return b"".join(gzip.compress(c, rng.choice([1, 6, 9]), mtime=0) for c in cut(rng, data, rng.choice([1, 2, 5]), inside_header=True))
    if kind == "multi_empty":                     # empty members in the middle and at the end
        cs = cut(rng, data, 2)
        return gzip.compress(cs[0], 6, mtime=0) + gzip.compress(b"", 6, mtime=0) + b"".join(gzip.compress(c, 6, mtime=0) for c in cs[1:]) + gzip.compress(b"", 6, mtime=0)
    if kind == "fname":
        import io
        b = io.BytesIO()
        with gzip.GzipFile(filename="orig name.fa", mode="wb", fileobj=b, mtime=12345) as f:
            f.write(data)
        return b.getvalue()
    if kind == "bgzf":
        bs = rng.choice([17, 100, 4096, 65280])
        return b"".join(bgzf_block(data[i:i + bs]) for i in range(0, len(data), bs)) + bgzf_block(b"")
    raise ValueError(kind)


GZ_KINDS = ["single", "multi", "multi_empty", "fname", "bgzf"]


def good_name(rng, used):
    for _ in range(50):
        n = H.rand_printable(rng, rng.randint(1, 14))
        n = n.strip()
        if n and n[:1] != b">" and n not in used:
            used.add(n)
            return n
    n = b"n%d" % len(used)
    used.add(n)
    return n


def rand_records(rng):
    used = set()
    alpha = rng.choice([b"ACGT", H.IUPAC, H.LETTERS])
    return [(good_name(rng, used), bytes(rng.choice(alpha) for _ in range(rng.choice([1, 2, 59, 60, 61, 80, 81, rng.randint(1, 200)]))))
            for _ in range(rng.choice([0, 1, 2, 4]))]


def recs_tok(recs):
    return ",".join(hx(n) + ":" + hx(s) for n, s in recs) if recs else "-"


SAMPLE_NAMES = [b"HG002", b"HG010", b"CHM13", b"S9", b"S10", b"mPanTro3", b"a", b"Z", b"b1", b"AAA"]


def sample_set(rng, small=True):
    ss = GS.gen_set(rng, nsamples=rng.choice([2, 3, 4]), ncontigs=rng.choice([1, 2, 3]), clen=rng.choice([300, 800, 1500] if small else [800, 3000]))
    out = [(s.encode(), [(n.encode(), q.encode()) for n, q in cs]) for s, cs in ss]
    if rng.random() < 0.5:
        # sample names that are NOT in ascending byte order in the file (contiguous per sample, any order is legal: a
        # seeded change that made single-file mode demand ascending names went unnoticed while every set was S000, S001, ...)
        names = rng.sample(SAMPLE_NAMES, len(out))
        out = [(nm, cs) for nm, (_, cs) in zip(names, out)]
    return out


def present(rng, recs, name, gzkind, w, eol, m):
    """one file token: name(.gz)=bytes[=plain]"""
    plain = render(recs, w, eol, m)
    if gzkind is None:
        return ftok(name, plain)
    return ftok(name + b".gz", gz_variant(rng, plain, gzkind), plain)


def params(rng):
    return "%d,%d,%d,%d" % (rng.choice([15, 21, 31]), rng.choice([100, 500, 60000]), 20, rng.choice([1, 2, 3, 4]))


def gen_shas(rng, nsets, nalt):
    cs = []
    combos = [(g, w, e, m) for g in [None] + GZ_KINDS for w in WIDTHS for _, e in EOLS for m in MASKS]
    for i in range(nsets):
        ss = sample_set(rng)
        single = i % 3 == 2                       # every third set as one PanSN file (fewer than 50 contigs)
        if single:
            recs = [(s + b"#1#" + n, q) for s, cs_ in ss for n, q in cs_]
            files = [(b"all.fa", recs)]
        else:
            files = [(s + b".fa", cs_) for s, cs_ in ss]
        groups = [" ".join(present(rng, r, n, None, 60, b"\n", "u") for n, r in files)]
        alts = rng.sample(combos, nalt)
        # make sure the corners are there: every gz kind, width 1 and 100000, CRLF, lower, mixed
        alts[:5] = [(g, rng.choice(WIDTHS), rng.choice(EOLS)[1], rng.choice(MASKS)) for g in GZ_KINDS]
        alts[5:8] = [(None, 1, b"\r\n", "l"), (None, 100000, b"\n", "m"), ("multi", 61, b"\r\n", "m")]
        for g, w, e, m in alts:
            groups.append(" ".join(present(rng, r, n, g, w, e, m) for n, r in files))
            _EXTRA.setdefault("presentations", {}).setdefault(f"{g or 'plain'}", 0)
            _EXTRA["presentations"][f"{g or 'plain'}"] += 1
        cs.append(f"shas {params(rng)} {len(files)} " + " ".join(groups))
    return cs


def extra_hash_fields(rng, ss):
    """PanSN headers with MORE than three '#' fields (sample#hap#contig#more...): the sample is still the first two
    fields and the contig name the whole header (a seeded change that matched exactly three fields went unnoticed
    before these were generated)"""
    return [(s, [((nm + b"#" + rng.choice([b"pat", b"mat", b"h2#x", b"1"])) if rng.random() < 0.6 else nm, q) for nm, q in c])
            for s, c in ss]


def gen_pairs(rng, n):
    cs = []
    for i in range(n):
        ss = sample_set(rng)
        if i % 2 == 0:
            ss = extra_hash_fields(rng, ss)
        p = params(rng)
        w, e, m = rng.choice(WIDTHS), rng.choice(EOLS)[1], rng.choice(MASKS)
        pansn = [(s + b"#1#" + nm, q) for s, c in ss for nm, q in c]
        allf = present(rng, pansn, b"all.fa", rng.choice([None, "multi", "bgzf"]), w, e, m)
        if i % 2 == 0:                            # per-sample files with the same (PanSN) headers, arbitrary file names
            per = [present(rng, [(s + b"#1#" + nm, q) for nm, q in c], b"f%d.fa" % j, rng.choice([None, "single"]), rng.choice(WIDTHS), b"\n", "u")
                   for j, (s, c) in enumerate(ss)]
            cs.append(f"pairv {p} 1 {allf} " + " ".join(per))
        else:                                     # per-sample files with plain headers, named <sample>#1.fa
            per = [present(rng, c, s + b"#1.fa", None, rng.choice(WIDTHS), b"\n", "u") for s, c in ss]
            cs.append(f"pairn {p} 1 {allf} " + " ".join(per))
    return cs


NAMES = [b"x.fa", b"x.fa.gz", b"x.fasta", b"x.fasta.gz", b"x", b"x.gz", b"x.fna", b"x.fna.gz", b"x.fa.fa", b"x.fa.fa.gz",
         b"x.fasta.fa.gz", b"a.b.fa", b"a.b.c.fasta.gz", b"fa", b"x.txt", b"x.FA", b"x.fa.GZ", b"x.gz.fa", b"S#1.fa", b"S#1.fa.gz",
         b"x.fafa", b"x.fastafa", b"xfa", b"x.fa.fasta", b"x.fasta.fasta.fa.fa", b"x.", b"x..gz", b"gz", b"x.gzz", b"x.fa.gz.gz"]


def gen_cases(rng, tier):
    quick = tier == "quick"
    cs = []
    for _ in range(25 if quick else 600):
        recs = rand_records(rng)
        for w in WIDTHS:
            for en, _ in EOLS:
                for m in MASKS:
                    cs.append(f"pr {w} {en} {m} {recs_tok(recs)}")
    for n in NAMES:
        cs.append("fname " + hx(n))
    for _ in range(40 if quick else 1000):
        stem = bytes(rng.choice(b"abXY.#_-") for _ in range(rng.randint(1, 6)))
        if stem.strip(b".") and not stem.startswith(b"."):
            cs.append("fname " + hx(stem + rng.choice([b".fa", b".fa.gz", b".fasta", b".fasta.gz", b".gz", b""])))
    small = b">s1 d\nACGT\nAC\n>s2\nGGN\n"
    for k in range(len(small) + 1):               # a member boundary at every offset of a small text
        cs.append("rd " + hx(b"t.fa.gz") + " " + hx(gzip.compress(small[:k], 6, mtime=0) + gzip.compress(small[k:], 6, mtime=0)) + " " + hx(small))
    for _ in range(60 if quick else 2000):
        recs = rand_records(rng)
        plain = render(recs, rng.choice(WIDTHS), rng.choice(EOLS)[1], rng.choice(MASKS))
        kind = rng.choice(GZ_KINDS)
        cs.append("rd " + hx(rng.choice([b"t.fa.gz", b"t.gz", b"a.b.fasta.gz"])) + " " + hx(gz_variant(rng, plain, kind)) + " " + hx(plain))
        cs.append("rd " + hx(b"t.fa") + " " + hx(plain) + " " + hx(plain))
    for _ in range(40 if quick else 1500):        # PanSN concatenation vs per-sample files, library level
        ss = extra_hash_fields(rng, sample_set(rng))
        per = [(b"f%d.fa" % j, render([(s + b"#1#" + nm, q) for nm, q in c], rng.choice(WIDTHS), rng.choice(EOLS)[1], rng.choice(MASKS))) for j, (s, c) in enumerate(ss)]
        cs.append("stream " + " ".join(ftok(n, t) for n, t in per))
        cs.append("stream " + ftok(b"all.fa", b"".join(t for _, t in per)))
    sh = gen_shas(rng, 6 if quick else 40, 13 if quick else 30)
    pv = gen_pairs(rng, 8 if quick else 120)
    _EXTRA["cli_creates"] = sum((len(c.split()) - 3) // int(c.split()[2]) for c in sh) + 2 * len(pv)
    return cs + sh + pv


# ------------------------------------------------------------------------------------------ verdicts
_last_stream = {}


def nontrivial(case, impl):
    return not impl.startswith(("OK -", "FAIL", "ERR"))


def oracle(case, impl):
    t = case.split()
    if impl.startswith(("PANIC", "CRASH", "HARNESS-ERROR", "TIMEOUT")):
        return "implementation failed: " + impl[:120]
    if t[0] == "pr":
        recs = [] if t[4] == "-" else [tuple(unhx(x) for x in r.split(":")) for r in t[4].split(",")]
        want = [(n, bytes(H.CODE.get(c & 0xDF, 30) for c in s)) for n, s in recs]
        if impl == "ERR" or H.decode_recs(impl) != want:
            return "the reader does not give back the records of the rendering (width %s, %s, case %s)" % (t[1], t[2], t[3])
        return None
    if t[0] == "fname":
        name = unhx(t[1])
        want = ("gz " if name.endswith(b".gz") and name != b".gz" else "plain ") + hx(H.stem_sample(name))
        return None if impl == want else "sample name / gzip detection from the file name: want " + want
    if t[0] == "rd":
        plain = unhx(t[3])
        want = H.spec_contigs(plain)
        got = [(n, bytes(H.IUPAC[x] if x < 16 else 78 for x in c)) for n, c in H.decode_recs(impl) if c] if impl.startswith("OK") else impl
        return None if got == want else "reading the (gzip) file does not give the records of its plain content"
    if t[0] == "stream":
        files = H.parse_files(t[1:])
        want = []
        for fn, text in files:
            for n, q in H.spec_contigs(text):
                want.append((H.sample_for(fn, n), n, q))
        if not impl.startswith("OK"):
            return "stream failed"
        got = [] if impl == "OK -" else [tuple(unhx(x) for x in r.split(":")) for r in impl[3:].split(",")]
        got = [(s, n, bytes(H.IUPAC[x] if x < 16 else 78 for x in c)) for s, n, c in got]
        return None if got == want else "contig stream differs from the records of the input"
    if t[0] == "shas":
        n = int(t[2])
        files = H.parse_files(t[3:3 + n])
        want = H.show_view(H.spec_view(files))
        if impl == want + " same":
            return None
        if impl.startswith(want + " diff"):
            return "archives differ between presentations of the same sample set (groups %s)" % impl.rsplit("diff:", 1)[1]
        return "create failed or the extracted samples differ from the input: " + impl[:120]
    if t[0] in ("pairv", "pairn"):
        n = int(t[2])
        a, b = impl.split(" | ")
        wa = H.spec_view(H.parse_files(t[3:3 + n]))
        if a != H.show_view(wa):
            return "PanSN single-file archive differs from its input: " + a[:100]
        wb = H.spec_view(H.parse_files(t[3 + n:]))
        if b != H.show_view(wb):
            return "per-sample-file archive differs from its input: " + b[:100]
        if t[0] == "pairv":
            return None if a == b else "same headers, different listing/extraction between one PanSN file and per-sample files"
        # pairn: same samples, same sequences, contig names without the `sample#` prefix
        ok = [s for s, _ in wa] == [s for s, _ in wb] and all(
            [(s + b"#" + nm, q) for nm, q in cb] == ca for (s, ca), (_, cb) in zip(wa, wb))
        return None if ok else "plain-header per-sample files: samples / sequences differ from the PanSN file"
    if t[0] == "cli":
        return H.oracle(case, impl)
    return None


def search(ctx, budget):
    rng = ctx.rng
    cases = gen_shas(rng, 2 * budget, 20) + gen_pairs(rng, 4 * budget)
    res = vlib.run_impl(PROP, cases, timeout=3000)  # noqa: F821
    found = [(c, i, oracle(c, i)) for c, i in zip(cases, res) if oracle(c, i)]
    return found, len(cases)


def finding_class(case, impl, why):
    return None


def extra_coverage(ctx):
    return dict(_EXTRA)
