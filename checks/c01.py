"""C01 lossless round trip, contig level (coq/model/Pipeline.v): generator of sample sets (lib/gen_samples.py plus
targeted "lost splitter" samples), hand-over of the real descriptor table to the model driver (model_cases),
independent python oracle (real extraction == truth.json; the stored pieces re-assembled in python == the input)."""
import json, os, random, shutil, sys

sys.path.insert(0, os.path.join(os.path.dirname(os.path.dirname(os.path.abspath(__file__))), "lib"))
import gen_samples as G  # noqa

PROP = "C01"
SUBCHECKS = ["C01G", "C01R", "C01T"]   # grand composition: model_create bytes -> AgcV3.decode = input (props/C01G.v)
AREAS = ["kmer", "segment", "pipeline", "groupstore", "tuple", "lz", "collection", "splitpos"]   # the last four: composition theorems
THEOREMS = ["rc_seq_eq_rc_dec", "rc_pre_eq_rc_dec", "rc_dec_involutive", "orient_ok", "split_overlap",
            "part_numbers_dense", "reassemble", "placement_order_irrelevant", "duplicate_name_rejected",
            "create_extract_roundtrip",
            # composition (proofs/Compose_codecs.v, proofs/Compose_proofs.v): C09 + C12 + C02 + C01 end to end
            "codecs_instance", "codecs_instance_total", "store_then_get_concrete", "stored_ok_from_groupstore",
            "end_to_end_roundtrip", "store_addr_consistent", "ops_rounds_carry", "pieces_in_dom_from_inputs",
            "end_to_end_inputs", "end_to_end_store_addr", "end_to_end_catalogue",
            "split_post_source_pinned", "heuristic_split_positions_ok"]
PROFILES = ["dev", "release"]
PROFILES_QUICK = ["dev"]
RULE = ("trace validation on real archives: case `dt <dir> <params>` = a sample set laid out as FASTA files, compressed by "
        "the real StreamingQueueCompressor exactly as ragc-cli drives it (mk.rs), reopened with the real Decompressor; "
        "the harness prints k, the splitter set, per contig the descriptor list with the decoded STORED bytes of every "
        "descriptor, and the extracted contig. The extracted model gets the input contigs (truth.json), the splitter "
        "set and the real (group, id, flag, length) table, infers the decision per raw segment, evaluates decisions_ok, "
        "runs Pipeline.create (registrations in reverse order) and Pipeline.extract_all and must print the same line: "
        "every stored piece byte for byte, every flag, length, part order, every extracted contig. A sample with a "
        "repeated contig name must be rejected by both. non-trivial = at least 2 samples and a contig of >= 2 pieces; "
        "distinct = distinct case line")
TRUSTED = ["python oracle in checks/c01.py (extraction == truth.json; own reverse complement and re-assembly of the stored pieces)",
           "ocaml/c01/driver.ml: inference of the decision per raw segment from the real descriptor lengths/flags "
           "(unverified glue; its result is checked by the byte-for-byte comparison) and the list-backed store behind `get`",
           "lib/gen_samples.py + harness/src/mk.rs (the way ragc-cli drives the library)",
           "composition with the other halves of C01: GroupStore/SegReader (stored_ok), C03 (the reader loads the catalogue "
           "the writer built), C09/C12/C13"]
ASSUMPTIONS = ["1 <= k <= 32 (C10's range; Kmer::new overflows its shift beyond)",
               "decisions_ok: every SplitAt(pos) has k+1 <= pos <= len-(k+1) (find_split_by_cost's post-processing); "
               "evaluated on the decisions inferred from every real archive",
               "stored_ok: the reader's get_segment returns, for every registered descriptor, the bytes handed to the "
               "group store under it (the group-store half of C01); checked per archive by comparing the decoded stored bytes",
               "inputs_ok: sample names distinct and non-empty, every sample has at least one contig "
               "(a repeated contig name in a sample makes create fail: proved, and probed by the dup cases)",
               "registrations arrive in any order (sched is a permutation); push-time registration is modelled before placement",
               "composition (end_to_end_inputs): zstd_ok = zd (zc l x) = Some x and x <> [] -> zc l x <> [] (zstd is not modelled); "
               "symbols 0..30, 2*|contig| + mml < 2^31, mml >= 4, no piece of an empty contig in an LZ group; the catalogue "
               "is converted record by record to Collection.v's type and goes through C03's store_all/load_all (end_to_end_catalogue); "
               "the archive is the per-group part lists (C13/C14 not threaded)"]
CASEROOT = os.path.join(os.path.dirname(os.path.dirname(os.path.abspath(__file__))), ".cache", "c01cases")
STATS = {}          # case -> statistics dict, harvested from the model lines in canon()
M64 = (1 << 64) - 1


def hx(b):
    return "".join("%02x" % x for x in b) if len(b) else "-"


def unhx(s):
    return b"" if s == "-" else bytes.fromhex(s)


def codes(seq):
    return bytes(G.CODE[c] for c in seq)


# ------------------------------------------------------------------------------------------------ generator
def _pack(w, k):
    v = 0
    for b in w:
        v = v * 4 + b
    return (v << (64 - 2 * k)) & M64


def splitter_ends(seq, k, spl):
    """end positions e (exclusive) of the windows seq[e-k:e] whose canonical k-mer is in spl"""
    out = []
    c = [G.CODE[x] for x in seq]
    run = 0
    for i, b in enumerate(c):
        run = run + 1 if b < 4 else 0
        if run >= k:
            w = c[i + 1 - k:i + 1]
            v = min(_pack(w, k), _pack([3 - x for x in reversed(w)], k))
            if v in spl:
                out.append(i + 1)
    return out


def lost_splitter_variant(rng, ref, k, ends, how):
    """a copy of ref in which a few well separated splitter k-mers are destroyed (so that one segment of the copy
    spans two reference segments); how: snp | del | iupac | mix"""
    s = list(ref)
    if not ends:
        return ref
    chosen = []
    for e in rng.sample(ends, len(ends)):
        if all(abs(e - c) > 1 for c in chosen) and rng.random() < 0.5:
            chosen.append(e)
    # never two neighbouring splitters (a segment spanning three reference segments is not split)
    idx = {e: i for i, e in enumerate(ends)}
    keep = []
    for e in sorted(chosen):
        if not keep or idx[e] - idx[keep[-1]] >= 2:
            keep.append(e)
    for e in sorted(keep, reverse=True):
        p = e - 1 - rng.randrange(k)
        h = how if how != "mix" else rng.choice(["snp", "del", "iupac", "iupac"])
        if h == "snp":
            s[p] = rng.choice([x for x in "ACGT" if x != s[p]])
        elif h == "del":
            del s[p]
        else:
            s[p] = rng.choice(G.IUPAC[4:])
    return "".join(s)


def sprinkle(rng, s, rate, alphabet=G.IUPAC[4:]):
    return "".join(rng.choice(alphabet) if rng.random() < rate else c for c in s)


def _splitters_for(ref_samples, params, tag):
    """run the real splitter determination on the reference sample only (harness case `spl`)"""
    d = os.path.join(CASEROOT, "_spl", tag)
    shutil.rmtree(d, ignore_errors=True)
    # a second (dummy) file: with two inputs mk.rs takes the multi-file branch (determine_splitters_streaming)
    G.write_case(d, ref_samples + [("S001", [("x", "A")])], mode="multi")
    return f"spl {d} {params}"


def targeted_sets(rng, n, tag):
    """sample sets whose later samples lose single splitters of the reference; needs a pre-pass through the harness"""
    protos = []
    for i in range(n):
        k = rng.choice([9, 11, 13, 15, 17, 21, 25, 31, 32])
        s = rng.choice([50, 50, 60, 80, 100, 150, 300])
        ncont = rng.choice([1, 2, 3])
        ref = [(f"chr{c}", G.rand_seq(rng, rng.randint(6 * s, 30 * s))) for c in range(ncont)]
        if rng.random() < 0.3:
            ref = [(n_, sprinkle(rng, q, 0.002)) for n_, q in ref]
        params = f"{k},{s},{rng.choice([15, 18, 20, 25, 32])},50,{rng.choice([1, 2, 3, 4, 8, 16])},{1 << 31},{rng.choice([0, 0, 0.1])}"
        protos.append((k, s, ref, params, _splitters_for([("S000", ref)], params, f"{tag}-{i}")))
    res = vlib.run_impl(PROP, [p[4] for p in protos], "dev")   # noqa: F821 (vlib is injected by bin/check)
    out = []
    for (k, s, ref, params, _), line in zip(protos, res):
        spl = set()
        if line.startswith("OK ") and line[3:] != "-":
            spl = {int(x, 16) for x in line[3:].split(",")}
        samples = [("S000", ref)]
        ns = rng.choice([2, 3, 4, 6])
        for si in range(1, ns):
            contigs = []
            for name, q in ref:
                how = rng.choice(["snp", "del", "iupac", "mix", "mix"])
                v = lost_splitter_variant(rng, q, k, splitter_ends(q, k, spl), how)
                r = rng.random()
                if r < 0.35:
                    v = G.mutate(rng, v, rng.choice([0.001, 0.005, 0.02]), iupac_rate=rng.choice([0, 0.003, 0.01]),
                                 nrun_rate=rng.choice([0, 0.001]))
                elif r < 0.5:
                    v = sprinkle(rng, v, 0.01)
                if rng.random() < 0.35:
                    v = G.revcomp(v)
                contigs.append((name, v or "A"))
            if rng.random() < 0.3:
                rng.shuffle(contigs)
            samples.append((f"S{si:03d}", contigs))
        out.append((samples, params, rng.choice(["multi", "multi", "single"])))
    return out


def edge_sets(rng):
    out = []
    P = lambda k, s=100, t=2: f"{k},{s},20,50,{t},{1 << 31},0"
    out.append(([("S000", [("c", "A")])], P(21), "multi"))
    out.append(([("S000", [("c", "ACGTN")]), ("S001", [("c", "ACGTN"), ("d", "N")])], P(9), "multi"))
    out.append(([("S000", [("c", "N" * 300)]), ("S001", [("c", "N" * 299 + "A")])], P(15), "multi"))
    out.append(([("S000", [("c", G.rand_seq(rng, 400, G.IUPAC[4:]))]), ("S001", [("c", G.rand_seq(rng, 400, G.IUPAC))])], P(11, 50), "multi"))
    ref = G.rand_seq(rng, 3000)
    out.append(([("S000", [("c", ref)]), ("S001", [("c", G.revcomp(ref))]), ("S002", [("c", ref)])], P(32, 50, 4), "multi"))
    out.append(([("S000", [("c", ref)]), ("S001", [("c", ref[:31])]), ("S002", [("c", ref[-32:])])], P(32, 60000, 1), "multi"))
    out.append(([("S000", [("c", ref), ("d", ref), ("e", G.revcomp(ref))])], P(17, 200, 16), "single"))
    out.append(([("S000", [("c", "ACGT" * 200)]), ("S001", [("c", "ACGT" * 150 + "R" + "ACGT" * 50)])], P(9, 50, 3), "multi"))
    return out


def dup_sets(rng, n):
    out = []
    for _ in range(n):
        s = G.gen_set(rng, nsamples=rng.choice([1, 2, 3]), ncontigs=rng.choice([2, 3]), clen=300)
        si = rng.randrange(len(s))
        name, contigs = s[si]
        j = rng.randrange(len(contigs))
        contigs = contigs + [(contigs[j][0], G.rand_seq(rng, rng.choice([5, 80, 400])))]
        if rng.random() < 0.5:
            contigs[j + 1:j + 1] = [contigs.pop()]     # adjacent duplicate
        s[si] = (name, contigs)
        out.append((s, G.rand_params(rng), rng.choice(["multi", "single"])))
    return out


def gen_cases(rng, tier):
    root = os.path.join(CASEROOT, tier)
    shutil.rmtree(root, ignore_errors=True)
    shutil.rmtree(os.path.join(CASEROOT, "_spl"), ignore_errors=True)
    quick = tier == "quick"
    sets = []
    sets += edge_sets(rng)
    sets += dup_sets(rng, 2 if quick else 20)
    for _ in range(12 if quick else 560):                         # the general generator
        s = G.gen_set(rng)
        if rng.random() < 0.25:                                    # all 15 IUPAC codes somewhere
            name, contigs = s[-1]
            contigs = contigs + [("iupac", G.rand_seq(rng, rng.choice([60, 300, 900]), G.IUPAC))]
            s[-1] = (name, contigs)
        sets.append((s, G.rand_params(rng, small=rng.random() < 0.5), rng.choice(["multi", "multi", "single"])))
    sets += targeted_sets(rng, 14 if quick else 640, tier)
    for n in ([55, 104] if quick else [51, 52, 60, 75, 99, 100, 101, 102, 110, 120, 130, 130]):
        sets.append((G.gen_big_group(rng, n, clen=rng.choice([300, 600]), div=rng.choice([0.005, 0.02])),
                     f"{rng.choice([11, 21, 31])},{rng.choice([100, 200, 60000])},20,50,{rng.choice([1, 4, 16])},{1 << 31},0",
                     rng.choice(["multi", "single"])))
    for _ in range(1 if quick else 6):
        sets.append((G.gen_set(rng, nsamples=2, ncontigs=2, clen=300, shape="many_short"), G.rand_params(rng),
                     rng.choice(["multi", "single"])))
    if not quick:
        for _ in range(250):                                       # larger k / segment-size sweep, few segments: cheap
            s = G.gen_set(rng, nsamples=rng.choice([2, 3, 5, 9]), ncontigs=rng.choice([1, 2]), clen=rng.choice([200, 500, 2000]))
            sets.append((s, G.rand_params(rng, small=False), rng.choice(["multi", "single"])))
    cases = []
    for i, (samples, params, mode) in enumerate(sets):
        d = os.path.join(root, "%04d" % i)
        G.write_case(d, samples, mode=mode, width=rng.choice([60, 80, 7, 100000]), eol=rng.choice(["\n", "\n", "\r\n"]),
                     case=rng.choice(["upper", "upper", "lower", "mixed"]), gz=rng.random() < 0.15)
        cases.append(f"dt {d} {params}")
    return cases


# ------------------------------------------------------------------------------------------------ parsing
def truth_of(case):
    d = case.split()[1]
    return json.load(open(os.path.join(d, "truth.json")))


def has_dup(truth):
    return any(len({c for c, _ in contigs}) != len(contigs) for _, contigs in truth)


def parse(impl):
    """OK k=.. spl=.. S name C name D g:id:rc:len:stored .. X hex ..  ->  (k, spl, [(sample, [(contig, [desc], x)])])"""
    t = impl.split(" | ")[0].split()
    k = int(t[1][2:])
    spl = t[2][4:]
    samples = []
    i = 3
    while i < len(t):
        tag, val = t[i], t[i + 1]
        if tag == "S":
            samples.append((unhx(val).decode(), []))
        elif tag == "C":
            samples[-1][1].append([unhx(val).decode(), [], None])
        elif tag == "D":
            g, id_, rc, ln, st = val.split(":")
            samples[-1][1][-1][1].append((int(g), int(id_), rc == "1", int(ln), st))
        elif tag == "X":
            samples[-1][1][-1][2] = unhx(val)
        else:
            raise ValueError("bad tag " + tag)
        i += 2
    return k, spl, samples


def model_cases(cases, impl_lines):
    out = []
    for c, line in zip(cases, impl_lines):
        try:
            truth = truth_of(c)
            if line.startswith("CREATE-ERR") and "Duplicate contig name" in line:
                out.append("dp " + " ".join(f"P {hx(s.encode())} {hx(n.encode())} - ." for s, cs in truth for n, _ in cs))
                continue
            if not line.startswith("OK "):
                out.append("NOTRACE")
                continue
            k, spl, samples = parse(line)
            table = {(s, n): ds for s, cs in samples for n, ds, _ in cs}
            toks = [f"dt {k} {spl}"]
            for s, cs in truth:
                for n, seq in cs:
                    ds = table.get((s, n), [])
                    dtok = ",".join(f"{g}:{i}:{1 if r else 0}:{l}" for g, i, r, l, _ in ds) if ds else "."
                    toks.append(f"P {hx(s.encode())} {hx(n.encode())} {hx(codes(seq))} {dtok}")
            out.append(" ".join(toks))
        except Exception as e:   # noqa
            out.append("NOTRACE")
    return out


def canon(case, line):
    if " | " in line:
        head, st = line.split(" | ", 1)
        try:
            STATS[case] = {kv.split("=")[0]: int(kv.split("=")[1]) for kv in st.split()}
        except Exception:
            pass
        return head
    if line.startswith("CREATE-ERR") and "Duplicate contig name" in line:
        return "CREATE-ERR duplicate"
    return line


def nontrivial(case, impl):
    if not impl.startswith("OK "):
        return False
    _, _, samples = parse(impl)
    return len(samples) >= 2 and any(len(ds) >= 2 for _, cs in samples for _, ds, _ in cs)


# ------------------------------------------------------------------------------------------------ oracle
def _rc(b):
    return bytes((3 - x) if x < 4 else x for x in reversed(b))


def oracle(case, impl):
    """the property itself on the real answer: names, order and bases equal the input; independently of the Coq
    model, the stored pieces (own reverse complement, first whole, later minus k) re-assemble to the input"""
    truth = truth_of(case)
    if has_dup(truth):
        if impl.startswith("CREATE-ERR") and "Duplicate contig name" in impl:
            return None
        return "a sample with a repeated contig name was not rejected by create: " + impl[:120]
    if not impl.startswith("OK "):
        return "create/extract failed: " + impl[:300]
    try:
        k, _, samples = parse(impl)
    except Exception as e:
        return "unparsable answer: %r" % (e,)
    if [s for s, _ in samples] != [s for s, _ in truth]:
        return "sample names / order differ: %r vs %r" % ([s for s, _ in samples][:5], [s for s, _ in truth][:5])
    for (s, cs), (_, tcs) in zip(samples, truth):
        if [n for n, _, _ in cs] != [n for n, _ in tcs]:
            return f"contig names / order differ in sample {s}"
        for (n, ds, x), (_, seq) in zip(cs, tcs):
            want = codes(seq)
            if x != want:
                pos = next((i for i, (a, b) in enumerate(zip(x, want)) if a != b), min(len(x), len(want)))
                return (f"extracted contig {s}/{n} differs from the input at base {pos} "
                        f"(lengths {len(x)} / {len(want)}; got code {x[pos] if pos < len(x) else None}, "
                        f"want {want[pos] if pos < len(want) else None})")
            acc = b""
            for i, (g, id_, rc, ln, st) in enumerate(ds):
                b = unhx(st)
                if len(b) != ln:
                    return f"raw_length {ln} of a descriptor of {s}/{n} differs from the decoded stored length {len(b)}"
                f = _rc(b) if rc else b
                if i and len(f) < k:
                    return f"a later piece of {s}/{n} is shorter than k"
                acc += f if i == 0 else f[k:]
            if acc != want:
                return f"the stored pieces of {s}/{n} do not re-assemble to the input"
    return None


def extra_coverage(ctx):
    tot = {}
    for st in STATS.values():
        for k_, v in st.items():
            tot[k_] = tot.get(k_, 0) + v
    cases_with = {k_: sum(1 for st in STATS.values() if st.get(k_, 0) > 0) for k_ in
                  ["split", "rsplit", "reoriented", "iupac_reoriented", "assign", "rcplain"]}
    return {"decision_statistics": {"archives_with_statistics": len(STATS), "totals": tot,
                                    "archives_with_at_least_one": cases_with,
                                    "legend": "split = SplitAt decisions; rsplit = of these with should_reverse; reoriented = a half "
                                              "went through reverse_complement_sequence; iupac_reoriented = such a half holds a code >= 4; "
                                              "assign = single piece whose flag differs from the Case-2 orientation (AssignToLeft/Right); "
                                              "rcplain = whole segments stored reverse-complemented"}}


def search(ctx, budget):
    rng = random.Random(ctx.seed + 7)
    global CASEROOT
    keep = CASEROOT
    CASEROOT = os.path.join(keep, "_search")
    try:
        sets = targeted_sets(rng, 4 * budget, "search")
        cases = []
        for i, (samples, params, mode) in enumerate(sets):
            d = os.path.join(CASEROOT, "search", "%04d" % i)
            shutil.rmtree(d, ignore_errors=True)
            G.write_case(d, samples, mode=mode)
            cases.append(f"dt {d} {params}")
    finally:
        CASEROOT = keep
    res = vlib.run_impl(PROP, cases)   # noqa: F821
    found = [(c, i, oracle(c, i)) for c, i in zip(cases, res) if oracle(c, i)]
    return found, len(cases)


def finding_class(case, impl, why):
    if "differs from the input" in why and "want" in why:
        try:
            w = int(why.split("want ")[1].split(")")[0])
            g = why.split("got code ")[1].split(",")[0]
            if w >= 5 and g == "4":
                return "iupac-lost-in-rc"
        except Exception:
            pass
    if "repeated contig name" in why:
        return "duplicate-contig-name"
    if impl.startswith("PANIC Worker thread panicked") and case.split()[2].startswith("32,") and not case.endswith(",0"):
        return "fallback-mask-shl-overflow-k32"
    return None
