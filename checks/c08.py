"""C08 reader answers do not depend on query history or on other readers.

Cases run on REAL archives (created once per case directory by the harness through harness/src/mk.rs):
  h <dir> <params> <op> ... / <op> ... / ...     every `/`-separated sequence on one freshly opened Decompressor,
                                                 every op also on a handle opened just for it
  t <dir> <params> <seed> <nthreads> <nops> <parent-op> ...   cloned readers in threads + the parent, perturbed
The harness prints the abstract archive it read (the model's input) and, per op, outcome class + answer hash for
the history-carrying handle and for the fresh handle; model_cases hands that line to the extracted model
(ocaml/c08/driver.ml) which must reproduce BOTH columns (class and hash of the full answer); the oracle below
demands column 1 == column 2 and no panic."""
import hashlib, itertools, os, random, subprocess, sys, shutil

PROP = "C08"
SUBCHECKS = ["C08G"]   # reader-side grand composition: any query history on the written file = the input (props/C08G.v)
AREAS = []
THEOREMS = ["history_independent", "table_queries_independent", "names_queries_any_state",
            "decoders_agree_when_sizes_ok", "never_panics", "unknown_sample_err", "unknown_contig_err",
            "clones_independent", "clone_is_fresh", "decoders_disagree_refuted", "corrupt_batch_refuted",
            "too_many_entries_refuted", "short_segment_refuted"]
RULE = ("real archives: `small` (3 samples, compressed + stored-raw references, raw groups, 1-2 base contigs), `big` "
        "(75 samples = 2 catalogue batches of 50+25, 5% divergence so that every LZ group has > 50 distinct deltas = two packs per delta stream), `k2` (k=2: stored-raw reference of 2 bases, regression for "
        "709bfda), thorough: + random sample sets with random parameters. Ops: every public query of Decompressor "
        "(list_samples, list_samples_with_prefix, get_compression_stats, list_contigs, get_sample, get_contig, "
        "get_contig_range, get_contig_length, get_contig_segments_desc, get_segment_data_by_desc, get_all_segments, "
        "get_group_statistics, get_reference_segment) x first/last/second-batch/unknown sample, first/last/unknown "
        "contig, compressed-reference / stored-raw-reference / raw / unknown group, existing / out-of-range / unknown "
        "descriptors. ALL sequences of length 3 over the 43-op alphabet (sg:DD / sg:DP = two descriptors of one group in different packs of its delta stream) and ALL of length 4 over 12 (quick) / 20 "
        "(thorough) ops on each of the 3 archives (quick: k2 gets length 3 over 26 ops only; thorough: + length 3 over 26 ops on 17 random archives), random "
        "sequences of length 10-30 over 43 ops, cloned readers in 2-8 threads with yield_point perturbation while "
        "the parent keeps answering. Model side: the extracted ReaderState model on the abstract archive read from "
        "the real one predicts class AND full answer (hash) of both columns. non-trivial = a sequence with >= 2 ops "
        "of which one is answered Ok; distinct = distinct case line")
TRUSTED = ["harness/src/bin/c08.rs: reading the abstract archive through public API (CollectionV3 batch by batch with "
           "verif_samples_loaded, Archive::get_part_by_id for reference parts, decompress_segment_with_marker, "
           "get_segment_data_by_desc on per-group fresh handles for non-reference segments), symbol resolution, "
           "canonical rendering + FNV-1a/64",
           "ocaml/c08/driver.ml: parsing, the same rendering + FNV-1a/64; ar_lz = table lookup valid for the "
           "get_segment-decoded reference only (a sentinel otherwise)",
           "harness/src/mk.rs archive creation; lib/gen_samples.py",
           "python oracle in checks/c08.py (same-handle column == fresh-handle column, no P)"]
ASSUMPTIONS = ["the archive file does not change while handles are open; File objects do not share seek positions",
               "the catalogue streams decode (W1) and describe no more samples than the sample table (W2) - true of "
               "every archive the writer produces (C03/C13); otherwise see corrupt_batch_refuted / too_many_entries_refuted",
               "the two reference decoders agree (A): proved from 'compressed reference parts carry their decoded "
               "length as metadata and have >= 3 bases' (decoders_agree_when_sizes_ok); false for archives whose "
               "references really are 2-bit packed (decoders_disagree_refuted)",
               "never_panics: LZ/zstd decoders do not panic (C09/C16) and non-first segments have raw_length >= k (C10)",
               "segment decoding itself (delta streams, LZ) is abstract in the model: ar_lz / ar_raw / dz are functions"]

VERIF = os.path.dirname(os.path.dirname(os.path.abspath(__file__)))
sys.path.insert(0, os.path.join(VERIF, "lib"))
import gen_samples as gs  # noqa

QA = ["ls", "lp:P0", "cs", "lc:S0", "lc:SX", "gs:S0", "gs:SL", "gs:SX", "gc:S0:C0", "gc:SL:CL", "gc:S0:CX", "gc:SX:C0",
      "gr:SL:CL:0:max", "gr:S0:C0:5:40", "gl:S0:C0", "gl:SX:CX", "sd:SL:CL", "sd:S0:CX", "as", "gst", "rs:GL", "rs:GW",
      "rs:GR", "rs:GX", "sg:DD", "sg:DX"]
FULL = ["ls", "lp:P0", "lp:PX", "cs", "lc:S0", "lc:SL", "lc:SB", "lc:SX", "gs:S0", "gs:SL", "gs:SB", "gs:SX", "gc:S0:C0",
        "gc:SL:CL", "gc:SB:C0", "gc:S0:CX", "gc:SX:C0", "gr:S0:C0:5:40", "gr:SL:CL:0:max", "gr:SB:C0:30:31", "gr:SX:C0:0:9",
        "gr:S0:CX:0:9", "gr:S0:C0:9:9", "gl:S0:C0", "gl:SL:CL", "gl:SX:CX", "gl:S0:CX", "sd:S0:C0", "sd:SL:CL", "sd:SX:C0",
        "sg:D0", "sg:DL", "sg:DD", "sg:DP", "sg:DR", "sg:DX", "sg:DY", "as", "gst", "rs:GL", "rs:GW", "rs:GR", "rs:GX"]
A12 = ["lc:S0", "gs:SL", "gs:SX", "gc:S0:CX", "gr:SL:CL:0:max", "as", "gst", "rs:GL", "rs:GW", "sg:DP", "sg:DD", "sg:DX"]
SMALL4 = ["lc:S0", "gs:S0", "gs:SL", "gs:SX", "gc:SL:CL", "gc:S0:CX", "gr:SL:CL:0:max", "gl:SX:CX", "sd:S0:CX", "as",
          "gst", "rs:GL", "rs:GW", "rs:GX", "sg:DD", "sg:DX"]
A20 = SMALL4 + ["ls", "gl:S0:C0", "sd:SL:CL", "rs:GR"]
_STATE = {}


def _repo_key():
    repo = os.environ.get("VERIF_REPO", "/repo")
    try:
        head = subprocess.run(["git", "-C", repo, "rev-parse", "HEAD"], capture_output=True, text=True).stdout.strip()
        diff = subprocess.run(["git", "-C", repo, "diff", "HEAD", "--", "ragc-core", "ragc-common"],
                              capture_output=True, text=True).stdout
    except Exception:
        head, diff = "?", ""
    return hashlib.sha256((head + diff).encode()).hexdigest()[:10]


def _write(dirpath, samples):
    """a case directory is rewritten (and its archive dropped) unless it is marked complete"""
    if os.path.exists(os.path.join(dirpath, ".written")):
        return
    if os.path.isdir(dirpath):
        shutil.rmtree(dirpath)
    gs.write_case(dirpath, samples)
    open(os.path.join(dirpath, ".written"), "w").write("ok")


def _archives(rng, tier, seed_tag):
    root = os.path.join(VERIF, ".cache", "c08", f"g2-{seed_tag}-{_repo_key()}")   # g2: generator version
    os.makedirs(root, exist_ok=True)
    out = []
    base = gs.rand_seq(rng, 700)
    c1 = gs.rand_seq(rng, 260)
    s0 = [("chr0", base), ("chr1 desc x", c1), ("t1", "AC"), ("t2", "G")]
    s1 = [("chr0", gs.mutate(rng, base, 0.02)), ("chr1 desc x", c1), ("u", "ACGTN")]
    s2 = [("chr0", gs.revcomp(gs.mutate(rng, base, 0.01))), ("only2", gs.rand_seq(rng, 90))]
    _write(os.path.join(root, "small"), [("S000", s0), ("S001", s1), ("S002", s2)])
    out.append((os.path.join(root, "small"), "11,200,15,50,2,2147483648,0"))
    # 75 samples, 5% divergence: > 50 DISTINCT deltas per LZ group, so every delta stream has two packs and the
    # second-batch sample (SB) and the last sample (SL) sit in different packs of the same streams
    _write(os.path.join(root, "big"), gs.gen_big_group(rng, 75, clen=120, div=0.05))
    out.append((os.path.join(root, "big"), "11,50,15,50,4,2147483648,0"))
    _write(os.path.join(root, "k2"), [("r0", [("c", "CAT")]), ("r1", [("c", "CAT"), ("d", "C")])])
    out.append((os.path.join(root, "k2"), "2,5,15,50,1,2147483648,0"))
    extra = []
    if tier == "thorough":
        for i in range(17):
            ss = gs.gen_set(rng, nsamples=rng.choice([2, 3, 4, 6]), ncontigs=rng.choice([1, 2, 3]),
                            clen=rng.choice([150, 300, 600]))
            k = rng.choice([9, 11, 15, 21])
            p = f"{k},{rng.choice([50, 100, 200, 500])},{rng.choice([15, 18, 20])},50,{rng.choice([1, 2, 4])},2147483648,0"
            _write(os.path.join(root, f"rnd{i}"), ss)
            extra.append((os.path.join(root, f"rnd{i}"), p))
    return out, extra


def _chunks(seqs, n):
    for i in range(0, len(seqs), n):
        yield seqs[i:i + n]


def gen_cases(rng, tier):
    seed_tag = "%08x" % rng.getrandbits(32)
    # the directory name depends on the seed only through the generated content's generator state
    seed_tag = hashlib.sha256((seed_tag + tier).encode()).hexdigest()[:8]
    main, extra = _archives(rng, tier, seed_tag)
    _STATE["archives"] = main + extra
    cs = []
    # regressions first (each was a real failure before b430dd4 / d5b0008 / 709bfda)
    for d, p in main:
        cs.append(f"h {d} {p} gs:SX gs:SX / lc:S0 as / lc:S0 gst / rs:GW / gs:S0 rs:GW / rs:GW gs:S0 / rs:GW sg:D0 gs:S0 gc:S0:C0")
    per = 200
    nseq = 0
    for d, p in main:
        tiny = tier == "quick" and d.endswith("k2")      # k2 has 2 samples, 3 contigs: the 26-op alphabet covers it
        seqs = [" ".join(s) for s in itertools.product(QA if tiny else FULL, repeat=3)]
        if not tiny:
            seqs += [" ".join(s) for s in itertools.product(A12 if tier == "quick" else A20, repeat=4)]
        nseq += len(seqs)
        for ch in _chunks(seqs, per):
            cs.append(f"h {d} {p} " + " / ".join(ch))
    for d, p in extra:
        seqs = [" ".join(s) for s in itertools.product(QA, repeat=3)]
        nseq += len(seqs)
        for ch in _chunks(seqs, per):
            cs.append(f"h {d} {p} " + " / ".join(ch))
    nrand = 300 if tier == "quick" else 3000
    for d, p in main + extra:
        seqs = [" ".join(rng.choice(FULL) for _ in range(rng.randint(10, 30))) for _ in range(nrand)]
        nseq += len(seqs)
        for ch in _chunks(seqs, 25):
            cs.append(f"h {d} {p} " + " / ".join(ch))
    nthr = 60 if tier == "quick" else 400
    for j, (d, p) in enumerate(main + extra[:3]):
        for _ in range(nthr if j < 3 else 100):
            par = " ".join(rng.choice(FULL) for _ in range(rng.randint(0, 4)))
            cs.append(f"t {d} {p} {rng.getrandbits(40) + 1} {rng.choice([2, 3, 4, 8])} {rng.randint(10, 30)} {par}".rstrip())
    _STATE["sequences"] = nseq
    return cs


def model_cases(cases, impl_lines):
    return [c + " || " + i for c, i in zip(cases, impl_lines)]


def canon(case, line):
    if line.startswith("CREATE-"):
        # the archive could not be created (another property's business): nothing to compare, nothing to judge
        _STATE.setdefault("create_failed", set()).add(case.split()[1])
        return "NOTRACE"
    if line.startswith("A "):
        p = line.find(" | ")
        return line[p + 3:] if p >= 0 else line
    return line


def _results(impl):
    p = impl.find(" | ")
    out = []
    for seq in impl[p + 3:].split(" / "):
        out.append([tuple(t.split("~")) for t in seq.split()])
    return out


def nontrivial(case, impl):
    if not impl.startswith("A "):
        return False
    return any(len(s) >= 2 and any(o[1].startswith("O") for o in s) for s in _results(impl))


def oracle(case, impl):
    if impl.startswith("CREATE-"):
        return None
    if not impl.startswith("A "):
        return "implementation failed: " + impl[:200]
    for si, seq in enumerate(_results(impl)):
        for oi, t in enumerate(seq):
            if len(t) != 3:
                return "malformed result token " + "~".join(t)
            op, same, fresh = t
            if same.startswith("P") or fresh.startswith("P"):
                return f"panic: sequence [{' '.join(x[0] for x in seq[:oi + 1])}] op {op}: handle {same} fresh {fresh}"
            if fresh.startswith("X"):
                return f"fresh handle could not be opened for {op}"
            if same != fresh:
                return (f"answer depends on history: after [{' '.join(x[0] for x in seq[:oi])}] {op} gives {same}, "
                        f"a fresh handle gives {fresh}")
    return None


def finding_class(case, impl, why):
    if why.startswith("panic"):
        return "metadata-reload-oob"
    if "depends on history" in why:
        if " rs:" in why and ("E:-" in why):
            return "stored-raw-reference"
        return "ref-len-le-2-unpacked"
    return None


def search(ctx, budget):
    rng = random.Random(ctx.seed + 1)
    found, n = [], 0
    cases = []
    for d, p in _STATE.get("archives", []):
        seqs = [" ".join(rng.choice(FULL) for _ in range(rng.randint(2, 12))) for _ in range(40 * budget)]
        n += len(seqs)
        for ch in _chunks(seqs, 50):
            cases.append(f"h {d} {p} " + " / ".join(ch))
    res = vlib.run_impl(PROP, cases, timeout=1800)
    for c, i in zip(cases, res):
        why = oracle(c, i)
        if why:
            found.append((c, i, why))
    return found, n


def _cli(bin_, args, cwd):
    p = subprocess.run([bin_] + args, cwd=cwd, capture_output=True, timeout=120)
    return p.returncode, p.stdout.decode(errors="replace"), p.stderr.decode(errors="replace")


def extra_checks(ctx):
    """the shipped CLI: a miss after a hit, a hit after a miss, several samples in one listctg, full-table inspect"""
    out = []
    ok, log, ragc = vlib.build_cli("release")
    if not ok:
        return [("harness", "cargo build of ragc-cli failed", log[-800:], None)]
    arch = _STATE.get("archives")
    if not arch:
        return out
    d = arch[0][0]
    a = os.path.join(d, "cli.agc")
    if os.path.exists(a):
        os.unlink(a)
    rc, so, se = _cli(ragc, ["create", "-o", a, "-k", "11", "-s", "200", "-m", "15", "-v", "0", "S000.fa", "S001.fa", "S002.fa"], d)
    if rc != 0:
        return [("harness", "ragc create failed", (so + se)[-600:], None)]
    runs = 0

    def bad(args, rc, so, se, why):
        out.append(("", "", "", (f"cli {' '.join(args)}", f"rc={rc} stderr={se[-300:]}", f"[cli] {why}")))

    def expect_error(args):
        nonlocal runs
        rc, so, se = _cli(ragc, args, d)
        runs += 1
        if rc == 0:
            bad(args, rc, so, se, "unknown name did not yield an error exit")
        elif rc == 101 or rc < 0 or rc >= 128 or "panicked" in se:
            bad(args, rc, so, se, "panic: crash instead of an error value for an unknown name")

    def expect_ok(args, contains=()):
        nonlocal runs
        rc, so, se = _cli(ragc, args, d)
        runs += 1
        if rc != 0:
            bad(args, rc, so, se, "query failed (panic)" if rc == 101 or "panicked" in se else "query failed")
        for c in contains:
            if c not in so:
                bad(args, rc, so, se, f"output lacks {c!r}")
        return so

    expect_error(["getset", a, "S000", "nosuch"])
    expect_error(["getset", a, "nosuch", "S000"])
    expect_error(["getset", a, "nosuch", "nosuch"])
    expect_error(["listctg", a, "S000", "nosuch"])
    expect_error(["listctg", a, "nosuch", "S000"])
    expect_error(["ctglen", "-s", "S000", "-c", "nosuchctg", a])
    expect_error(["ctglen", "-s", "nosuch", "-c", "chr0", a])
    expect_error(["getrange", "-s", "S000", "-c", "nosuchctg", "--start", "0", "--end", "5", a])
    expect_ok(["listctg", a, "S000", "S001"], ["S000\tchr0", "S000\tt2", "S001\tchr0", "S001\tu"])
    expect_ok(["listctg", a, "S002", "S000", "S002"], ["S002\tonly2", "S000\tt1"])
    expect_ok(["inspect", "-s", a], ["S000/chr0", "S002/only2"])
    one = expect_ok(["getset", a, "S001"], [">chr0", ">u"])
    two = expect_ok(["getset", a, "S000", "S001"], [">u"])
    if one and one not in two:
        bad(["getset", a, "S000", "S001"], 0, two, "", "answer depends on history: S001 extracted after S000 differs from S001 alone")
    l1 = expect_ok(["ctglen", "-s", "S001", "-c", "chr0", a])
    _STATE["cli_runs"] = runs
    return out


def extra_coverage(ctx):
    return {"archives": [os.path.basename(d) + " " + p for d, p in _STATE.get("archives", [])],
            "op_sequences": _STATE.get("sequences", 0),
            "archives_not_created": sorted(os.path.basename(x) for x in _STATE.get("create_failed", [])), "cli_runs": _STATE.get("cli_runs", 0)}
