"""C20 canonical k-mer arithmetic: generator, oracle (from-scratch packing in Python), search."""
PROP = "C20"
AREAS = ["kmer"]
THEOREMS = ["sliding_eq_scratch", "fill_phase", "canonical_is_min", "canonical_strand_symmetric", "dir_flag_iff_le",
            "left_aligned_le_iff", "rc_kmer_spec", "rc_kmer_involutive", "canonical_kmer_spec",
            "canonical_kmer_strand_symmetric", "kmers_spec_holds", "non_acgt_restarts", "no_trap_dir_step",
            "no_trap_rc_step", "insert_no_wrap"]
RULE = ("cases: feed k syms (Kmer state after inserting syms), rck k v (reverse_complement_kmer/canonical_kmer on a "
        "left-aligned value), enum k contig (enumerate_kmers with non-ACGT resets). exhaustive: all 4^k windows k<=6 (quick) "
        "/ k<=8 (thorough), all sequences <= k+3 for k<=4/5; random k in 1..32 incl. 32. non-trivial = at least k ACGT "
        "symbols were inserted (window full) resp. enum output non-empty; distinct = distinct case line")
TRUSTED = ["python oracle in checks/c20.py (from-scratch packing, reverse complement)"]
ASSUMPTIONS = ["k in 1..32; symbols < 4 are bases, > 3 restart the window"]
M64 = (1 << 64) - 1


def hx(b):
    return "".join("%02x" % x for x in b) if b else "-"


def unhx(s):
    return [] if s == "-" else [int(s[i:i + 2], 16) for i in range(0, len(s), 2)]


def pack(w, k):
    v = 0
    for b in w:
        v = v * 4 + b
    return (v << (64 - 2 * k)) & M64


def gen_cases(rng, tier):
    import itertools
    cs = []
    kmax_ex = 6 if tier == "quick" else 8
    for k in range(1, kmax_ex + 1):
        for w in itertools.product(range(4), repeat=k):
            cs.append(f"feed {k} {hx(w)}")
            if k <= 5:
                cs.append(f"rck {k} {pack(w, k):x}")
    for k in range(1, (4 if tier == "quick" else 5) + 1):
        for n in range(0, k + 4):
            for w in itertools.product(range(4), repeat=n):
                cs.append(f"feed {k} {hx(w)}")
                cs.append(f"enum {k} {hx(w)}")
    nrand = 3000 if tier == "quick" else 200000
    for _ in range(nrand):
        k = rng.choice([rng.randint(1, 32), 32, 31, 1, 21])
        n = rng.choice([k, k + 1, rng.randint(0, 3 * k + 5), rng.randint(k, 200)])
        kind = rng.random()
        if kind < 0.4:
            cs.append(f"feed {k} {hx([rng.randint(0, 3) for _ in range(n)])}")
        elif kind < 0.6:
            w = [rng.randint(0, 3) for _ in range(k)]
            cs.append(f"rck {k} {pack(w, k):x}")
        else:
            p = rng.choice([0.0, 0.02, 0.2])
            c = [(rng.choice([4, 5, 14, 30, 255]) if rng.random() < p else rng.randint(0, 3)) for _ in range(n)]
            cs.append(f"enum {k} {hx(c)}")
    return cs


def nontrivial(case, impl):
    t = case.split()
    if t[0] == "feed":
        return len(unhx(t[2])) >= int(t[1])
    if t[0] == "enum":
        return impl != "-"
    return True


def rc(w):
    return [3 - b for b in reversed(w)]


def oracle(case, impl):
    t = case.split()
    if impl.startswith(("PANIC", "CRASH", "HARNESS-ERROR")):
        return "implementation failed: " + impl[:100]
    k = int(t[1])
    if t[0] == "feed":
        syms = unhx(t[2])
        if len(syms) < k:
            return None
        w = syms[-k:]
        d, r = pack(w, k), pack(rc(w), k)
        f = impl.split()
        got = (int(f[0], 16), int(f[1], 16), int(f[2]), f[3], int(f[4], 16), f[5])
        want = (d, r, k, "1", min(d, r), "1" if d <= r else "0")
        if got != want:
            return f"sliding value differs from from-scratch value: got {got} want {want}"
        return None
    if t[0] == "rck":
        v = int(t[2], 16)
        w = [(v >> (62 - 2 * i)) & 3 for i in range(k)]
        r = pack(rc(w), k)
        f = impl.split()
        if int(f[0], 16) != r or int(f[1], 16) != min(v, r):
            return "reverse_complement_kmer/canonical_kmer differ from from-scratch value"
        return None
    if t[0] == "enum":
        c = unhx(t[2])
        want = []
        for i in range(0, len(c) - k + 1):
            w = c[i:i + k]
            if all(b < 4 for b in w):
                want.append(min(pack(w, k), pack(rc(w), k)))
        got = [] if impl == "-" else [int(x, 16) for x in impl.split(",")]
        if got != want:
            return "enumerate_kmers differs from canonical values of all ACGT-only windows"
    return None


def search(ctx, budget):
    cases = gen_cases(ctx.rng, "quick") * 1
    res = vlib.run_impl(PROP, cases)
    found = [(c, i, oracle(c, i)) for c, i in zip(cases, res) if oracle(c, i)]
    return found, len(cases)


def finding_class(case, impl, why):
    return None
