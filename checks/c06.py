"""C06 bounded priority queue: scenario generator, trace hand-over to the model driver (model_cases), and an
independent python oracle that judges the logged trace of the real MemoryBoundedQueue directly."""
PROP = "C06"
AREAS = ["queue"]
THEOREMS = ["exactly_once", "history_faithful", "priority", "size_accounting", "take_no_underflow", "bounded",
            "closed_refuses", "no_admit_after_close", "closed_drains_then_none", "pull_none_only_when_drained",
            "closed_nobody_blocked", "threads_distinct", "push_wait_nonempty", "no_lost_wakeup", "replay_sound",
            "source_has_model_shape"]
RULE = ("trace validation: each case is a scenario (scheduler seed, capacity, close mode, 1..16 thread scripts of "
        "push/try_push/pull/try_pull/close/sleep with item = (priority, id), Ord by priority only so ties are real) run "
        "on the real MemoryBoundedQueue with the H1 perturbation scheduler; the H2 log (written under the queue lock) "
        "plus every thread's observed results is replayed through the extracted Queue.replay_step: every record must be "
        "an enabled transition of Queue.step with the observed outcome, every thread must finish, nobody may remain in a "
        "wait, and the final (len, current_size, closed) must equal the real queue's. kinds: seq = one thread, "
        "deterministic, never blocks; bal = p producers / c consumers, blocking ops only, #pulls = #pushes, no close "
        "before the end (exercises wait-full, wait-empty, oversize-admitted-when-empty); mix = random ops, close after a "
        "random delay and/or from scripts. capacities 0,1,2,3,5,10,100,1000,2^32,2^63,2^64-1; sizes 0..cap+1. "
        "non-trivial = at least one admit and one take and (>= 2 threads in the log or a refusal/none record); "
        "distinct = distinct case line")
TRUSTED = ["Queue.step guards = assumed behaviour of std::sync::Mutex/Condvar (mutual exclusion, atomic release in wait, "
           "notify_one wakes one blocked thread if any, notify_all wakes all, spurious wake-ups possible) and of "
           "BinaryHeap::pop (returns a maximal element)",
           "hooks H1/H2 in /repo (verif_hooks.rs, events logged under the queue lock in memory_bounded_queue.rs)",
           "ocaml/c06/driver.ml script walking (attaches priorities to push records, compares observed outcomes)",
           "python oracle in checks/c06.py (direct re-check of exactly-once, priority, bound, close behaviour on the log)"]
ASSUMPTIONS = ["current_size + size_bytes < 2^64 on every push attempt (overflow panics in the dev profile: outside the guard)",
               "bounded: every admitted item has size <= capacity (push admits an oversize item when nothing is queued)",
               "the hook admission counter next_seq (u64) does not wrap",
               "liveness (a woken thread eventually runs) is the scheduler's: the theorems state enabledness"]
M64 = (1 << 64) - 1
CAPS = [0, 1, 2, 3, 5, 10, 100, 1000, 1 << 32, 1 << 63, M64]


# ------------------------------------------------------------------------------------------------ generator
def _size(rng, cap, big_ok=True):
    r = rng.random()
    if cap <= 12:
        return rng.randint(0, cap + 1)
    if r < 0.15:
        return 0
    if r < 0.25:
        return cap
    if r < 0.32 and big_ok and cap < M64:
        return cap + 1
    if r < 0.6:
        return rng.randint(1, max(1, cap // 3))
    if r < 0.8:
        return rng.randint(cap // 3, cap)
    return rng.randint(0, 20)


def _prio(rng, spread):
    if spread == 0:
        return 0
    if spread == 1:
        return rng.randint(-1, 1)
    if spread == 2:
        return rng.randint(-5, 5)
    return rng.choice([rng.randint(-(1 << 62), 1 << 62), -(1 << 63), (1 << 63) - 1, rng.randint(-3, 3)])


def _fix_overflow(cap, scripts):
    """shrink sizes until no push attempt can overflow usize: current_size <= min(max(cap, maxsz), total)"""
    while True:
        sizes = [int(o.split(":")[1], 16) for s in scripts for o in s if o[0] in "PQ"]
        if not sizes:
            return scripts
        mx, tot = max(sizes), sum(sizes)
        if min(max(cap, mx), tot) + mx <= M64:
            return scripts
        scripts = [[(o.split(":")[0] + ":%x" % (int(o.split(":")[1], 16) >> 1)) if o[0] in "PQ" else o for o in s]
                   for s in scripts]


def _gen_seq(rng, cap):
    """one thread; python simulates the queue so that no blocking op can block.  When a take has a tie between
    items of different sizes, current_size becomes unknown until the queue is empty again; meanwhile only ops whose
    outcome does not depend on it are generated."""
    items, cur, closed, unsure = [], 0, False, False
    ops = []
    spread = rng.randint(0, 2)

    def take():
        nonlocal cur, unsure
        m = max(p for p, _ in items)
        cands = [x for x in items if x[0] == m]
        if len({z for _, z in cands}) > 1:
            unsure = True
        items.remove(cands[0])
        cur -= cands[0][1]
        if not items:
            cur, unsure = 0, False

    for _ in range(rng.randint(3, 40)):
        r = rng.random()
        if r < 0.28:
            z = _size(rng, cap)
            if (unsure and not closed) or cur + z > M64 or (cur + z > cap and cur > 0 and not closed):
                continue
            ops.append("P%d:%x" % (_prio(rng, spread), z))
            if not closed:
                items.append((int(ops[-1][1:].split(":")[0]), z)); cur += z
        elif r < 0.5:
            z = _size(rng, cap)
            if (unsure and not closed) or cur + z > M64:
                continue
            ops.append("Q%d:%x" % (_prio(rng, spread), z))
            if not closed and cur + z <= cap:
                items.append((int(ops[-1][1:].split(":")[0]), z)); cur += z
        elif r < 0.7:
            if items or closed:
                ops.append("G")
                if items:
                    take()
        elif r < 0.9:
            ops.append("H")
            if items:
                take()
        elif r < 0.96 or closed:
            ops.append("C"); closed = True
    return ops or ["H"]


def _gen_case(rng):
    cap = rng.choice(CAPS)
    seed = rng.randint(1, (1 << 32) - 1) if rng.random() < 0.85 else 0
    kind = rng.random()
    spread = rng.choice([0, 1, 1, 2, 2, 3])
    if kind < 0.12:
        scripts = [_gen_seq(rng, cap)]
        mode = "n"
    elif kind < 0.45:
        p, c = rng.randint(1, 8), rng.randint(1, 8)
        per = [rng.randint(1, 8) for _ in range(p)]
        total = sum(per)
        prod = [["P%d:%x" % (_prio(rng, spread), _size(rng, cap)) for _ in range(k)] for k in per]
        cuts = sorted(rng.randint(0, total) for _ in range(c - 1))
        quota = [b - a for a, b in zip([0] + cuts, cuts + [total])]
        cons = [["G"] * k for k in quota if k > 0]
        scripts = prod + cons
        if rng.random() < 0.3:
            for s in scripts:
                for i in range(len(s) - 1, 0, -1):
                    if rng.random() < 0.15:
                        s.insert(i, "Z%d" % rng.choice([1, 10, 50, 200]))
        rng.shuffle(scripts)
        mode = rng.choice(["n", "j", "j"])
    else:
        t = rng.choice([1, 2, 2, 3, 4, 4, 6, 8, 8, 12, 16, 16])
        flavour = rng.random()
        scripts = []
        for _ in range(t):
            n = rng.randint(1, 12)
            role = rng.random()
            s = []
            for _ in range(n):
                r = rng.random()
                if flavour < 0.3:                      # producers / consumers with a few try ops
                    if role < 0.5:
                        op = "P" if r < 0.8 else "Q"
                    else:
                        op = "G" if r < 0.8 else "H"
                else:
                    op = "P" if r < 0.3 else "Q" if r < 0.45 else "G" if r < 0.72 else "H" if r < 0.9 else \
                        "C" if r < 0.92 else "Z"
                if op in "PQ":
                    s.append("%s%d:%x" % (op, _prio(rng, spread), _size(rng, cap)))
                elif op == "Z":
                    s.append("Z%d" % rng.choice([1, 5, 20, 100, 400]))
                else:
                    s.append(op)
            scripts.append(s)
        mode = "d%d" % rng.choice([0, 0, 5, 20, 50, 100, 300, 1000, 3000])
    scripts = _fix_overflow(cap, scripts)
    return "run %d %x %s %s" % (seed, cap, mode, " ".join(",".join(s) for s in scripts))


def _gen_race(rng):
    """close racing threads that are about to block: consumers pulling from an empty queue, or producers pushing into
    a full one, with the close issued by a script or by the harness after 0..few ms - the schedules on which a wake-up
    lost between a waiter's predicate test and its wait leaves a thread blocked on a closed queue"""
    seed = rng.randint(1, (1 << 32) - 1)
    if rng.random() < 0.5:
        cap = rng.choice([1, 2, 5, 100])
        t = rng.choice([2, 3, 4, 8, 15])
        scripts = [["G"] * rng.choice([1, 1, 2]) for _ in range(t)]
        if rng.random() < 0.5:
            scripts.append(["P0:1"])
    else:
        cap = rng.choice([1, 2, 3])
        t = rng.choice([2, 3, 4, 8, 15])
        scripts = [["P%d:%x" % (rng.randint(-1, 1), cap)] * rng.choice([1, 2, 3]) for _ in range(t)]
        if rng.random() < 0.5:
            scripts.append(["G"])
    if rng.random() < 0.5:
        scripts.append((["Z%d" % rng.choice([1, 1, 5])] if rng.random() < 0.5 else []) + ["C"])
        mode = "n" if rng.random() < 0.3 else "d%d" % rng.choice([50, 300])
    else:
        mode = "d%d" % rng.choice([0, 0, 1, 1, 2, 5])
    rng.shuffle(scripts)
    return "run %d %x %s %s" % (seed, cap, mode, " ".join(",".join(s) for s in scripts))


def gen_cases(rng, tier):
    n = 300 if tier == "quick" else 20000
    fixed = [
        "run 0 a n P5:6,P3:4,G,Q1:1,Q2:5,H,C,P1:1,Q1:1,G,G,G,H",          # sequential tour incl. refusals and None
        "run 0 a n P11:b,Q1:0,Q1:1,H,H,H,P12:ffffffffffffffff,G,C,G",         # oversize admitted when empty
        "run 3 0 j P1:0,P2:1,P2:0 G,G G",                                   # capacity 0
        "run 5 5 j P1:3,P2:3,P2:6 G,G G",
        "run 9 1 d300 P0:1,P0:1,P0:1,P0:1 P0:1,P0:1,P0:1 G,G G,G,G,G,G G",   # all ties
    ]
    return fixed + [_gen_case(rng) for _ in range(n)] + [_gen_race(rng) for _ in range(n // 2)]


# ------------------------------------------------------------------------------------------------ plumbing
def model_cases(cases, impl_lines):
    """the model driver replays what the implementation logged: case ++ '||' ++ harness line"""
    return [c + " || " + (i if i.startswith("F ") else "NOTRACE") for c, i in zip(cases, impl_lines)]


def canon(case, line):
    if line.startswith("F "):
        t = line.split()
        return "OK %s %s %s" % (t[1], t[2], t[3])
    return line


def _parse(case, impl):
    t = case.split()
    cap, mode = int(t[2], 16), t[3]
    scripts = [s.split(",") for s in t[4:]]
    head, log, res = [x.strip() for x in impl.split("|")]
    h = head.split()
    evs = [] if log == "-" else [e.split(",") for e in log.split(";")]
    results = [r.split(",") for r in res.split()]
    return cap, mode, scripts, (int(h[1]), int(h[2], 16), h[3] == "1"), evs, results


def nontrivial(case, impl):
    if not impl.startswith("F "):
        return False
    cap, mode, scripts, fin, evs, results = _parse(case, impl)
    kinds = [e[0] for e in evs]
    adm = any(k in ("A", "TA") for k in kinds)
    tk = any(k in ("T", "TT") for k in kinds)
    thr = len({e[1] for e in evs if e[1] != "0"})
    return adm and tk and (thr >= 2 or any(k in ("R", "TR", "TB", "N", "TN", "WF", "WE") for k in kinds))


# ------------------------------------------------------------------------------------------------ oracle
def oracle(case, impl):
    """the property itself, checked on the real queue's trace without the Coq model"""
    if not impl.startswith("F "):
        return "implementation failed: " + impl[:200]
    try:
        return _oracle(case, impl)
    except (IndexError, ValueError, KeyError) as ex:
        return "oracle could not read the trace: %r" % (ex,)


def _oracle(case, impl):
    cap, mode, scripts, fin, evs, results = _parse(case, impl)
    nthr = len(scripts)
    if len(results) != nthr:
        return "result columns != threads"
    for r in results:
        if any(x.startswith("PANIC") for x in r):
            return "a thread panicked: " + ",".join(r)[:200]
    # --- what the threads saw (independent of the log): exactly-once on item identities
    pushed = {}                                   # id -> prio of every push that returned Ok
    for ti, (s, r) in enumerate(zip(scripts, results)):
        if len(s) != len(r):
            return "thread %d: %d results for %d ops" % (ti + 1, len(r), len(s))
        for i, (o, x) in enumerate(zip(s, r)):
            if o[0] in "PQ":
                if x == "o":
                    pushed[1000 * (ti + 1) + i] = int(o[1:].split(":")[0])
                elif x not in ("c", "b") or (x == "b" and o[0] == "P"):
                    return "bad push result " + x
    got = {}
    for ti, (s, r) in enumerate(zip(scripts, results)):
        for o, x in zip(s, r):
            if o in ("G", "H") and x != "n":
                p, i = x.split(":")
                p, i = int(p), int(i)
                if i not in pushed:
                    return "item %s returned but never accepted" % x
                if pushed[i] != p:
                    return "item %s returned with a different priority than pushed" % x
                if i in got:
                    return "item %s returned twice" % x
                got[i] = ti + 1
    if len(pushed) - len(got) != fin[0]:
        return "accepted %d - returned %d != len() %d at the end" % (len(pushed), len(got), fin[0])
    # --- the trace: priority, bound, close behaviour
    pc = [0] * (nthr + 1)

    def script(t):
        return ([] if mode == "n" else ["C"]) if t == 0 else scripts[t - 1]

    def cur_op(t):
        s = script(t)
        while pc[t] < len(s) and s[pc[t]][0] == "Z":
            pc[t] += 1
        return s[pc[t]]

    q = {}                                        # seq -> (prio, size, "prio:id")
    cur, closed, nseq = 0, False, 0
    oversize_admitted = False
    wf, we = set(), set()
    holder = None                                 # thread that logged KF/KE and still holds the lock
    taken_seqs = set()
    for k, e in enumerate(evs):
        kind, t = e[0], int(e[1], 16)
        where = "record %d %s: " % (k, ",".join(e))
        if holder is not None and t != holder:
            return where + "another thread ran inside a woken thread's critical section"
        op = cur_op(t)
        if kind in ("KF", "KE"):
            if t not in (wf if kind == "KF" else we):
                return where + "woke without waiting"
            (wf if kind == "KF" else we).discard(t)
            holder = t
            continue
        holder = None
        if t in wf or t in we:
            return where + "thread acts while inside wait"
        if kind in ("WF", "R", "A", "TR", "TB", "TA"):
            if op[0] != ("P" if kind in ("WF", "R", "A") else "Q"):
                return where + "record does not match the script"
            prio, size = int(op[1:].split(":")[0]), int(op[1:].split(":")[1], 16)
            if int(e[-1], 16) != size:
                return where + "size differs"
            if kind == "WF":
                if not (cur + size > cap and cur > 0 and not closed):
                    return where + "push waits although its condition is false"
                if not q:
                    return where + "push waits on an empty queue"
                wf.add(t)
                continue
            if kind in ("R", "TR"):
                if not closed:
                    return where + "push refused while open"
                if results[t - 1][pc[t]] != "c":
                    return where + "thread did not see Closed"
            elif kind == "TB":
                if closed or cur + size <= cap:
                    return where + "try_push WouldBlock although it fits / closed"
                if results[t - 1][pc[t]] != "b":
                    return where + "thread did not see WouldBlock"
            else:
                if closed:
                    return where + "push accepted after close"
                if kind == "A" and cur + size > cap and cur > 0:
                    return where + "push admitted although it had to wait"
                if kind == "TA" and cur + size > cap:
                    return where + "try_push admitted beyond capacity"
                if int(e[2], 16) != nseq:
                    return where + "admission counter out of order"
                if results[t - 1][pc[t]] != "o":
                    return where + "thread did not see Ok"
                q[nseq] = (prio, size, "%d:%d" % (prio, 1000 * t + pc[t]))
                nseq += 1
                cur += size
                if size > cap:
                    oversize_admitted = True
                if cur > cap and not oversize_admitted:
                    return where + "queued bytes %d exceed capacity %d although every item fits" % (cur, cap)
        elif kind in ("WE", "N", "T", "TN", "TT"):
            if op != ("G" if kind in ("WE", "N", "T") else "H"):
                return where + "record does not match the script"
            if kind == "WE":
                if q or closed:
                    return where + "pull waits although items are queued or the queue is closed"
                we.add(t)
                continue
            if kind == "N":
                if q or not closed:
                    return where + "pull reports end-of-stream while open or non-empty"
            elif kind == "TN":
                if q:
                    return where + "try_pull reports none while items are queued"
            else:
                sq = int(e[2], 16)
                if sq in taken_seqs:
                    return where + "seq returned twice"
                if sq not in q:
                    return where + "seq returned but not queued"
                prio, size, ident = q.pop(sq)
                taken_seqs.add(sq)
                if int(e[3], 16) != size:
                    return where + "size differs from the admitted size"
                if any(p > prio for p, _, _ in q.values()):
                    return where + "a strictly higher priority item stayed behind"
                cur -= size
                if results[t - 1][pc[t]] != ident:
                    return where + "thread received %s, log says %s" % (results[t - 1][pc[t]], ident)
            if kind in ("N", "TN") and results[t - 1][pc[t]] != "n":
                return where + "thread did not see None"
        elif kind == "C":
            if op != "C":
                return where + "record does not match the script"
            closed = True
        else:
            return where + "unknown record"
        pc[t] += 1
    if holder is not None or wf or we:
        return "a thread is still blocked at the end (wf=%s we=%s)" % (sorted(wf), sorted(we))
    for t in range(nthr + 1):
        s = script(t)
        while pc[t] < len(s) and s[pc[t]][0] == "Z":
            pc[t] += 1
        if pc[t] != len(s):
            return "thread %d did not finish its script" % t
    if (len(q), cur, closed) != fin:
        return "final state (len,size,closed) %r differs from the trace's %r" % (fin, (len(q), cur, closed))
    return None


def search(ctx, budget):
    cases = [(_gen_race if i % 2 else _gen_case)(ctx.rng) for i in range(200 * budget)]
    res = vlib.run_impl(PROP, cases)
    found = [(c, i, oracle(c, i)) for c, i in zip(cases, res) if oracle(c, i)]
    return found, len(cases)


def finding_class(case, impl, why):
    return None
