"""C04 archive bytes depend only on inputs and parameters: generator of sample sets x schedules, hand-over of the
logged traces to the model driver (model_cases), oracle = all sha256 of one input + parameters are equal."""
import os, sys, json, shutil

PROP = "C04"
AREAS = ["determinism"]
THEOREMS = ["schedule_independent", "rounds_as_intended", "rounds_schedule_independent",
            "rounds_deterministic_quiescent", "multifile_script_wf", "singlefile_script_wf",
            "multifile_rounds_deterministic", "singlefile_rounds_deterministic",
            "multifile_deterministic", "singlefile_deterministic", "singlefile_old_rule_refuted"]
RULE = ("case = det <dir> <k,s,m,pack,ff> <schedA,schedB>: one sample set (lib/gen_samples.py; multi-file: one FASTA per "
        "sample, single-file: one PanSN FASTA with pack size 2..7 so that several token blocks occur, samples crossing "
        "0..3 pack boundaries incl. >= 2*pack contigs followed by further samples) is archived by the real library "
        "(harness/src/mk.rs = ragc-cli's driver) once per schedule = threads (1,2,3,4,8,16) : perturbation seed (0 = "
        "natural; H1 scheduler at the H3 yield points) : queue capacity (1 byte = one contig at a time, 600, 4096, 1 MiB, "
        "2 GiB), hook log on. Quick 6 inputs x 12 schedules, thorough 40 x 100 (two schedules per case line so that the "
        "runner can shard; the oracle also compares across the lines of one input). Oracle: every run of one input + "
        "parameters has the same sha256 (HANG runs are reported separately, they are C05's). Model side (trace "
        "validation): the logged pushes/pulls/classifications/None of every run are replayed through the extracted "
        "Determinism.step with the script built by multifile_script / singlefile_script current_rule: every pull must "
        "be maximal in the model's queue, every push admitted by the capacity rule, every ROUND must equal the "
        "model's round and the script's intended round, the run must end complete; the parts of the real file (own "
        "footer parser) must be in the order the model's BTreeMap gives them. non-trivial = >= 2 finished runs, >= 2 "
        "sync rounds and a run with > 1 thread; distinct = distinct case line")
TRUSTED = ["hooks H1-H3 in /repo (verif_hooks.rs; queue events logged under the queue lock, ROUND at classification)",
           "harness/src/bin/c04.rs: normalisation of the hook log (thread id -> worker id through the pulled contig), own "
           "parser of the archive footer, libc mallopt tuning (timing only)",
           "ocaml/c04/driver.ml: mapping of log records to model events (a wait of the script is passed as soon as the "
           "model's queue is empty; SEGMENTED is not an event: a contig is in the raw buffer when its worker pulls again)",
           "model abstractions (Section variables of Determinism.v): classification, compression and the catalogue are "
           "functions of their arguments; distinct group buffers of a round write to distinct streams; the final partial "
           "packs have distinct stream ids; segmentation is a function of the contig (is_reference_sample is decided by a "
           "priority the single producer thread assigns); zstd is a function (exercised: equal sha256)",
           "translator items det_* (priority constants, token priority expression, next_priority lowering, textual shapes "
           "of the Ord impls and of the sort / BTreeMap sites): pinned by Example shapes_pinned and by current_rule"]
ASSUMPTIONS = ["single-file: samples are contiguous in the input (ragc-cli and mk.rs refuse a sample that comes back)",
               "(sample, contig) pairs are unique (push refuses a duplicate since 139ec00)",
               "2 * #contigs + 4 < i32::MAX - 1_000_000 (priorities neither wrap nor reach the flush tokens' 1_000_000)",
               "pack_size > 0 (0 divides by zero in push); at least one worker thread",
               "schedules are finite event lists that end complete (everything pushed, pulled and classified); liveness is C05"]
PROFILES = ["dev", "release"]
PROFILES_QUICK = ["dev"]

VERIF = os.path.dirname(os.path.dirname(os.path.abspath(__file__)))
sys.path.insert(0, os.path.join(VERIF, "lib"))
import gen_samples as gs  # noqa

TMP = os.path.join(VERIF, ".cache", "tmp", "c04")
_seen = {}          # (dir, params) -> (sched, sha, rounds, case) of the first finished run
_stats = {"runs": 0, "hang": 0, "err": 0, "replay_fail": 0}


# ------------------------------------------------------------------------------------------------ generator
def single_set(rng, pack):
    """PanSN set: the sizes of the samples are chosen around the pack size (0..3 boundaries per sample)"""
    ns = rng.choice([2, 3, 3, 4, 5])
    nb = rng.randint(3 * pack, 4 * pack + 3)
    base = [gs.rand_seq(rng, rng.randint(150, 900)) for _ in range(nb)]
    if rng.random() < 0.3:                                   # equal sizes: ties on cost, the sequence number decides
        L = rng.randint(150, 600)
        base = [gs.rand_seq(rng, L) for _ in range(nb)]
    samples = []
    for si in range(ns):
        n = rng.choice([1, 2, pack - 1, pack, pack + 1, 2 * pack, 2 * pack + 1, 3 * pack + 2, rng.randint(1, nb)])
        n = max(1, min(nb, n))
        div = rng.choice([0.0, 0.01, 0.03])
        samples.append((f"S{si:03d}", [(f"chr{c}", base[c] if si == 0 else gs.mutate(rng, base[c], div) or "A")
                                       for c in range(n)]))
    return samples


def levels_set(rng):
    """A multi-file set whose reference segments mix short tandem repeats (compressed at the 'repetitive' zstd level)
    with ordinary sequence (tuple-packed, another level) and whose samples produce full delta packs (a third level),
    large enough for the levels to give different frames: a seeded change that made the zstd level depend on which
    group a worker happened to claim first went unnoticed before inputs of this shape were generated."""
    def contig():
        out = []
        while sum(len(x) for x in out) < rng.randint(15000, 30000):
            if rng.random() < 0.5:
                unit = gs.rand_seq(rng, rng.randint(2, 30))
                out.append(unit * rng.randint(20, 120))
            else:
                out.append(gs.rand_seq(rng, rng.randint(800, 4000)))
        return "".join(out)
    base = [contig() for _ in range(rng.randint(2, 3))]
    return [(f"S{si:03d}", [(f"chr{c}", b if si == 0 else gs.mutate(rng, b, 0.01)) for c, b in enumerate(base)])
            for si in range(rng.randint(3, 4))]


def schedules_many_threads(rng, n):
    out = ["1:0:2147483648"]
    while len(out) < n:
        out.append(f"{rng.choice([4, 8, 16, 16])}:{rng.choice([0, rng.randint(1, 1 << 30)])}:{rng.choice([1 << 31, 1 << 20, 65536])}")
    return out[:n]


def schedules(rng, n):
    out = ["1:0:2147483648", "1:0:1"]
    while len(out) < n:
        t = rng.choice([1, 2, 3, 4, 8, 16])
        seed = rng.choice([0, rng.randint(1, 1 << 30), rng.randint(1, 1 << 30)])
        cap = rng.choice([1, 1, 600, 4096, 1 << 20, 1 << 31, 1 << 31])
        out.append(f"{t}:{seed}:{cap}")
    return out[:n]


def gen_cases(rng, tier):
    _seen.clear()
    for k in _stats:
        _stats[k] = 0
    nin, ns = (6, 12) if tier == "quick" else (40, 100)
    root = os.path.join(TMP, tier)
    shutil.rmtree(root, ignore_errors=True)
    cases = []
    for i in range(nin):
        d = os.path.join(root, f"in{i}")
        if i % 3 != 2:                                       # two thirds single-file: that is where the rounds are
            pack = rng.choice([2, 3, 5, 5, 7])
            gs.write_case(d, single_set(rng, pack), mode="single")
        else:
            pack = 50
            s = gs.gen_set(rng, nsamples=rng.choice([2, 3, 4, 6]))
            gs.write_case(d, s, mode="multi")
        k = rng.choice([11, 15, 21])
        seg = rng.choice([100, 200, 500])
        ff = rng.choice([0, 0, 0.1])
        sc = schedules(rng, ns)
        for j in range(0, len(sc), 2):
            cases.append(f"det {d} {k},{seg},20,{pack},{ff} " + ",".join(sc[j:j + 2]))
    for i in range(1 if tier == "quick" else 6):             # compression-level-sensitive inputs, many threads
        d = os.path.join(root, f"lv{i}")
        gs.write_case(d, levels_set(rng), mode="multi")
        sc = schedules_many_threads(rng, 10 if tier == "quick" else 40)
        for j in range(0, len(sc), 2):
            cases.append(f"det {d} 21,2000,20,50,0 " + ",".join(sc[j:j + 2]))
    for i in range(1 if tier == "quick" else 4):             # many groups: a few hundred segment groups with a partial
        d = os.path.join(root, f"mg{i}")                     # pack each at finalize (work per thread differs 16-fold
        gs.write_case(d, levels_set(rng), mode="multi")      # between 1 and 16 threads: count-per-thread heuristics)
        sc = schedules_many_threads(rng, 8 if tier == "quick" else 30)
        for j in range(0, len(sc), 2):
            cases.append(f"det {d} 21,{rng.choice([150, 300])},20,50,0 " + ",".join(sc[j:j + 2]))
    return cases


# ------------------------------------------------------------------------------------------------ plumbing
def _runs(impl):
    """[(sched, kind, sha, R, O, T)] of a harness line"""
    out = []
    for r in impl.split(" | ")[1:]:
        f = r.split(" ")
        if len(f) >= 2 and f[1] == "HANG":
            out.append((f[0], "HANG", None, None, None, None))
        elif len(f) >= 2 and f[1] == "ERR":
            out.append((f[0], "ERR", " ".join(f[2:]), None, None, None))
        elif len(f) == 5 and f[2].startswith("R=") and f[3].startswith("O=") and f[4].startswith("T="):
            out.append((f[0], "OK", f[1], f[2], f[3], f[4]))
        else:
            out.append((f[0] if f else "?", "BAD", r[:100], None, None, None))
    return out


def model_cases(cases, impl_lines):
    out = []
    for c, i in zip(cases, impl_lines):
        if not i.startswith("OK "):
            out.append("noreplay")
            continue
        head = i.split(" | ")[0].split(" ")                 # OK mode first=n in=...
        pack = c.split(" ")[2].split(",")[3]
        parts = [f"replay {head[1]} {pack} {head[2]} {head[3]}"]
        for sched, kind, sha, R, O, T in _runs(i):
            parts.append(f"{sched} {R} {O} {T}" if kind == "OK" else f"{sched} {kind}")
        out.append(" || ".join(parts))
    return out


def canon(case, line):
    if line.startswith("OK ") and " first=" in line.split(" | ")[0]:
        mode = line.split(" ")[1]
        rs = []
        for sched, kind, sha, R, O, T in _runs(line):
            rs.append(f"{sched} {R} {O}" if kind == "OK" else f"{sched} {kind}")
        return f"OK {mode} | " + " | ".join(rs)
    return line


def nontrivial(case, impl):
    rs = [r for r in _runs(impl) if r[1] == "OK"]
    return (len(rs) >= 2 and any(int(r[0].split(":")[0]) > 1 for r in rs) and all(r[3].count("/") >= 1 for r in rs))


# ------------------------------------------------------------------------------------------------ oracle
def oracle(case, impl):
    if not impl.startswith("OK "):
        return "implementation failed: " + impl[:200]
    t = case.split(" ")
    key = (t[1], t[2])
    mode = impl.split(" ")[1]
    why = None
    for sched, kind, sha, R, O, T in _runs(impl):
        _stats["runs"] += 1
        if kind == "HANG":
            _stats["hang"] += 1                              # C05's business: counted, not judged here
            continue
        if kind != "OK":
            _stats["err"] += 1
            why = why or f"create failed under schedule {sched}: {sha}"
            continue
        if key not in _seen:
            _seen[key] = (sched, sha, R, case)
            continue
        s0, sha0, R0, case0 = _seen[key]
        if sha != sha0 and why is None:
            why = (f"different archives for the same input and parameters ({mode}-file mode): schedule {s0} gives sha256 "
                   f"{sha0} with rounds {R0[2:]}, schedule {sched} gives {sha} with rounds {R[2:]}; "
                   f"replay: det {t[1]} {t[2]} {s0},{sched}")
    return why


def finding_class(case, impl, why):
    if "different archives" in why and "(single-file mode)" in why:
        return "singlefile-priority-overtake"
    return None


def extra_coverage(ctx):
    return {"c04_runs": dict(_stats),
            "hang_note": "HANG = a create that did not return within the 90 s watchdog; seen only under heavy machine load, "
                         "always after every worker had pulled None (stuck or slow in finalize after the join); not judged by C04"}


def search(ctx, budget):
    cases = gen_cases(ctx.rng, "quick")
    res = vlib.run_impl(PROP, cases)
    found = []
    for c, i in zip(cases, res):
        w = oracle(c, i)
        if w:
            found.append((c, i, w))
    return found, len(cases)
