"""C10 segmentation at splitters: generator, oracle (the property's laws re-evaluated in Python on the real
output, k-mer values packed from scratch), search."""
import itertools

PROP = "C10"
AREAS = ["kmer", "segment"]
THEOREMS = ["with_size_is_gen", "old_is_gen", "nonempty_output", "tiling", "starts_ends", "overlap_k",
            "later_len_ge_k", "boundary_kmers", "ends_missing", "no_splitter_single", "occurrence_splits",
            "old_splits_every_occurrence",
            "short_single", "segments_nonempty", "canonical_ne_missing"]
RULE = ("cases: split <w|o> k contig splitters min_size (w = split_at_splitters_with_size, o = split_at_splitters; "
        "splitters = hex u64 list). exhaustive: all contigs over {0,1,4} up to length 7 (quick) / 9 for w and 8 for o (thorough), "
        "k<=3, with all (k<=2) / all <=2-element + full (k=3) splitter sets drawn from the k-mers over {0,1}; random "
        "(5000 quick / 300000 thorough): "
        "k in 1..32, codes 0..15 and 255, sets = empty / dense (every k-mer of the contig) / random subset / k-mers of "
        "the last k+2 bases / homopolymer and short-period contigs (adjacent and overlapping occurrences) / absent "
        "values incl. u64::MAX / contig shorter than k. non-trivial = at least 2 segments returned; distinct = distinct "
        "case line")
TRUSTED = ["python oracle in checks/c10.py (from-scratch packing of the boundary k-mers, tiling/overlap laws)"]
ASSUMPTIONS = ["k in 1..32 (Kmer::new overflows its shift for k > 32)",
               "the splitter set is only queried for membership (AHashSet<u64>::contains)"]
M64 = (1 << 64) - 1
MISSING = M64


def hx(b):
    return "".join("%02x" % x for x in b) if b else "-"


def unhx(s):
    return [] if s == "-" else [int(s[i:i + 2], 16) for i in range(0, len(s), 2)]


def pack(w, k):
    v = 0
    for b in w:
        v = v * 4 + b
    return (v << (64 - 2 * k)) & M64


def kcanon(w, k):
    d, r = pack(w, k), pack([3 - b for b in reversed(w)], k)
    return min(d, r), d <= r


def kmers_of(c, k):
    """canonical values of all ACGT-only windows, with their end positions"""
    out = []
    run = 0
    for i, b in enumerate(c):
        run = run + 1 if b < 4 else 0
        if run >= k:
            out.append((i + 1, kcanon(c[i + 1 - k:i + 1], k)[0]))
    return out


def case(v, k, c, spl, msz=0):
    return f"split {v} {k} {hx(c)} {','.join('%x' % x for x in spl) if spl else '-'} {msz}"


def gen_exhaustive(maxlen, variants):
    cs = []
    for k in (1, 2, 3):
        vals = sorted({kcanon(list(w), k)[0] for w in itertools.product((0, 1), repeat=k)})
        if k <= 2:
            sets = [list(s) for r in range(len(vals) + 1) for s in itertools.combinations(vals, r)]
        else:
            sets = [list(s) for r in range(3) for s in itertools.combinations(vals, r)] + [vals]
        for n in range(0, maxlen + 1):
            for c in itertools.product((0, 1, 4), repeat=n):
                hc = hx(c)
                for s in sets:
                    ss = ",".join("%x" % x for x in s) if s else "-"
                    for v in variants:
                        cs.append(f"split {v} {k} {hc} {ss} 0")
    return cs


def rand_contig(rng, k, n):
    style = rng.random()
    if style < 0.25:       # plain ACGT
        return [rng.randint(0, 3) for _ in range(n)]
    if style < 0.45:       # short period / homopolymer: adjacent and overlapping occurrences
        p = rng.randint(1, 3)
        unit = [rng.randint(0, 3) for _ in range(p)]
        c = [unit[i % p] for i in range(n)]
        if rng.random() < 0.5 and n:
            c[rng.randrange(n)] = rng.choice([4, 0, 1, 2, 3])
        return c
    if style < 0.75:       # N and other codes > 3 inside
        p = rng.choice([0.02, 0.1, 0.3])
        return [(rng.choice([4, 4, 5, 9, 14, 15, 255]) if rng.random() < p else rng.randint(0, 3)) for _ in range(n)]
    if style < 0.85:       # two-letter alphabet: many repeated k-mers
        a, b = rng.sample(range(4), 2)
        return [rng.choice([a, b]) for _ in range(n)]
    return [rng.randint(0, 15) for _ in range(n)] if rng.random() < 0.3 else [rng.randint(0, 3) for _ in range(n)]


def rand_case(rng):
    k = rng.choice([rng.randint(1, 32), rng.randint(1, 6), 32, 31, 1, 2, 3, 21])
    n = rng.choice([rng.randint(0, k), k, k + 1, 2 * k, 2 * k + 1, rng.randint(k, 6 * k + 10), rng.randint(0, 150)])
    c = rand_contig(rng, k, n)
    km = kmers_of(c, k)
    allv = sorted({v for _, v in km})
    kind = rng.random()
    if kind < 0.12:
        spl = []
    elif kind < 0.30:
        spl = allv                                            # dense: every k-mer of the contig
    elif kind < 0.50:
        spl = [v for v in allv if rng.random() < rng.choice([0.05, 0.3, 0.7])]
    elif kind < 0.65:
        spl = sorted({v for e, v in km if e > len(c) - 2})    # a splitter ending in the last bases
        if rng.random() < 0.5:
            spl = sorted(set(spl) | {v for e, v in km if e > len(c) - k - 2})
    elif kind < 0.75:
        spl = sorted({v for e, v in km if e <= k + 1})        # a splitter at the very start
    elif kind < 0.85:
        spl = rng.sample(allv, min(len(allv), rng.randint(1, 3))) if allv else []
    else:
        spl = [rng.getrandbits(64) for _ in range(rng.randint(1, 3))] + [MISSING]
        if allv and rng.random() < 0.5:
            spl.append(rng.choice(allv))
    if rng.random() < 0.1:
        spl = spl + [MISSING, 0]
    v = "w" if rng.random() < 0.65 else "o"
    return case(v, k, c, spl, rng.choice([0, 1, 20, 60000]))


def gen_cases(rng, tier):
    cs = []
    # hand-made corners: trailing k-mer-only segment, overlapping occurrences, N next to a splitter, short contig
    aaa = kcanon([0, 0, 0], 3)[0]
    for v in ("w", "o"):
        cs += [case(v, 3, [0] * 6, [aaa]), case(v, 3, [0] * 3, [aaa]), case(v, 3, [0] * 2, [aaa]),
               case(v, 3, [], [aaa]), case(v, 3, [0, 0, 0, 4, 0, 0, 0], [aaa]), case(v, 3, [4, 4, 4], [aaa]),
               case(v, 1, [0, 3, 1, 2], [0]), case(v, 1, [0, 3, 1, 2], [0, 1 << 62]),
               case(v, 32, [3] * 40, [0]), case(v, 32, [0] * 40, [0, MISSING]), case(v, 32, [3] * 32, [MISSING]),
               case(v, 3, [1, 2, 3, 0, 0, 0], [aaa], 60000), case(v, 3, [0, 0, 0, 1, 2, 3], [aaa])]
    if tier == "quick":
        cs += gen_exhaustive(7, ("w", "o"))
        nrand = 5000
    else:
        cs += gen_exhaustive(9, ("w",))
        cs += gen_exhaustive(8, ("o",))
        nrand = 300000
    for _ in range(nrand):
        cs.append(rand_case(rng))
    return cs


def parse(impl):
    segs = []
    for tok in impl.split():
        d, f, b, fd, bd = tok.split(":")
        segs.append((unhx(d), int(f, 16), int(b, 16), fd, bd))
    return segs


def nontrivial(case_, impl):
    return len(impl.split()) >= 2


def oracle(case_, impl):
    t = case_.split()
    if impl.startswith(("PANIC", "CRASH", "HARNESS-ERROR")):
        return "implementation failed: " + impl[:100]
    k = int(t[2])
    c = unhx(t[3])
    spl = set() if t[4] == "-" else {int(x, 16) for x in t[4].split(",")}
    try:
        segs = parse(impl)
    except Exception:
        return "unparsable answer: " + impl[:100]
    if not segs:
        return "no segment returned"
    # tiling, starts at the first base, ends at the last
    recon = list(segs[0][0])
    for s in segs[1:]:
        if len(s[0]) < k:
            return "a later segment has fewer than k bases"
        recon += s[0][k:]
    if recon != c:
        return "dropping the first k bases of every later segment and concatenating does not reproduce the contig"
    if c[:len(segs[0][0])] != segs[0][0]:
        return "first segment does not start at the first base"
    last = segs[-1][0]
    if c[len(c) - len(last):] != last:
        return "last segment does not end at the last base"
    if c and any(not s[0] for s in segs):
        return "empty segment for a non-empty contig"
    # overlaps and boundary k-mers
    for a, b in zip(segs, segs[1:]):
        if len(a[0]) < k or a[0][-k:] != b[0][:k]:
            return "a later segment does not begin exactly k bases before the previous one ends"
        w = a[0][-k:]
        if any(x > 3 for x in w):
            return "boundary window contains a non-ACGT code"
        v, d = kcanon(w, k)
        if a[2] != v or b[1] != v:
            return "boundary k-mer is not recorded as back k-mer of one segment and front k-mer of the next"
        if v not in spl:
            return "boundary k-mer is not in the splitter set"
        if v == MISSING:
            return "boundary k-mer equals the MISSING sentinel"
        dd = "1" if d else "0"
        if a[4] != dd or b[3] != dd:
            return "orientation flag of a boundary k-mer differs from dir <= rc"
    if segs[0][1] != MISSING or segs[0][3] != "0":
        return "first segment has a front k-mer"
    if segs[-1][2] != MISSING or segs[-1][4] != "0":
        return "last segment has a back k-mer"
    occ = [v for _, v in kmers_of(c, k) if v in spl] if len(c) >= k else []
    if not occ and len(segs) != 1:
        return "contig without splitter occurrence (or shorter than k) is not a single segment"
    if occ and len(segs) < 2:
        return "contig with a splitter occurrence was not split"
    if t[1] == "o" and len(c) >= k and len(segs) != 1 + len(occ):
        return "split_at_splitters does not split at every occurrence"
    return None


def search(ctx, budget):
    import random
    rng = random.Random(ctx.seed + 1)
    cases = [rand_case(rng) for _ in range(2000 * budget)]
    res = vlib.run_impl(PROP, cases)
    found = [(c, i, oracle(c, i)) for c, i in zip(cases, res) if oracle(c, i)]
    return found, len(cases)


def finding_class(case_, impl, why):
    return None
