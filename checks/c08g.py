"""C08G - the reader-side state machine of C08 connected with the whole-archive theorems (sub-check of C08).

C08 (coq/model/ReaderState.v, props/C08.v) proves history independence of every reader query over an ABSTRACT archive
under hypotheses W1 (every catalogue batch decodes), W2 (batches hold at most as many samples as the sample table) and A
(get_segment's and get_reference_segment's reference decoders agree).  C02B (spec/AgcV3.v decode) and C01G
(ModelCreate.model_build, grand_roundtrip) are about FILE BYTES.  This check joins them:
  coq/model/ReaderGrand.v   archive_of_file zd file : the abstract archive the reader sees when it opens the file
                            (Container.deserialize, AgcV3.read_params, the component decoders of Collection.load_all
                            per batch, part 0 of x<g>r, the delta path of SegReader.get_segment over LZ.decode_full);
                            C08's abstract decoding variable dz := SegCompress.decompress_segment_with_marker zd;
                            input_answer samples q : the answer of a user-level query computed from a sample set
  coq/proofs/ReaderGrand_{cat,seg,proofs,range,build}.v, coq/props/C08G.v
    answer_is_decode          decode zd file = Ok cat  ->  W1, W2, names / contig lists / samples / contigs = cat's,
                              table queries history independent
    answer_is_decode_ranges   + lengths and ranges (C07 length_correct / range_correct) under Range.wf
    reader_history_grand      under grand_roundtrip's hypotheses: W1, W2, A on archive_of_file (b_file b); every history,
                              every query: ask_after = answer; user-level queries: = input_answer samples q, never Panic
    written_file_never_panics_partial   C08 never_panics on the written file with every hypothesis discharged except the
                              totality (no Panic) of the three segment decoders

Proof-only check: no separate correspondence run.  ReaderState is tied to decompressor.rs by C08's correspondence,
AgcV3.decode to real archive bytes by C02B, model_build's layers by C01/C02/C03/C09/C12/C13; the constants read by the
new model file (reference part index, delta id offset, pack cardinality, raw group count, 2-bit heuristic factors) are
regenerated from the Rust text on every run (AREAS)."""

PROP = "C08G"
AREAS = ["agcv3", "kmer", "segment", "pipeline", "groupstore", "tuple", "lz", "collection", "archive", "fasta"]
NO_MODEL_RUN = True
THEOREMS = ["get_segment_is_ref_then_delta", "answer_is_decode", "answer_is_decode_ranges", "reader_history_grand",
            "written_file_never_panics_partial"]
RULE = ("proof-only sub-check of C08: bin/check rebuilds props/C08G.vo from the regenerated constants, re-runs coqc on "
        "props/C08G.v and requires 'Closed under the global context' under every pinned theorem; the non-vacuity Example "
        "reader_history_grand_nonvacuous takes the file of C01G's grand_roundtrip_nonvacuous (two samples, split segment, "
        "reverse-complemented pieces, raw group + two LZ groups, toy zstd; every hypothesis of grand_roundtrip holds there), "
        "computes archive_of_file of its bytes by vm_compute and checks that after a history with hits, misses, reloads, "
        "reference queries and group statistics 15 user-level queries (names, prefix, contig lists, samples, contigs, lengths, "
        "ranges, unknown names, empty range) return exactly input_answer of the input sample set. No generated cases: the tie of "
        "each composed layer to the Rust code is the correspondence of C08, C02B, C01, C02, C03, C07, C09, C12, C13")
TRUSTED = ["coq/model/ReaderGrand.v archive_of_file is a DEFINITION (which bytes of the file feed which field of C08's abstract "
           "archive); it reuses the component functions of spec/AgcV3.v and Collection/SegReader and is pinned in props/C08G.v "
           "(archive_of_file_def, parts_def, dz_is_dwm, get_segment_is_ref_then_delta); a container-level Err/Panic while "
           "reading a group stream is mapped to 'no reference' resp. the Err/Panic outcome of ar_lz/ar_raw",
           "ar_streams: Stream.packed_size is never set by Archive::deserialize, so get_compression_stats reports 0 on an opened "
           "archive (read from archive.rs; no theorem depends on it)",
           "input_answer: last sample of a name (HashMap insert order), first contig of a name (iter().find) - pinned in "
           "input_answer_def"]
ASSUMPTIONS = ["answer_is_decode: AgcV3.decode zd file = Ok cat, nothing else (any zd, any file)",
               "answer_is_decode_ranges: additionally Range.wf (descriptor raw length = decoded length, later segments hold k "
               "symbols) for every contig of the loaded catalogue, k < 2^32, contig lengths <= isize::MAX; AgcV3.decode does "
               "not check raw lengths (decode_strict does, E_DESC_LEN)",
               "reader_history_grand: exactly the hypotheses of C01G grand_roundtrip (zstd round trip and non-empty output, "
               "1 <= k <= 32, 4 <= mml < 2^32, segment size, inputs_ok, inputs_in_dom, decisions_ok, lz_contigs_nonempty, group "
               "ids < 2^32, schedule permutation, ops_carry, model_build = Ok b, catalogue_in_dom, parts_meta_u64, file length)",
               "written_file_never_panics_partial: the three decoder-totality hypotheses of C08 never_panics (ar_lz, ar_raw, dz "
               "never Panic) remain; missing lemmas: LZ.decode_full never Panics on arbitrary text, "
               "Container.get_part_by_id never Panics on an opened archive, Tuple.tuples_to_bytes never Panics"]


def gen_cases(rng, tier):
    return []


def nontrivial(case, impl):
    return False


def oracle(case, impl):
    return None


def finding_class(case, line, why):
    return None
