"""C07 range and length queries agree with full extraction: archive generator (lib/gen_samples.py, small k and
segment sizes so that contigs have many segments), hand-over of the real decoded segments and the query list to the
model driver (model_cases), oracle (every answer is the slice of get_contig, computed here), CLI cross-check."""
import bisect, json, os, random, re, subprocess, sys

sys.path.insert(0, os.path.join(os.path.dirname(os.path.dirname(os.path.abspath(__file__))), "lib"))
import gen_samples as gs  # noqa

PROP = "C07"
AREAS = []
THEOREMS = ["reconstruct_total", "length_correct", "range_correct", "range_cases", "range_on_split"]
RULE = ("cases: q <dir> <params> <exh> <recipe>: one real archive (created through the library exactly as ragc-cli does, "
        "multi-file or single-file PanSN mode) per case; k in 9..15, segment size 20..200, contigs of 1..2500 bases incl. "
        "shorter than k, = k, k+1; IUPAC codes, N runs, whole-contig reverse complements (segments stored reverse-"
        "complemented), near-identical samples (LZ deltas). per contig: every (start,end) in 0..len+2 squared when "
        "len <= exh (60 quick, 300 thorough; a few quick archives with 200), otherwise every chosen junction +-(k+1) "
        "as start x ~20 ends (around the next three junctions, len, len+1, usize::MAX), usize::MAX corners and 200 "
        "pseudo-random pairs. The model (extracted Range.v) is run on the real per-segment bytes / raw_lengths / "
        "is_rev_comp flags and the same queries; compared: get_contig_length, get_contig (length+hash), every range "
        "answer (length+hash), wf. non-trivial = archive with a contig of >= 3 segments; distinct = distinct case line")
TRUSTED = ["python oracle in checks/c07.py (slices of the get_contig answer, prefix-hash arithmetic re-checked against "
           "directly hashed answers every 61st query)",
           "harness/src/mk.rs drives the compressor like ragc-cli's create_archive (shared, coordinator-owned)",
           "answers are compared as (length, 2 x 32-bit polynomial hash); the bases themselves for every 61st query"]
ASSUMPTIONS = ["wf: every descriptor's raw_length equals the length get_segment returns and every later segment has >= k "
               "bases (checked by the oracle and by the extracted wfb on every real contig of the run)",
               "get_segment succeeds for every descriptor (a decode error is Err in all three functions; not modelled)",
               "the contig fits a Vec (length <= isize::MAX), k < 2^32 (kmer_length is a u32); memory exhaustion of "
               "Vec::with_capacity is not modelled",
               "usize arithmetic is modelled checked (dev profile); under wf no operation overflows, so the release "
               "profile computes the same values"]
PROFILES = ["dev", "release"]
PROFILES_QUICK = ["dev"]

VERIF = os.path.dirname(os.path.dirname(os.path.abspath(__file__)))
CASEROOT = os.path.join(VERIF, ".cache", "c07", "cases")
BUDGET = 200000          # exhaustive (start,end) pairs per archive (bounds the size of a result line)
M32 = 0xffffffff
M64 = (1 << 64) - 1
B1, I1, B2, I2 = 16777619, 0x811c9dc5, 31, 7
LETTERS = "ACGTNRYSWKMBDHVU"


# ------------------------------------------------------------------------------------------------ generator
def _special_set(rng, k, kind):
    """hand-shaped sample sets around the corners the property text names"""
    if kind == "tiny":            # contigs shorter than k, exactly k, k+1, 2k, and 1 base
        lens = [1, 2, k - 1, k, k + 1, 2 * k, 2 * k + 1, 3 * k + 2]
        base = [(f"c{i}", gs.rand_seq(rng, n)) for i, n in enumerate(lens)]
        return [("S000", base), ("S001", [(n, gs.mutate(rng, s, 0.05) or "A") for n, s in base]),
                ("S002", [(n, gs.revcomp(s)) for n, s in base])]
    if kind == "rc":              # every later sample is the reverse complement / a mutated reverse complement
        n = rng.choice([2, 3])
        base = [(f"chr{i}", gs.rand_seq(rng, rng.randint(80, 600))) for i in range(n)]
        return [("S000", base),
                ("S001", [(c, gs.revcomp(s)) for c, s in base]),
                ("S002", [(c, gs.revcomp(gs.mutate(rng, s, 0.02, iupac_rate=0.004, nrun_rate=0.001)) or "A") for c, s in base]),
                ("S003", [(c, gs.mutate(rng, s, 0.01) or "A") for c, s in base])]
    if kind == "lowcomplexity":   # repeats: splitters are singletons of the reference, so few / odd junctions
        unit = gs.rand_seq(rng, rng.randint(3, 40))
        a = (unit * 60)[:rng.randint(100, 500)]
        b = gs.rand_seq(rng, 150) + a[:120] + gs.rand_seq(rng, 150)
        return [("S000", [("chr0", b), ("chr1", a)]),
                ("S001", [("chr0", gs.mutate(rng, b, 0.02) or "A"), ("chr1", gs.mutate(rng, a, 0.02) or "A")])]
    raise ValueError(kind)


def _recipe_rng(recipe):
    return random.Random("c07/" + recipe)


def _build(recipe):
    """recipe = <gseed>:<kind>:<mode>:<nsamples>:<ncontigs>:<clen>:<k>  -> (samples, mode, fasta options)"""
    gseed, kind, mode, ns, nc, clen, k = recipe.split(":")
    rng = _recipe_rng(recipe)
    if kind == "gen":
        samples = gs.gen_set(rng, nsamples=int(ns), ncontigs=int(nc), clen=int(clen))
    else:
        samples = _special_set(rng, int(k), kind)
    opts = dict(width=rng.choice([60, 80, 7, 1000]), eol=rng.choice(["\n", "\n", "\r\n"]),
                case=rng.choice(["upper", "upper", "lower", "mixed"]))
    return samples, mode, opts


def ensure_case(line):
    t = line.split()
    if len(t) < 5 or t[0] != "q":
        return
    d, recipe = t[1], t[4]
    if os.path.exists(os.path.join(d, "order.txt")):
        return
    samples, mode, opts = _build(recipe)
    gs.write_case(d, samples, mode=mode, **opts)


def _case(rng, exh, kind="gen", mode=None, ns=None, nc=None, clen=None):
    k = rng.choice([9, 10, 11, 12, 13, 15])
    seg = rng.choice([20, 30, 50, 50, 100, 200])
    m = rng.choice([15, 18, 20])
    threads = rng.choice([1, 2, 4])
    ff = rng.choice([0, 0, 0, 0.1])
    ns = ns or rng.choice([1, 2, 3, 3, 4, 5])
    mode = mode or ("single" if ns == 1 else rng.choice(["multi", "multi", "single"]))
    nc = nc or rng.choice([1, 2, 3, 5])
    clen = clen or rng.choice([30, 60, 120, 150, 300, 400, 800, 1000, 2000])
    gseed = rng.getrandbits(40)
    recipe = f"{gseed:x}:{kind}:{mode}:{ns}:{nc}:{clen}:{k}"
    d = os.path.join(CASEROOT, recipe.replace(":", "_"))
    line = f"q {d} {k},{seg},{m},50,{threads},{1 << 31},{ff} {exh}:{BUDGET} {recipe}"
    ensure_case(line)
    return line


def gen_cases(rng, tier):
    """every archive costs 5..15 s to create (zstd level 19 contexts in store_contig_batch), whatever its size: few
    archives with many samples / contigs each"""
    exh = 60 if tier == "quick" else 300
    cs = []
    for kind in ("tiny", "rc", "lowcomplexity"):
        for mode in ("multi", "single"):
            cs.append(_case(rng, exh, kind=kind, mode=mode))
    if tier == "quick":
        # a few archives with all pairs up to 200 bases (few small contigs, several segments each)
        for _ in range(3):
            cs.append(_case(rng, 200, ns=2, nc=rng.choice([1, 2]), clen=rng.choice([100, 130])))
        n = 15
    else:
        n = 160
    for _ in range(n):
        cs.append(_case(rng, exh, ns=rng.choice([1, 2, 3, 4, 5, 6]), nc=rng.choice([2, 3, 5, 6])))
    return cs


# a replayed case names a directory that may be gone: rebuild it from the recipe in the case line
if "--replay" in sys.argv:
    try:
        _rp = json.load(open(sys.argv[sys.argv.index("--replay") + 1]))
        for _c in (_rp.get("cases") or ([_rp["case"]] if "case" in _rp else [])):
            ensure_case(_c)
    except Exception as _ex:                                     # pragma: no cover
        sys.stderr.write("c07: could not prepare replay case: %r\n" % (_ex,))


# ------------------------------------------------------------------------------------------------ parsing
def unhx(s):
    return b"" if s == "-" else bytes.fromhex(s)


def hash2(b):
    h1, h2 = I1, I2
    for x in b:
        h1 = (h1 * B1 + x + 1) & M32
        h2 = (h2 * B2 + x + 1) & M32
    return "%08x%08x" % (h1, h2)


def parse_impl(line):
    """-> k, [record dict]"""
    parts = line.split(" | ")
    k = int(parts[0].split()[1])
    recs = []
    for p in parts[1:]:
        t = p.split(" ")
        recs.append({"sample": unhx(t[1]).decode(errors="replace"), "contig": unhx(t[2]).decode(errors="replace"),
                     "L": t[3], "full": t[4], "raws": t[5], "rcs": t[6], "segs": t[7], "answers": t[8]})
    return k, recs


_STRIP = re.compile(r"(\.[0-9a-f]{16})\.[0-9a-f]+")
_QRY = re.compile(r"([0-9a-f]+:[0-9a-f]+):[^,]*")


def model_cases(cases, impl_lines):
    out = []
    for c, i in zip(cases, impl_lines):
        if not i.startswith("OK "):
            out.append("skip")
            continue
        k, recs = parse_impl(i)
        toks = ["m", str(k)]
        for r in recs:
            qs = _QRY.sub(r"\1", r["answers"]) if r["answers"] != "-" else "-"
            toks += ["|", r["raws"], r["rcs"], r["segs"], qs]
        out.append(" ".join(toks))
    return out


def canon(case, line):
    if line.startswith("OK "):
        k, recs = parse_impl(line)
        out = ["M %d" % k]
        for r in recs:
            f = r["full"]
            if f not in ("E", "P"):
                b = unhx(f)
                f = "%d.%s" % (len(b), hash2(b))
            out.append("%s %s 1 %s" % (r["L"], f, _STRIP.sub(r"\1", r["answers"])))
        return " | ".join(out)
    if line.startswith(("CREATE-ERR", "CREATE-PANIC")):
        return "SKIP"        # the archive could not be made: nothing to query (not this property's business)
    return line


def nontrivial(case, impl):
    if not impl.startswith("OK "):
        return False
    return any(r["raws"].count(",") >= 2 for r in parse_impl(impl)[1])


# ------------------------------------------------------------------------------------------------ oracle
class _Pref:
    """prefix values of the two polynomial hashes of one contig: slice hashes in O(1)"""

    def __init__(self, b):
        n = len(b)
        self.n = n
        self.p1, self.p2, self.w1, self.w2 = [0] * (n + 1), [0] * (n + 1), [1] * (n + 1), [1] * (n + 1)
        for i, x in enumerate(b):
            self.p1[i + 1] = (self.p1[i] * B1 + x + 1) & M32
            self.p2[i + 1] = (self.p2[i] * B2 + x + 1) & M32
            self.w1[i + 1] = (self.w1[i] * B1) & M32
            self.w2[i + 1] = (self.w2[i] * B2) & M32

    def slice(self, s, e):
        """(length, hash) of b[s:min(e,n)], empty when s >= e or s >= n"""
        e = min(e, self.n)
        if s >= e:
            return 0, "%08x%08x" % (I1, I2)
        m = e - s
        h1 = (I1 * self.w1[m] + self.p1[e] - self.p1[s] * self.w1[m]) & M32
        h2 = (I2 * self.w2[m] + self.p2[e] - self.p2[s] * self.w2[m]) & M32
        return m, "%08x%08x" % (h1, h2)


_SEEN = []          # (case, parsed impl) of the first archives, for the CLI cross-check
_STATS = {"archives_queried": 0, "archives_not_created": 0, "contigs": 0, "range_queries": 0, "contigs_ge3_segments": 0,
          "max_segments": 0, "revcomp_segments": 0, "kmer_only_later_segments": 0, "first_segment_is_kmer_only": 0,
          "contigs_shorter_than_k": 0, "contigs_all_pairs": 0, "queries_end_gt_len": 0, "queries_usize_max": 0,
          "queries_spanning_ge2_junctions": 0}


def oracle(case, impl):
    if impl.startswith(("CREATE-ERR", "CREATE-PANIC")):
        _STATS["archives_not_created"] += 1
        return None
    if not impl.startswith("OK "):
        return "the archive could not be read back: " + impl[:200]
    _STATS["archives_queried"] += 1
    try:
        k, recs = parse_impl(impl)
    except Exception as ex:
        return "unparsable harness line: %r" % (ex,)
    if len(_SEEN) < 4:
        _SEEN.append((case, k, recs))
    for r in recs:
        who = "%s/%s" % (r["sample"], r["contig"])
        if r["full"] in ("E", "P"):
            return "get_contig fails for %s (%s)" % (who, r["full"])
        full = unhx(r["full"])
        n = len(full)
        if r["L"] != str(n):
            return "get_contig_length(%s) = %s but the extracted contig has %d bases" % (who, r["L"], n)
        # the hypothesis of the theorems, on the real archive
        raws = [int(x) for x in r["raws"].split(",")] if r["raws"] != "-" else []
        segs = r["segs"].split(",") if r["segs"] != "-" else []
        if "E" in segs:
            return "get_segment_data_by_desc fails for a descriptor of %s" % who
        lens = [0 if s == "-" else len(s) // 2 for s in segs]
        if raws != lens:
            return "wf fails on a real archive: raw_length list %r but decoded segment lengths %r (%s)" % (raws, lens, who)
        if any(x < k for x in lens[1:]):
            return "wf fails on a real archive: a later segment of %s has fewer than k=%d bases: %r" % (who, k, lens)
        pf = _Pref(full)
        st = _STATS
        st["contigs"] += 1
        st["contigs_ge3_segments"] += len(raws) >= 3
        st["max_segments"] = max(st["max_segments"], len(raws))
        st["revcomp_segments"] += r["rcs"].count("1")
        st["kmer_only_later_segments"] += sum(1 for x in lens[1:] if x == k)
        st["first_segment_is_kmer_only"] += len(lens) > 1 and lens[0] == k
        st["contigs_shorter_than_k"] += n < k
        if r["answers"] == "-":
            continue
        junc, pos = [], 0
        for i_, x in enumerate(lens[:-1]):
            pos += x if i_ == 0 else x - k
            junc.append(pos)
        answers = r["answers"].split(",")
        st["range_queries"] += len(answers)
        st["contigs_all_pairs"] += len(answers) >= (n + 3) * (n + 3)
        for a in answers:
            s, e, v = a.split(":")
            s, e = int(s, 16), int(e, 16)
            if e > n:
                st["queries_end_gt_len"] += 1
                if e >= M64 or s >= M64:
                    st["queries_usize_max"] += 1
            if s < e and bisect.bisect_left(junc, min(e, n)) - bisect.bisect_right(junc, s) >= 2:
                st["queries_spanning_ge2_junctions"] += 1
            if v in ("E", "P"):
                return "get_contig_range(%s, %d, %d) %s" % (who, s, e, "returns an error" if v == "E" else "panics")
            f = v.split(".")
            want = pf.slice(s, e)
            if (int(f[0]), f[1]) != want:
                return ("get_contig_range(%s, %d, %d) returns %s bases (hash %s); bases [%d, min(%d, %d)) of the extracted "
                        "contig are %d (hash %s)" % (who, s, e, f[0], f[1], s, e, n, want[0], want[1]))
            if len(f) == 3:
                got = unhx(f[2])
                if got != (full[s:min(e, n)] if s < e else b"") or hash2(got) != f[1]:
                    return "get_contig_range(%s, %d, %d) returns %s, expected %s" % (who, s, e, f[2], full[s:min(e, n)].hex())
    return None


# ------------------------------------------------------------------------------------------------ CLI cross-check
def extra_checks(ctx):
    """ragc getrange / ctglen (the shipped binary) against get_contig of the library, on a subset"""
    res = []
    if not _SEEN:
        return res
    ok, out, cli = vlib.build_cli("release")
    if not ok:
        return [("harness", "cargo build of ragc-cli failed", out[-800:], None)]
    rng = random.Random(ctx.seed + 7)
    runs = 0
    for case, k, recs in _SEEN[:3]:
        agc = os.path.join(case.split()[1], "out.agc")
        if not os.path.exists(agc):
            continue
        for r in rng.sample(recs, min(4, len(recs))):
            full = unhx(r["full"])
            n = len(full)
            letters = "".join(LETTERS[b] if b < 16 else "N" for b in full)
            p = subprocess.run([cli, "ctglen", agc, "-s", r["sample"], "-c", r["contig"]], capture_output=True, text=True, timeout=60)
            runs += 1
            if p.returncode != 0 or p.stdout.strip() != str(n):
                res.append((None, None, None, (case, "ctglen", "ragc ctglen %s/%s prints %r (rc %d), extracted contig has %d bases"
                                               % (r["sample"], r["contig"], p.stdout.strip()[:50], p.returncode, n))))
            raws = [int(x) for x in r["raws"].split(",")] if r["raws"] != "-" else []
            j = raws[0] if raws else 0
            qs = [(0, n), (0, n + 5), (max(0, j - 2), j + 2), (max(0, j - k - 1), j + k + 1), (n, n + 1),
                  (rng.randint(0, n), rng.randint(0, n + 3))]
            for s, e in qs:
                p = subprocess.run([cli, "getrange", agc, "-s", r["sample"], "-c", r["contig"], "--start", str(s), "--end", str(e),
                                    "-f", "raw"], capture_output=True, text=True, timeout=60)
                runs += 1
                want = letters[s:min(e, n)] if s < e else ""
                if p.returncode != 0 or p.stdout != want:
                    res.append((None, None, None, (case, "getrange", "ragc getrange %s/%s --start %d --end %d prints %r (rc %d), expected %r"
                                                   % (r["sample"], r["contig"], s, e, p.stdout[:80], p.returncode, want[:80]))))
    ctx.notes.append("CLI cross-check: %d ragc getrange/ctglen runs" % runs)
    global _CLI_RUNS
    _CLI_RUNS = runs
    return res


_CLI_RUNS = 0


def extra_coverage(ctx):
    d = dict(_STATS)
    d["cli_runs"] = _CLI_RUNS
    return {"c07_run_statistics (summed over profiles)": d}


def search(ctx, budget):
    rng = random.Random(ctx.seed + 1)
    cases = [_case(rng, 60) for _ in range(8 * budget)]
    res = vlib.run_impl(PROP, cases)
    found = [(c, i, oracle(c, i)) for c, i in zip(cases, res) if oracle(c, i)]
    return found, len(cases)


def finding_class(case_, impl, why):
    return None
