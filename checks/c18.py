"""C18 behaviour independent of integer-overflow checking (build profile).

Proof part: props/C18.v (Profile.v models the arithmetic sites that differed between profiles, with rule flags
regenerated from the source by translator/items_profile.py; plus the no-trap theorems of the other models).
Tie of Profile.v to the code: the translator (regenerated on every run) - the sites are private expressions
inside push()/estimate()/find_cand..., not callable on their own.
Differential part (extra_checks): the C01, C09, C14 and C04 correspondence inputs are run through the real code
built with overflow checks (dev) and without (release); every observable result line must be identical and no
run may panic in one profile only.
"""
import importlib.util, os, random

PROP = "C18"
AREAS = ["profile"]
NO_MODEL_RUN = True
THEOREMS = ["sites_fixed", "no_trap_token_priority", "fb_mask_no_trap", "estimate_tail_profile_independent",
            "kmer_insert_no_wrap", "queue_size_no_underflow", "range_queries_no_trap", "lz_encoder_decoder_no_trap",
            "repetitiveness_counters_no_trap", "archive_open_no_trap", "group_store_no_trap"]
RULE = ("dual-profile differential: the quick-tier cases of C01 (real archives: create + extract), C09 (LZ pairs incl. "
        "estimate / cost vectors), C14 (every prefix of real archives, arbitrary bytes), C04 (create under schedules), C03 "
        "(catalogue codecs), C07 (range/length queries on multi-segment archives), C12 (tuple/segment compression), C13 (container) "
        "are run on the harness built with overflow checks on (dev) and off (release); a case is non-trivial if its "
        "result is not an error/skip line; distinct = distinct case line")
TRUSTED = ["translator/items_profile.py pins the repaired form of 7 arithmetic sites (tie of Profile.v to the code)",
           "code that no model covers is compared between profiles only on the inputs this run generated (partial)"]
ASSUMPTIONS = ["fewer than 10^9 contigs per archive (i32 priorities)", "k <= 32",
               "outside the modelled sites the claim 'no code path relies on wrap-around' rests on the differential runs only"]

TARGETS = [("C01", 60), ("C09", 6000), ("C14", 1200), ("C04", 12), ("C03", 2500), ("C07", 10), ("C12", 4000), ("C13", 1500)]
_cov = {}


def gen_cases(rng, tier):
    return []


def nontrivial(case, impl):
    return False


def oracle(case, impl):
    return None


def _load(pid):
    path = os.path.join(vlib.VERIF, "checks", pid.lower() + ".py")
    spec = importlib.util.spec_from_file_location("c18_sub_" + pid.lower(), path)
    mod = importlib.util.module_from_spec(spec)
    mod.vlib = vlib
    spec.loader.exec_module(mod)
    return mod


def extra_checks(ctx):
    out = []
    mult = 1 if ctx.tier == "quick" else 6
    total = differ = nontriv = 0
    per = {}
    for i, (pid, cap) in enumerate(TARGETS):
        try:
            mod = _load(pid)
        except Exception as e:
            out.append(("harness", f"cannot load checks/{pid.lower()}.py", repr(e), None))
            continue
        ok = True
        for prof in ("dev", "release"):
            o, log = vlib.build_harness(prof, pid)
            if not o:
                ok = False
                out.append(("harness", f"cargo build ({prof}) of {pid.lower()}", log[-800:], None))
        if not ok:
            continue
        rng = random.Random(ctx.seed * 1000 + i)
        cases = mod.gen_cases(rng, "quick")
        corpus = os.path.join(vlib.VERIF, "corpus", pid.lower() + ".cases")
        if os.path.exists(corpus):
            cases = [l.rstrip("\n") for l in open(corpus) if l.strip() and not l.startswith("#")] + cases
        cases = [c for c in cases if _in_domain(pid, c)]
        if len(cases) > cap * mult:
            keep = rng.sample(range(len(cases)), cap * mult)
            cases = [cases[j] for j in sorted(keep)]
        dev = vlib.run_impl(pid, cases, "dev")
        rel = vlib.run_impl(pid, cases, "release")
        # a panic is a panic: the message (and the release harness's guard text) is not compared
        canon = getattr(mod, "canon18", None) or (lambda c, l: "PANIC" if l.startswith("PANIC") else l)
        nd = 0
        for c, a, b in zip(cases, dev, rel):
            total += 1
            if not a.startswith(("PANIC", "CRASH", "SKIP", "HANG")):
                nontriv += 1
            ca, cb = canon(c, a), canon(c, b)
            if pid == "C04":
                # timing noise (watchdog) is not a profile difference
                if "HANG" in a or "HANG" in b:
                    continue
                ca, cb = _c04_sha(a), _c04_sha(b)
            if ca != cb:
                nd += 1
                differ += 1
                if nd <= 3:
                    out.append(("", "", "", (f"{pid.lower()}:: {c}", f"dev={a[:600]} || release={b[:600]}",
                                            f"the {pid} harness answers differently with and without overflow checks")))
        per[pid] = {"cases": len(cases), "differ": nd}
    _cov.update({"dual_profile": per, "dual_profile_cases": total, "dual_profile_differences": differ,
                 "dual_profile_nontrivial": nontriv})
    return out


# Only inputs of the properties' own input spaces count for C18: the decoders' malformed/arbitrary-byte streams
# (corrupt archives) are run by C03/C12 for outcome agreement only and are known to differ between profiles.
_VALID_KINDS = {"C03": {"cv", "names", "snames", "details", "coll", "split", "esplit", "utf8"},
                "C12": {"pk", "exh", "ref", "dlt", "hist"}}


def _in_domain(pid, case):
    kinds = _VALID_KINDS.get(pid)
    if kinds is None:
        return True
    kind = case.split(" ", 1)[0]
    if kind not in kinds:
        return False
    if pid == "C03" and kind in ("details", "coll"):
        # descriptor values inside the theorem's (and any real archive's) range: ids and lengths < 2^31 - 1
        import re
        return all(int(x) < 2147483646 for x in re.findall(r"\d+", case))
    return True


def _c04_sha(line):
    import re
    return " ".join(sorted(set(re.findall(r"\b[0-9a-f]{16,64}\b", line))))


def extra_coverage(ctx):
    cov = dict(_cov)
    cov["evaluations"] = 2 * _cov.get("dual_profile_cases", 0)
    cov["distinct_nontrivial"] = _cov.get("dual_profile_nontrivial", 0)
    return cov


def finding_class(case, impl, why):
    return None
