# C01 (contig level): the three reverse-complement rules as tables over the whole u8 range, the split
# arithmetic ((k + 1) / 2, min_size = k + 1) and the hole descriptor SegmentDesc::empty().
# Each rule is re-read from the Rust text and *evaluated* for every byte 0..255 with u8 semantics by the
# tiny expression evaluator below (match with integer arms / if-else with one comparison / + - on literals
# and the closure variable).  A rule written in a shape the evaluator does not know is a translator miss
# (the committed default is used and the miss is reported); the correspondence run is the primary tie.

_TOK = re.compile(r"\s*(=>|<=|>=|==|!=|\d[\d_]*(?:u8|usize|u32|u64)?|[A-Za-z_][A-Za-z0-9_]*|[{}()<>+\-,|])")


def _tokens(s):
    out, i = [], 0
    s = s.strip()
    while i < len(s):
        m = _TOK.match(s, i)
        if not m:
            raise Miss(f"rc rule: cannot tokenize at {s[i:i+20]!r}")
        out.append(m.group(1))
        i = m.end()
    return out


class _P:
    """expr := if cond { expr } else { expr } | match var { arms } | arith ; value domain u8 (out of range = Miss)"""

    def __init__(self, toks, var):
        self.t, self.i, self.var = toks, 0, var

    def peek(self):
        return self.t[self.i] if self.i < len(self.t) else None

    def eat(self, x=None):
        tok = self.peek()
        if tok is None or (x is not None and tok != x):
            raise Miss(f"rc rule: expected {x!r}, found {tok!r}")
        self.i += 1
        return tok

    def expr(self, b):
        tok = self.peek()
        if tok == "if":
            self.eat()
            l = self.arith(b)
            op = self.eat()
            r = self.arith(b)
            c = {"<": l < r, "<=": l <= r, ">": l > r, ">=": l >= r, "==": l == r, "!=": l != r}.get(op)
            if c is None:
                raise Miss(f"rc rule: comparison {op!r}")
            self.eat("{"); x = self.expr(b); self.eat("}")
            self.eat("else")
            self.eat("{"); y = self.expr(b); self.eat("}")
            return x if c else y
        if tok == "match":
            self.eat()
            if self.eat() != self.var:
                raise Miss("rc rule: match on something else than the closure variable")
            self.eat("{")
            res = None
            while self.peek() != "}":
                pats = []
                wild = False
                while True:
                    p = self.eat()
                    if p == "_":
                        wild = True
                    else:
                        pats.append(rust_int(p))
                    if self.peek() == "|":
                        self.eat()
                        continue
                    break
                self.eat("=>")
                v = self.expr(b)
                if self.peek() == ",":
                    self.eat()
                if res is None and (wild or b in pats):
                    res = v
            self.eat("}")
            if res is None:
                raise Miss("rc rule: non-exhaustive match")
            return res
        if tok == "{":
            self.eat(); v = self.expr(b); self.eat("}")
            return v
        return self.arith(b)

    def arith(self, b):
        v = self.term(b)
        while self.peek() in ("+", "-"):
            op = self.eat()
            w = self.term(b)
            v = v + w if op == "+" else v - w
        return v

    def term(self, b):
        tok = self.eat()
        if tok == "(":
            v = self.expr(b); self.eat(")")
            return v
        if tok == self.var:
            return b
        return rust_int(tok)


def _table(body, var):
    toks = _tokens(body)
    tab = []
    for b in range(256):
        p = _P(toks, var)
        try:
            v = p.expr(b)
        except (Miss, KeyError, IndexError) as e:
            raise Miss(str(e))
        if p.peek() is not None:
            raise Miss(f"rc rule: trailing tokens {p.t[p.i:p.i+4]}")
        if not (0 <= v <= 255):
            raise Miss(f"rc rule: value {v} for byte {b} leaves u8 (overflow trap / wrap)")
        tab.append(v)
    return tab


def _closure(src, what):
    """`.iter().rev().map(|&base| BODY).collect()`: returns (var, BODY)"""
    m = re.search(r"\.iter\(\)\s*\.rev\(\)\s*\.map\(\s*\|\s*&\s*([A-Za-z_][A-Za-z0-9_]*)\s*\|", src)
    if not m:
        raise Miss(f"{what}: .iter().rev().map(|&x| ..) not found")
    var, i = m.group(1), m.end()
    depth, j = 1, i                      # find the ')' closing .map(
    while j < len(src) and depth:
        if src[j] == "(":
            depth += 1
        elif src[j] == ")":
            depth -= 1
        j += 1
    if depth:
        raise Miss(f"{what}: unbalanced map(")
    rest = src[j:]
    if not re.match(r"\s*\.collect\(\)", rest):
        raise Miss(f"{what}: map(..) is not directly collected")
    return var, src[i:j - 1]


def _emit(name, tab, comment):
    return (f"(* {comment} *)\nDefinition {name}_tab : list N := [{'; '.join(str(v) for v in tab)}].\n"
            f"Definition {name} (x : N) : N := nth (N.to_nat x) {name}_tab x.")


# worker_thread, contig branch: the precomputed data_rc of every raw segment
@item("rc_pre")
def _(repo):
    src = strip_comments(rd(repo, "ragc-core/src/agc_compressor.rs"))
    m = re.search(r"let\s+contig_segments\s*:\s*Vec<RawBufferedSegment>\s*=", src)
    if not m:
        raise Miss("let contig_segments: Vec<RawBufferedSegment> not found")
    seg = src[m.end(): m.end() + 4000]
    m2 = re.search(r"let\s+segment_data_rc\s*:\s*Vec<u8>\s*=\s*segment\s*\.data", seg)
    if not m2:
        raise Miss("segment_data_rc not found in the contig branch")
    var, body = _closure(seg[m2.end():], "data_rc")
    return _emit("rc_pre", _table(body, var), "agc_compressor.rs worker_thread: segment_data_rc (per byte, after .rev())")


# reverse_complement_sequence: used for re-oriented split halves and assigned segments
@item("rc_seq")
def _(repo):
    src = strip_comments(rd(repo, "ragc-core/src/agc_compressor.rs"))
    var, body = _closure(fn_body(src, "reverse_complement_sequence"), "reverse_complement_sequence")
    return _emit("rc_seq", _table(body, var), "agc_compressor.rs reverse_complement_sequence (per byte, after .rev())")


# decompressor: reverse_complement_segment
@item("rc_dec")
def _(repo):
    src = strip_comments(rd(repo, "ragc-core/src/decompressor.rs"))
    var, body = _closure(fn_body(src, "reverse_complement_segment"), "reverse_complement_segment")
    return _emit("rc_dec", _table(body, var), "decompressor.rs reverse_complement_segment (per byte, after .rev())")


# split_segment_at_position: let half_ceil = (k + 1) / 2;
@item("half_ceil")
def _(repo):
    src = strip_comments(rd(repo, "ragc-core/src/agc_compressor.rs"))
    body = fn_body(src, "split_segment_at_position")
    m = re.search(r"let\s+half_ceil\s*=\s*\(\s*k\s*\+\s*(\d+)\s*\)\s*/\s*(\d+)\s*;", body)
    if not m:
        raise Miss("let half_ceil = (k + a) / b; not found")
    a, b = int(m.group(1)), int(m.group(2))
    if not re.search(r"let\s+seg2_start_pos\s*=\s*split_pos\s*\.\s*saturating_sub\s*\(\s*half_ceil\s*\)\s*;", body):
        raise Miss("seg2_start_pos = split_pos.saturating_sub(half_ceil) not found")
    if not re.search(r"let\s+left_end\s*=\s*seg2_start_pos\s*\+\s*k\s*;", body):
        raise Miss("left_end = seg2_start_pos + k not found")
    return f"Definition half_ceil (k : nat) : nat := Nat.div (k + {a})%nat {b}%nat."


# find_split_by_cost: let min_size = k + 1;  (what SplitAt(pos) guarantees: min_size <= pos <= len - min_size)
@item("split_min_size")
def _(repo):
    src = strip_comments(rd(repo, "ragc-core/src/agc_compressor.rs"))
    body = fn_body(src, "find_split_by_cost")
    m = re.search(r"let\s+min_size\s*=\s*k\s*\+\s*(\d+)\s*;", body)
    if not m:
        raise Miss("let min_size = k + c; not found")
    if not (re.search(r"if\s+best_pos\s*<\s*min_size\s*\{\s*best_pos\s*=\s*0\s*;", body)
            and re.search(r"if\s+best_pos\s*\+\s*min_size\s*>\s*seg_len\s*\{\s*best_pos\s*=\s*seg_len\s*;", body)):
        raise Miss("edge post-processing of best_pos not found")
    return f"Definition split_min_size (k : nat) : nat := (k + {int(m.group(1))})%nat."


# collection.rs: SegmentDesc::empty() (hole filler of add_segment_placed)
@item("empty_desc")
def _(repo):
    src = strip_comments(rd(repo, "ragc-common/src/collection.rs"))
    m = re.search(r"pub\s+fn\s+empty\s*\(\s*\)\s*->\s*Self\s*\{\s*SegmentDesc\s*\{(.*?)\}", src, re.S)
    if not m:
        raise Miss("SegmentDesc::empty not found")
    f = dict((k.strip(), v.strip()) for k, v in (x.split(":", 1) for x in m.group(1).split(",") if ":" in x))

    def val(x):
        if x.replace(" ", "") == "u32::MAX":
            return (1 << 32) - 1
        if x in ("true", "false"):
            return x
        return rust_int(x)
    try:
        return "\n".join([defN("EMPTY_GROUP_ID", val(f["group_id"])), defN("EMPTY_IN_GROUP_ID", val(f["in_group_id"])),
                          f"Definition EMPTY_IS_REV_COMP : bool := {val(f['is_rev_comp'])}.",
                          defN("EMPTY_RAW_LENGTH", val(f["raw_length"]))])
    except KeyError as e:
        raise Miss(f"SegmentDesc::empty: field {e} missing")
