# collection.rs / agc_compressor.rs: constants of the catalogue codec (C03)
# CollectionVarInt thresholds / prefixes / masks are `const X: u32 = <expr over 1 << n, Self::Y, +>` - evaluated here.

def _cv_consts(repo):
    src = strip_comments(rd(repo, "ragc-common/src/collection.rs"))
    m = re.search(r"impl\s+CollectionVarInt\s*\{(.*?)pub fn encode", src, re.S)
    if not m:
        raise Miss("impl CollectionVarInt not found")
    env = {}
    for name, ty, expr in re.findall(r"const\s+([A-Z0-9_]+)\s*:\s*(u8|u32)\s*=\s*([^;]+);", m.group(1)):
        e = expr.strip()
        e = re.sub(r"Self::([A-Z0-9_]+)", lambda mm: str(env[mm.group(1)]) if mm.group(1) in env else "?", e)
        e = re.sub(r"0b([01_]+)(u8|u32)?", lambda mm: str(int(mm.group(1).replace("_", ""), 2)), e)
        e = re.sub(r"(\d+)(u8|u32)\b", r"\1", e)
        if not re.fullmatch(r"[0-9+<() ]+", e):
            raise Miss(f"CollectionVarInt::{name}: unsupported expression {expr!r}")
        env[name] = int(eval(e, {"__builtins__": {}}, {}))
    return env


def _cv(repo, name):
    env = _cv_consts(repo)
    if name not in env:
        raise Miss(f"CollectionVarInt::{name} not found")
    return env[name]


for _n in ["THR_1", "THR_2", "THR_3", "THR_4", "PREF_1", "PREF_2", "PREF_3", "PREF_4", "PREF_5",
           "MASK_1", "MASK_2", "MASK_3", "MASK_4"]:
    def _mk(n):
        @item("cv_" + n.lower())
        def _(repo):
            return defN("cv_" + n.lower(), _cv(repo, n))
    _mk(_n)


# encode_split: `enc.push((-127i8) as u8)` same-component marker, `if cnt == 100` run cap
@item("same_marker")
def _(repo):
    body = fn_body(strip_comments(rd(repo, "ragc-common/src/collection.rs")), "encode_split")
    m = re.search(r"enc\.push\(\(\s*(-\d+)i8\s*\)\s*as\s+u8\s*\)", body)
    if not m:
        raise Miss("same-component marker push not found")
    return defN("same_marker", int(m.group(1)) % 256)


@item("same_marker_dec")
def _(repo):
    body = fn_body(strip_comments(rd(repo, "ragc-common/src/collection.rs")), "decode_split_bytes")
    m = re.search(r"\(curr_split\[i\]\[0\]\s+as\s+i8\)\s*==\s*(-\d+)", body)
    if not m:
        raise Miss("same-component marker test not found")
    return defN("same_marker_dec", int(m.group(1)) % 256)


@item("run_cap")
def _(repo):
    body = fn_body(strip_comments(rd(repo, "ragc-common/src/collection.rs")), "encode_split")
    m = re.search(r"if\s+cnt\s*==\s*(\d+)\s*\{", body)
    if not m:
        raise Miss("run cap not found")
    return defN("run_cap", int(m.group(1)))


# agc_compressor.rs: const PACK_CARDINALITY: usize = 50 (metadata batch size on write)
@item("pack_cardinality")
def _(repo):
    src = strip_comments(rd(repo, "ragc-core/src/agc_compressor.rs"))
    ms = re.findall(r"const\s+PACK_CARDINALITY\s*:\s*usize\s*=\s*([^;]+);", src)
    if not ms:
        raise Miss("PACK_CARDINALITY not found")
    vs = {rust_int(x) for x in ms}
    if len(vs) != 1:
        raise Miss("several different PACK_CARDINALITY values")
    return defN("pack_cardinality", vs.pop())


# SegmentDesc::empty(): the hole filler of add_segment_placed
@item("seg_empty_fields")
def _(repo):
    src = strip_comments(rd(repo, "ragc-common/src/collection.rs"))
    body = fn_body(src, "empty")
    vals = {}
    for f in ["group_id", "in_group_id", "raw_length"]:
        m = re.search(r"\b" + f + r"\s*:\s*([A-Za-z0-9_:]+)\s*,", body)
        if not m:
            raise Miss(f"SegmentDesc::empty {f} not found")
        t = m.group(1)
        vals[f] = 4294967295 if t == "u32::MAX" else rust_int(t)
    m = re.search(r"\bis_rev_comp\s*:\s*(true|false)", body)
    if not m:
        raise Miss("SegmentDesc::empty is_rev_comp not found")
    return "\n".join([defN("seg_empty_group", vals["group_id"]), defN("seg_empty_in_group", vals["in_group_id"]),
                      defN("seg_empty_len", vals["raw_length"]),
                      f"Definition seg_empty_rc : bool := {m.group(1)}."])


# CollectionVarInt::decode, 5-byte branch: `num.checked_add(Self::THR_4).context(..)?` (an oversized payload is an
# error) versus the older `num += Self::THR_4` (overflow: panic in the dev profile, wrap in release)
@item("cv5_checked")
def _(repo):
    body = fn_body(strip_comments(rd(repo, "ragc-common/src/collection.rs")), "decode")
    if re.search(r"num\s*\.\s*checked_add\(\s*Self::THR_4\s*\)\s*\.\s*context\([^)]*\)\s*\?", body):
        return "Definition cv5_checked : bool := true."
    if re.search(r"num\s*\+=\s*Self::THR_4\s*;", body):
        return "Definition cv5_checked : bool := false."
    raise Miss("5-byte branch of CollectionVarInt::decode: neither checked_add(THR_4)? nor += THR_4")
