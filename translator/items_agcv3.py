# C02B - whole-archive format constants that no other area reads: stream naming (stream_naming.rs), the fixed stream
# names (collection.rs, agc_compressor.rs, decompressor.rs), the params layout on both sides, the catalogue batch
# size of finalize(), the file version.  Writer side W_*, reader side R_*; compared with the PINNED constants of
# coq/spec/AgcV3.v by reflexivity (props/C02B.v writer_eq_spec / reader_eq_spec).

NAMING = "ragc-common/src/stream_naming.rs"
COLL = "ragc-common/src/collection.rs"
AGC = "ragc-core/src/agc_compressor.rs"
DEC = "ragc-core/src/decompressor.rs"
TYPES = "ragc-common/src/types.rs"


def _src(repo, rel):
    return strip_comments(rd(repo, rel))


def _bytes(s):
    return [b for b in s.encode("utf-8")]


def _rust_str(lit):
    # body of a Rust "..." literal without escapes other than \\ and \"
    if "\\" in lit.replace("\\\\", "").replace('\\"', ""):
        raise Miss(f"escape in string literal {lit!r}")
    return lit.replace('\\"', '"').replace("\\\\", "\\")


@item("NM_BASE64_DIGITS")
def _(repo):
    body = fn_body(_src(repo, NAMING), "int_to_base64")
    m = re.search(r'const\s+DIGITS\s*:\s*&\[u8;\s*(\d+)\]\s*=\s*b"([^"]*)"\s*;', body)
    if not m:
        raise Miss("DIGITS literal not found")
    ds = _bytes(_rust_str(m.group(2)))
    if len(ds) != int(m.group(1)):
        raise Miss("DIGITS length differs from its type")
    return defListN("NM_BASE64_DIGITS", ds)


@item("NM_BASE64_STEP")
def _(repo):
    # result.push(DIGITS[(n & 0x3f) as usize] as char); n /= 64; if n == 0 { break; }
    body = fn_body(_src(repo, NAMING), "int_to_base64")
    m = re.search(r"loop\s*\{\s*result\.push\(\s*DIGITS\[\(n\s*&\s*([0-9a-fA-Fx_]+)\)\s*as\s+usize\]\s*as\s+char\s*\)\s*;\s*"
                  r"n\s*/=\s*([0-9_]+)\s*;\s*if\s+n\s*==\s*0\s*\{\s*break\s*;\s*\}\s*\}", body)
    if not m:
        raise Miss("int_to_base64 loop shape not found")
    return defN("NM_BASE64_MASK", rust_int(m.group(1))) + "\n" + defN("NM_BASE64_RADIX", rust_int(m.group(2)))


def _v3_format(repo, fn):
    # if archive_version < 3000 { format!("seg-..") } else { format!("x{}r", int_to_base64(n)) }
    body = fn_body(_src(repo, NAMING), fn)
    m = re.search(r'if\s+archive_version\s*<\s*(\d+)\s*\{\s*format!\("[^"]*"\)\s*\}\s*else\s*\{\s*format!\(\s*"([^"{}]*)\{\}([^"{}]*)"\s*,\s*int_to_base64\(n\)\s*\)\s*\}', body)
    if not m:
        raise Miss(f"{fn}: v3 format! shape not found")
    return int(m.group(1)), _rust_str(m.group(2)), _rust_str(m.group(3))


@item("NM_REF_NAME")
def _(repo):
    thr, pre, suf = _v3_format(repo, "stream_ref_name")
    return (defN("NM_V3_FROM_REF", thr) + "\n" + defListN("NM_REF_PREFIX", _bytes(pre)) + "\n"
            + defListN("NM_REF_SUFFIX", _bytes(suf)))


@item("NM_DELTA_NAME")
def _(repo):
    thr, pre, suf = _v3_format(repo, "stream_delta_name")
    return (defN("NM_V3_FROM_DELTA", thr) + "\n" + defListN("NM_DELTA_PREFIX", _bytes(pre)) + "\n"
            + defListN("NM_DELTA_SUFFIX", _bytes(suf)))


@item("FILE_VERSION")
def _(repo):
    src = _src(repo, TYPES)
    return defN("AGC_FILE_MAJOR", const_int(src, "AGC_FILE_MAJOR")) + "\n" + defN("AGC_FILE_MINOR", const_int(src, "AGC_FILE_MINOR"))


@item("NAMING_VERSION_EXPR")
def _(repo):
    # both sides compute `AGC_FILE_MAJOR * 1000 + AGC_FILE_MINOR`
    out = []
    for tag, rel in (("W", AGC), ("R", DEC)):
        ms = set(re.findall(r"AGC_FILE_MAJOR\s*\*\s*(\d+)\s*\+\s*(?:ragc_common::)?AGC_FILE_MINOR", _src(repo, rel)))
        if len(ms) != 1:
            raise Miss(f"{rel}: archive_version expression: {sorted(ms)}")
        out.append(defN(f"{tag}_VERSION_MUL", int(ms.pop())))
    return "\n".join(out)


def _names(src, call, what):
    return re.findall(call + r'\(\s*"([^"]*)"\s*\)', src)


@item("W_COLLECTION_STREAMS")
def _(repo):
    body = fn_body(_src(repo, COLL), "prepare_for_compression")
    ns = _names(body, r"register_stream", "prepare_for_compression")
    if len(ns) != 3:
        raise Miss(f"prepare_for_compression registers {ns}")
    return "\n".join(defListN(f"W_NAME_COLL_{i}", _bytes(_rust_str(n))) for i, n in enumerate(ns))


@item("R_COLLECTION_STREAMS")
def _(repo):
    body = fn_body(_src(repo, COLL), "prepare_for_decompression")
    ns = _names(body, r"get_stream_id", "prepare_for_decompression")
    if len(ns) != 3:
        raise Miss(f"prepare_for_decompression looks up {ns}")
    return "\n".join(defListN(f"R_NAME_COLL_{i}", _bytes(_rust_str(n))) for i, n in enumerate(ns))


@item("W_FIXED_STREAMS")
def _(repo):
    # with_splitters: register_stream("file_type_info"), ("params"), ("splitters"), ("segment-splitters") in this order
    src = _src(repo, AGC)
    ns = [n for n in _names(src, r"archive\.register_stream", "agc_compressor")]
    want = ["file_type_info", "params", "splitters", "segment-splitters"]
    seen = [n for n in ns if n in want]
    if seen[:4] != want or len(ns) < 4:
        raise Miss(f"fixed stream registrations: {ns}")
    return "\n".join(defListN(f"W_NAME_FIXED_{i}", _bytes(n)) for i, n in enumerate(ns[:4]))


@item("R_PARAMS_NAME")
def _(repo):
    body = fn_body(_src(repo, DEC), "load_params")
    ns = _names(body, r"get_stream_id", "load_params")
    if len(ns) != 1:
        raise Miss(f"load_params looks up {ns}")
    return defListN("R_NAME_PARAMS", _bytes(_rust_str(ns[0])))


@item("W_PARAMS_LAYOUT")
def _(repo):
    # data.extend_from_slice(&(config.k as u32).to_le_bytes()); ... min_match_len ... 50u32 ... segment_size
    src = _src(repo, AGC)
    m = re.search(r'let\s+deferred_params\s*=\s*\{(.*?)\(stream_id,\s*data\)\s*\}', src, re.S)
    if not m:
        raise Miss("deferred_params block not found")
    fs = re.findall(r"data\.extend_from_slice\(\s*&\(?\s*([A-Za-z0-9_.]+)(?:\s+as\s+(u32))?\s*\)?\.to_(le|be)_bytes\(\)\s*\)", m.group(1))
    if len(fs) != 4:
        raise Miss(f"params fields: {fs}")
    order = []
    for expr, ty, endian in fs:
        if endian != "le":
            raise Miss("params field not little endian")
        if expr == "config.k" and ty == "u32":
            order.append(0)
        elif expr == "config.min_match_len" and ty == "u32":
            order.append(1)
        elif re.fullmatch(r"\d+u32", expr):
            order.append(2); card = rust_int(expr)
        elif expr == "config.segment_size" and ty == "u32":
            order.append(3)
        else:
            raise Miss(f"params field {expr!r}")
    # field ids: 0 = k, 1 = min_match_len, 2 = pack_cardinality literal, 3 = segment_size; 4 bytes each, little endian
    return (defListN("W_PARAMS_FIELDS", order) + "\n" + defN("W_PARAMS_FIELD_BYTES", 4) + "\n"
            + defN("W_PARAMS_PACK_CARDINALITY", card))


@item("W_PARAMS_METADATA")
def _(repo):
    body = fn_body(_src(repo, AGC), "finalize")
    m = re.search(r"add_part_buffered\(\s*\*params_stream_id\s*,\s*params_data\.clone\(\)\s*,\s*(\d+)\s*\)", body)
    if not m:
        raise Miss("params add_part_buffered not found")
    return defN("W_PARAMS_METADATA", int(m.group(1)))


@item("R_PARAMS_LAYOUT")
def _(repo):
    body = fn_body(_src(repo, DEC), "load_params")
    def field(var):
        m = re.search(r"let\s+" + var + r"\s*=\s*(?:if\s+data\.len\(\)\s*>=\s*(\d+)\s*\{\s*)?u32::from_le_bytes\(\[\s*data\[(\d+)\]\s*,\s*data\[(\d+)\]\s*,\s*data\[(\d+)\]\s*,\s*data\[(\d+)\]\s*\]\)", body)
        if not m:
            raise Miss(f"load_params: field {var}")
        idx = [int(x) for x in m.groups()[1:]]
        if idx != list(range(idx[0], idx[0] + 4)):
            raise Miss(f"load_params: field {var} bytes {idx}")
        return idx[0], (int(m.group(1)) if m.group(1) else 0)
    k, _ = field("kmer_length")
    mm, _ = field("min_match_len")
    pc, _ = field("_pack_cardinality")
    ss, ss_from = field("segment_size")
    m = re.search(r"if\s+data\.len\(\)\s*<\s*(\d+)\s*\{", body)
    if not m:
        raise Miss("load_params: minimum length test")
    m2 = re.search(r"\}\s*else\s*\{\s*(\d+)\s*\}\s*;", body)
    if not m2:
        raise Miss("load_params: default segment size")
    m3 = re.search(r"if\s+num_parts\s*!=\s*(\d+)\s*\{", body)
    if not m3:
        raise Miss("load_params: part count test")
    return "\n".join([defN("R_PARAMS_OFF_K", k), defN("R_PARAMS_OFF_MML", mm), defN("R_PARAMS_OFF_PACK", pc),
                      defN("R_PARAMS_OFF_SEGSIZE", ss), defN("R_PARAMS_MIN_LEN", int(m.group(1))),
                      defN("R_PARAMS_SEGSIZE_FROM_LEN", ss_from), defN("R_PARAMS_DEFAULT_SEGSIZE", int(m2.group(1))),
                      defN("R_PARAMS_NUM_PARTS", int(m3.group(1)))])


@item("W_CATALOGUE_BATCH")
def _(repo):
    # finalize(): const PACK_CARDINALITY: usize = 50;  (samples per collection-contigs / -details part)
    body = fn_body(_src(repo, AGC), "finalize")
    return defN("W_CATALOGUE_BATCH", const_int(body, "PACK_CARDINALITY"))
