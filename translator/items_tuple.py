# C12: tuple_packing.rs / segment_compression.rs constants, plus the part-level "did compression help"
# convention of agc_compressor.rs (writer) and decompressor.rs (reader).  -> coq/gen/Consts_tuple.v
from fractions import Fraction

TP = "ragc-core/src/tuple_packing.rs"
SC = "ragc-core/src/segment_compression.rs"
AC = "ragc-core/src/agc_compressor.rs"
DC = "ragc-core/src/decompressor.rs"


def _triples(name, ts):
    return (f"Definition {name} : list (N * N * N) := ["
            + "; ".join(f"({a}, {b}, {c})" for a, b, c in ts) + "].")


def _one(pat, src, what, flags=0):
    m = re.search(pat, src, flags)
    if not m:
        raise Miss(what + " not found")
    return m


def _same(vals, what):
    if not vals:
        raise Miss(what + ": no site found")
    if len(set(vals)) != 1:
        raise Miss(what + ": sites disagree " + repr(vals))
    return vals[0]


# bytes_to_tuples: `if max_elem < T { pack_tuples::<W, R>(bytes) }` chain, in source order: (T, W, R)
@item("tp_ranges")
def _(repo):
    body = fn_body(strip_comments(rd(repo, TP)), "bytes_to_tuples")
    ts = re.findall(r"max_elem\s*<\s*(\w+)\s*\{\s*pack_tuples::<\s*(\w+)\s*,\s*(\w+)\s*>\s*\(\s*bytes\s*\)", body)
    if not ts:
        raise Miss("no `max_elem < T { pack_tuples::<W, R>(bytes)` chain")
    return _triples("tp_ranges", [(rust_int(a), rust_int(b), rust_int(c)) for a, b, c in ts])


@item("tp_empty_marker")
def _(repo):
    body = fn_body(strip_comments(rd(repo, TP)), "bytes_to_tuples")
    m = _one(r"is_empty\s*\(\s*\)\s*\{\s*return\s+vec!\s*\[\s*(\w+)\s*\]", body, "empty-input marker")
    return defN("tp_empty_marker", rust_int(m.group(1)))


@item("tp_plain_marker")
def _(repo):
    body = fn_body(strip_comments(rd(repo, TP)), "bytes_to_tuples")
    m = _one(r"bytes\.to_vec\s*\(\s*\)\s*;\s*result\.push\s*\(\s*(\w+)\s*\)", body, "no-packing marker")
    return defN("tp_plain_marker", rust_int(m.group(1)))


# pack_tuples: marker = ((N as u8) << S) | ((bytes.len() % N) as u8)
@item("tp_pack_shift")
def _(repo):
    body = fn_body(strip_comments(rd(repo, TP)), "pack_tuples")
    m = _one(r"\(\s*\(\s*N\s+as\s+u8\s*\)\s*<<\s*(\w+)\s*\)\s*\|\s*\(\s*\(\s*bytes\.len\s*\(\s*\)\s*%\s*N\s*\)\s*as\s+u8\s*\)",
             body, "marker expression in pack_tuples")
    return defN("tp_pack_shift", rust_int(m.group(1)))


# tuples_to_bytes: no_bytes = marker >> S; trailing = marker & M; `no_bytes == P` => unpacked;
# output_size = (len - D) * no_bytes + trailing; arms `K => unpack_tuples::<W, R>`
@item("tp_unpack_shift")
def _(repo):
    body = fn_body(strip_comments(rd(repo, TP)), "tuples_to_bytes")
    m = _one(r"no_bytes\s*=\s*marker\s*>>\s*(\w+)\s*;", body, "no_bytes = marker >> S")
    return defN("tp_unpack_shift", rust_int(m.group(1)))


@item("tp_unpack_mask")
def _(repo):
    body = fn_body(strip_comments(rd(repo, TP)), "tuples_to_bytes")
    m = _one(r"trailing_bytes\s*=\s*marker\s*&\s*(\w+)\s*;", body, "trailing_bytes = marker & M")
    return defN("tp_unpack_mask", rust_int(m.group(1)))


@item("tp_plain_no_bytes")
def _(repo):
    body = fn_body(strip_comments(rd(repo, TP)), "tuples_to_bytes")
    m = _one(r"if\s+no_bytes\s*==\s*(\w+)\s*\{\s*return\s+tuples\s*\[\s*\.\.\s*tuples\.len\s*\(\s*\)\s*-\s*1\s*\]", body,
             "`if no_bytes == P { return tuples[..len-1]`")
    return defN("tp_plain_no_bytes", rust_int(m.group(1)))


@item("tp_size_sub")
def _(repo):
    body = fn_body(strip_comments(rd(repo, TP)), "tuples_to_bytes")
    m = _one(r"output_size\s*=\s*\(\s*tuples\.len\s*\(\s*\)\s*-\s*(\w+)\s*\)\s*\*\s*\(\s*no_bytes\s+as\s+usize\s*\)\s*"
             r"\+\s*\(\s*trailing_bytes\s+as\s+usize\s*\)", body, "output_size expression")
    return defN("tp_size_sub", rust_int(m.group(1)))


@item("tp_unpack_arms")
def _(repo):
    body = fn_body(strip_comments(rd(repo, TP)), "tuples_to_bytes")
    ts = re.findall(r"(\w+)\s*=>\s*unpack_tuples::<\s*(\w+)\s*,\s*(\w+)\s*>\s*\(\s*&tuples\s*\[\s*\.\.\s*tuples\.len\s*\(\s*\)\s*-\s*1\s*\]", body)
    if not ts:
        raise Miss("no `K => unpack_tuples::<W, R>(&tuples[..len-1]` arms")
    return _triples("tp_unpack_arms", [(rust_int(a), rust_int(b), rust_int(c)) for a, b, c in ts])


# segment_compression.rs
@item("sc_delta_level")
def _(repo):
    return defN("sc_delta_level", const_int(strip_comments(rd(repo, SC)), "DELTA_COMPRESSION_LEVEL"))


@item("sc_ref_tuples_level")
def _(repo):
    return defN("sc_ref_tuples_level", const_int(strip_comments(rd(repo, SC)), "REF_TUPLES_COMPRESSION_LEVEL"))


@item("sc_ref_plain_level")
def _(repo):
    return defN("sc_ref_plain_level", const_int(strip_comments(rd(repo, SC)), "REF_PLAIN_COMPRESSION_LEVEL"))


# which level constant each call site uses (so that a swap of the two names is seen)
@item("sc_level_sites")
def _(repo):
    src = strip_comments(rd(repo, SC))
    body = fn_body(src, "compress_reference_segment")
    m = _one(r"if\s+repetitiveness\s*<\s*REPETITIVENESS_THRESHOLD\s*\{(.*?)\}\s*else\s*\{(.*)\}\s*$", body,
             "`if repetitiveness < REPETITIVENESS_THRESHOLD {..} else {..}`", re.S)
    lo, hi = m.group(1), m.group(2)
    a = _one(r"let\s+tuples\s*=\s*bytes_to_tuples\s*\(\s*data\s*\)\s*;\s*let\s+compressed\s*=\s*zstd_pool::compress_segment_pooled\s*"
             r"\(\s*&tuples\s*,\s*(\w+)\s*\)\s*\?", lo, "tuple branch compress call")
    b = _one(r"let\s+compressed\s*=\s*zstd_pool::compress_segment_pooled\s*\(\s*data\s*,\s*(\w+)\s*\)\s*\?", hi,
             "plain branch compress call")
    ma = _one(r"Ok\s*\(\s*\(\s*compressed\s*,\s*(\w+)\s*\)\s*\)", lo, "tuple branch marker")
    mb = _one(r"Ok\s*\(\s*\(\s*compressed\s*,\s*(\w+)\s*\)\s*\)", hi, "plain branch marker")
    d = _one(r"compress_segment_plain\s*\(\s*data\s*,\s*(\w+)\s*\)", fn_body(src, "compress_segment"), "compress_segment level")
    for tok, want in ((a.group(1), "REF_TUPLES_COMPRESSION_LEVEL"), (b.group(1), "REF_PLAIN_COMPRESSION_LEVEL"),
                      (d.group(1), "DELTA_COMPRESSION_LEVEL")):
        if tok != want:
            raise Miss(f"level site uses {tok}, expected {want}")
    return (defN("sc_marker_tuples", rust_int(ma.group(1))) + "\n" + defN("sc_marker_plain", rust_int(mb.group(1))))


@item("sc_reader_plain_marker")
def _(repo):
    body = fn_body(strip_comments(rd(repo, SC)), "decompress_segment_with_marker")
    m = _one(r"if\s+marker\s*==\s*(\w+)\s*\{\s*zstd_pool::decompress_segment_pooled", body, "`if marker == M { plain`")
    return defN("sc_reader_plain_marker", rust_int(m.group(1)))


@item("rep_threshold")
def _(repo):
    src = strip_comments(rd(repo, SC))
    m = _one(r"\bconst\s+REPETITIVENESS_THRESHOLD\s*:\s*f64\s*=\s*([0-9_]*\.?[0-9_]+)\s*;", src, "REPETITIVENESS_THRESHOLD")
    f = Fraction(m.group(1).replace("_", ""))
    return defN("rep_thr_num", f.numerator) + "\n" + defN("rep_thr_den", f.denominator)


@item("rep_offsets")
def _(repo):
    body = fn_body(strip_comments(rd(repo, SC)), "check_repetitiveness")
    m = _one(r"for\s+offset\s+in\s+(\w+)\s*\.\.\s*(\w+)\s*\{", body, "`for offset in A..B`")
    return defN("rep_off_lo", rust_int(m.group(1))) + "\n" + defN("rep_off_hi", rust_int(m.group(2)))


@item("rep_base_limit")
def _(repo):
    body = fn_body(strip_comments(rd(repo, SC)), "check_repetitiveness")
    m = _one(r"if\s+data\s*\[\s*j\s*\]\s*<\s*(\w+)\s*\{\s*cur_size\s*\+=\s*1", body, "`if data[j] < B { cur_size += 1`")
    return defN("rep_base_limit", rust_int(m.group(1)))


# the level the streaming compressor hands to compress_segment_configured (StreamingQueueConfig::default();
# the CLI does not override it - its -c option is parsed and printed but never put into the config)
@item("cfg_compression_level")
def _(repo):
    src = strip_comments(rd(repo, AC))
    m = _one(r"impl\s+Default\s+for\s+StreamingQueueConfig\s*\{.*?\bcompression_level\s*:\s*(\w+)\s*,", src,
             "StreamingQueueConfig::default().compression_level", re.S)
    return defN("cfg_compression_level", rust_int(m.group(1)))


# writer (agc_compressor.rs): every pack site pushes marker K after compress_segment_configured and keeps the
# compressed form iff `compressed.len() < raw`; the raw form is stored with metadata 0
@item("part_writer")
def _(repo):
    src = strip_comments(rd(repo, AC))
    pack_markers = [rust_int(x) for x in re.findall(
        r"compress_segment_configured\s*\([^;]*?;\s*compressed\.push\s*\(\s*(\w+)\s*\)\s*;", src, re.S)]
    k = _same(pack_markers, "pack marker after compress_segment_configured")
    refs = re.findall(r"compress_reference_segment\s*\([^;]*?;\s*compressed\.push\s*\(\s*marker\s*\)\s*;", src, re.S)
    if not refs:
        raise Miss("no `compress_reference_segment(..)?; compressed.push(marker);` site")
    cmps = re.findall(r"compressed\.len\s*\(\s*\)\s*(<=|<|>=|>)\s*(\w[\w.()]*)", src)
    if len(cmps) < len(pack_markers) + len(refs) or any(op != "<" for op, _ in cmps):
        raise Miss("size comparison sites: " + repr(cmps))
    raws = [rust_int(x) for x in re.findall(r"metadata\s*:\s*(\d\w*)\s*,", src)]
    raws += [rust_int(x) for x in re.findall(
        r"\}\s*else\s*\{\s*arch\.add_part_buffered\s*\(\s*[\w.]+\s*,\s*[\w.]+\.clone\s*\(\s*\)\s*,\s*(\d\w*)\s*\)\s*;", src)]
    z = _same(raws, "metadata of the raw form")
    return defN("w_pack_marker", k) + "\n" + defN("w_raw_metadata", z)


# reader (decompressor.rs get_segment): `if <x>metadata == Z { data } else { .. marker = data.pop() .. }`
@item("part_reader")
def _(repo):
    src = strip_comments(rd(repo, DC))
    zs = [rust_int(z) for z in re.findall(
        r"if\s+\w*metadata\s*==\s*(\w+)\s*\{\s*\w+\s*\}\s*else\s*\{\s*if\s+\w+\.is_empty\s*\(\s*\)\s*\{[^}]*\}\s*"
        r"let\s+marker\s*=\s*\w+\.pop\s*\(\s*\)\s*\.unwrap\s*\(\s*\)\s*;\s*decompress_segment_with_marker\s*\(", src, re.S)]
    return defN("r_raw_metadata", _same(zs, "reader raw-metadata test"))
