# kmer.rs: the 2-bit complement table used by Kmer::insert_* and reverse_complement_kmer
@item("kmer_rc_base")
def _(repo):
    src = strip_comments(rd(repo, "ragc-core/src/kmer.rs"))
    m = re.search(r"pub const fn reverse_complement\s*\(\s*base\s*:\s*u64\s*\)\s*->\s*u64\s*\{(.*?)\n\}", src, re.S)
    if not m:
        raise Miss("reverse_complement(base: u64) not found")
    arms, default = match_arms(m.group(1))
    return coq_match_N("kmer_rc_base", arms, default)
