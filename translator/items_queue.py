# memory_bounded_queue.rs: the structural facts coq/model/Queue.v takes as the shape of its step function.
# Queue.step treats every operation - close included - as ONE critical section of the single mutex: the state
# (items, current_size, closed) changes only there, a waiter re-tests its predicate under that lock, and the
# notifications are issued by the thread that changed the state.  These items say whether the source still has
# that shape: value 1 = yes, 0 = the item was found but no longer has it (props/C06.v pins 1, so the proof build
# breaks and the check goes looking for a failing schedule), Miss = not found at all (committed default).
# Deliberately loose about names of locals and helper extraction; strict about WHERE `closed` lives and whether
# close() takes the lock before it changes it.
_Q = "ragc-core/src/memory_bounded_queue.rs"


def _qsrc(repo):
    return strip_comments(rd(repo, _Q))


def _struct_body(src, name):
    m = re.search(r"\bstruct\s+" + name + r"\b[^{;]*\{", src)
    if not m:
        raise Miss(f"struct {name} not found")
    i = m.end() - 1
    depth, j = 0, i
    while j < len(src):
        if src[j] == "{":
            depth += 1
        elif src[j] == "}":
            depth -= 1
            if depth == 0:
                return src[i + 1:j]
        j += 1
    raise Miss(f"struct {name}: unbalanced braces")


# items / current_size / closed are fields of the ONE struct that sits inside the queue's Mutex
@item("q_state_under_one_mutex")
def _(repo):
    src = _qsrc(repo)
    outer = _struct_body(src, "MemoryBoundedQueue")
    m = re.search(r"(\w+)\s*:\s*Arc\s*<\s*Mutex\s*<\s*(\w+)\s*<", outer)
    if not m:
        raise Miss("MemoryBoundedQueue: no Arc<Mutex<..>> field")
    inner = _struct_body(src, m.group(2))
    fields = set(re.findall(r"(\w+)\s*:", inner))
    ok = ({"items", "current_size", "closed"} <= fields
          and len(re.findall(r"Mutex\s*<", outer)) == 1
          and not re.search(r"Atomic\w+", outer))
    return defN("q_state_under_one_mutex", 1 if ok else 0)


# close(): takes the lock, sets closed under it, then notify_all on both condition variables
@item("q_close_under_lock")
def _(repo):
    b = re.sub(r"\s+", "", fn_body(_qsrc(repo), "close"))
    i_lock = b.find(".lock()")
    m_set = re.search(r"\.closed=true;", b)
    n_all = [m.start() for m in re.finditer(r"\.notify_all\(\)", b)]
    ok = (i_lock >= 0 and m_set is not None and i_lock < m_set.start() and len(n_all) >= 2
          and all(x > m_set.start() for x in n_all) and "notify_one" not in b and "drop(" not in b[:m_set.start()])
    return defN("q_close_under_lock", 1 if ok else 0)


# push / pull: the blocking wait is a `while <predicate> { guard = condvar.wait(guard) }` loop (predicate re-tested
# under the lock after every wake-up), and the closed test follows the loop under the same guard
@item("q_wait_loops")
def _(repo):
    src = _qsrc(repo)
    push = re.sub(r"\s+", "", fn_body(src, "push"))
    pull = re.sub(r"\s+", "", fn_body(src, "pull"))
    ok = (re.search(r"(while|loop).*?=self\.not_full\.wait\((\w+)\)\.unwrap\(\);", push) is not None
          and re.search(r"(while|loop).*?=self\.not_empty\.wait\((\w+)\)\.unwrap\(\);", pull) is not None
          and push.count(".lock()") == 1 and pull.count(".lock()") == 1
          and "closed" in push and "closed" in pull)
    return defN("q_wait_loops", 1 if ok else 0)
