# varint.rs / archive.rs: constants of the container format (C13, C14)

def _fn(repo, rel, name):
    return fn_body(strip_comments(rd(repo, rel)), name)


def _one(body, pat, what):
    m = re.search(pat, body)
    if not m:
        raise Miss(what + " not found")
    return rust_int(m.group(1))


# write_varint: `tmp >>= 8`, `(value >> (i * 8)) & 0xff`
@item("vi_shift_w")
def _(repo):
    return defN("vi_shift_w", _one(_fn(repo, "ragc-common/src/varint.rs", "write_varint"), r"tmp\s*>>=\s*(\d+)\s*;", "tmp >>= n"))


@item("vi_mul_w")
def _(repo):
    return defN("vi_mul_w", _one(_fn(repo, "ragc-common/src/varint.rs", "write_varint"), r"value\s*>>\s*\(\s*i\s*\*\s*(\d+)\s*\)", "value >> (i * n)"))


@item("vi_mask_w")
def _(repo):
    return defN("vi_mask_w", _one(_fn(repo, "ragc-common/src/varint.rs", "write_varint"), r"&\s*(0x[0-9a-fA-F]+|\d+)\s*\)\s*as\s+u8", "& mask"))


# read_varint: `value <<= 8`
@item("vi_shift_r")
def _(repo):
    return defN("vi_shift_r", _one(_fn(repo, "ragc-common/src/varint.rs", "read_varint"), r"value\s*<<=\s*(\d+)\s*;", "value <<= n"))


# read_varint: the returned byte count is computed in u8 (`(no_bytes + 1) as usize`: overflows for a length byte
# of 255 in the dev profile) or in usize (`no_bytes as usize + 1`)
@item("vi_len_u8")
def _(repo):
    body = _fn(repo, "ragc-common/src/varint.rs", "read_varint")
    if re.search(r"\(\s*no_bytes\s*\+\s*1\s*\)\s*as\s+usize", body):
        return "Definition vi_len_u8 : bool := true."
    if re.search(r"no_bytes\s+as\s+usize\s*\+\s*1|usize::from\(\s*no_bytes\s*\)\s*\+\s*1|1\s*\+\s*no_bytes\s+as\s+usize", body):
        return "Definition vi_len_u8 : bool := false."
    raise Miss("read_varint: byte count expression not recognised")


# archive.rs deserialize: the length field is the last 8 bytes
@item("ar_len_field_seek")
def _(repo):
    return defN("ar_len_field_seek", _one(_fn(repo, "ragc-common/src/archive.rs", "deserialize"), r"SeekFrom::End\(\s*-\s*(\d+)\s*\)", "seek(End(-n))"))


@item("ar_len_field_buf")
def _(repo):
    return defN("ar_len_field_buf", _one(_fn(repo, "ragc-common/src/archive.rs", "deserialize"), r"footer_size_bytes\s*=\s*\[\s*0u8\s*;\s*(\d+)\s*\]", "[0u8; n]"))


@item("ar_len_field_sub")
def _(repo):
    return defN("ar_len_field_sub", _one(_fn(repo, "ragc-common/src/archive.rs", "deserialize"), r"file_size\s*\.checked_sub\(\s*(\d+)\s*\)", "file_size.checked_sub(n)"))


# stream names: NUL terminated on both sides
@item("ar_name_term_w")
def _(repo):
    return defN("ar_name_term_w", _one(_fn(repo, "ragc-common/src/archive.rs", "serialize"), r"as_bytes\(\)\s*\)\s*;\s*footer\.push\(\s*(\d+)\s*\)", "footer.push(0)"))


@item("ar_name_term_r")
def _(repo):
    return defN("ar_name_term_r", _one(_fn(repo, "ragc-common/src/archive.rs", "deserialize"), r"if\s+byte\[0\]\s*==\s*(\d+)\s*\{\s*break", "byte[0] == 0"))


# read_part_data: `if part.size == 0 { return Ok(Some((Vec::new(), 0))); }`
@item("ar_empty_meta")
def _(repo):
    return defN("ar_empty_meta", _one(_fn(repo, "ragc-common/src/archive.rs", "read_part_data"),
                                      r"if\s+part\.size\s*==\s*0\s*\{\s*return\s+Ok\(\s*Some\(\s*\(\s*Vec::new\(\)\s*,\s*(\d+)\s*\)\s*\)\s*\)", "empty part short cut"))
