# C16/C19: genome_io.rs symbol table and reader bounds, decompressor.rs output mapping  -> coq/gen/Consts_fasta.v
GI = "ragc-core/src/genome_io.rs"
DC = "ragc-core/src/decompressor.rs"
CI = "ragc-core/src/contig_iterator.rs"


def _one(pat, src, what, flags=0):
    m = re.search(pat, src, flags)
    if not m:
        raise Miss(what + " not found")
    return m


def _same(vals, what):
    if not vals:
        raise Miss(what + ": no site found")
    if len(set(vals)) != 1:
        raise Miss(what + ": sites disagree " + repr(vals))
    return vals[0]


def _bytes_of_str(s):
    return [ord(c) for c in s]


# pub const CNV_NUM: [u8; 128] = [ ... ];
@item("cnv_num")
def _(repo):
    src = strip_comments(rd(repo, GI))
    m = _one(r"pub\s+const\s+CNV_NUM\s*:\s*\[\s*u8\s*;\s*(\w+)\s*\]\s*=\s*\[(.*?)\]\s*;", src, "CNV_NUM table", re.S)
    n = rust_int(m.group(1))
    toks = re.findall(r"b'(?:\\.|[^'])'|\d+", m.group(2))
    vals = [rust_int(t) for t in toks]
    if len(vals) != n:
        raise Miss(f"CNV_NUM: {len(vals)} entries for declared length {n}")
    return defListN("cnv_num", vals) + "\n" + defN("cnv_num_len", n)


# read_contig_impl / read_contig_raw: `c > 64 && (c as usize) < CNV_NUM.len()` (both sites must agree)
@item("keep_lower_bound")
def _(repo):
    src = strip_comments(rd(repo, GI))
    sites = re.findall(r"c\s*>\s*(\w+)\s*&&\s*\(\s*c\s+as\s+usize\s*\)\s*<\s*CNV_NUM\s*\.\s*len\s*\(\s*\)", src)
    if len(sites) < 2:
        raise Miss("`c > B && (c as usize) < CNV_NUM.len()` expected in read_contig_raw and read_contig_impl")
    return defN("keep_lower_bound", _same([rust_int(s) for s in sites], "keep bound"))


# the line terminator of read_until and the record marker
@item("line_and_marker_bytes")
def _(repo):
    src = strip_comments(rd(repo, GI))
    body = fn_body(src, "read_contig_raw")
    nl = _same([rust_int(x) for x in re.findall(r"read_until\s*\(\s*(b'(?:\\.|[^'])')", body)], "read_until terminator")
    gt = rust_int(_one(r"self\s*\.\s*buffer\s*\[\s*0\s*\]\s*==\s*(b'(?:\\.|[^'])')", body, "buffer[0] == b'>'").group(1))
    gt2 = _one(r"trim_start_matches\s*\(\s*'(.)'\s*\)\s*\.\s*trim\s*\(\s*\)", body, "trim_start_matches('>').trim()").group(1)
    if ord(gt2) != gt:
        raise Miss("record marker and trimmed character differ")
    return defN("line_end_byte", nl) + "\n" + defN("record_marker_byte", gt)


# parse_sample_from_header: split('#'), parts.len() >= 3, "unknown"
@item("pansn")
def _(repo):
    body = fn_body(strip_comments(rd(repo, GI)), "parse_sample_from_header")
    sep = _one(r"header\s*\.\s*split\s*\(\s*'(.)'\s*\)", body, "header.split('#')").group(1)
    n = rust_int(_one(r"parts\s*\.\s*len\s*\(\s*\)\s*>=\s*(\w+)", body, "parts.len() >= 3").group(1))
    fmt = _one(r'format!\s*\(\s*"\{\}(.)\{\}"\s*,\s*parts\s*\[\s*0\s*\]\s*,\s*parts\s*\[\s*1\s*\]\s*\)', body, "sample format").group(1)
    join = _one(r'parts\s*\[\s*2\s*\.\.\s*\]\s*\.\s*join\s*\(\s*"(.)"\s*\)', body, "contig join").group(1)
    unk = _one(r'\(\s*"(\w+)"\s*\.\s*to_string\s*\(\s*\)\s*,\s*header\s*\.\s*to_string\s*\(\s*\)\s*\)', body, '"unknown" fallback').group(1)
    if not (sep == fmt == join):
        raise Miss("separator characters differ")
    return "\n".join([defN("pansn_sep_byte", ord(sep)), defN("pansn_min_parts", n),
                      defListN("unknown_name", _bytes_of_str(unk))])


# MultiFileIterator::next_contig: `sample_from_header != "unknown"` else file name; contig name = full header
@item("multifile_naming")
def _(repo):
    src = strip_comments(rd(repo, CI))
    m = _one(r"impl\s+ContigIterator\s+for\s+MultiFileIterator\s*\{(.*?)\n\}", src, "impl ContigIterator for MultiFileIterator", re.S)
    body = m.group(1)
    unk = _one(r'sample_from_header\s*!=\s*"(\w+)"', body, 'sample_from_header != "unknown"').group(1)
    _one(r"Ok\s*\(\s*Some\s*\(\s*\(\s*sample_name\s*,\s*full_header\s*,\s*sequence\s*\)\s*\)\s*\)", body,
         "contig name = full header")
    of = fn_body(src, "open_file")
    exts = re.findall(r'trim_end_matches\s*\(\s*"([^"]+)"\s*\)', of)
    if len(exts) != 2:
        raise Miss("two trim_end_matches(ext) expected in open_file")
    gz = _one(r'extension\s*\(\s*\)\s*\.\s*and_then\s*\([^=]*?\)\s*==\s*Some\s*\(\s*"(\w+)"\s*\)', of, 'extension == Some("gz")').group(1)
    return "\n".join([defListN("multifile_unknown", _bytes_of_str(unk)),
                      defListN("stem_trim_first", _bytes_of_str(exts[0])),
                      defListN("stem_trim_second", _bytes_of_str(exts[1])),
                      defListN("gz_extension", _bytes_of_str(gz))])


# write_sample_fasta: `if base < 16 { CNV_NUM[base as usize] } else { b'N' }` ; GenomeWriter LINE_WIDTH
@item("output_mapping")
def _(repo):
    body = fn_body(strip_comments(rd(repo, DC)), "write_sample_fasta")
    m = _one(r"if\s+base\s*<\s*(\w+)\s*\{\s*CNV_NUM\s*\[\s*base\s+as\s+usize\s*\]\s*\}\s*else\s*\{\s*(b'(?:\\.|[^'])')\s*\}", body,
             "output mapping base < 16 ? CNV_NUM[base] : b'N'")
    w = const_int(fn_body(strip_comments(rd(repo, GI)), "save_contig_directly"), "LINE_WIDTH")
    return "\n".join([defN("out_code_bound", rust_int(m.group(1))), defN("out_default_byte", rust_int(m.group(2))),
                      defN("out_line_width", w)])
