# C18: the arithmetic sites whose overflow behaviour differed between build profiles (each was a fix: commit).
# Every item is a boolean "the source still has the repaired form"; Profile.v's functions take them as rule
# flags, and props/C18.v needs them all true (sites_fixed by reflexivity), so reverting a repair breaks it.
def _src(repo, rel):
    return strip_comments(rd(repo, rel))


def _bool(name, v):
    return f"Definition {name} : bool := {'true' if v else 'false'}."


@item("prio_init")
def _(repo):
    s = _src(repo, "ragc-core/src/agc_compressor.rs")
    m = re.search(r"let next_priority = Arc::new\(Mutex::new\(([^)]*)\)\);", s)
    if not m:
        raise Miss("next_priority initialiser not found")
    v = m.group(1).strip()
    if v == "i32::MAX":
        return defZ("PRIO_INIT", 2147483647)
    return defZ("PRIO_INIT", rust_int(v))


@item("final_token_priority")
def _(repo):
    s = _src(repo, "ragc-core/src/agc_compressor.rs")
    vals = set(re.findall(r"sample_priority:\s*([0-9_]+)_i32,", s))
    if len(vals) != 1:
        raise Miss(f"expected one literal token priority, found {vals}")
    return defZ("FINAL_TOKEN_PRIORITY", rust_int(vals.pop()))


@item("tok_prio_is_current")
def _(repo):
    s = _src(repo, "ragc-core/src/agc_compressor.rs")
    body = fn_body(s, "push")
    direct = re.search(r"sample_priority:\s*current_priority\s*,", body) is not None
    # the token literal may live in a private helper that receives the priority as an argument
    via_helper = False
    for m in re.finditer(r"\b(\w+)\(([^;{}]*\bcurrent_priority\b[^;{}]*)\)", body):
        try:
            hb = fn_body(s, m.group(1))
        except Miss:
            continue
        if re.search(r"is_sync_token\s*:\s*true", hb) and re.search(r"\bsample_priority\b\s*(,|:\s*sample_priority)", hb):
            via_helper = True
    ok = (direct or via_helper) and re.search(r"new_priority\s*\+\s*1_000_000", body) is None
    return _bool("tok_prio_is_current", ok)


@item("next_prio_lowered")
def _(repo):
    s = _src(repo, "ragc-core/src/agc_compressor.rs")
    body = fn_body(s, "push")
    ok = re.search(r"if\s*\*next_p\s*>=\s*new_priority\s*\{\s*\*next_p\s*=\s*new_priority\s*-\s*1;\s*\}", body) is not None
    return _bool("next_prio_lowered", ok)


@item("sample_tok_saturating")
def _(repo):
    s = _src(repo, "ragc-core/src/agc_compressor.rs")
    body = fn_body(s, "push")
    ok = re.search(r"sample_priority\s*\+\s*1_000_000", body) is None
    return _bool("sample_tok_no_overflowing_add", ok)


@item("fb_mask_guarded")
def _(repo):
    s = _src(repo, "ragc-core/src/agc_compressor.rs")
    shifts = len(re.findall(r"1u64\s*<<\s*\(2\s*\*\s*k\)", s))
    guarded = len(re.findall(r"if\s+k\s*>=\s*32\s*\{\s*u64::MAX\s*\}\s*else\s*\{\s*\(1u64\s*<<\s*\(2\s*\*\s*k\)\)\s*-\s*1\s*\}", s))
    return _bool("fb_mask_guarded", shifts == guarded)


@item("est_tail_wrapping")
def _(repo):
    s = _src(repo, "ragc-core/src/lz_diff.rs")
    body = fn_body(s, "estimate")
    ok = re.search(r"est_cost\s*=\s*est_cost\.wrapping_add\(\s*text_size\.wrapping_sub\(\s*i\s*\)\s*\)\s*;", body) is not None \
        and re.search(r"est_cost\s*\+=\s*text_size\s*-\s*i\s*;", body) is None
    return _bool("est_tail_wrapping", ok)


@item("footer_checked")
def _(repo):
    s = _src(repo, "ragc-common/src/archive.rs")
    body = fn_body(s, "deserialize")
    ok = re.search(r"\.checked_sub\(8\)\s*\.and_then\(\|n\|\s*n\.checked_sub\(footer_size\)\)", body) is not None \
        and re.search(r"file_size\s*-\s*8\s*-\s*footer_size", body) is None
    return _bool("footer_checked", ok)


@item("varint_len_usize")
def _(repo):
    s = _src(repo, "ragc-common/src/varint.rs")
    body = fn_body(s, "read_varint")
    ok = re.search(r"no_bytes\s+as\s+usize\s*\+\s*1", body) is not None and re.search(r"\(no_bytes\s*\+\s*1\)\s*as\s+usize", body) is None
    return _bool("varint_len_usize", ok)
