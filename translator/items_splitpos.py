# find_split_by_cost's post-processing of the cost minimum (agc_compressor.rs): the only place where a SplitAt
# position is produced on the live path.  SplitPos.v transcribes it; these items pin the source text it transcribes.
@item("split_post_shape")
def _(repo):
    s = strip_comments(rd(repo, "ragc-core/src/agc_compressor.rs"))
    body = fn_body(s, "find_split_by_cost")
    pats = [r"let\s+min_size\s*=\s*k\s*\+\s*1\s*;",
            r"if\s+seg_len\s*<\s*2\s*\*\s*min_size\s*\|\|\s*left_ref\.is_empty\(\)\s*\|\|\s*right_ref\.is_empty\(\)\s*\{\s*return\s+SplitDecision::NoDecision;\s*\}",
            r"if\s+best_pos\s*<\s*min_size\s*\{\s*best_pos\s*=\s*0;\s*\}\s*if\s+best_pos\s*\+\s*min_size\s*>\s*seg_len\s*\{\s*best_pos\s*=\s*seg_len;\s*\}",
            r"if\s+best_pos\s*==\s*0\s*\{\s*SplitDecision::AssignToRight\s*\}\s*else\s+if\s+best_pos\s*>=\s*seg_len\s*\{\s*SplitDecision::AssignToLeft\s*\}\s*else\s*\{\s*SplitDecision::SplitAt\(best_pos\)\s*\}"]
    ok = all(re.search(p, body) for p in pats)
    # SplitAt must not be constructed anywhere else in non-test code of the live classification path
    cls = fn_body(s, "classify_raw_segments_at_barrier")
    ok = ok and re.search(r"SplitDecision::SplitAt\(", cls.replace("SplitDecision::SplitAt(split_pos) =>", "")) is None
    return f"Definition split_post_shape_pinned : bool := {'true' if ok else 'false'}."
