#!/usr/bin/env python3
"""Translator: /repo working tree  ->  /verif/coq/gen/Consts.v

Every constant / table / small `match` the theorems depend on is re-read from the
Rust sources on every run, so the proofs are re-checked against what the code
says *now*.  Each item is located by a narrow regex anchored on its Rust name.
If a pattern no longer matches (rename/refactor) the last committed value from
translator/defaults.json is used and the miss is recorded in
coq/gen/translator_report.json (a miss alone is never a violation; the
correspondence check is the primary tie).

Usage: gen_consts.py [--repo /repo] [--out coq/gen/Consts.v] [--update-defaults]
"""
import json, os, re, sys, argparse

HERE = os.path.dirname(os.path.abspath(__file__))
VERIF = os.path.dirname(HERE)


class Miss(Exception):
    pass


def rd(repo, rel):
    try:
        with open(os.path.join(repo, rel), encoding="utf-8", errors="replace") as f:
            return f.read()
    except OSError:
        raise Miss(f"cannot read {rel}")


def strip_comments(s):
    s = re.sub(r"//[^\n]*", "", s)
    s = re.sub(r"/\*.*?\*/", "", s, flags=re.S)
    return s


def fn_body(src, name):
    """text of `fn name(...) ... { body }` (brace matched)"""
    m = re.search(r"\bfn\s+" + re.escape(name) + r"\s*(<[^>]*>)?\s*\(", src)
    if not m:
        raise Miss(f"fn {name} not found")
    i = src.index("{", m.end())
    depth, j = 0, i
    while j < len(src):
        c = src[j]
        if c == "{":
            depth += 1
        elif c == "}":
            depth -= 1
            if depth == 0:
                return src[i + 1 : j]
        j += 1
    raise Miss(f"fn {name}: unbalanced braces")


def rust_int(tok):
    tok = tok.strip().replace("_", "")
    tok = re.sub(r"(u8|u16|u32|u64|usize|i8|i16|i32|i64|isize)$", "", tok)
    m = re.fullmatch(r"b'(\\?.)'", tok)
    if m:
        ch = m.group(1)
        esc = {"\\n": 10, "\\r": 13, "\\t": 9, "\\0": 0, "\\\\": 92, "\\'": 39}
        return esc[ch] if ch in esc else ord(ch)
    if tok.startswith("0x") or tok.startswith("0X"):
        return int(tok, 16)
    if tok.startswith("-"):
        return -rust_int(tok[1:])
    if re.fullmatch(r"\d+", tok):
        return int(tok)
    raise Miss(f"not an integer literal: {tok!r}")


def const_int(src, name):
    m = re.search(r"\bconst\s+" + re.escape(name) + r"\s*:\s*[A-Za-z0-9_]+\s*=\s*([^;]+);", src)
    if not m:
        raise Miss(f"const {name} not found")
    return rust_int(m.group(1))


def match_arms(body):
    """parse `a => b,` arms with integer patterns (a | b allowed) and a `_` default.
    returns (dict pattern->value, default)"""
    arms, default = {}, None
    for m in re.finditer(r"([0-9_xXa-fA-F| ]+|_)\s*=>\s*(-?[0-9_xXa-fA-F]+)\s*,?", body):
        pat, val = m.group(1).strip(), m.group(2)
        if pat == "_":
            default = rust_int(val)
        else:
            for p in pat.split("|"):
                arms[rust_int(p)] = rust_int(val)
    if not arms:
        raise Miss("no match arms")
    return arms, default


def coq_match_N(name, arms, default, comment=""):
    """Definition name (x : N) : N := match x with ... end"""
    lines = [f"Definition {name} (x : N) : N :=", "  match x with"]
    for k in sorted(arms):
        lines.append(f"  | {k} => {arms[k]}")
    if default is None:
        raise Miss(f"{name}: no default arm")
    lines.append(f"  | _ => {default}")
    lines.append("  end.")
    return "\n".join(lines)


def defN(name, v):
    return f"Definition {name} : N := {v}."


def defZ(name, v):
    return f"Definition {name} : Z := ({v})%Z."


def defListN(name, vs):
    return f"Definition {name} : list N := [{'; '.join(str(v) for v in vs)}]."


# ------------------------------------------------------------------ items
ITEMS = []  # (name, function(repo) -> coq text)


def item(name):
    def deco(f):
        ITEMS.append((name, f))
        return f
    return deco


# The items themselves live in translator/items_<area>.py (one file per model area); each area is
# written to its own coq/gen/Consts_<area>.v so that a changed constant only rebuilds the proofs
# that depend on it, and adding a model does not mean editing this file.
def load_items(only=None):
    import importlib.util
    areas = {}
    for fn in sorted(os.listdir(HERE)):
        if fn.startswith("items_") and fn.endswith(".py"):
            area = fn[len("items_"):-3]
            if only and area not in only:
                continue
            del ITEMS[:]
            spec = importlib.util.spec_from_file_location(fn[:-3], os.path.join(HERE, fn))
            mod = importlib.util.module_from_spec(spec)
            mod.__dict__.update(
                dict(item=item, rd=rd, strip_comments=strip_comments, fn_body=fn_body, rust_int=rust_int,
                     const_int=const_int, match_arms=match_arms, coq_match_N=coq_match_N, defN=defN,
                     defZ=defZ, defListN=defListN, Miss=Miss, re=re))
            spec.loader.exec_module(mod)
            areas[area] = list(ITEMS)
    return areas


def main():
    ap = argparse.ArgumentParser()
    ap.add_argument("--repo", default=os.environ.get("VERIF_REPO", "/repo"))
    ap.add_argument("--outdir", default=os.path.join(VERIF, "coq/gen"))
    ap.add_argument("--update-defaults", action="store_true")
    ap.add_argument("--area", action="append")
    a = ap.parse_args()
    areas = load_items(a.area)
    dpath = os.path.join(HERE, "defaults.json")
    defaults = json.load(open(dpath)) if os.path.exists(dpath) else {}
    os.makedirs(a.outdir, exist_ok=True)
    report = {}
    for area, items in areas.items():
        out, misses, changed = [], [], []
        area_failed = None
        for name, f in items:
            key = f"{area}.{name}"
            try:
                txt = f(a.repo)
            except Miss as e:
                if key not in defaults:
                    # no committed default (an item still under construction): this area alone fails,
                    # its Consts file is left as it was, and the property check reports it
                    print(f"translator: item {key} missing and no default: {e}", file=sys.stderr)
                    area_failed = f"{key}: {e}"
                    break
                misses.append({"item": key, "why": str(e)})
                txt = defaults[key]
            if defaults.get(key) != txt:
                changed.append(key)
            if a.update_defaults:
                defaults[key] = txt
            out.append(f"(* item: {name} *)\n{txt}\n")
        if area_failed:
            report[area] = {"items": len(items), "translator_miss": misses, "failed": area_failed,
                            "differs_from_committed_default": changed, "rewrote": False}
            continue
        text = ("(* GENERATED by translator/gen_consts.py from the /repo working tree - do not edit *)\n"
                "From Coq Require Import List NArith ZArith.\nImport ListNotations.\nOpen Scope N_scope.\n\n"
                + "\n".join(out))
        path = os.path.join(a.outdir, f"Consts_{area}.v")
        old = open(path).read() if os.path.exists(path) else None
        if old != text:
            with open(path, "w") as f:
                f.write(text)
        report[area] = {"items": len(items), "translator_miss": misses,
                        "differs_from_committed_default": changed, "rewrote": old != text}
    if a.update_defaults:
        with open(dpath, "w") as f:
            json.dump(defaults, f, indent=1, sort_keys=True)
    rpath = os.path.join(a.outdir, "translator_report.json")
    prev = json.load(open(rpath)) if (a.area and os.path.exists(rpath)) else {}
    prev.update(report)
    with open(rpath, "w") as f:
        json.dump(prev, f, indent=1)
    print(json.dumps(report))


if __name__ == "__main__":
    main()
