# Group store (writer: agc_compressor.rs) and segment addressing (reader: decompressor.rs).
# Writer-side constants are W_*, reader-side R_*; CONTIG_SEPARATOR is shared (ragc-common types.rs).
# Every literal site is read separately so that a change applied to one copy only is visible in
# ConstsOk-style lemmas (props/C02.v) and breaks the proofs that need the copies to agree.

AGC = "ragc-core/src/agc_compressor.rs"
DEC = "ragc-core/src/decompressor.rs"


def _top_const(src, name):
    # module-level const only (column 0): finalize() has a local `const PACK_CARDINALITY` for sample batches
    m = re.search(r"^const\s+" + re.escape(name) + r"\s*:\s*[A-Za-z0-9_]+\s*=\s*([^;]+);", src, flags=re.M)
    if not m:
        raise Miss(f"module-level const {name} not found")
    return rust_int(m.group(1))


def _agc(repo):
    return strip_comments(rd(repo, AGC))


def _dec(repo):
    return strip_comments(rd(repo, DEC))


@item("W_PACK_CARDINALITY")
def _(repo):
    return defN("W_PACK_CARDINALITY", _top_const(_agc(repo), "PACK_CARDINALITY"))


@item("W_NO_RAW_GROUPS")
def _(repo):
    return defN("W_NO_RAW_GROUPS", _top_const(_agc(repo), "NO_RAW_GROUPS"))


@item("CONTIG_SEPARATOR")
def _(repo):
    src = strip_comments(rd(repo, "ragc-common/src/types.rs"))
    return defN("CONTIG_SEPARATOR", const_int(src, "CONTIG_SEPARATOR"))


def _placeholder_in(body, what):
    # `packed_data.push(0x7f); packed_data.push(CONTIG_SEPARATOR);` : placeholder entry followed by the separator
    ms = re.findall(r"packed_data\.push\(\s*([0-9a-fA-Fx_u]+)\s*\)\s*;\s*packed_data\.push\(\s*CONTIG_SEPARATOR\s*\)", body)
    if len(ms) != 1:
        raise Miss(f"{what}: expected exactly one placeholder push, found {len(ms)}")
    return rust_int(ms[0])


@item("W_PLACEHOLDER_STEP")
def _(repo):
    return defN("W_PLACEHOLDER_STEP", _placeholder_in(fn_body(_agc(repo), "flush_pack_compress_only"), "flush_pack_compress_only"))


@item("W_PLACEHOLDER_FLUSH_PACK")
def _(repo):
    return defN("W_PLACEHOLDER_FLUSH_PACK", _placeholder_in(fn_body(_agc(repo), "flush_pack"), "flush_pack"))


@item("W_PLACEHOLDER_FINALIZE")
def _(repo):
    return defN("W_PLACEHOLDER_FINALIZE", _placeholder_in(fn_body(_agc(repo), "finalize"), "finalize"))


def _threshold(body, what):
    m = re.search(r"let\s+flush_threshold\s*=\s*if\s*!use_lz_encoding\s*&&\s*!buffer\.raw_placeholder_written\s*\{\s*"
                  r"PACK_CARDINALITY\s*-\s*([0-9_]+)\s*\}\s*else\s*\{\s*PACK_CARDINALITY\s*\}", body)
    if not m:
        raise Miss(f"{what}: flush_threshold shape not found")
    return rust_int(m.group(1))


@item("W_FIRST_RAW_PACK_MINUS")
def _(repo):
    # first pack of a raw group is flushed at PACK_CARDINALITY - this (the placeholder takes slot 0)
    return defN("W_FIRST_RAW_PACK_MINUS", _threshold(fn_body(_agc(repo), "flush_pack_compress_only"), "flush_pack_compress_only"))


@item("W_FIRST_RAW_PACK_MINUS_FLUSH_PACK")
def _(repo):
    return defN("W_FIRST_RAW_PACK_MINUS_FLUSH_PACK", _threshold(fn_body(_agc(repo), "flush_pack"), "flush_pack"))


@item("W_FIRST_ID")
def _(repo):
    body = fn_body(_agc(repo), "flush_pack_compress_only")
    m = re.search(r"buffer\.segments_written\s*=\s*buffer\.segments_written\.max\(\s*([0-9_]+)\s*\)", body)
    if not m:
        raise Miss("segments_written.max(..) not found")
    return defN("W_FIRST_ID", rust_int(m.group(1)))


def _pack_marker(body, what):
    # compress_segment_configured(&packed_data, ..) ... compressed.push(<marker>)
    m = re.search(r"compress_segment_configured\s*\(\s*&packed_data.*?compressed\.push\(\s*([0-9a-fA-Fx_u]+)\s*\)", body, flags=re.S)
    if not m:
        raise Miss(f"{what}: pack marker push not found")
    return rust_int(m.group(1))


@item("W_PACK_MARKER_STEP")
def _(repo):
    return defN("W_PACK_MARKER_STEP", _pack_marker(fn_body(_agc(repo), "flush_pack_compress_only"), "flush_pack_compress_only"))


@item("W_PACK_MARKER_FINALIZE")
def _(repo):
    return defN("W_PACK_MARKER_FINALIZE", _pack_marker(fn_body(_agc(repo), "finalize"), "finalize"))


@item("R_PACK_CARDINALITY")
def _(repo):
    return defN("R_PACK_CARDINALITY", const_int(fn_body(_dec(repo), "get_segment"), "PACK_CARDINALITY"))


@item("R_NO_RAW_GROUPS")
def _(repo):
    return defN("R_NO_RAW_GROUPS", const_int(fn_body(_dec(repo), "get_segment"), "NO_RAW_GROUPS"))


@item("R_DELTA_ID_OFFSET")
def _(repo):
    body = fn_body(_dec(repo), "get_segment")
    m = re.search(r"let\s+delta_position\s*=\s*\(\s*desc\.in_group_id\s*-\s*([0-9_]+)\s*\)\s*as\s+usize", body)
    if not m:
        raise Miss("delta_position = (in_group_id - ..) not found")
    return defN("R_DELTA_ID_OFFSET", rust_int(m.group(1)))


@item("R_REF_PART")
def _(repo):
    body = fn_body(_dec(repo), "get_segment")
    m = re.search(r"get_part_by_id\(\s*ref_stream_id\s*,\s*([0-9_]+)\s*\)", body)
    if not m:
        raise Miss("get_part_by_id(ref_stream_id, ..) not found")
    return defN("R_REF_PART", rust_int(m.group(1)))


@item("R_IS_PACKED")
def _(repo):
    # let is_packed = decompressed_ref.len() * 4 >= expected_ref_len && decompressed_ref.len() * 4 < expected_ref_len + 8;
    body = fn_body(_dec(repo), "get_segment")
    # (since 709bfda the conjunction starts with `ref_metadata != 0 &&`; the model has that conjunct hard-wired,
    #  so a tree without it is a translator miss, not a silent match)
    m = re.search(r"let\s+is_packed\s*=\s*ref_metadata\s*!=\s*0\s*&&\s*decompressed_ref\.len\(\)\s*\*\s*([0-9_]+)\s*>=\s*expected_ref_len\s*&&\s*"
                  r"decompressed_ref\.len\(\)\s*\*\s*([0-9_]+)\s*<\s*expected_ref_len\s*\+\s*([0-9_]+)\s*;", body)
    if not m:
        raise Miss("is_packed shape not found")
    a, b, c = (rust_int(x) for x in m.groups())
    return (defN("R_PACKED_MUL_LO", a) + "\n" + defN("R_PACKED_MUL_HI", b) + "\n" + defN("R_PACKED_SLACK", c))
