# C14O - second stage of opening an archive (Decompressor::open after Archive::open): the control-flow facts and the
# arithmetic form that coq/model/OpenStage.v transcribes and that no other area reads.  The params layout, the stream
# names and the part-count test are items of the `agcv3` area already (R_PARAMS_*, R_NAME_PARAMS, R_NAME_COLL_*); the
# CollectionVarInt thresholds / masks are items of `collection`.  Everything here is pinned by props/C14O.v
# (open2_code_shape): a refactoring that changes one of these facts breaks that theorem, not the correspondence only.

DEC = "ragc-core/src/decompressor.rs"
COLL = "ragc-common/src/collection.rs"
ARCH = "ragc-common/src/archive.rs"


def _src(repo, rel):
    return strip_comments(rd(repo, rel))


def defBool(name, v):
    return f"Definition {name} : bool := {'true' if v else 'false'}."


@item("OPEN_STEP_ORDER")
def _(repo):
    # Decompressor::open: archive.open(..)?; load_params(&mut archive)?; prepare_for_decompression(&archive)?;
    # load_batch_sample_names(&mut archive)?  - step ids 0 = Archive::open, 1 = load_params, 2 = prepare, 3 = sample names
    body = fn_body(_src(repo, DEC), "open")
    pats = [r"archive\s*\.open\(\s*archive_path\s*\)\s*\.context\([^)]*\)\s*\?",
            r"Self::load_params\(\s*&mut\s+archive\s*\)\s*\?",
            r"collection\.prepare_for_decompression\(\s*&archive\s*\)\s*\?",
            r"collection\.load_batch_sample_names\(\s*&mut\s+archive\s*\)\s*\?"]
    pos = []
    for i, p in enumerate(pats):
        ms = list(re.finditer(p, body))
        if len(ms) != 1:
            raise Miss(f"Decompressor::open: step {i} found {len(ms)} times")
        pos.append((ms[0].start(), i))
    return defListN("OPEN_STEP_ORDER", [i for _, i in sorted(pos)])


@item("R_PARAMS_PART_ID")
def _(repo):
    body = fn_body(_src(repo, DEC), "load_params")
    m = re.search(r"archive\.get_part_by_id\(\s*stream_id\s*,\s*(\d+)\s*\)\s*\?", body)
    if not m:
        raise Miss("load_params: get_part_by_id(stream_id, <literal>)? not found")
    return defN("R_PARAMS_PART_ID", int(m.group(1)))


@item("R_PARAMS_FIELD_BYTES")
def _(repo):
    # every field is u32::from_le_bytes([data[i], data[i+1], data[i+2], data[i+3]])
    body = fn_body(_src(repo, DEC), "load_params")
    four = r"u32::from_le_bytes\(\[\s*data\[\d+\]\s*,\s*data\[\d+\]\s*,\s*data\[\d+\]\s*,\s*data\[\d+\]\s*\]\)"
    if len(re.findall(four, body)) != 4 or len(re.findall(r"from_le_bytes", body)) != 4:
        raise Miss("load_params: expected four 4-byte u32::from_le_bytes fields")
    return defN("R_PARAMS_FIELD_BYTES", 4)


@item("R_PREP_CHECK_ORDER")
def _(repo):
    # prepare_for_decompression: three get_stream_id lookups, then `if self.collection_<x>_id.is_none() { bail }` in
    # this order (0 = samples, 1 = contigs, 2 = details)
    body = fn_body(_src(repo, COLL), "prepare_for_decompression")
    ids = {"samples": 0, "contigs": 1, "details": 2}
    order = [ids[x] for x in re.findall(r"if\s+self\.collection_(samples|contigs|details)_id\.is_none\(\)\s*\{\s*anyhow::bail!", body)]
    if sorted(order) != [0, 1, 2]:
        raise Miss(f"prepare_for_decompression: checks {order}")
    for x in ids:
        if not re.search(r"self\.collection_" + x + r'_id\s*=\s*archive\.get_stream_id\(\s*"collection-' + x + r'"\s*\)\s*;', body):
            raise Miss(f"prepare_for_decompression: lookup of collection-{x}")
    return defListN("R_PREP_CHECK_ORDER", order)


@item("R_SAMPLES_LOAD_SHAPE")
def _(repo):
    # load_batch_sample_names: sequential get_part(stream_id)? .context(..)? (None = no part left), zstd::decode_all,
    # `v_data.len() != raw_size as usize` => bail, deserialize_sample_names(&v_data)?
    body = fn_body(_src(repo, COLL), "load_batch_sample_names")
    seq = bool(re.search(r"archive\s*\.get_part\(\s*stream_id\s*\)\s*\?\s*\.context\(", body))
    zs = bool(re.search(r"zstd::decode_all\(\s*&v_tmp\[\.\.\]\s*\)\s*\.context\([^)]*\)\s*\?", body))
    chk = bool(re.search(r"if\s+v_data\.len\(\)\s*!=\s*raw_size\s+as\s+usize\s*\{\s*anyhow::bail!", body))
    des = bool(re.search(r"self\.deserialize_sample_names\(\s*&v_data\s*\)\s*\?", body))
    p = [body.find("get_part("), body.find("zstd::decode_all"), body.find("v_data.len()"), body.find("deserialize_sample_names")]
    if not (seq and zs and chk and des) or p != sorted(p) or -1 in p:
        raise Miss(f"load_batch_sample_names shape: {seq} {zs} {chk} {des} {p}")
    return (defBool("R_SAMPLES_SEQUENTIAL", True) + "\n" + defBool("R_SAMPLES_SIZE_CHECK", True))


@item("R_SAMPLES_TABLE_SHAPE")
def _(repo):
    # deserialize_sample_names: no_samples = CollectionVarInt::decode(&mut ptr)?; for i in 0..no_samples {
    #   name = CollectionVarInt::decode_string(&mut ptr)?; insert(name.clone(), i); push } - no pre-allocation from
    # the count (no with_capacity / reserve / resize)
    body = fn_body(_src(repo, COLL), "deserialize_sample_names")
    ok = (re.search(r"let\s+no_samples\s*=\s*CollectionVarInt::decode\(\s*&mut\s+ptr\s*\)\s*\?", body)
          and re.search(r"for\s+i\s+in\s+0\.\.no_samples\s*\{\s*let\s+name\s*=\s*CollectionVarInt::decode_string\(\s*&mut\s+ptr\s*\)\s*\?", body))
    if not ok:
        raise Miss("deserialize_sample_names: loop shape")
    prealloc = bool(re.search(r"with_capacity|\.reserve\(|\.resize\(", body))
    return defBool("R_SAMPLES_PREALLOC_FROM_COUNT", prealloc)


@item("CV5_ADD_FORM")
def _(repo):
    # CollectionVarInt::decode, 5-byte form: how THR_4 is added to the 32-bit value read from bytes 1..4
    #   0 = `num += Self::THR_4;`            plain u32 addition: traps in the dev profile, wraps in release
    #   1 = wrapping_add                      wraps in both profiles
    #   2 = checked_add + error              an error value in both profiles
    body = fn_body(_src(repo, COLL), "decode")
    i = body.rfind("else")
    tail = body[i:]
    if "ptr[4]" not in tail:
        raise Miss("CollectionVarInt::decode: 5-byte branch not found")
    if re.search(r"num\s*\+=\s*Self::THR_4\s*;", tail):
        form = 0
    elif re.search(r"wrapping_add\(\s*Self::THR_4\s*\)", tail):
        form = 1
    elif re.search(r"checked_add\(\s*Self::THR_4\s*\)", tail):
        form = 2
    else:
        raise Miss("CollectionVarInt::decode: THR_4 addition not recognised")
    # the four data bytes are accumulated with `<<= 8` / `+=` on a u32 (no overflow possible: low byte is zero)
    if len(re.findall(r"num\s*<<=\s*8\s*;", tail)) != 3:
        raise Miss("CollectionVarInt::decode: 5-byte accumulation shape")
    return defN("CV5_ADD_FORM", form)


@item("R_STRING_SHAPE")
def _(repo):
    # decode_string: position of the first 0 (.context => error when absent), String::from_utf8(ptr[..end].to_vec())
    # (.context => error when invalid), *ptr = &ptr[end + 1..]
    body = fn_body(_src(repo, COLL), "decode_string")
    ok = (re.search(r"\.position\(\s*\|&b\|\s*b\s*==\s*0\s*\)\s*\.context\(", body)
          and re.search(r"String::from_utf8\(\s*ptr\[\.\.end\]\.to_vec\(\)\s*\)\s*\.context\(", body)
          and re.search(r"\*ptr\s*=\s*&ptr\[end\s*\+\s*1\.\.\]\s*;", body))
    if not ok:
        raise Miss("decode_string shape")
    return defBool("R_STRING_UTF8_STRICT", True) + "\n" + defN("R_STRING_TERMINATOR", 0)


@item("R_PART_READ_SHAPE")
def _(repo):
    # get_part_by_id: `.map(|opt| opt.expect("Part should exist"))` on read_part_data, which only returns Ok(Some(..))
    # or Err - the expect cannot fire; read_part_data: size 0 => (empty, 0) without touching the file
    src = _src(repo, ARCH)
    body = fn_body(src, "read_part_data")
    nones = len(re.findall(r"Ok\(\s*None\s*\)", body))
    empty = bool(re.search(r"if\s+part\.size\s*==\s*0\s*\{\s*return\s+Ok\(Some\(\(Vec::new\(\),\s*0\)\)\)\s*;", body))
    if not empty:
        raise Miss("read_part_data: empty-part shortcut")
    return defBool("R_READ_PART_CAN_RETURN_NONE", nones > 0)
