# C09: lz_diff.rs constants and hash.rs MurMur64 constants  -> coq/gen/Consts_lz.v
LZ = "ragc-core/src/lz_diff.rs"
HS = "ragc-common/src/hash.rs"


def _src(repo):
    return strip_comments(rd(repo, LZ))


def _one(pat, src, what, flags=0):
    m = re.search(pat, src, flags)
    if not m:
        raise Miss(what + " not found")
    return m


def _byte(tok):
    return rust_int(tok.strip())


@item("n_code")
def _(repo):
    return defN("n_code", const_int(_src(repo), "N_CODE"))


@item("n_run_starter_code")
def _(repo):
    return defN("n_run_starter_code", const_int(_src(repo), "N_RUN_STARTER_CODE"))


@item("min_nrun_len")
def _(repo):
    return defN("min_nrun_len", const_int(_src(repo), "MIN_NRUN_LEN"))


@item("max_no_tries")
def _(repo):
    return defN("max_no_tries", const_int(_src(repo), "MAX_NO_TRIES"))


@item("hashing_step")
def _(repo):
    return defN("hashing_step", const_int(_src(repo), "HASHING_STEP"))


# new: key_len = min_match_len - (HASHING_STEP as u32) + 1 ; key_mask: `if key_len >= 32 { !0 } else { (1 << (2*key_len)) - 1 }`
@item("key_len_derivation")
def _(repo):
    body = fn_body(_src(repo), "new")
    m = _one(r"let\s+key_len\s*=\s*min_match_len\s*-\s*\(\s*HASHING_STEP\s+as\s+u32\s*\)\s*\+\s*(\w+)\s*;", body,
             "key_len = min_match_len - HASHING_STEP + c")
    m2 = _one(r"key_len\s*>=\s*(\w+)\s*\{\s*!\s*0u64\s*\}\s*else\s*\{\s*\(\s*1u64\s*<<\s*\(\s*(\w+)\s*\*\s*key_len\s*\)\s*\)\s*-\s*1",
              body, "key_mask expression")
    return "\n".join([defN("key_len_add", rust_int(m.group(1))), defN("key_mask_full_from", rust_int(m2.group(1))),
                      defN("key_bits_per_sym", rust_int(m2.group(2)))])


# prepare: self.reference.resize(len + key_len, PAD)
@item("pad_byte")
def _(repo):
    body = fn_body(_src(repo), "prepare")
    m = _one(r"\.resize\s*\(\s*self\.reference\.len\s*\(\s*\)\s*\+\s*self\.key_len\s+as\s+usize\s*,\s*(\w+)\s*\)", body,
             "reference.resize(len + key_len, PAD)")
    return defN("pad_byte", rust_int(m.group(1)))


# get_code / get_code_skip1: `seq[..] > 3` ; build_index_lp: `c < 4`
@item("invalid_symbol")
def _(repo):
    s = _src(repo)
    a = _one(r"if\s+seq\s*\[\s*i\s*\]\s*>\s*(\w+)\s*\{\s*return\s+None", fn_body(s, "get_code"), "get_code: seq[i] > T")
    b = _one(r"if\s+seq\s*\[\s*last_base_idx\s*\]\s*>\s*(\w+)\s*\{\s*return\s+None", fn_body(s, "get_code_skip1"),
             "get_code_skip1: seq[last] > T")
    c = _one(r"if\s+c\s*<\s*(\w+)\s*\{\s*no_prev_valid\s*\+=\s*1", fn_body(s, "build_index_lp"), "build_index_lp: c < T")
    sh = _one(r"code\s*=\s*\(\s*code\s*<<\s*(\w+)\s*\)\s*\|", fn_body(s, "get_code"), "get_code shift")
    return "\n".join([defN("max_valid_sym", rust_int(a.group(1))), defN("max_valid_sym_skip1", rust_int(b.group(1))),
                      defN("index_valid_below", rust_int(c.group(1))), defN("code_shift", rust_int(sh.group(1)))])


# build_index_lp: (ht_size as f64 / 0.7) as u64 ; minimum table size 8
@item("load_factor")
def _(repo):
    from fractions import Fraction
    body = fn_body(_src(repo), "build_index_lp")
    m = _one(r"\(\s*ht_size\s+as\s+f64\s*/\s*([0-9.]+)\s*\)\s*as\s+u64", body, "ht_size as f64 / LF")
    fr = Fraction(m.group(1))
    m2 = _one(r"if\s+ht_size\s*<\s*(\w+)\s*\{\s*ht_size\s*=\s*(\w+)\s*;", body, "minimum table size")
    if rust_int(m2.group(1)) != rust_int(m2.group(2)):
        raise Miss("minimum table size: test and value differ")
    e = _one(r"self\.ht_lp\.resize\s*\(\s*ht_size\s+as\s+usize\s*,\s*u32::MAX\s*\)", body, "empty slot = u32::MAX")
    return "\n".join([defN("load_num", fr.numerator), defN("load_den", fr.denominator),
                      defN("min_ht_size", rust_int(m2.group(1))), defN("empty_slot", 2 ** 32 - 1)])


# is_literal: (b'A'..=b'A' + 30).contains(&c) || c == b'!'   ; encode_literal: b'A' + base ; decode_literal: c - b'A'
@item("literal_range")
def _(repo):
    s = _src(repo)
    m = _one(r"\(\s*(b'.')\s*\.\.=\s*(b'.')\s*\+\s*(\w+)\s*\)\s*\.contains\s*\(\s*&c\s*\)\s*\|\|\s*c\s*==\s*(b'.')",
             fn_body(s, "is_literal"), "is_literal range")
    lo, lo2, span, bang = _byte(m.group(1)), _byte(m.group(2)), rust_int(m.group(3)), _byte(m.group(4))
    e = _one(r"encoded\.push\s*\(\s*(b'.')\s*\+\s*base\s*\)", fn_body(s, "encode_literal"), "encode_literal base")
    d = _one(r"if\s+c\s*==\s*(b'.')\s*\{\s*(b'.')\s*\}\s*else\s*\{\s*c\s*-\s*(b'.')\s*\}", fn_body(s, "decode_literal"),
             "decode_literal")
    if len({lo, lo2, _byte(e.group(1)), _byte(d.group(3))}) != 1:
        raise Miss("literal base byte differs between is_literal / encode_literal / decode_literal")
    if len({bang, _byte(d.group(1)), _byte(d.group(2))}) != 1:
        raise Miss("bang byte differs between is_literal / decode_literal")
    return "\n".join([defN("lit_base", lo), defN("lit_span", span), defN("bang_byte", bang)])


# encode: bang rewriting scan stops at `c < b'A' || c > b'Z'`, rewrites to b'!' when `c - b'A'` equals the reference
@item("bang_scan_range")
def _(repo):
    body = fn_body(_src(repo), "encode")
    m = _one(r"if\s+c\s*<\s*(b'.')\s*\|\|\s*c\s*>\s*(b'.')\s*\{\s*break", body, "bang scan stop range")
    m2 = _one(r"let\s+base\s*=\s*c\s*-\s*(b'.')\s*;", body, "bang scan base")
    m3 = _one(r"encoded\s*\[\s*enc_idx\s*\]\s*=\s*(b'.')\s*;", body, "bang scan replacement byte")
    return "\n".join([defN("scan_lo", _byte(m.group(1))), defN("scan_hi", _byte(m.group(2))),
                      defN("scan_base", _byte(m2.group(1))), defN("scan_bang", _byte(m3.group(1)))])


# append_int / read_int / encode_match / decode_match punctuation
@item("punctuation")
def _(repo):
    s = _src(repo)
    ai = fn_body(s, "append_int")
    z = _one(r"text\.push\s*\(\s*(b'.')\s*\+\s*\(\s*x\s*%\s*(\w+)\s*\)\s*as\s+u8\s*\)", ai, "append_int digit push")
    mi = _one(r"if\s+x\s*<\s*0\s*\{\s*text\.push\s*\(\s*(b'.')\s*\)", ai, "append_int minus")
    em = fn_body(s, "encode_match")
    co = _one(r"encoded\.push\s*\(\s*(b'.')\s*\)\s*;\s*self\.append_int\s*\(\s*encoded\s*,\s*\(\s*match_len", em,
              "encode_match comma")
    pe = _one(r"encoded\.push\s*\(\s*(b'.')\s*\)\s*;\s*$", em.strip(), "encode_match period")
    ri = fn_body(s, "read_int")
    rm = _one(r"data\s*\[\s*i\s*\]\s*==\s*(b'.')\s*\{\s*is_neg\s*=\s*true", ri, "read_int minus")
    rd_ = _one(r"data\s*\[\s*i\s*\]\s*>=\s*(b'.')\s*&&\s*data\s*\[\s*i\s*\]\s*<=\s*(b'.')", ri, "read_int digit range")
    rb = _one(r"x\s*=\s*x\s*\*\s*(\w+)\s*\+\s*\(\s*\(\s*data\s*\[\s*i\s*\]\s*-\s*(b'.')\s*\)", ri, "read_int accumulate")
    dm = fn_body(s, "decode_match")
    dp = _one(r"data\s*\[\s*i\s*\]\s*==\s*(b'.')\s*\{\s*i\s*\+=\s*1\s*;\s*u32::MAX", dm, "decode_match period/to-end")
    dc = _one(r"else\s+if\s+data\s*\[\s*i\s*\]\s*==\s*(b'.')", dm, "decode_match comma")
    if _byte(z.group(1)) != _byte(rd_.group(1)) or _byte(z.group(1)) != _byte(rb.group(2)):
        raise Miss("digit base differs between append_int and read_int")
    if rust_int(z.group(2)) != rust_int(rb.group(1)):
        raise Miss("radix differs between append_int and read_int")
    if _byte(mi.group(1)) != _byte(rm.group(1)):
        raise Miss("minus byte differs")
    if _byte(co.group(1)) != _byte(dc.group(1)) or _byte(pe.group(1)) != _byte(dp.group(1)):
        raise Miss("comma/period differ between encode_match and decode_match")
    return "\n".join([defN("digit0", _byte(z.group(1))), defN("digit9", _byte(rd_.group(2))),
                      defN("radix", rust_int(z.group(2))), defN("minus_byte", _byte(mi.group(1))),
                      defN("comma_byte", _byte(co.group(1))), defN("period_byte", _byte(pe.group(1))),
                      defN("to_end_len", 2 ** 32 - 1)])


# hash.rs MurMur64Hash::hash: h ^= h >> 33; h *= C1; h ^= h >> 33; h *= C2; h ^= h >> 33
@item("murmur64")
def _(repo):
    src = strip_comments(rd(repo, HS))
    m = _one(r"impl\s+MurMur64Hash\s*\{(.*?)\n\}", src, "impl MurMur64Hash", re.S)
    body = m.group(1)
    sh = re.findall(r"h\s*\^=\s*h\s*>>\s*(\w+)\s*;", body)
    mu = re.findall(r"h\s*=\s*h\.wrapping_mul\s*\(\s*(\w+)\s*\)\s*;", body)
    if len(sh) != 3 or len(mu) != 2 or len(set(sh)) != 1:
        raise Miss("MurMur64Hash::hash shape changed")
    seq = re.findall(r"(\^=|wrapping_mul)", body)
    if seq != ["^=", "wrapping_mul", "^=", "wrapping_mul", "^="]:
        raise Miss("MurMur64Hash::hash step order changed")
    return "\n".join([defN("murmur_shift", rust_int(sh[0])), defN("murmur_c1", rust_int(mu[0])),
                      defN("murmur_c2", rust_int(mu[1]))])
