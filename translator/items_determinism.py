# agc_compressor.rs / archive.rs: the priority constants of the producer and the shapes of the ordering decisions
# the C04 model (coq/model/Determinism.v) takes as its definitions.  A numeric constant is re-read; an `Ord` impl /
# sort call is matched textually: value 1 = the body has the shape the model transcribes, 0 = the item was found
# but its body changed (props/C04.v pins the value 1, so a change breaks the proof build), Miss = not found at all.
def _src(repo):
    return strip_comments(rd(repo, "ragc-core/src/agc_compressor.rs"))


def _norm(s):
    return re.sub(r"\s+", "", s)


def _impl_body(src, trait, ty):
    m = re.search(r"impl\s+" + trait + r"\s+for\s+" + ty + r"\s*\{", src)
    if not m:
        raise Miss(f"impl {trait} for {ty} not found")
    i = m.end() - 1
    depth, j = 0, i
    while j < len(src):
        if src[j] == "{":
            depth += 1
        elif src[j] == "}":
            depth -= 1
            if depth == 0:
                return src[i + 1:j]
        j += 1
    raise Miss(f"impl {trait} for {ty}: unbalanced braces")


def _i32(tok):
    tok = tok.strip().replace(" ", "")
    if tok in ("i32::MAX", "std::i32::MAX", "i32::max_value()"):
        return 2147483647
    return rust_int(tok)


# next_priority starts at i32::MAX and is decremented for every new sample
@item("det_prio_start")
def _(repo):
    m = re.search(r"let\s+next_priority\s*=\s*Arc::new\(\s*Mutex::new\(\s*([^)]+?)\s*\)\s*\)", _src(repo))
    if not m:
        raise Miss("next_priority initialiser not found")
    return defZ("det_prio_start", _i32(m.group(1)))


def _tok_prio(body, what):
    m = re.search(r"ContigTask\s*\{.*?sample_priority\s*:\s*([^,]+),.*?is_sync_token\s*:\s*(true|false)", body, re.S)
    if not m:
        raise Miss(f"{what}: sync token literal not found")
    if m.group(2) != "true":
        raise Miss(f"{what}: first ContigTask literal is not a sync token")
    return m.group(1).strip()


# sync_and_flush / finalize: priority of the flush tokens, sequence number of the final ones
@item("det_flush_prio")
def _(repo):
    src = _src(repo)
    a = _i32(_tok_prio(fn_body(src, "sync_and_flush"), "sync_and_flush").replace("_i32", ""))
    return defZ("det_flush_prio", a)


@item("det_final_prio")
def _(repo):
    src = _src(repo)
    b = _i32(_tok_prio(fn_body(src, "finalize"), "finalize").replace("_i32", ""))
    return defZ("det_final_prio", b)


@item("det_final_seq")
def _(repo):
    m = re.search(r"let\s+sequence\s*=\s*([0-9_]+)\s*;", fn_body(_src(repo), "finalize"))
    if not m:
        raise Miss("finalize: `let sequence = <literal>` not found")
    return defN("det_final_seq", rust_int(m.group(1)))


# push, pack-boundary branch: which priority the N sync tokens carry.
#   rule 0: the sample's priority BEFORE the decrement (current code);  rule 1: new_priority + offset, in i32
@item("det_tok_rule")
def _(repo):
    body = fn_body(_src(repo), "push")
    m = re.search(r"if\s+need_sync\s*\{(.*?)\}\s*else\s*\{\s*current_priority", body, re.S)
    if not m:
        raise Miss("push: need_sync branch not found")
    p = _norm(_tok_prio(m.group(1), "push/need_sync"))
    if p == "current_priority":
        return defN("det_tok_rule", 0) + "\n" + defZ("det_tok_offset", 0)
    mm = re.fullmatch(r"new_priority\+([0-9_]+)", p)
    if mm:
        return defN("det_tok_rule", 1) + "\n" + defZ("det_tok_offset", rust_int(mm.group(1)))
    raise Miss(f"push/need_sync: unknown token priority expression {p!r}")


# push, pack-boundary branch: is the global next_priority lowered below the decremented sample priority?
@item("det_lower_next")
def _(repo):
    body = fn_body(_src(repo), "push")
    m = re.search(r"if\s+need_sync\s*\{(.*?)\}\s*else\s*\{\s*current_priority", body, re.S)
    if not m:
        raise Miss("push: need_sync branch not found")
    b = _norm(m.group(1))
    # 1 only for the exact statement the model transcribes; anything else (block removed or rewritten) is 0, and
    # singlefile_script_wf, which is proved for current_rule = (tok rule 0, lowering on), stops compiling
    return defN("det_lower_next", 1 if "if*next_p>=new_priority{*next_p=new_priority-1;}" in b else 0)


# the need_sync condition and the two decrements
@item("det_push_shape")
def _(repo):
    b = _norm(fn_body(_src(repo), "push"))
    ok = ("letneed_sync=self.config.concatenated_genomes&&(count+1)%self.config.pack_size==0;" in b
          and "letpriority=*next_p;*next_p-=1;priority" in b
          and "ifletSome(priority)=priorities.get_mut(&sample_name){*priority-=1;}" in b
          and "cost:0," in _norm(_src(repo)) and "letcost=data.len();" in b)   # the token literal may live in a helper
    return defN("det_push_shape", 1 if ok else 0)


# ContigTask: priority, then cost, then REVERSED sequence
@item("det_ord_contigtask")
def _(repo):
    b = _norm(_impl_body(_src(repo), "Ord", "ContigTask"))
    ok = (b.startswith("fncmp(&self,other:&Self)->std::cmp::Ordering{matchself.sample_priority.cmp(&other.sample_priority){")
          and "matchself.cost.cmp(&other.cost){" in b and "other.sequence.cmp(&self.sequence)" in b
          and "self.sequence.cmp(&other.sequence)" not in b and "contig_name" not in b)
    return defN("det_ord_contigtask", 1 if ok else 0)


def _lex3(b, f3):
    return ("matchself.sample_name.cmp(&other.sample_name){" in b and "self.contig_name.cmp(&other.contig_name)" in b
            and f"self.{f3}.cmp(&other.{f3})" in b and "sample_priority" not in b and "data" not in b)


# RawBufferedSegment / BufferedSegment: (sample_name, contig_name, place) ascending, nothing else
@item("det_ord_rawseg")
def _(repo):
    return defN("det_ord_rawseg", 1 if _lex3(_norm(_impl_body(_src(repo), "Ord", "RawBufferedSegment")), "original_place") else 0)


@item("det_ord_bufseg")
def _(repo):
    return defN("det_ord_bufseg", 1 if _lex3(_norm(_impl_body(_src(repo), "Ord", "BufferedSegment")), "seg_part_no") else 0)


# the ordering decisions between classification and the file
@item("det_pipeline_shape")
def _(repo):
    src = _src(repo)
    cl = _norm(fn_body(src, "classify_raw_segments_at_barrier"))
    dr = _norm(fn_body(src, "drain_results_sorted"))
    fl = _norm(fn_body(src, "flush_to_archive"))
    fi = _norm(fn_body(src, "finalize"))
    wt = _norm(fn_body(src, "worker_thread"))
    ar = _norm(strip_comments(rd(repo, "ragc-common/src/archive.rs")))
    ok = ("forbufferinraw_segment_buffers.iter(){letmutworker_segs=buffer.lock().unwrap();raw_segs.append(&mut*worker_segs);}" in cl
          and "raw_segs.sort();" in cl
          and "all_results.sort_by_key(|r|r.group_id);" in dr
          and "for(stream_id,stream_mutex)instreams.iter(){" in fl and "archive.add_part_buffered(*stream_id,data.clone(),*metadata);" in fl
          and "streams:RwLock<BTreeMap<usize,Mutex<Vec<(Vec<u8>,u64)>>>>," in _norm(src)
          and "sorted_packs.sort_by_key(|p|p.stream_id);" in fi and ".flush_buffers()" in fi
          and "raw_segment_buffers[worker_id].lock().unwrap().extend(contig_segments);" in wt
          and "write_buffer:BTreeMap<usize,Vec<(Vec<u8>,u64)>>," in ar
          and "self.write_buffer.entry(stream_id).or_default().push((data,metadata));" in ar
          and "for(stream_id,parts)inbuffer{for(data,metadata)inparts{self.add_part(stream_id,&data,metadata)?;}}" in ar)
    return defN("det_pipeline_shape", 1 if ok else 0)
