# segment.rs: the "no k-mer" sentinel used for the front/back k-mer of a segment
@item("MISSING_KMER")
def _(repo):
    src = strip_comments(rd(repo, "ragc-core/src/segment.rs"))
    m = re.search(r"\bconst\s+MISSING_KMER\s*:\s*u64\s*=\s*([^;]+);", src)
    if not m:
        raise Miss("const MISSING_KMER not found")
    rhs = m.group(1).strip().replace(" ", "")
    if rhs in ("u64::MAX", "std::u64::MAX", "!0", "!0u64", "!0_u64", "u64::max_value()"):
        v = (1 << 64) - 1
    else:
        v = rust_int(rhs)
    return defN("MISSING_KMER", v)
