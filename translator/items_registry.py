# agc_compressor.rs: the group registry (which group id a stored segment goes to).  Registry.v transcribes
# classify_raw_segments_at_barrier / BufferedSegPart::{add_known,ensure_capacity,process_new} /
# prepare_batch_parallel / cleanup_batch_parallel and the initial state built in with_splitters_internal.
# The constant is re-read; the lines the model transcribes are pinned as text (a change flips a boolean that
# Registry_proofs.v needs to be true).
@item("R_NO_RAW_GROUPS")
def _(repo):
    s = strip_comments(rd(repo, "ragc-core/src/agc_compressor.rs"))
    return defN("R_NO_RAW_GROUPS", const_int(s, "NO_RAW_GROUPS"))


def _all(pats, text):
    return all(re.search(p, text, flags=re.S) for p in pats)


@item("registry_init_pinned")
def _(repo):
    s = strip_comments(rd(repo, "ragc-core/src/agc_compressor.rs"))
    body = fn_body(s, "with_splitters_internal")
    pats = [r"group_counter\s*=\s*Arc::new\(AtomicU32::new\(NO_RAW_GROUPS\)\)",
            r"raw_group_counter\s*=\s*Arc::new\(AtomicU32::new\(0\)\)",
            r"initial_map_segments\.insert\(\s*SegmentGroupKey\s*\{\s*kmer_front:\s*MISSING_KMER,\s*kmer_back:\s*MISSING_KMER,\s*\},\s*0,\s*\)",
            r"segment_groups\s*=\s*Arc::new\(Mutex::new\(BTreeMap::new\(\)\)\)",
            r"BufferedSegPart::new\(NO_RAW_GROUPS as usize\)"]
    ok = _all(pats, body)
    # SegmentGroupKey orders lexicographically on (kmer_front, kmer_back): derived Ord, fields in this order
    ok = ok and re.search(r"#\[derive\([^\)]*\bOrd\b[^\)]*\)\]\s*struct\s+SegmentGroupKey\s*\{\s*kmer_front:\s*u64,\s*kmer_back:\s*u64,\s*\}", s) is not None
    return f"Definition registry_init_pinned : bool := {'true' if ok else 'false'}."


@item("registry_classify_pinned")
def _(repo):
    s = strip_comments(rd(repo, "ragc-core/src/agc_compressor.rs"))
    body = fn_body(s, "classify_raw_segments_at_barrier")
    pats = [
        # Case 2 key / orientation rule
        r"if\s+raw_seg\.front_kmer\s*<\s*raw_seg\.back_kmer\s*\{\s*\(raw_seg\.front_kmer,\s*raw_seg\.back_kmer,\s*false\)\s*\}\s*else\s*\{\s*\(raw_seg\.back_kmer,\s*raw_seg\.front_kmer,\s*true\)\s*\}",
        # KNOWN: orphan round robin
        r"if\s+key\.kmer_front\s*==\s*MISSING_KMER\s*&&\s*key\.kmer_back\s*==\s*MISSING_KMER\s*\{\s*raw_group_counter\.fetch_add\(1,\s*std::sync::atomic::Ordering::SeqCst\)\s*%\s*NO_RAW_GROUPS\s*\}\s*else\s*\{\s*group_id\s*\}",
        # split attempt guard and the two target keys
        r"let\s+try_split\s*=\s*!crate::env_cache::disable_barrier_split\(\)\s*&&\s*key_front\s*!=\s*MISSING_KMER\s*&&\s*key_back\s*!=\s*MISSING_KMER\s*&&\s*key_front\s*!=\s*key_back\s*;",
        r"let\s+left_key\s*=\s*if\s+key_front\s*<=\s*middle_kmer\s*\{",
        r"let\s+right_key\s*=\s*if\s+middle_kmer\s*<=\s*key_back\s*\{",
        r"if\s+let\s+\(Some\(left_gid\),\s*Some\(right_gid\)\)\s*=\s*\(left_group_id,\s*right_group_id\)",
        # split flags from the ORIGINAL k-mers
        r"if\s+should_reverse\s*\{\s*let\s+left_rc\s*=\s*middle_kmer\s*>=\s*raw_seg\.back_kmer;\s*let\s+right_rc\s*=\s*raw_seg\.front_kmer\s*>=\s*middle_kmer;\s*\(left_rc,\s*right_rc\)\s*\}\s*else\s*\{\s*let\s+left_rc\s*=\s*raw_seg\.front_kmer\s*>=\s*middle_kmer;\s*let\s+right_rc\s*=\s*middle_kmer\s*>=\s*raw_seg\.back_kmer;\s*\(left_rc,\s*right_rc\)\s*\}",
        r"if\s+should_reverse\s*\{\s*\(output_seg_part_no\s*\+\s*1,\s*output_seg_part_no\)\s*\}\s*else\s*\{\s*\(output_seg_part_no,\s*output_seg_part_no\s*\+\s*1\)\s*\}",
        # immediate registration
        r"if\s+let\s+Some\(&existing_gid\)\s*=\s*seg_map\.get\(&key\)\s*\{\s*existing_gid\s*\}\s*else\s*\{\s*let\s+gid\s*=\s*group_counter\.fetch_add\(1,\s*std::sync::atomic::Ordering::SeqCst\);\s*seg_map\.insert\(key\.clone\(\),\s*gid\);\s*gid\s*\}",
        r"buffered_seg_part\.ensure_capacity\(new_group_id\)",
        r"buffered_seg_part\.process_new\(&mut map_seg,\s*&mut next_gid,\s*&mut ref_seg,\s*&mut term_map\)",
    ]
    ok = _all(pats, body)
    # add_known drops a segment whose group id is beyond the vector; process_new looks the key up first
    bsp = s[s.index("impl BufferedSegPart"):s.index("struct ParallelFlushState")]
    ok = ok and _all([r"fn\s+add_known\(&self,\s*group_id:\s*u32,\s*segment:\s*BufferedSegment\)\s*\{\s*let\s+groups\s*=\s*self\.vl_seg_part\.read\(\)\.unwrap\(\);\s*if\s+\(group_id as usize\)\s*<\s*groups\.len\(\)",
                      r"if\s+!m_kmers\.contains_key\(&key\)\s*&&\s*!map_segments\.contains_key\(",
                      r"if\s+let\s+Some\(&id\)\s*=\s*map_segments\.get\(&key\)\s*\{\s*\(id,\s*false\)\s*\}\s*else\s+if\s+let\s+Some\(&id\)\s*=\s*m_kmers\.get\("], bsp)
    return f"Definition registry_classify_pinned : bool := {'true' if ok else 'false'}."


@item("registry_prepare_pinned")
def _(repo):
    s = strip_comments(rd(repo, "ragc-core/src/agc_compressor.rs"))
    body = fn_body(s, "prepare_batch_parallel")
    pats = [
        r"global_map\s*\.iter\(\)\s*\.map\(\|\(k,\s*&gid\)\|\s*\(gid,\s*k\.clone\(\)\)\)\s*\.collect\(\)",
        r"for\s+group_id\s+in\s+0\.\.num_groups as u32\s*\{\s*while\s+let\s+Some\(seg\)\s*=\s*buffered_seg_part\.get_part\(group_id\)",
        # raw groups: buffer key (group id, MISSING); LZ groups: reverse lookup, else the (MISSING, MISSING) fallback
        r"let\s+key\s*=\s*if\s+group_id\s*<\s*NO_RAW_GROUPS\s*\{\s*SegmentGroupKey\s*\{\s*kmer_front:\s*group_id as u64,\s*kmer_back:\s*MISSING_KMER,\s*\}\s*\}\s*else\s*\{\s*group_id_to_key\.get\(&group_id\)\.cloned\(\)\.unwrap_or_else\(\|\|\s*\{\s*SegmentGroupKey\s*\{\s*kmer_front:\s*MISSING_KMER,\s*kmer_back:\s*MISSING_KMER,\s*\}\s*\}\)\s*\}",
        r"batch_map\.insert\(key\.clone\(\),\s*\*group_id\)",
        r"groups_map\.values\(\)\.map\(\|b\|\s*b\.group_id\)\.collect\(\)",
        r"let\s+stream_id\s*=\s*arch\.register_stream\(&delta_stream_name\);\s*let\s+ref_stream_id\s*=\s*arch\.register_stream\(&ref_stream_name\);",
        r"let\s+buffer\s*=\s*groups_map\.entry\(key\.clone\(\)\)\.or_insert_with\(",
        r"SegmentGroupBuffer::new\(group_id,\s*stream_id,\s*ref_stream_id\)",
        r"buffer\.segments\.push\(seg\)",
    ]
    ok = _all(pats, body)
    cl = fn_body(s, "cleanup_batch_parallel")
    ok = ok and _all([r"for\s+\(key,\s*buffer\)\s+in\s+processed\s*\{\s*groups_map\.insert\(key,\s*buffer\);\s*\}",
                      r"for\s+\(key,\s*group_id\)\s+in\s+batch_map\.iter\(\)\s*\{\s*global_map\.entry\(key\.clone\(\)\)\.or_insert\(\*group_id\);\s*\}",
                      r"batch_local_groups\.lock\(\)\.unwrap\(\)\.clear\(\)"], cl)
    # the step registers a segment under the BUFFER's group id
    fl = fn_body(s, "flush_pack_compress_only")
    ok = ok and re.search(r"group_id:\s*buffer\.group_id", fl) is not None
    return f"Definition registry_prepare_pinned : bool := {'true' if ok else 'false'}."
