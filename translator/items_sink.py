# C15: one boolean per modelled `?` site on the output path of `ragc create`
#   archive.rs  add_part / flush_buffers / close / serialize,  agc_compressor.rs finalize,  main.rs create_archive / main
# true  = the call is still followed by `?` (the error is propagated to the caller)
# false = the function is there but the call is no longer followed by `?` (`.ok()`, `let _ =`, bare `;`, ...)
# A missing *function* is a translator miss (committed default + report); a missing `?` is a value (false):
# coq/proofs/Sink_proofs.v: all_sites_propagate is `reflexivity` on the generated file.
# Also: the BufWriter capacity, and the counts that make "nothing is written before finalize" a fact of the
# source text (no unbuffered add_part / flush_buffers / close call on the create pipeline besides finalize's).

_AR = "ragc-common/src/archive.rs"
_CMP = "ragc-core/src/agc_compressor.rs"
_COLL = "ragc-common/src/collection.rs"
_CLI = "ragc-cli/src/main.rs"


def _fn(repo, rel, name):
    return fn_body(strip_comments(rd(repo, rel)), name)


def _bool(name, v):
    return f"Definition {name} : bool := {'true' if v else 'false'}."


def _site(name, rel, fn, pat):
    @item(name)
    def _(repo, name=name, rel=rel, fn=fn, pat=pat):
        body = _fn(repo, rel, fn)
        return _bool(name, re.search(pat, body, re.S) is not None)


_site("site_add_meta", _AR, "add_part", r"writer\s*\.write_all\(\s*&\w+\s*\)\s*\?\s*;")
_site("site_add_data", _AR, "add_part", r"writer\s*\.write_all\(\s*data\s*\)\s*\?\s*;")
_site("site_fb_add", _AR, "flush_buffers", r"self\s*\.add_part\(\s*stream_id\s*,\s*&data\s*,\s*metadata\s*\)\s*\?\s*;")
_site("site_close_flush", _AR, "close", r"writer\s*\.flush\(\)\s*\?\s*;")
_site("site_close_ser", _AR, "close", r"self\s*\.serialize\(\)\s*\?\s*;")
_site("site_ser_footer", _AR, "serialize", r"writer\s*\.write_all\(\s*&footer\s*\)\s*\?\s*;")
_site("site_ser_len", _AR, "serialize", r"writer\s*\.write_all\(\s*&footer_size\s*\.to_le_bytes\(\)\s*\)\s*\?\s*;")
_site("site_ser_flush", _AR, "serialize", r"writer\s*\.flush\(\)\s*\?\s*;")
_site("site_fin_flush", _CMP, "finalize", r"archive\s*\.flush_buffers\(\)\s*\.context\(\s*\"[^\"]*\"\s*\)\s*\?\s*;")
_site("site_fin_close", _CMP, "finalize", r"archive\s*\.close\(\)\s*\.context\(\s*\"[^\"]*\"\s*\)\s*\?\s*;")
_site("site_cli_finalize", _CLI, "create_archive", r"compressor\s*\.finalize\(\)\s*\?\s*;")


# main: `Commands::Create { .. } => create_archive( .. )?,` and `fn main() -> Result<()>` (an Err returned from
# main is exit status 1: std's Termination for Result)
@item("site_cli_create")
def _(repo):
    src = strip_comments(rd(repo, _CLI))
    body = fn_body(src, "main")
    q = re.search(r"=>\s*create_archive\s*\([^()]*\)\s*\?\s*,", body, re.S) is not None
    r = re.search(r"\bfn\s+main\s*\(\s*\)\s*->\s*(anyhow::)?Result\s*<\s*\(\s*\)\s*>", src) is not None
    return _bool("site_cli_create", q and r)


# BufWriter::with_capacity(4 * 1024 * 1024, ..) in Archive::open
@item("ar_bufwriter_cap")
def _(repo):
    src = strip_comments(rd(repo, _AR))
    ms = re.findall(r"self\s*\.writer\s*=\s*Some\(\s*BufWriter::with_capacity\(\s*([0-9_ *]+?)\s*,", src)
    if len(ms) != 1:
        raise Miss("self.writer = Some(BufWriter::with_capacity(<product of literals>, ..)) not found exactly once")
    m = re.search(r"BufWriter::with_capacity\(\s*([0-9_ *]+?)\s*,", src)
    v = 1
    for f in m.group(1).split("*"):
        v *= rust_int(f)
    return defN("ar_bufwriter_cap", v)


# Drop for Archive ignores the result of close: `let _ = self.close();`
@item("ar_drop_ignores_close")
def _(repo):
    src = strip_comments(rd(repo, _AR))
    m = re.search(r"impl\s+Drop\s+for\s+Archive\s*\{(.*?)\n\}", src, re.S)
    if not m:
        raise Miss("impl Drop for Archive not found")
    return _bool("ar_drop_ignores_close", re.search(r"let\s+_\s*=\s*self\s*\.close\(\)\s*;", m.group(1)) is not None)


def _count(repo, rel, pat):
    return len(re.findall(pat, strip_comments(rd(repo, rel))))


# every part of the create pipeline is buffered in memory: number of *unbuffered* `.add_part(` calls in the
# compressor and in the collection writer (must be 0), number of `.flush_buffers()` and archive `.close()`
# calls in the compressor (1 each: the ones in finalize)
@item("cmp_unbuffered_add_part_calls")
def _(repo):
    return defN("cmp_unbuffered_add_part_calls",
                _count(repo, _CMP, r"\.\s*add_part\s*\(") + _count(repo, _COLL, r"\.\s*add_part\s*\("))


@item("cmp_flush_buffers_calls")
def _(repo):
    return defN("cmp_flush_buffers_calls", _count(repo, _CMP, r"\.\s*flush_buffers\s*\(") + _count(repo, _COLL, r"\.\s*flush_buffers\s*\("))


@item("cmp_archive_close_calls")
def _(repo):
    return defN("cmp_archive_close_calls", _count(repo, _CMP, r"\barchive\s*\.\s*close\s*\(\s*\)") + _count(repo, _CMP, r"\barch\s*\.\s*close\s*\(\s*\)"))


# the create path of the CLI goes through StreamingQueueCompressor only (the legacy batch mode bails out)
@item("cli_create_uses_streaming")
def _(repo):
    body = _fn(repo, _CLI, "create_archive")
    a = re.search(r"StreamingQueueCompressor::with_splitters\(", body) is not None
    b = re.search(r"create_agc_archive|streaming_compressor_queue_legacy|worker::", body) is None
    return _bool("cli_create_uses_streaming", a and b)
