//! impl-run <property> <casefile> : runs the case file of a property against the real ragc code
//! (path dependencies on /repo, rebuilt from its working tree) and prints one canonical result
//! line per case - the same format the extracted Coq model's driver prints.
use std::io::{BufRead, Write};
use std::panic;

mod util;
mod c20;

fn main() {
    let args: Vec<String> = std::env::args().collect();
    if args.len() < 3 {
        eprintln!("usage: impl-run <property> <casefile>");
        std::process::exit(2);
    }
    let prop = args[1].to_lowercase();
    let f: fn(&[&str]) -> String = match prop.as_str() {
        "c20" => c20::run,
        _ => {
            eprintln!("unknown property {}", prop);
            std::process::exit(2);
        }
    };
    // panics are outcomes, not crashes: keep the default hook quiet
    panic::set_hook(Box::new(|_| {}));
    let file = std::fs::File::open(&args[2]).expect("open casefile");
    let out = std::io::stdout();
    let mut out = std::io::BufWriter::new(out.lock());
    for line in std::io::BufReader::new(file).lines() {
        let line = line.unwrap();
        if line.is_empty() || line.starts_with('#') {
            continue;
        }
        let toks: Vec<&str> = line.split_whitespace().collect();
        let r = panic::catch_unwind(|| f(&toks));
        match r {
            Ok(s) => writeln!(out, "{}", s).unwrap(),
            Err(e) => {
                let msg = if let Some(s) = e.downcast_ref::<String>() {
                    s.clone()
                } else if let Some(s) = e.downcast_ref::<&str>() {
                    s.to_string()
                } else {
                    "?".into()
                };
                writeln!(out, "PANIC {}", msg.replace('\n', " ")).unwrap()
            }
        }
    }
}
