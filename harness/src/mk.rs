//! mk.rs - shared by the archive-level harness binaries: create a real archive through the library API
//! exactly the way ragc-cli's `create_archive` drives it (multi-file mode: one FASTA per sample, reference
//! first, drain + sync_and_flush, then the rest, finalize; single-file PanSN mode: one FASTA, sample change
//! detection, drain after the reference sample, sync tokens every pack-cardinality contigs).
//! The FASTA files are prepared by the Python generator (lib/gen_samples.py).
#![allow(dead_code)]
use anyhow::Result;
use ragc_core::contig_iterator::ContigIterator;
use ragc_core::{MultiFileIterator, StreamingQueueCompressor, StreamingQueueConfig};
use std::path::PathBuf;

#[derive(Clone, Debug)]
pub struct Params {
    pub k: usize,
    pub segment_size: usize,
    pub min_match_len: usize,
    pub pack: usize,
    pub threads: usize,
    pub queue_capacity: usize,
    pub fallback_frac: f64,
}

impl Params {
    /// "k,s,m,pack,threads,qcap,fallback"  e.g. "21,500,20,50,4,2147483648,0"
    pub fn parse(s: &str) -> Params {
        let f: Vec<&str> = s.split(',').collect();
        Params {
            k: f[0].parse().unwrap(),
            segment_size: f[1].parse().unwrap(),
            min_match_len: f[2].parse().unwrap(),
            pack: f[3].parse().unwrap(),
            threads: f[4].parse().unwrap(),
            queue_capacity: f[5].parse().unwrap(),
            fallback_frac: f.get(6).map(|x| x.parse().unwrap()).unwrap_or(0.0),
        }
    }
    fn config(&self, concatenated: bool) -> StreamingQueueConfig {
        StreamingQueueConfig {
            k: self.k,
            segment_size: self.segment_size,
            min_match_len: self.min_match_len,
            pack_size: self.pack,
            queue_capacity: self.queue_capacity,
            num_threads: self.threads,
            verbosity: 0,
            adaptive_mode: false,
            fallback_frac: self.fallback_frac,
            concatenated_genomes: concatenated,
            ..StreamingQueueConfig::default()
        }
    }
}

/// inputs.len() >= 2: multi-file mode; == 1: single-file (PanSN) mode. Mirrors ragc-cli/src/main.rs.
pub fn create(out: &str, inputs: &[PathBuf], p: &Params) -> Result<()> {
    if inputs.is_empty() {
        anyhow::bail!("No input files provided");
    }
    let concatenated = inputs.len() == 1;
    let config = p.config(concatenated);
    let splitters = if inputs.len() == 1 {
        ragc_core::determine_splitters_streaming_first_sample(&inputs[0], p.k, p.segment_size)?.0
    } else {
        ragc_core::determine_splitters_streaming(&inputs[0], p.k, p.segment_size)?.0
    };
    let mut compressor = StreamingQueueCompressor::with_splitters(out, config, splitters)?;
    if inputs.len() == 1 {
        let mut it = MultiFileIterator::new(vec![inputs[0].clone()])?;
        let mut current: Option<String> = None;
        let mut seen = std::collections::HashSet::new();
        let mut ref_done = false;
        while let Some((sample, contig, seq)) = it.next_contig()? {
            if seq.is_empty() {
                continue;
            }
            if current.as_ref() != Some(&sample) {
                if seen.contains(&sample) {
                    anyhow::bail!("Single-file PanSN mode requires samples to be sorted by name");
                }
                if !ref_done && current.is_some() {
                    compressor.drain()?;
                    ref_done = true;
                }
                if let Some(prev) = current.take() {
                    seen.insert(prev);
                }
                current = Some(sample.clone());
            }
            compressor.push(sample, contig, seq)?;
        }
    } else {
        let mut it = MultiFileIterator::new(vec![inputs[0].clone()])?;
        while let Some((sample, contig, seq)) = it.next_contig()? {
            if !seq.is_empty() {
                compressor.push(sample, contig, seq)?;
            }
        }
        compressor.drain()?;
        compressor.sync_and_flush("AAA#0_REF")?;
        for f in &inputs[1..] {
            let mut it = MultiFileIterator::new(vec![f.clone()])?;
            while let Some((sample, contig, seq)) = it.next_contig()? {
                if !seq.is_empty() {
                    compressor.push(sample, contig, seq)?;
                }
            }
        }
    }
    compressor.finalize()?;
    Ok(())
}

/// the FASTA files of a case directory, in the order given by its `order.txt` (one file name per line)
pub fn case_inputs(dir: &str) -> Vec<PathBuf> {
    let order = std::fs::read_to_string(format!("{}/order.txt", dir)).expect("order.txt");
    order.lines().filter(|l| !l.is_empty()).map(|l| PathBuf::from(format!("{}/{}", dir, l))).collect()
}
