//! C07 range / length queries vs full extraction, on real archives.
//! case:  q <dir> <params k,s,m,pack,threads,qcap,ff> <exh>:<budget> [ignored tokens: generator recipe]
//!   <dir> is a case directory prepared by lib/gen_samples.py (order.txt + FASTA files); the archive is created
//!   through mk::create (the library calls ragc-cli makes), reopened with the real Decompressor, and for every
//!   sample / contig the line reports what the model needs and what the real queries answer.
//! line:  OK <k> | <contig record> | <contig record> ...
//!   record:  C <sample hex> <contig hex> <L> <full> <raws> <rcs> <segs> <answers>
//!     L        get_contig_length: decimal, E (Err) or P (panic)
//!     full     get_contig: hex, E or P
//!     raws     raw_length of every descriptor, comma separated ("-" = no segment)
//!     rcs      is_rev_comp of every descriptor as a 0/1 string ("-" = none)
//!     segs     get_segment_data_by_desc of every descriptor (as stored, NOT re-oriented), comma separated hex
//!     answers  comma separated  <start hex>:<end hex>:<answer>  with answer = <len>.<hash> | <len>.<hash>.<hex>
//!              | E | P    (hash: util of this file; the bases themselves are printed for every 61st query)
//! queries: all pairs 0..=len+2 x 0..=len+2 when len <= exh (while the archive's budget of exhaustive queries
//! lasts: bounds the size of the line); otherwise every junction (chosen: first / last 4 and
//! 4 in the middle when there are more than 12) +-(k+1) as start, combined with a few ends (next positions,
//! around the next two junctions, len, len+1, usize::MAX, start itself and start-1); always the usize::MAX
//! corners and 200 pseudo-random pairs.
#[path = "../mk.rs"]
mod mk;
#[path = "../runner.rs"]
mod runner;
#[path = "../util.rs"]
mod util;
use ragc_core::{Decompressor, DecompressorConfig};
use std::collections::BTreeSet;
use std::panic::{catch_unwind, AssertUnwindSafe};
use util::*;

/// two 32-bit polynomial hashes of a byte string (bases 16777619 and 31, arithmetic mod 2^32), 16 hex digits
pub fn hash2(b: &[u8]) -> String {
    let mut h1: u32 = 0x811c9dc5;
    let mut h2: u32 = 7;
    for &x in b {
        h1 = h1.wrapping_mul(16777619).wrapping_add(x as u32 + 1);
        h2 = h2.wrapping_mul(31).wrapping_add(x as u32 + 1);
    }
    format!("{:08x}{:08x}", h1, h2)
}

fn queries(len: usize, raws: &[u32], k: usize, exh: usize, budget: &mut usize, seed: u64) -> Vec<(usize, usize)> {
    let mut q: Vec<(usize, usize)> = Vec::new();
    let m = usize::MAX;
    if len <= exh && (len + 3) * (len + 3) <= *budget {
        *budget -= (len + 3) * (len + 3);
        for s in 0..=len + 2 {
            for e in 0..=len + 2 {
                q.push((s, e));
            }
        }
    } else {
        // junctions = ends of the contributions (first segment whole, later ones minus k)
        let mut j: Vec<usize> = Vec::new();
        let mut pos = 0usize;
        for (i, r) in raws.iter().enumerate() {
            pos += if i == 0 { *r as usize } else { (*r as usize).saturating_sub(k) };
            j.push(pos);
        }
        let chosen: Vec<usize> = if j.len() <= 12 {
            (0..j.len()).collect()
        } else {
            let n = j.len();
            let mut c: Vec<usize> = vec![0, 1, 2, 3, n - 4, n - 3, n - 2, n - 1];
            for t in 0..4 {
                c.push(4 + (seed as usize + t * 7919) % (n - 8));
            }
            c.sort();
            c.dedup();
            c
        };
        let mut starts: BTreeSet<usize> = BTreeSet::new();
        for s in [0, 1, len.saturating_sub(1), len, len + 1] {
            starts.insert(s);
        }
        for &ci in &chosen {
            let p = j[ci];
            for d in 0..=k + 1 {
                starts.insert(p.saturating_sub(d));
                starts.insert(p + d);
            }
        }
        for &s in &starts {
            // the next two junctions after s
            let nx: Vec<usize> = j.iter().copied().filter(|&p| p > s).take(3).collect();
            let mut ends: BTreeSet<usize> = BTreeSet::new();
            for e in [s, s.saturating_sub(1), s + 1, s + 2, s + k, s + k + 1, len.saturating_sub(1), len, len + 1, m] {
                ends.insert(e);
            }
            for p in nx {
                for e in [p.saturating_sub(1), p, p + 1, p + k, p + k + 1] {
                    ends.insert(e);
                }
            }
            for e in ends {
                q.push((s, e));
            }
        }
    }
    for (s, e) in [(0, m), (m, m), (m, 0), (m - 1, m), (0, 0), (len, m), (len.saturating_sub(1), m), (len + 1, m), (1, m - 1)] {
        q.push((s, e));
    }
    // pseudo-random pairs (LCG, seeded from the contig)
    let mut x = seed.wrapping_mul(6364136223846793005).wrapping_add(1442695040888963407);
    let mut next = |bound: usize| -> usize {
        x = x.wrapping_mul(6364136223846793005).wrapping_add(1442695040888963407);
        ((x >> 33) as usize) % bound.max(1)
    };
    for _ in 0..200 {
        let s = next(len + 2);
        let e = if next(4) == 0 { next(len + 3) } else { s + next(len + 3 - s.min(len + 2)) };
        q.push((s, e));
    }
    q
}

fn record(d: &mut Decompressor, sample: &str, contig: &str, k: usize, exh: usize, budget: &mut usize, nq: &mut usize) -> String {
    let lres = catch_unwind(AssertUnwindSafe(|| d.get_contig_length(sample, contig)));
    let l_s = match &lres {
        Ok(Ok(n)) => n.to_string(),
        Ok(Err(_)) => "E".into(),
        Err(_) => "P".into(),
    };
    let fres = catch_unwind(AssertUnwindSafe(|| d.get_contig(sample, contig)));
    let (full_s, full_len) = match &fres {
        Ok(Ok(v)) => (hex(v), v.len()),
        Ok(Err(_)) => ("E".to_string(), 0),
        Err(_) => ("P".to_string(), 0),
    };
    let descs = match d.get_contig_segments_desc(sample, contig) {
        Ok(v) => v,
        Err(_) => return format!("C {} {} {} {} E E E -", hex(sample.as_bytes()), hex(contig.as_bytes()), l_s, full_s),
    };
    let raws: Vec<u32> = descs.iter().map(|x| x.raw_length).collect();
    let raws_s = if raws.is_empty() { "-".to_string() } else { raws.iter().map(|x| x.to_string()).collect::<Vec<_>>().join(",") };
    let rcs_s = if descs.is_empty() { "-".to_string() } else { descs.iter().map(|x| b2s(x.is_rev_comp)).collect::<String>() };
    let segs_s = if descs.is_empty() {
        "-".to_string()
    } else {
        descs
            .iter()
            .map(|x| match d.get_segment_data_by_desc(x) {
                Ok(v) => hex(&v),
                Err(_) => "E".to_string(),
            })
            .collect::<Vec<_>>()
            .join(",")
    };
    let seed = hash2(contig.as_bytes()).bytes().fold(full_len as u64, |a, b| a.wrapping_mul(131).wrapping_add(b as u64));
    let qs = queries(full_len, &raws, k, exh, budget, seed);
    let mut ans = String::with_capacity(qs.len() * 32);
    for (s, e) in qs {
        let r = catch_unwind(AssertUnwindSafe(|| d.get_contig_range(sample, contig, s, e)));
        if !ans.is_empty() {
            ans.push(',');
        }
        ans.push_str(&format!("{:x}:{:x}:", s, e));
        match r {
            Ok(Ok(v)) => {
                ans.push_str(&format!("{}.{}", v.len(), hash2(&v)));
                if *nq % 61 == 0 && !v.is_empty() {
                    ans.push('.');
                    ans.push_str(&hex(&v));
                }
            }
            Ok(Err(_)) => ans.push('E'),
            Err(_) => ans.push('P'),
        }
        *nq += 1;
    }
    format!("C {} {} {} {} {} {} {} {}", hex(sample.as_bytes()), hex(contig.as_bytes()), l_s, full_s, raws_s, rcs_s, segs_s, ans)
}

fn query_archive(path: &str, exh: usize, mut budget: usize) -> anyhow::Result<String> {
    let mut d = Decompressor::open(path, DecompressorConfig { verbosity: 0 })?;
    let k = d.kmer_length as usize;
    let mut out = vec![format!("OK {}", k)];
    let mut nq = 0usize;
    for s in d.list_samples() {
        for c in d.list_contigs(&s)? {
            out.push(record(&mut d, &s, &c, k, exh, &mut budget, &mut nq));
        }
    }
    Ok(out.join(" | "))
}

fn run(t: &[&str]) -> String {
    if t.len() >= 4 && t[0] == "q" {
        let (dir, params) = (t[1], t[2]);
        let (exh, budget) = match t[3].split_once(':') {
            Some((a, b)) => (a.parse::<usize>().unwrap(), b.parse::<usize>().unwrap()),
            None => (t[3].parse::<usize>().unwrap(), 200_000),
        };
        let p = mk::Params::parse(params);
        let out = format!("{}/out.agc", dir);
        let _ = std::fs::remove_file(&out);
        let t0 = std::time::Instant::now();
        let created = catch_unwind(|| mk::create(&out, &mk::case_inputs(dir), &p));
        if std::env::var("VERIF_C07_TIMING").is_ok() {
            eprintln!("C07-TIMING create {:?}", t0.elapsed());
        }
        match created {
            Ok(Ok(())) => {}
            Ok(Err(e)) => return format!("CREATE-ERR {}", format!("{:#}", e).replace('\n', " ")),
            Err(e) => return format!("CREATE-PANIC {}", runner::panic_msg(&e).replace('\n', " ")),
        }
        let t0 = std::time::Instant::now();
        let r = query_archive(&out, exh, budget);
        if std::env::var("VERIF_C07_TIMING").is_ok() {
            eprintln!("C07-TIMING query {:?}", t0.elapsed());
        }
        match r {
            Ok(c) => c,
            Err(e) => format!("OPEN-ERR {}", format!("{:#}", e).replace('\n', " ")),
        }
    } else {
        "HARNESS-ERROR bad case".into()
    }
}

fn main() {
    // the compressor prints diagnostics on stderr unconditionally; bin/check reads stdout and stderr together
    if std::env::var("VERIF_PANIC_VERBOSE").is_err() && std::env::var("VERIF_C07_TIMING").is_err() {
        unsafe {
            let fd = libc::open(b"/dev/null\0".as_ptr() as *const libc::c_char, libc::O_WRONLY);
            if fd >= 0 {
                libc::dup2(fd, 2);
            }
        }
    }
    runner::main_loop(run);
}
