//! C14: a partially written archive is rejected cleanly. Same case language as ocaml/c14/driver.ml
//!   open <fs> <hexbytes>                 one file: class of Archive::open (+ Decompressor::open when that is Ok)
//!   prefixes <fs> <from> <to> <hexfile>  every prefix length n in from..to-1 of the file, one class per prefix
//!   mk <seed> <nsamples> <ncontigs> <len> <k> <segsize>   (implementation only) create a real ragc archive with
//!                                        StreamingQueueCompressor in a temp dir and print its bytes as hex
//! classes: E = error value, O = handle, P = panic (caught).  After an `O` of Archive::open the class of
//! ragc_core::Decompressor::open on the same file follows in lower case (e/o/p).  ` m=<n>` at the end of the
//! line is the largest single allocation request made inside Archive::open (counting allocator); the model
//! side prints its own allocation log maximum as ` a=<n>`; both are removed by checks/c14.py:canon and
//! judged by the oracle.  RLIMIT_AS is set to 400 MB before the first open so that a garbage-sized
//! allocation that the counting allocator would only record kills the process (CRASH line) instead.
#[path = "../runner.rs"]
mod runner;
#[path = "../util.rs"]
mod util;
use ragc_common::Archive;
use ragc_core::{Decompressor, DecompressorConfig, StreamingQueueCompressor, StreamingQueueConfig};
use std::alloc::{GlobalAlloc, Layout, System};
use std::panic;
use std::sync::atomic::{AtomicBool, AtomicUsize, Ordering};
use util::*;

struct Counting;
static TRACK: AtomicBool = AtomicBool::new(false);
static MAXREQ: AtomicUsize = AtomicUsize::new(0);
unsafe impl GlobalAlloc for Counting {
    unsafe fn alloc(&self, l: Layout) -> *mut u8 {
        if TRACK.load(Ordering::Relaxed) {
            MAXREQ.fetch_max(l.size(), Ordering::Relaxed);
        }
        System.alloc(l)
    }
    unsafe fn alloc_zeroed(&self, l: Layout) -> *mut u8 {
        if TRACK.load(Ordering::Relaxed) {
            MAXREQ.fetch_max(l.size(), Ordering::Relaxed);
        }
        System.alloc_zeroed(l)
    }
    unsafe fn realloc(&self, p: *mut u8, l: Layout, n: usize) -> *mut u8 {
        if TRACK.load(Ordering::Relaxed) {
            MAXREQ.fetch_max(n, Ordering::Relaxed);
        }
        System.realloc(p, l, n)
    }
    unsafe fn dealloc(&self, p: *mut u8, l: Layout) {
        System.dealloc(p, l)
    }
}
#[global_allocator]
static A: Counting = Counting;

static LIMITED: AtomicBool = AtomicBool::new(false);
fn limit_memory() {
    if !LIMITED.swap(true, Ordering::SeqCst) {
        let lim = libc::rlimit { rlim_cur: 400 << 20, rlim_max: 400 << 20 };
        unsafe {
            libc::setrlimit(libc::RLIMIT_AS, &lim);
        }
    }
}

fn dir_for(fs: &str) -> Option<String> {
    let d = match fs {
        "ext4" => format!("/verif/.cache/tmp/c14-{}", std::process::id()),
        "shm" => format!("/dev/shm/verif-c14-{}", std::process::id()),
        _ => return None,
    };
    std::fs::create_dir_all(&d).ok()?;
    Some(d)
}

/// class string of one file: E | P | Oe | Oo | Op
fn classify(path: &str) -> String {
    TRACK.store(true, Ordering::SeqCst);
    let r = panic::catch_unwind(|| {
        let mut a = Archive::new_reader();
        let r = a.open(path);
        TRACK.store(false, Ordering::SeqCst);
        r.is_ok()
    });
    TRACK.store(false, Ordering::SeqCst);
    match r {
        Err(_) => "P".into(),
        Ok(false) => "E".into(),
        Ok(true) => {
            let p = path.to_string();
            let d = panic::catch_unwind(move || Decompressor::open(&p, DecompressorConfig { verbosity: 0 }).is_ok());
            match d {
                Err(_) => "Op".into(),
                Ok(false) => "Oe".into(),
                Ok(true) => "Oo".into(),
            }
        }
    }
}

fn lcg(x: &mut u32) -> u32 {
    *x = x.wrapping_mul(1103515245).wrapping_add(12345) & 0x7fff_ffff;
    *x >> 16
}

pub fn run(t: &[&str]) -> String {
    match t {
        ["open", fs, bytes] => {
            let Some(d) = dir_for(fs) else { return "HARNESS-ERROR bad fs".into() };
            limit_memory();
            let path = format!("{}/f.agc", d);
            std::fs::write(&path, unhex(bytes)).unwrap();
            MAXREQ.store(0, Ordering::SeqCst);
            let c = classify(&path);
            let _ = std::fs::remove_file(&path);
            let _ = std::fs::remove_dir(&d);
            format!("{} m={}", c, MAXREQ.load(Ordering::SeqCst))
        }
        ["prefixes", fs, from, to, bytes] => {
            let Some(d) = dir_for(fs) else { return "HARNESS-ERROR bad fs".into() };
            limit_memory();
            let b = unhex(bytes);
            let (from, to): (usize, usize) = (from.parse().unwrap(), to.parse().unwrap());
            let path = format!("{}/p.agc", d);
            MAXREQ.store(0, Ordering::SeqCst);
            let mut out = String::new();
            for n in from..to.min(b.len() + 1) {
                std::fs::write(&path, &b[..n]).unwrap();
                out.push_str(&classify(&path));
            }
            let _ = std::fs::remove_file(&path);
            let _ = std::fs::remove_dir(&d);
            format!("{} m={}", out, MAXREQ.load(Ordering::SeqCst))
        }
        ["mk", seed, nsamples, ncontigs, len, k, segsize] => {
            let mut x: u32 = seed.parse().unwrap();
            let (ns, nc, len): (usize, usize, usize) =
                (nsamples.parse().unwrap(), ncontigs.parse().unwrap(), len.parse().unwrap());
            let d = format!("/dev/shm/verif-c14mk-{}-{}", std::process::id(), seed);
            std::fs::create_dir_all(&d).unwrap();
            let path = format!("{}/a.agc", d);
            let config = StreamingQueueConfig {
                k: k.parse().unwrap(),
                segment_size: segsize.parse().unwrap(),
                queue_capacity: 10 * 1024 * 1024,
                num_threads: 1,
                verbosity: 0,
                ..Default::default()
            };
            let r = (|| -> anyhow::Result<()> {
                let mut c = StreamingQueueCompressor::new(&path, config)?;
                // a common ancestor sequence with a few substitutions per sample, as a pangenome would have
                let base: Vec<Vec<u8>> =
                    (0..nc).map(|_| (0..len).map(|_| (lcg(&mut x) & 3) as u8).collect()).collect();
                for s in 0..ns {
                    for (ci, b) in base.iter().enumerate() {
                        let mut v = b.clone();
                        if s > 0 {
                            for _ in 0..(1 + len / 100) {
                                let p = (lcg(&mut x) as usize) % len.max(1);
                                if p < v.len() {
                                    v[p] = (lcg(&mut x) & 3) as u8;
                                }
                            }
                        }
                        c.push(format!("s{}", s), format!("c{}", ci), v)?;
                    }
                }
                c.finalize()
            })();
            let out = match r {
                Ok(()) => hex(&std::fs::read(&path).unwrap()),
                Err(e) => format!("HARNESS-ERROR mk failed: {}", e),
            };
            let _ = std::fs::remove_dir_all(&d);
            out
        }
        _ => "HARNESS-ERROR bad case".into(),
    }
}

fn main() {
    runner::main_loop(run);
}
