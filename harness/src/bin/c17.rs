//! C17: the real `ragc` binary (built from /repo's working tree by lib/vlib.py build_cli) driven through the
//! case language of ocaml/c17/driver.ml.  Nothing of ragc is linked in: every case is one or more process runs.
//!   VERIF_RAGC_CLI      path of the release binary (default /verif/.cache/target-cli-rel/release/ragc)
//!   VERIF_RAGC_CLI_DEV  path of the dev-profile binary (create cases carrying the flag `dev`)
#[path = "../runner.rs"]
mod runner;
#[path = "../util.rs"]
mod util;
use std::collections::hash_map::DefaultHasher;
use std::ffi::OsString;
use std::hash::{Hash, Hasher};
use std::os::unix::ffi::OsStringExt;
use std::path::{Path, PathBuf};
use std::process::{Command, Stdio};
use std::sync::atomic::{AtomicUsize, Ordering};
use std::sync::OnceLock;
use std::time::{Duration, Instant};
use util::*;

static WD: OnceLock<tempfile::TempDir> = OnceLock::new();
static CTR: AtomicUsize = AtomicUsize::new(0);

fn wd() -> &'static Path {
    WD.get_or_init(|| {
        let base = Path::new("/verif/.cache/tmp");
        let _ = std::fs::create_dir_all(base);
        tempfile::Builder::new().prefix("c17-").tempdir_in(base).or_else(|_| tempfile::tempdir()).expect("tempdir")
    })
    .path()
}

fn cli(dev: bool) -> String {
    if dev {
        std::env::var("VERIF_RAGC_CLI_DEV").unwrap_or_else(|_| "/verif/.cache/target-cli-dev/debug/ragc".into())
    } else {
        std::env::var("VERIF_RAGC_CLI").unwrap_or_else(|_| "/verif/.cache/target-cli-rel/release/ragc".into())
    }
}

struct Ran {
    rc: String, // "0" | "nz(<code>)" | "nz(signal)" | "timeout"
    out: Vec<u8>,
    err: String,
}

/// one run of the binary; stdout/stderr go to files (no pipe to fill up), TMPDIR is private to the run
fn run_cli(dev: bool, args: &[OsString], tmpdir: &Path, timeout_s: u64) -> Ran {
    let n = CTR.fetch_add(1, Ordering::SeqCst);
    let so = wd().join(format!("so{n}"));
    let se = wd().join(format!("se{n}"));
    let mut child = Command::new(cli(dev))
        .args(args)
        .env("TMPDIR", tmpdir)
        .env("RUST_BACKTRACE", "0")
        .stdin(Stdio::null())
        .stdout(std::fs::File::create(&so).unwrap())
        .stderr(std::fs::File::create(&se).unwrap())
        .spawn()
        .expect("spawn ragc (VERIF_RAGC_CLI)");
    let t0 = Instant::now();
    let rc = loop {
        match child.try_wait().unwrap() {
            Some(st) => {
                break match st.code() {
                    Some(0) => "0".to_string(),
                    Some(c) => format!("nz({c})"),
                    None => "nz(signal)".to_string(),
                }
            }
            None => {
                if t0.elapsed() > Duration::from_secs(timeout_s) {
                    let _ = child.kill();
                    let _ = child.wait();
                    break "timeout".to_string();
                }
                std::thread::sleep(Duration::from_millis(5));
            }
        }
    };
    let out = std::fs::read(&so).unwrap_or_default();
    let err = String::from_utf8_lossy(&std::fs::read(&se).unwrap_or_default()).into_owned();
    let _ = std::fs::remove_file(&so);
    let _ = std::fs::remove_file(&se);
    Ran { rc, out, err }
}

fn os(b: Vec<u8>) -> OsString {
    OsString::from_vec(b)
}
fn oss(s: &str) -> OsString {
    OsString::from(s)
}

/// the archive file of a case: written once per distinct content
fn arc_path(tok: &str) -> PathBuf {
    if tok == "missing" {
        return wd().join("missing.agc");
    }
    let hexs = tok.strip_prefix("A:").expect("arc token");
    let mut h = DefaultHasher::new();
    hexs.hash(&mut h);
    let p = wd().join(format!("arc-{:016x}.agc", h.finish()));
    if !p.exists() {
        std::fs::write(&p, unhex(hexs)).unwrap();
    }
    p
}

struct Dest {
    out: Option<PathBuf>,
    tmpdir: PathBuf,
}
fn dest(kind: &str) -> Dest {
    let n = CTR.fetch_add(1, Ordering::SeqCst);
    let tmpdir = wd().join(format!("t{n}"));
    std::fs::create_dir_all(&tmpdir).unwrap();
    let out = match kind {
        "stdout" => None,
        "file" => Some(wd().join(format!("o{n}"))),
        "filepre" => {
            let p = wd().join(format!("o{n}"));
            std::fs::write(&p, b"JUNK\nJUNKJUNKJUNKJUNKJUNKJUNKJUNK").unwrap();
            Some(p)
        }
        "baddir" => Some(wd().join(format!("nodir{n}")).join("x")),
        _ => panic!("bad dest"),
    };
    Dest { out, tmpdir }
}

fn show(r: &Ran, d: &Dest) -> String {
    let file = match &d.out {
        Some(p) if p.exists() => hex(&std::fs::read(p).unwrap()),
        _ => "absent".to_string(),
    };
    let mut left: Vec<PathBuf> = std::fs::read_dir(&d.tmpdir).unwrap().map(|e| e.unwrap().path()).collect();
    left.sort();
    let tmp = match left.first() {
        Some(p) => hex(&std::fs::read(p).unwrap()),
        None => "absent".to_string(),
    };
    if let Some(p) = &d.out {
        let _ = std::fs::remove_file(p);
    }
    let _ = std::fs::remove_dir_all(&d.tmpdir);
    format!("rc={} out={} file={} tmp={}", r.rc, hex(&r.out), file, tmp)
}

/// content: s;s;...  s = <namehex>=<c>,<c>,...  c = <cnamehex>/<lettershex | - | !>
fn parse_content(c: &str) -> Vec<(Vec<u8>, Vec<(Vec<u8>, Vec<u8>)>)> {
    if c == "-" || c == "." || c.is_empty() {
        return vec![];
    }
    c.split(';')
        .map(|s| {
            let (nm, cs) = s.split_once('=').expect("sample");
            let contigs = if cs.is_empty() || cs == "!" {
                vec![]
            } else {
                cs.split(',')
                    .map(|c| {
                        let (cn, d) = c.split_once('/').expect("contig");
                        (unhex(cn), if d == "!" { vec![] } else { unhex(d) })
                    })
                    .collect()
            };
            (unhex(nm), contigs)
        })
        .collect()
}

fn fasta(contigs: &[(Vec<u8>, Vec<u8>)]) -> Vec<u8> {
    let mut v = vec![];
    for (n, s) in contigs {
        v.push(b'>');
        v.extend_from_slice(n);
        v.push(b'\n');
        for ch in s.chunks(60) {
            v.extend_from_slice(ch);
            v.push(b'\n');
        }
    }
    v
}

fn err_kind(r: &Ran) -> &'static str {
    let e = &r.err;
    if e.contains("Streaming queue mode does not support") {
        "adaptive_concat"
    } else if e.contains("--batch (legacy batch mode)") {
        "batch"
    } else if e.contains("--cpp-agc requires") {
        "cppagc"
    } else if e.contains("No input files provided") {
        "noinputs"
    } else if e.contains("Invalid output path") {
        "invalid_path"
    } else if e.contains("invalid digit found in string")
        || e.contains("cannot parse integer from empty string")
        || e.contains("number too large to fit")
    {
        "capacity"
    } else if e.contains("panicked at") && e.contains("main.rs") && e.contains("overflow") {
        "capacity-panic"
    } else if r.rc == "nz(2)" && e.contains("Usage:") {
        "clap"
    } else if r.rc == "0" {
        "-"
    } else {
        "other"
    }
}

fn banner_cap(e: &str) -> String {
    if let Some(i) = e.find("queue capacity: ") {
        let d: String = e[i + 16..].chars().take_while(|c| c.is_ascii_digit()).collect();
        if let Ok(v) = d.parse::<u128>() {
            return format!("{v:x}");
        }
    }
    "-".into()
}

fn create(set: &str, flags: &[&str]) -> String {
    let n = CTR.fetch_add(1, Ordering::SeqCst);
    let dir = wd().join(format!("c{n}"));
    std::fs::create_dir_all(dir.join("tmp")).unwrap();
    let (mode, content) = set.split_at(2);
    let samples = parse_content(content);
    let mut inputs: Vec<PathBuf> = vec![];
    match mode {
        "M:" => {
            for (name, contigs) in &samples {
                let mut f = name.clone();
                f.extend_from_slice(b".fa");
                let p = dir.join(os(f));
                std::fs::write(&p, fasta(contigs)).unwrap();
                inputs.push(p);
            }
        }
        "S:" => {
            let all: Vec<(Vec<u8>, Vec<u8>)> = samples.iter().flat_map(|s| s.1.clone()).collect();
            let p = dir.join("all.fa");
            std::fs::write(&p, fasta(&all)).unwrap();
            inputs.push(p);
        }
        _ => {}
    }
    let arc = dir.join("out.agc");
    let mut args: Vec<OsString> = vec![oss("create"), oss("-o"), arc.clone().into_os_string()];
    let mut dev = false;
    let mut to = 600u64;
    for f in flags {
        match *f {
            "batch" => args.push(oss("--batch")),
            "adaptive" => args.push(oss("--adaptive")),
            "concatenated" => args.push(oss("--concatenated")),
            "cpp" => args.push(oss("--cpp-agc")),
            "dev" => dev = true,
            _ => {
                if let Some(t) = f.strip_prefix("t=") {
                    args.push(oss("-t"));
                    args.push(oss(t));
                } else if let Some(v) = f.strip_prefix("v=") {
                    args.push(oss("-v"));
                    args.push(oss(v));
                } else if let Some(q) = f.strip_prefix("q=") {
                    let mut a = b"--queue-capacity=".to_vec();
                    a.extend_from_slice(&unhex(q));
                    args.push(os(a));
                } else if let Some(t) = f.strip_prefix("to=") {
                    to = t.parse().unwrap();
                } else {
                    return "HARNESS-ERROR bad flag".into();
                }
            }
        }
    }
    for p in &inputs {
        args.push(p.clone().into_os_string());
    }
    let r = run_cli(dev, &args, &dir.join("tmp"), to);
    let present = arc.exists();
    let (mut listed, mut data) = ("-".to_string(), "-".to_string());
    if r.rc == "0" && present {
        // the archive must list every input sample, and every sample must come back with its full length
        let l = run_cli(false, &[oss("listset"), arc.clone().into_os_string()], &dir.join("tmp"), 120);
        let names: Vec<&[u8]> = l.out.split(|&b| b == b'\n').filter(|x| !x.is_empty()).collect();
        let missing: Vec<String> =
            samples.iter().filter(|s| l.rc != "0" || !names.contains(&&s.0[..])).map(|s| hex(&s.0)).collect();
        listed = if missing.is_empty() { "all".into() } else { format!("missing:{}", missing.join(",")) };
        let mut lost = vec![];
        for (name, contigs) in &samples {
            let g = run_cli(
                false,
                &[oss("getset"), arc.clone().into_os_string(), oss("--"), os(name.clone())],
                &dir.join("tmp"),
                120,
            );
            let got: usize =
                g.out.split(|&b| b == b'\n').filter(|x| !x.is_empty() && x[0] != b'>').map(|x| x.len()).sum();
            let want: usize = contigs.iter().map(|c| c.1.len()).sum();
            if g.rc != "0" || got != want {
                lost.push(format!("{}:{}/{}", hex(name), got, want));
            }
        }
        data = if lost.is_empty() { "ok".into() } else { format!("lost:{}", lost.join(",")) };
    }
    let res = format!(
        "rc={} err={} cap={} arc={} listed={} data={}",
        r.rc,
        err_kind(&r),
        banner_cap(&r.err),
        if present { "present" } else { "absent" },
        listed,
        data
    );
    let _ = std::fs::remove_dir_all(&dir);
    res
}

pub fn run(t: &[&str]) -> String {
    match t {
        ["getset", arc, _content, dst, pfx, names @ ..] => {
            let d = dest(dst);
            let mut args = vec![oss("getset")];
            if let Some(o) = &d.out {
                args.push(oss("-o"));
                args.push(o.clone().into_os_string());
            }
            if let Some(p) = pfx.strip_prefix("p:") {
                args.push(oss("-p"));
                args.push(os(unhex(p)));
            }
            args.push(arc_path(arc).into_os_string());
            args.push(oss("--"));
            for n in names {
                args.push(os(unhex(n)));
            }
            let r = run_cli(false, &args, &d.tmpdir, 120);
            show(&r, &d)
        }
        ["listset", arc, _content, dst] => {
            let d = dest(dst);
            let mut args = vec![oss("listset")];
            if let Some(o) = &d.out {
                args.push(oss("-o"));
                args.push(o.clone().into_os_string());
            }
            args.push(arc_path(arc).into_os_string());
            let r = run_cli(false, &args, &d.tmpdir, 120);
            show(&r, &d)
        }
        ["listctg", arc, _content, dst, names @ ..] => {
            let d = dest(dst);
            let mut args = vec![oss("listctg")];
            if let Some(o) = &d.out {
                args.push(oss("-o"));
                args.push(o.clone().into_os_string());
            }
            args.push(arc_path(arc).into_os_string());
            args.push(oss("--"));
            for n in names {
                args.push(os(unhex(n)));
            }
            let r = run_cli(false, &args, &d.tmpdir, 120);
            show(&r, &d)
        }
        ["info", arc] => {
            let d = dest("stdout");
            let r = run_cli(false, &[oss("info"), arc_path(arc).into_os_string()], &d.tmpdir, 60);
            show(&r, &d)
        }
        ["create", set, flags @ ..] => create(set, flags),
        _ => "HARNESS-ERROR bad case".into(),
    }
}

fn main() {
    runner::main_loop(run);
    // a static is never dropped: remove the scratch directory by hand
    if let Some(d) = WD.get() {
        let _ = std::fs::remove_dir_all(d.path());
    }
}
