//! C13: the archive container returns what was stored. Same case language as ocaml/c13/driver.ml
//!   vi <hexvalue> <hexrest>   encode_varint(v); decode_varint(enc ++ rest)   -> enc value bytes_read
//!   rv <hexbytes>             decode_varint(bytes)                           -> value bytes_read | err
//!   fx <hexvalue> <hexrest>   write_fixed_u64 / read_fixed_u64               -> enc value
//!   hist <wop>... | <rop>...  a writer history on a real Archive (file in /dev/shm), close, reopen, reads
//!     wops: r:<hexname>  a:<sid>:<data>:<meta>  b:<sid>:<data>:<meta>  f  s:<sid>:<raw>      (numbers in hex)
//!     data: - | <hex> | @<lenhex>.<seedhex> (LCG bytes)
//!     rops: g:<sid> (get_part)  i:<sid>:<pid> (get_part_by_id)  n:<hexname> (get_stream_id)
//!   -> W=<results> F=<len>.<fnv1a64 of the file> O=<ok|err> D=<name>/<raw>/<nparts>,... R=<results>
#[path = "../runner.rs"]
mod runner;
#[path = "../util.rs"]
mod util;
use ragc_common::varint::{decode_varint, encode_varint, read_fixed_u64, write_fixed_u64};
use ragc_common::Archive;
use util::*;

fn fnv(b: &[u8]) -> u64 {
    let mut h: u64 = 0xcbf29ce484222325;
    for x in b {
        h ^= *x as u64;
        h = h.wrapping_mul(0x100000001b3);
    }
    h
}

fn data_of(s: &str) -> Vec<u8> {
    if let Some(r) = s.strip_prefix('@') {
        let (l, seed) = r.split_once('.').unwrap();
        let n = usize::from_str_radix(l, 16).unwrap();
        let mut x = u64::from_str_radix(seed, 16).unwrap();
        (0..n)
            .map(|_| {
                x = (x * 1103515245 + 12345) & 0x7fff_ffff;
                ((x >> 16) & 0xff) as u8
            })
            .collect()
    } else {
        unhex(s)
    }
}

fn h64(s: &str) -> u64 {
    u64::from_str_radix(s, 16).unwrap()
}

fn join(v: Vec<String>) -> String {
    if v.is_empty() { "-".into() } else { v.join(",") }
}

fn part_res(r: anyhow::Result<Option<(Vec<u8>, u64)>>) -> String {
    match r {
        Err(_) => "err".into(),
        Ok(None) => "end".into(),
        Ok(Some((d, m))) => format!("{:x}.{:x}.{:x}", d.len(), fnv(&d), m),
    }
}

pub fn run(t: &[&str]) -> String {
    match t {
        ["vi", v, rest] => {
            let mut e = encode_varint(h64(v));
            let enc = hex(&e);
            e.extend_from_slice(&unhex(rest));
            match decode_varint(&e) {
                Ok((x, n)) => format!("{} {:x} {}", enc, x, n),
                Err(_) => format!("{} err", enc),
            }
        }
        ["rv", b] => match decode_varint(&unhex(b)) {
            Ok((x, n)) => format!("{:x} {}", x, n),
            Err(_) => "err".into(),
        },
        ["fx", v, rest] => {
            let mut e = Vec::new();
            write_fixed_u64(&mut e, h64(v)).unwrap();
            let enc = hex(&e);
            e.extend_from_slice(&unhex(rest));
            match read_fixed_u64(&mut std::io::Cursor::new(&e)) {
                Ok(x) => format!("{} {:x}", enc, x),
                Err(_) => format!("{} err", enc),
            }
        }
        ["hist", ops @ ..] => {
            let d = format!("/dev/shm/verif-c13-{}", std::process::id());
            std::fs::create_dir_all(&d).unwrap();
            let path = format!("{}/h.agc", d);
            let split = ops.iter().position(|x| *x == "|").unwrap_or(ops.len());
            let (wops, rops) = (&ops[..split], if split < ops.len() { &ops[split + 1..] } else { &ops[0..0] });
            let mut wres = vec![];
            {
                let mut a = Archive::new_writer();
                a.open(&path).unwrap();
                for o in wops {
                    let f: Vec<&str> = o.split(':').collect();
                    match f.as_slice() {
                        ["r", name] => {
                            let nb = unhex(name);
                            let Ok(s) = std::str::from_utf8(&nb) else { return "HARNESS-ERROR name is not UTF-8".into() };
                            wres.push(format!("{:x}", a.register_stream(s)));
                        }
                        ["a", sid, data, meta] => {
                            let r = a.add_part(h64(sid) as usize, &data_of(data), h64(meta));
                            wres.push(if r.is_ok() { "ok".into() } else { "err".into() });
                        }
                        ["b", sid, data, meta] => {
                            a.add_part_buffered(h64(sid) as usize, data_of(data), h64(meta));
                            wres.push("-".into());
                        }
                        ["f"] => {
                            let r = a.flush_buffers();
                            wres.push(if r.is_ok() { "ok".into() } else { "err".into() });
                        }
                        ["s", sid, raw] => {
                            a.set_raw_size(h64(sid) as usize, h64(raw));
                            wres.push("-".into());
                        }
                        _ => return "HARNESS-ERROR bad wop".into(),
                    }
                }
                a.close().unwrap();
            }
            let file = std::fs::read(&path).unwrap();
            let mut out = format!("W={} F={:x}.{:x}", join(wres), file.len(), fnv(&file));
            let mut a = Archive::new_reader();
            match a.open(&path) {
                Err(_) => out.push_str(" O=err"),
                Ok(()) => {
                    out.push_str(" O=ok");
                    let mut dir = vec![];
                    for (i, n) in a.get_stream_names().iter().enumerate() {
                        dir.push(format!("{}/{:x}/{:x}", hex(n.as_bytes()), a.get_raw_size(i), a.get_num_parts(i)));
                    }
                    out.push_str(&format!(" D={}", join(dir)));
                    let mut rres = vec![];
                    for o in rops {
                        let f: Vec<&str> = o.split(':').collect();
                        match f.as_slice() {
                            ["g", sid] => rres.push(part_res(a.get_part(h64(sid) as usize))),
                            ["i", sid, pid] => {
                                rres.push(part_res(a.get_part_by_id(h64(sid) as usize, h64(pid) as usize).map(Some)))
                            }
                            ["n", name] => {
                                let nb = unhex(name);
                                let Ok(s) = std::str::from_utf8(&nb) else { return "HARNESS-ERROR name is not UTF-8".into() };
                                rres.push(match a.get_stream_id(s) {
                                    Some(i) => format!("{:x}", i),
                                    None => "none".into(),
                                });
                            }
                            _ => return "HARNESS-ERROR bad rop".into(),
                        }
                    }
                    out.push_str(&format!(" R={}", join(rres)));
                }
            }
            drop(a);
            let _ = std::fs::remove_file(&path);
            let _ = std::fs::remove_dir(&d);
            out
        }
        _ => "HARNESS-ERROR bad case".into(),
    }
}

fn main() {
    runner::main_loop(run);
}
