//! C20: canonical k-mer arithmetic. Same case language as ocaml/c20/driver.ml
#[path = "../runner.rs"]
mod runner;
#[path = "../util.rs"]
mod util;
use util::*;
use ragc_core::kmer::{canonical_kmer, reverse_complement_kmer, Kmer, KmerMode};
use ragc_core::kmer_extract::enumerate_kmers;

pub fn run(t: &[&str]) -> String {
    match t {
        ["feed", k, syms] => {
            let k: u32 = k.parse().unwrap();
            let mut x = Kmer::new(k, KmerMode::Canonical);
            for s in unhex(syms) {
                x.insert(s as u64);
            }
            format!("{:x} {:x} {} {} {:x} {}", x.data_dir(), x.data_rc(), x.get_cur_size(), b2s(x.is_full()),
                x.data_canonical(), b2s(x.is_dir_oriented()))
        }
        ["rck", k, v] => {
            let k: u32 = k.parse().unwrap();
            let v = u64::from_str_radix(v, 16).unwrap();
            format!("{:x} {:x}", reverse_complement_kmer(v, k), canonical_kmer(v, k))
        }
        ["enum", k, syms] => {
            let r = enumerate_kmers(&unhex(syms), k.parse().unwrap());
            if r.is_empty() { "-".into() } else { r.iter().map(|x| format!("{:x}", x)).collect::<Vec<_>>().join(",") }
        }
        _ => "HARNESS-ERROR bad case".into(),
    }
}

fn main() {
    runner::main_loop(run);
}
