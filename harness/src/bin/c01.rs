//! C01 lossless round trip (implementation side, oracle level): create a real archive from a case directory
//! (FASTA files prepared by lib/gen_samples.py) through the library API exactly as ragc-cli does, reopen it
//! with the real Decompressor and print, per sample and contig, name (hex), length and sha256 prefix of the
//! extracted bases (as letters).  case:  rt <dir> <params k,s,m,pack,threads,qcap,ff>
//! case  dt <dir> <params>  (contig-level correspondence with coq/model/Pipeline.v): after the real create,
//! print k (from the archive), the splitter set the compressor was given (sorted), and per sample / contig the
//! descriptor list (group, in-group id, rc flag, raw_length) with each descriptor's decoded STORED bytes
//! (get_segment_data_by_desc) and the extracted contig (get_sample):
//!   OK k=<k> spl=<hex u64,..|-> S <name> C <name> D <g>:<id>:<rc>:<len>:<stored hex> .. X <contig hex> C .. S ..
//! case  spl <dir> <params>  prints only the splitter set
#[path = "../mk.rs"]
mod mk;
#[path = "../runner.rs"]
mod runner;
#[path = "../util.rs"]
mod util;
use ragc_core::{Decompressor, DecompressorConfig, CNV_NUM};
use sha2::{Digest, Sha256};
use util::*;

pub fn letters(codes: &[u8]) -> Vec<u8> {
    codes.iter().map(|&b| if b < 16 { CNV_NUM[b as usize] } else { b'N' }).collect()
}

pub fn catalogue(path: &str) -> anyhow::Result<String> {
    let mut d = Decompressor::open(path, DecompressorConfig { verbosity: 0 })?;
    let mut out = Vec::new();
    for s in d.list_samples() {
        let contigs = d.get_sample(&s)?;
        let names = d.list_contigs(&s)?;
        if names.len() != contigs.len() {
            anyhow::bail!("list_contigs and get_sample disagree for {}", s);
        }
        for ((name, seq), n2) in contigs.iter().zip(names.iter()) {
            if name != n2 {
                anyhow::bail!("contig name order differs");
            }
            let l = letters(seq);
            let h = Sha256::digest(&l);
            out.push(format!("{}|{}|{}|{}", hex(s.as_bytes()), hex(name.as_bytes()), l.len(), hex(&h[..8])));
        }
        if contigs.is_empty() {
            out.push(format!("{}|||", hex(s.as_bytes())));
        }
    }
    Ok(out.join(";"))
}

/// the splitter set mk::create hands to StreamingQueueCompressor::with_splitters (same calls as mk.rs)
fn splitters_of(inputs: &[std::path::PathBuf], p: &mk::Params) -> anyhow::Result<Vec<u64>> {
    let set = if inputs.len() == 1 {
        ragc_core::determine_splitters_streaming_first_sample(&inputs[0], p.k, p.segment_size)?.0
    } else {
        ragc_core::determine_splitters_streaming(&inputs[0], p.k, p.segment_size)?.0
    };
    let mut v: Vec<u64> = set.into_iter().collect();
    v.sort_unstable();
    Ok(v)
}

fn details(path: &str) -> anyhow::Result<String> {
    let mut d = Decompressor::open(path, DecompressorConfig { verbosity: 0 })?;
    let mut out: Vec<String> = vec![format!("k={}", d.kmer_length)];
    let mut body: Vec<String> = Vec::new();
    for s in d.list_samples() {
        body.push(format!("S {}", hex(s.as_bytes())));
        let names = d.list_contigs(&s)?;
        let contigs = d.get_sample(&s)?;
        if names.len() != contigs.len() {
            anyhow::bail!("list_contigs and get_sample disagree for {}", s);
        }
        for ((name, seq), n2) in contigs.iter().zip(names.iter()) {
            if name != n2 {
                anyhow::bail!("contig name order differs");
            }
            body.push(format!("C {}", hex(name.as_bytes())));
            for desc in d.get_contig_segments_desc(&s, name)? {
                let stored = d.get_segment_data_by_desc(&desc)?;
                body.push(format!(
                    "D {}:{}:{}:{}:{}",
                    desc.group_id,
                    desc.in_group_id,
                    b2s(desc.is_rev_comp),
                    desc.raw_length,
                    hex(&stored)
                ));
            }
            body.push(format!("X {}", hex(seq)));
        }
    }
    out.append(&mut body);
    Ok(out.join(" "))
}

fn run(t: &[&str]) -> String {
    match t {
        // only the splitter set (sorted): used by the generator to aim mutations at splitter k-mers
        ["spl", dir, params] => {
            let p = mk::Params::parse(params);
            match splitters_of(&mk::case_inputs(dir), &p) {
                Ok(v) if v.is_empty() => "OK -".into(),
                Ok(v) => format!("OK {}", v.iter().map(|x| format!("{:x}", x)).collect::<Vec<_>>().join(",")),
                Err(e) => format!("SPLITTERS-ERR {}", format!("{:#}", e).replace('\n', " ")),
            }
        }
        ["dt", dir, params] => {
            let p = mk::Params::parse(params);
            let out = format!("{}/out.agc", dir);
            let _ = std::fs::remove_file(&out);
            let inputs = mk::case_inputs(dir);
            let spl = match splitters_of(&inputs, &p) {
                Ok(v) => v,
                Err(e) => return format!("SPLITTERS-ERR {}", format!("{:#}", e).replace('\n', " ")),
            };
            if let Err(e) = mk::create(&out, &inputs, &p) {
                return format!("CREATE-ERR {}", format!("{:#}", e).replace('\n', " "));
            }
            let spl_s =
                if spl.is_empty() { "-".to_string() } else { spl.iter().map(|x| format!("{:x}", x)).collect::<Vec<_>>().join(",") };
            match details(&out) {
                Ok(c) => {
                    let mut f = c.splitn(2, ' ');
                    let k = f.next().unwrap_or("");
                    let rest = f.next().unwrap_or("");
                    format!("OK {} spl={} {}", k, spl_s, rest).trim_end().to_string()
                }
                Err(e) => format!("EXTRACT-ERR {}", format!("{:#}", e).replace('\n', " ")),
            }
        }
        ["rt", dir, params] => {
            let p = mk::Params::parse(params);
            let out = format!("{}/out.agc", dir);
            let _ = std::fs::remove_file(&out);
            if let Err(e) = mk::create(&out, &mk::case_inputs(dir), &p) {
                return format!("CREATE-ERR {}", format!("{:#}", e).replace('\n', " "));
            }
            match catalogue(&out) {
                Ok(c) => format!("OK {}", c),
                Err(e) => format!("EXTRACT-ERR {}", format!("{:#}", e).replace('\n', " ")),
            }
        }
        _ => "HARNESS-ERROR bad case".into(),
    }
}

fn main() {
    // the library prints progress / debug lines to stderr (e.g. determine_splitters_streaming_first_sample);
    // bin/check merges the two streams, so stderr goes to /dev/null unless asked for
    if std::env::var("VERIF_PANIC_VERBOSE").is_err() {
        unsafe {
            let fd = libc::open(b"/dev/null\0".as_ptr() as *const libc::c_char, libc::O_WRONLY);
            if fd >= 0 {
                libc::dup2(fd, 2);
            }
        }
    }
    runner::main_loop(run);
}
