//! C01 lossless round trip (implementation side, oracle level): create a real archive from a case directory
//! (FASTA files prepared by lib/gen_samples.py) through the library API exactly as ragc-cli does, reopen it
//! with the real Decompressor and print, per sample and contig, name (hex), length and sha256 prefix of the
//! extracted bases (as letters).  case:  rt <dir> <params k,s,m,pack,threads,qcap,ff>
#[path = "../mk.rs"]
mod mk;
#[path = "../runner.rs"]
mod runner;
#[path = "../util.rs"]
mod util;
use ragc_core::{Decompressor, DecompressorConfig, CNV_NUM};
use sha2::{Digest, Sha256};
use util::*;

pub fn letters(codes: &[u8]) -> Vec<u8> {
    codes.iter().map(|&b| if b < 16 { CNV_NUM[b as usize] } else { b'N' }).collect()
}

pub fn catalogue(path: &str) -> anyhow::Result<String> {
    let mut d = Decompressor::open(path, DecompressorConfig { verbosity: 0 })?;
    let mut out = Vec::new();
    for s in d.list_samples() {
        let contigs = d.get_sample(&s)?;
        let names = d.list_contigs(&s)?;
        if names.len() != contigs.len() {
            anyhow::bail!("list_contigs and get_sample disagree for {}", s);
        }
        for ((name, seq), n2) in contigs.iter().zip(names.iter()) {
            if name != n2 {
                anyhow::bail!("contig name order differs");
            }
            let l = letters(seq);
            let h = Sha256::digest(&l);
            out.push(format!("{}|{}|{}|{}", hex(s.as_bytes()), hex(name.as_bytes()), l.len(), hex(&h[..8])));
        }
        if contigs.is_empty() {
            out.push(format!("{}|||", hex(s.as_bytes())));
        }
    }
    Ok(out.join(";"))
}

fn run(t: &[&str]) -> String {
    match t {
        ["rt", dir, params] => {
            let p = mk::Params::parse(params);
            let out = format!("{}/out.agc", dir);
            let _ = std::fs::remove_file(&out);
            if let Err(e) = mk::create(&out, &mk::case_inputs(dir), &p) {
                return format!("CREATE-ERR {}", format!("{:#}", e).replace('\n', " "));
            }
            match catalogue(&out) {
                Ok(c) => format!("OK {}", c),
                Err(e) => format!("EXTRACT-ERR {}", format!("{:#}", e).replace('\n', " ")),
            }
        }
        _ => "HARNESS-ERROR bad case".into(),
    }
}

fn main() {
    runner::main_loop(run);
}
