//! C10: segmentation at splitters. Same case language as ocaml/c10/driver.ml
#[path = "../runner.rs"]
mod runner;
#[path = "../util.rs"]
mod util;
use ragc_core::{split_at_splitters, split_at_splitters_with_size, Segment};
use util::*;

pub fn run(t: &[&str]) -> String {
    match t {
        ["split", v, k, contig, spl, msz] => {
            let k: usize = k.parse().unwrap();
            let msz: usize = msz.parse().unwrap();
            let c: Vec<u8> = unhex(contig);
            // the harness crate does not depend on ahash: the set type (AHashSet<u64>) is inferred from the callee
            let vals: Vec<u64> =
                if *spl == "-" { vec![] } else { spl.split(',').map(|x| u64::from_str_radix(x, 16).unwrap()).collect() };
            let segs: Vec<Segment> = match *v {
                "w" => split_at_splitters_with_size(&c, &vals.into_iter().collect(), k, msz),
                "o" => split_at_splitters(&c, &vals.into_iter().collect(), k),
                _ => return "HARNESS-ERROR bad variant".into(),
            };
            segs.iter()
                .map(|s| {
                    format!("{}:{:x}:{:x}:{}:{}", hex(&s.data), s.front_kmer, s.back_kmer, b2s(s.front_kmer_is_dir),
                        b2s(s.back_kmer_is_dir))
                })
                .collect::<Vec<_>>()
                .join(" ")
        }
        _ => "HARNESS-ERROR bad case".into(),
    }
}

fn main() {
    runner::main_loop(run);
}
