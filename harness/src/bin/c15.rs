//! C15: write failures are reported. Same case language as ocaml/c15/driver.ml.
//! The process ignores SIGXFSZ and moves its soft RLIMIT_FSIZE, so that writes to the output file fail with
//! EFBIG at byte granularity (the kernel stores the part of a request that fits and fails the next write).
//!   hist <caphex> <pol> <op>...   a history on a real ragc_common::Archive (output mode), then close(), then drop
//!     cap: the capacity archive.rs gives its BufWriter as the translator read it (used by the model, ignored here);
//!     pol: inf | L1:<limithex>
//!     ops: r:<hexname>  a:<sid>:<data>:<meta>  b:<sid>:<data>:<meta>  f  s:<sid>:<raw>  l:1:<limithex> | l:inf
//!     data: - | <hex> | @<lenhex>.<seedhex> (LCG bytes)
//!   -> W=<result per op> C=<ok|err of close> F=<len>.<fnv1a64 of the file after drop>
//!   bw <caphex> <pol> <op>...     the same on a bare std::io::BufWriter<File>: w:<data> (write_all)  f (flush)  l:..
//!   -> R=<result per op> F=<len>.<fnv1a64 of the file after the BufWriter was dropped>
//!   fin <dir> <params> <limithex|inf>   the whole create pipeline in-process, driven the way ragc-cli's create_archive
//!     drives it (harness/src/mk.rs: StreamingQueueCompressor::with_splitters, push, drain, sync_and_flush, finalize) on
//!     the FASTA files listed in <dir>/order.txt, output file <dir>/out-<pid>.agc, limit set after the inputs were listed
//!   -> E=<ok|err of create, i.e. of finalize> F=<len>.<fnv1a64> (limit inf: the file is kept as <dir>/full-<pid>.agc
//!      and its path is printed as P=<path>)
#[path = "../mk.rs"]
mod mk;
#[path = "../runner.rs"]
mod runner;
#[path = "../util.rs"]
mod util;
use ragc_common::Archive;
use std::io::Write;
use util::*;

fn fnv(b: &[u8]) -> u64 {
    let mut h: u64 = 0xcbf29ce484222325;
    for x in b {
        h ^= *x as u64;
        h = h.wrapping_mul(0x100000001b3);
    }
    h
}

fn data_of(s: &str) -> Vec<u8> {
    if let Some(r) = s.strip_prefix('@') {
        let (l, seed) = r.split_once('.').unwrap();
        let n = usize::from_str_radix(l, 16).unwrap();
        let mut x = u64::from_str_radix(seed, 16).unwrap();
        (0..n)
            .map(|_| {
                x = (x * 1103515245 + 12345) & 0x7fff_ffff;
                ((x >> 16) & 0xff) as u8
            })
            .collect()
    } else {
        unhex(s)
    }
}

fn h64(s: &str) -> u64 {
    u64::from_str_radix(s, 16).unwrap()
}

fn join(v: Vec<String>) -> String {
    if v.is_empty() { "-".into() } else { v.join(",") }
}

/// soft RLIMIT_FSIZE of this process; None = unlimited. The hard limit is left alone.
fn set_limit(n: Option<u64>) {
    unsafe {
        libc::signal(libc::SIGXFSZ, libc::SIG_IGN);
        let mut r = libc::rlimit { rlim_cur: 0, rlim_max: 0 };
        assert_eq!(libc::getrlimit(libc::RLIMIT_FSIZE, &mut r), 0);
        r.rlim_cur = match n {
            Some(v) => (v as libc::rlim_t).min(r.rlim_max),
            None => r.rlim_max,
        };
        assert_eq!(libc::setrlimit(libc::RLIMIT_FSIZE, &r), 0);
    }
}

struct Unlimit;
impl Drop for Unlimit {
    fn drop(&mut self) {
        set_limit(None);
    }
}

fn pol(tok: &str) -> Result<Option<u64>, String> {
    let f: Vec<&str> = tok.split(':').collect();
    match f.as_slice() {
        ["inf"] | ["l", "inf"] => Ok(None),
        ["L1", n] | ["l", "1", n] => Ok(Some(h64(n))),
        _ => Err(format!("HARNESS-ERROR policy {tok} cannot be produced by a real file")),
    }
}

fn scratch(kind: &str) -> (String, String) {
    let base = std::env::var("C15_DIR").unwrap_or_else(|_| "/dev/shm".into());
    let d = format!("{}/verif-c15-{}-{}", base, kind, std::process::id());
    std::fs::create_dir_all(&d).unwrap();
    let p = format!("{}/out.agc", d);
    (d, p)
}

fn file_sig(path: &str) -> String {
    let file = std::fs::read(path).unwrap();
    format!("{:x}.{:x}", file.len(), fnv(&file))
}

fn ok_s<T, E>(r: &Result<T, E>) -> String {
    if r.is_ok() { "ok".into() } else { "err".into() }
}

pub fn run(t: &[&str]) -> String {
    let _restore = Unlimit;
    match t {
        ["hist", cap, p0, ops @ ..] => {
            let _ = cap; // the capacity is whatever archive.rs gives its BufWriter; the token is for the model
            let lim = match pol(p0) {
                Ok(l) => l,
                Err(e) => return e,
            };
            let (d, path) = scratch("h");
            let mut wres = vec![];
            let rc;
            {
                let mut a = Archive::new_writer();
                a.open(&path).unwrap();
                set_limit(lim);
                for o in ops {
                    let f: Vec<&str> = o.split(':').collect();
                    match f.as_slice() {
                        ["r", name] => {
                            let nb = unhex(name);
                            let Ok(s) = std::str::from_utf8(&nb) else { return "HARNESS-ERROR name is not UTF-8".into() };
                            wres.push(format!("{:x}", a.register_stream(s)));
                        }
                        ["a", sid, data, meta] => {
                            let r = a.add_part(h64(sid) as usize, &data_of(data), h64(meta));
                            wres.push(ok_s(&r));
                        }
                        ["b", sid, data, meta] => {
                            a.add_part_buffered(h64(sid) as usize, data_of(data), h64(meta));
                            wres.push("-".into());
                        }
                        ["f"] => {
                            let r = a.flush_buffers();
                            wres.push(ok_s(&r));
                        }
                        ["s", sid, raw] => {
                            a.set_raw_size(h64(sid) as usize, h64(raw));
                            wres.push("-".into());
                        }
                        ["l", ..] => {
                            match pol(o) {
                                Ok(l) => set_limit(l),
                                Err(e) => return e,
                            }
                            wres.push("-".into());
                        }
                        _ => return "HARNESS-ERROR bad op".into(),
                    }
                }
                rc = ok_s(&a.close());
                // `a` is dropped here: impl Drop for Archive, still under the limit
            }
            set_limit(None);
            let out = format!("W={} C={} F={}", join(wres), rc, file_sig(&path));
            let _ = std::fs::remove_file(&path);
            let _ = std::fs::remove_dir(&d);
            out
        }
        ["bw", cap, p0, ops @ ..] => {
            let lim = match pol(p0) {
                Ok(l) => l,
                Err(e) => return e,
            };
            let (d, path) = scratch("b");
            let mut res = vec![];
            {
                let file = std::fs::File::create(&path).unwrap();
                let mut w = std::io::BufWriter::with_capacity(h64(cap) as usize, file);
                set_limit(lim);
                for o in ops {
                    let f: Vec<&str> = o.split(':').collect();
                    match f.as_slice() {
                        ["w", data] => res.push(ok_s(&w.write_all(&data_of(data)))),
                        ["f"] => res.push(ok_s(&w.flush())),
                        ["l", ..] => {
                            match pol(o) {
                                Ok(l) => set_limit(l),
                                Err(e) => return e,
                            }
                            res.push("-".into());
                        }
                        _ => return "HARNESS-ERROR bad op".into(),
                    }
                }
                // Drop for BufWriter: one more flush_buf, result ignored, still under the limit
            }
            set_limit(None);
            let out = format!("R={} F={}", join(res), file_sig(&path));
            let _ = std::fs::remove_file(&path);
            let _ = std::fs::remove_dir(&d);
            out
        }
        ["fin", dir, params, lim] => {
            // the pipeline prints debug lines to stderr even at verbosity 0; under the limit a stderr that is a
            // regular file would make eprintln! panic, and a shared pipe would mix into the result lines
            unsafe {
                let dn = libc::open(b"/dev/null\0".as_ptr() as *const libc::c_char, libc::O_WRONLY);
                if dn >= 0 {
                    libc::dup2(dn, 2);
                    libc::close(dn);
                }
            }
            let p = mk::Params::parse(params);
            let inputs = mk::case_inputs(dir);
            let out = format!("{}/out-{}.agc", dir, std::process::id());
            let _ = std::fs::remove_file(&out);
            let limit = if *lim == "inf" { None } else { Some(h64(lim)) };
            set_limit(limit);
            let r = mk::create(&out, &inputs, &p);
            set_limit(None);
            let sig = if std::path::Path::new(&out).exists() { file_sig(&out) } else { "none".into() };
            let mut line = format!("E={} F={}", ok_s(&r), sig);
            if limit.is_none() {
                let keep = format!("{}/full-{}.agc", dir, std::process::id());
                let _ = std::fs::rename(&out, &keep);
                line.push_str(&format!(" P={}", keep));
            } else {
                let _ = std::fs::remove_file(&out);
            }
            line
        }
        _ => "HARNESS-ERROR bad case".into(),
    }
}

fn main() {
    runner::main_loop(run);
}
