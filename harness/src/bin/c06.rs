//! C06: MemoryBoundedQueue under concurrent producers / consumers; prints the hook log (lock order = linearisation
//! order) of one scenario, what every thread observed, and the final state.  The line is replayed through the
//! extracted Coq model by ocaml/c06/driver.ml (checks/c06.py: model_cases) and judged by the python oracle.
//!
//! case:  run <sched_seed> <cap hex> <closemode> <script of thread 1> <script of thread 2> ...
//!   closemode  n = the main thread never closes, j = closes after joining all threads, d<us> = closes after <us> us
//!   script     comma separated ops: P<prio>:<size hex> push, Q<prio>:<size hex> try_push, G pull, H try_pull,
//!              C close, Z<us> sleep
//!   item pushed by op number i (0-based, sleeps counted) of thread t: (prio, id = 1000 * t + i); Ord by prio only
//! line:  F <len> <current_size hex> <closed> | ev;ev;...  | <results of thread 1> <results of thread 2> ...
//!   ev         KIND,tid[,seq],[size hex]   (as logged by memory_bounded_queue.rs, numbers re-printed in hex)
//!   results    per op: o ok, c closed, b would block, n none, <prio>:<id> item received, - close / sleep
#[path = "../runner.rs"]
mod runner;
#[path = "../util.rs"]
mod util;
use ragc_core::verif_hooks as vh;
use ragc_core::MemoryBoundedQueue;
use std::cmp::Ordering;
use std::io::Write;
use std::sync::atomic::{AtomicUsize, Ordering as AO};
use std::sync::{Arc, Barrier};
use std::time::{Duration, Instant};

#[derive(Debug, Clone, Copy)]
struct It {
    prio: i64,
    id: u64,
}
impl Ord for It {
    fn cmp(&self, o: &Self) -> Ordering {
        self.prio.cmp(&o.prio)
    }
}
impl PartialOrd for It {
    fn partial_cmp(&self, o: &Self) -> Option<Ordering> {
        Some(self.cmp(o))
    }
}
impl PartialEq for It {
    fn eq(&self, o: &Self) -> bool {
        self.prio == o.prio
    }
}
impl Eq for It {}

struct DoneGuard(Arc<AtomicUsize>);
impl Drop for DoneGuard {
    fn drop(&mut self) {
        self.0.fetch_add(1, AO::SeqCst);
    }
}

#[derive(Clone, Debug)]
enum Op {
    Push(i64, usize),
    TryPush(i64, usize),
    Pull,
    TryPull,
    Close,
    Sleep(u64),
}

fn parse_script(s: &str) -> Option<Vec<Op>> {
    let mut v = vec![];
    for o in s.split(',') {
        let (h, r) = o.split_at(1);
        let ps = |r: &str| -> Option<(i64, usize)> {
            let (p, z) = r.split_once(':')?;
            Some((p.parse().ok()?, usize::from_str_radix(z, 16).ok()?))
        };
        v.push(match h {
            "P" => {
                let (p, z) = ps(r)?;
                Op::Push(p, z)
            }
            "Q" => {
                let (p, z) = ps(r)?;
                Op::TryPush(p, z)
            }
            "G" => Op::Pull,
            "H" => Op::TryPull,
            "C" => Op::Close,
            "Z" => Op::Sleep(r.parse().ok()?),
            _ => return None,
        });
    }
    Some(v)
}

fn fmt_item(x: Option<It>) -> String {
    match x {
        Some(i) => format!("{}:{}", i.prio, i.id),
        None => "n".into(),
    }
}

fn fmt_log(log: &[String]) -> String {
    if log.is_empty() {
        return "-".into();
    }
    log.iter()
        .map(|e| {
            let mut it = e.split(' ');
            let mut s = it.next().unwrap().to_string();
            for n in it {
                s.push(',');
                s.push_str(&format!("{:x}", n.parse::<u64>().unwrap()));
            }
            s
        })
        .collect::<Vec<_>>()
        .join(";")
}

pub fn run(t: &[&str]) -> String {
    if t.len() < 5 || t[0] != "run" {
        return "HARNESS-ERROR bad case".into();
    }
    let seed: u64 = match t[1].parse() {
        Ok(x) => x,
        Err(_) => return "HARNESS-ERROR bad seed".into(),
    };
    let cap = match usize::from_str_radix(t[2], 16) {
        Ok(x) => x,
        Err(_) => return "HARNESS-ERROR bad cap".into(),
    };
    let mode = t[3].to_string();
    let mut scripts = vec![];
    for s in &t[4..] {
        match parse_script(s) {
            Some(v) => scripts.push(v),
            None => return "HARNESS-ERROR bad script".into(),
        }
    }
    let nthr = scripts.len();
    let q: MemoryBoundedQueue<It> = MemoryBoundedQueue::new(cap);
    let _ = vh::take_log();
    vh::set_tid(0);
    vh::set_scheduler(seed);
    vh::enable_log(true);
    let start = Arc::new(Barrier::new(nthr + 1));
    let done = Arc::new(AtomicUsize::new(0));
    let mut handles = vec![];
    for (ti, script) in scripts.into_iter().enumerate() {
        let q = q.clone();
        let start = Arc::clone(&start);
        let done = Arc::clone(&done);
        let tid = ti as u64 + 1;
        handles.push(std::thread::spawn(move || {
            vh::set_tid(tid);
            let _guard = DoneGuard(done);
            start.wait();
            let mut res: Vec<String> = vec![];
            for (i, op) in script.iter().enumerate() {
                vh::yield_point(i as u32);
                let id = 1000 * tid + i as u64;
                res.push(match op {
                    Op::Push(p, z) => match q.push(It { prio: *p, id }, *z) {
                        Ok(()) => "o".into(),
                        Err(_) => "c".into(),
                    },
                    Op::TryPush(p, z) => match q.try_push(It { prio: *p, id }, *z) {
                        Ok(()) => "o".into(),
                        Err(ragc_core::memory_bounded_queue::TryPushError::Closed) => "c".into(),
                        Err(ragc_core::memory_bounded_queue::TryPushError::WouldBlock) => "b".into(),
                    },
                    Op::Pull => fmt_item(q.pull()),
                    Op::TryPull => fmt_item(q.try_pull()),
                    Op::Close => {
                        q.close();
                        "-".into()
                    }
                    Op::Sleep(us) => {
                        std::thread::sleep(Duration::from_micros(*us));
                        "-".into()
                    }
                });
            }
            res.join(",")
        }));
    }
    start.wait();
    if let Some(us) = mode.strip_prefix('d') {
        let us: u64 = us.parse().unwrap_or(0);
        if us > 0 {
            std::thread::sleep(Duration::from_micros(us));
        }
        vh::yield_point(9999);
        q.close();
    }
    // watchdog: no scenario here can legitimately block for long (after close nobody may stay blocked;
    // the balanced scenarios without close always have a runnable thread)
    let t0 = Instant::now();
    while done.load(AO::SeqCst) < nthr {
        if t0.elapsed() > Duration::from_secs(20) {
            vh::enable_log(false);
            let log = vh::take_log();
            let line = format!(
                "HANG {} of {} threads finished | F {} {:x} {} | {}",
                done.load(AO::SeqCst),
                nthr,
                q.len(),
                q.current_size(),
                util::b2s(q.is_closed()),
                fmt_log(&log)
            );
            // the stuck threads cannot be killed: report and leave (the runner re-runs the remaining cases)
            println!("{}", line);
            std::io::stdout().flush().ok();
            std::process::exit(3);
        }
        std::thread::sleep(Duration::from_micros(50));
    }
    let mut results = vec![];
    for h in handles {
        match h.join() {
            Ok(s) => results.push(s),
            Err(e) => results.push(format!("PANIC:{}", runner::panic_msg(&e).replace(' ', "_"))),
        }
    }
    if mode == "j" {
        q.close();
    }
    vh::enable_log(false);
    vh::set_scheduler(0);
    let log = vh::take_log();
    format!(
        "F {} {:x} {} | {} | {}",
        q.len(),
        q.current_size(),
        util::b2s(q.is_closed()),
        fmt_log(&log),
        results.join(" ")
    )
}

fn main() {
    runner::main_loop(run);
}
