//! C19: invariance under presentation. The case language and all the code are shared with C16 (same model,
//! Fasta.v): parse / fname / rd / pr / stream on the library, cli / shas / pairv on the real `ragc` binary.
#[path = "c16.rs"]
#[allow(dead_code)]
mod fasta_cases;
#[path = "../runner.rs"]
mod runner;

fn main() {
    runner::main_loop(fasta_cases::run);
}
