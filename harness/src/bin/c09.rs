//! C09: LZ-diff encode/decode. Same case language as ocaml/c09/driver.ml
#[path = "../runner.rs"]
mod runner;
#[path = "../util.rs"]
mod util;
use ragc_common::hash::MurMur64Hash;
use ragc_core::lz_diff::LZDiff;
use std::panic;
use util::*;

/// true when the crate under test was built with overflow checks (the profile the Coq model transcribes)
fn overflow_checks_on() -> bool {
    panic::catch_unwind(|| {
        let a: u32 = std::hint::black_box(0);
        std::hint::black_box(a - std::hint::black_box(1));
    })
    .is_err()
}

/// Inputs on which the release profile (wrapping arithmetic) is not modelled: min_match_len < 4 (key_len
/// wraps to ~2^32, prepare would allocate gigabytes) and target bytes > 190 (b'A' + base wraps in u8).
/// They are reported as PANIC, which is what the dev profile (and the model) answers.
fn release_unmodelled(t: &[&str]) -> bool {
    if overflow_checks_on() || std::env::var_os("C09_NO_GUARD").is_some() {
        return false;
    }
    let small = |m: &str| m.parse::<u32>().map(|m| m < 4).unwrap_or(false);
    match t {
        ["enc", m, _, tg] => small(m) || unhex(tg).iter().any(|&b| b > 190),
        ["enc0", m, tg] => small(m) || unhex(tg).iter().any(|&b| b > 190),
        ["dec", m, ..] | ["est", m, ..] | ["cost", m, ..] => small(m),
        _ => false,
    }
}

pub fn run(t: &[&str]) -> String {
    if release_unmodelled(t) {
        return "PANIC (release profile: input outside the modelled dev-profile arithmetic)".into();
    }
    match t {
        ["enc", m, r, tg] => {
            let m: u32 = m.parse().unwrap();
            let (r, tg) = (unhex(r), unhex(tg));
            let mut lz = LZDiff::new(m);
            lz.prepare(&r);
            let e = lz.encode(&tg);
            // the decompressor's wrapper (decompressor.rs): new, prepare, empty delta => reference
            let d = panic::catch_unwind(|| {
                let mut lz2 = LZDiff::new(m);
                lz2.prepare(&r);
                if e.is_empty() { r.clone() } else { lz2.decode(&e) }
            });
            match d {
                Ok(d) => format!("E {} D {}", hex(&e), hex(&d)),
                Err(_) => format!("E {} D PANIC", hex(&e)),
            }
        }
        ["dec", m, r, s] => {
            let mut lz = LZDiff::new(m.parse().unwrap());
            lz.prepare(&unhex(r));
            format!("D {}", hex(&lz.decode(&unhex(s))))
        }
        ["enc0", m, tg] => {
            let mut lz = LZDiff::new(m.parse().unwrap());
            format!("E {}", hex(&lz.encode(&unhex(tg))))
        }
        ["est", m, r, tg, bound] => {
            let mut lz = LZDiff::new(m.parse().unwrap());
            lz.prepare(&unhex(r));
            format!("{}", lz.estimate(&unhex(tg), bound.parse().unwrap()))
        }
        ["cost", m, r, tg, pre] => {
            let mut lz = LZDiff::new(m.parse().unwrap());
            lz.prepare(&unhex(r));
            let v = lz.get_coding_cost_vector(&unhex(tg), *pre == "1");
            if v.is_empty() { "-".into() } else { v.iter().map(|x| x.to_string()).collect::<Vec<_>>().join(",") }
        }
        ["hash", v] => format!("{:x}", MurMur64Hash::hash(u64::from_str_radix(v, 16).unwrap())),
        _ => "HARNESS-ERROR bad case".into(),
    }
}

fn main() {
    // decode_match reports malformed input with eprintln! before panicking: keep stderr out of the result stream
    unsafe {
        let fd = libc::open(b"/dev/null\0".as_ptr() as *const libc::c_char, libc::O_WRONLY);
        if fd >= 0 {
            libc::dup2(fd, 2);
        }
    }
    runner::main_loop(run);
}
