//! C09: LZ-diff encode/decode. Same case language as ocaml/c09/driver.ml
#[path = "../runner.rs"]
mod runner;
#[path = "../util.rs"]
mod util;
use ragc_common::hash::MurMur64Hash;
use ragc_core::lz_diff::LZDiff;
use std::panic;
use util::*;

pub fn run(t: &[&str]) -> String {
    match t {
        ["enc", m, r, tg] => {
            let m: u32 = m.parse().unwrap();
            let (r, tg) = (unhex(r), unhex(tg));
            let mut lz = LZDiff::new(m);
            lz.prepare(&r);
            let e = lz.encode(&tg);
            // the decompressor's wrapper (decompressor.rs): new, prepare, empty delta => reference
            let d = panic::catch_unwind(|| {
                let mut lz2 = LZDiff::new(m);
                lz2.prepare(&r);
                if e.is_empty() { r.clone() } else { lz2.decode(&e) }
            });
            match d {
                Ok(d) => format!("E {} D {}", hex(&e), hex(&d)),
                Err(_) => format!("E {} D PANIC", hex(&e)),
            }
        }
        ["dec", m, r, s] => {
            let mut lz = LZDiff::new(m.parse().unwrap());
            lz.prepare(&unhex(r));
            format!("D {}", hex(&lz.decode(&unhex(s))))
        }
        ["enc0", m, tg] => {
            let mut lz = LZDiff::new(m.parse().unwrap());
            format!("E {}", hex(&lz.encode(&unhex(tg))))
        }
        ["hash", v] => format!("{:x}", MurMur64Hash::hash(u64::from_str_radix(v, 16).unwrap())),
        _ => "HARNESS-ERROR bad case".into(),
    }
}

fn main() {
    // decode_match reports malformed input with eprintln! before panicking: keep stderr out of the result stream
    unsafe {
        let fd = libc::open(b"/dev/null\0".as_ptr() as *const libc::c_char, libc::O_WRONLY);
        if fd >= 0 {
            libc::dup2(fd, 2);
        }
    }
    runner::main_loop(run);
}
