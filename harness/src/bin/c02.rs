//! C02 addressing rules / C01 group store (implementation side).  case:  gs <dir> <params k,s,m,pack,threads,qcap,ff>
//! Creates a real archive from the case directory (mk::create, exactly as ragc-cli drives the compressor), then
//! through the public API only (ragc_common::Archive for the parts, ragc_core::Decompressor for the descriptor
//! table and the decoded stored segments) prints, per segment group in ascending id order:
//!   G <gid> <n ref parts|-> <n delta parts|->            ("-": no stream of that name)
//!   R <meta>:<marker|->:<stored len>:<clen>:<cmarker>:<hex unpacked>       one per part of x<id>r
//!   P <meta>:<marker|->:<stored len>:<clen>:<cmarker>:<hex unpacked>       one per part of x<id>d
//!   D <sample hex>:<contig hex>:<seg index>:<in_group_id>:<rc>:<raw_length>:<hex stored bytes as decoded>
//! marker = last stored byte when meta != 0; unpacked = the part itself (meta 0) or
//! decompress_segment_with_marker(stored minus marker, marker); clen/cmarker = length (marker included) and
//! marker of the real compressor re-run on the unpacked bytes (compress_reference_segment for R,
//! compress_segment_configured at the default level for P) - this is what the writer compared with the raw length.
//! The line starts with  OK mml=<min_match_len> k=<k> x=<number of x* streams>.
#[path = "../mk.rs"]
mod mk;
#[path = "../runner.rs"]
mod runner;
#[path = "../util.rs"]
mod util;
use ragc_common::{stream_delta_name, stream_ref_name, Archive, AGC_FILE_MAJOR, AGC_FILE_MINOR};
use ragc_core::segment_compression::{
    compress_reference_segment, compress_segment_configured, decompress_segment_with_marker,
};
use ragc_core::{Decompressor, DecompressorConfig, StreamingQueueConfig};
use std::collections::{BTreeMap, BTreeSet};
use util::*;

fn base64_id(s: &str) -> Option<u32> {
    const DIGITS: &[u8; 64] = b"0123456789ABCDEFGHIJKLMNOPQRSTUVWXYZabcdefghijklmnopqrstuvwxyz_#";
    let mut v: u64 = 0;
    for (i, c) in s.bytes().enumerate() {
        let d = DIGITS.iter().position(|&x| x == c)? as u64;
        v += d << (6 * i as u64);
    }
    if v <= u32::MAX as u64 { Some(v as u32) } else { None }
}

fn part_token(kind: &str, data: Vec<u8>, meta: u64, is_ref: bool, level: i32) -> anyhow::Result<String> {
    let slen = data.len();
    let (marker, unpacked) = if meta == 0 {
        ("-".to_string(), data)
    } else {
        if data.is_empty() {
            anyhow::bail!("empty part with metadata {}", meta);
        }
        let m = *data.last().unwrap();
        (format!("{}", m), decompress_segment_with_marker(&data[..data.len() - 1], m)?)
    };
    let (clen, cmarker) = if is_ref {
        let (c, m) = compress_reference_segment(&unpacked)?;
        (c.len() + 1, m)
    } else {
        (compress_segment_configured(&unpacked, level)?.len() + 1, 0u8)
    };
    Ok(format!("{} {}:{}:{}:{}:{}:{}", kind, meta, marker, slen, clen, cmarker, hex(&unpacked)))
}

fn dump(path: &str) -> anyhow::Result<String> {
    let ver = AGC_FILE_MAJOR * 1000 + AGC_FILE_MINOR;
    let level = StreamingQueueConfig::default().compression_level;
    let mut d = Decompressor::open(path, DecompressorConfig { verbosity: 0 })?;
    let mut ar = Archive::new_reader();
    ar.open(path)?;
    let mut out = vec![format!("mml={} k={}", d.min_match_len, d.kmer_length)];
    // descriptors per group, in catalogue order
    let mut by_group: BTreeMap<u32, Vec<String>> = BTreeMap::new();
    for (sample, contig, descs) in d.get_all_segments()? {
        for (i, desc) in descs.iter().enumerate() {
            let stored = d.get_segment_data_by_desc(desc)?;
            by_group.entry(desc.group_id).or_default().push(format!(
                "D {}:{}:{}:{}:{}:{}:{}",
                hex(sample.as_bytes()),
                hex(contig.as_bytes()),
                i,
                desc.in_group_id,
                b2s(desc.is_rev_comp),
                desc.raw_length,
                hex(&stored)
            ));
        }
    }
    // groups that have a stream
    let mut gids: BTreeSet<u32> = by_group.keys().cloned().collect();
    let mut nx = 0usize;
    for name in ar.get_stream_names() {
        if name.starts_with('x') && (name.ends_with('d') || name.ends_with('r')) && name.len() >= 3 {
            nx += 1;
            match base64_id(&name[1..name.len() - 1]) {
                Some(g) => {
                    gids.insert(g);
                }
                None => anyhow::bail!("unparsable segment stream name {}", name),
            }
        }
    }
    out[0] = format!("{} x={}", out[0], nx);
    for g in gids {
        let rs = ar.get_stream_id(&stream_ref_name(ver, g));
        let ds = ar.get_stream_id(&stream_delta_name(ver, g));
        let cnt = |s: Option<usize>, ar: &Archive| match s {
            Some(id) => format!("{}", ar.get_num_parts(id)),
            None => "-".to_string(),
        };
        out.push(format!("G {} {} {}", g, cnt(rs, &ar), cnt(ds, &ar)));
        if let Some(id) = rs {
            for p in 0..ar.get_num_parts(id) {
                let (data, meta) = ar.get_part_by_id(id, p)?;
                out.push(part_token("R", data, meta, true, level)?);
            }
        }
        if let Some(id) = ds {
            for p in 0..ar.get_num_parts(id) {
                let (data, meta) = ar.get_part_by_id(id, p)?;
                out.push(part_token("P", data, meta, false, level)?);
            }
        }
        if let Some(v) = by_group.get(&g) {
            out.extend(v.iter().cloned());
        }
    }
    Ok(out.join(" "))
}

fn run(t: &[&str]) -> String {
    match t {
        ["gs", dir, params] => {
            let p = mk::Params::parse(params);
            let out = format!("{}/out.agc", dir);
            let _ = std::fs::remove_file(&out);
            if let Err(e) = mk::create(&out, &mk::case_inputs(dir), &p) {
                return format!("CREATE-ERR {}", format!("{:#}", e).replace('\n', " "));
            }
            match dump(&out) {
                Ok(c) => format!("OK {}", c),
                Err(e) => format!("DUMP-ERR {}", format!("{:#}", e).replace('\n', " ")),
            }
        }
        _ => "HARNESS-ERROR bad case".into(),
    }
}

fn main() {
    if std::env::var("VERIF_PANIC_VERBOSE").is_err() {
        unsafe {
            let fd = libc::open(b"/dev/null\0".as_ptr() as *const libc::c_char, libc::O_WRONLY);
            if fd >= 0 {
                libc::dup2(fd, 2);
            }
        }
    }
    runner::main_loop(run);
}
