//! C05: the compression pipeline terminates.  Drives the REAL StreamingQueueCompressor (producer = this harness,
//! N worker threads + bounded priority queue + std Barrier inside ragc-core) through one script, under the
//! seeded perturbation scheduler, with a watchdog, and prints the hook log (queue records are written under the
//! queue lock, pipeline records by the thread that acts).  The log is replayed through the extracted Coq model by
//! ocaml/c05/driver.ml (checks/c05.py: model_cases) and judged by the python oracle.
//!
//! case:  run <sched_seed> <threads> <cap hex> <mode> <pack> <script>
//!   mode    s = concatenated_genomes (single-file: N sync tokens every <pack> contigs), m = multi-file
//!   script  comma separated calls in program order: c<sample>:<size> = push(sample S<sample>, contig c<i>, <size>
//!           random ACGT symbols), d = drain(), s = sync_and_flush(); finalize() is always called at the end
//!   MODE    upper case (S / M): wait until finalize() has returned (it spends seconds in zstd level-22 context
//!           resets while writing the catalogue, sequential code after the last join); lower case: stop the run as
//!           soon as "P JOINED" is logged (every worker joined).  Each case runs in a forked child process, so a
//!           hung or abandoned run never disturbs the next case.
//! line:  DONE <maxgap_us> <ms> | ev;ev;...      (finalize returned Ok)
//!        JOINED <maxgap_us> <ms> | ev;ev;...    (lower-case mode: all workers joined, run abandoned there)
//!        HANG <quiet_ms> | ev;...               (no record was written for HANG_SECS = 60 s)
//!        SKIP hang-budget                       (two runs of this process already hung)
//!   ev      the log record with ' ' -> ',', TAB -> '/', U+0001 -> '+'
#[path = "../runner.rs"]
mod runner;
#[path = "../util.rs"]
mod util;
use ragc_core::verif_hooks as vh;
use ragc_core::{StreamingQueueCompressor, StreamingQueueConfig};
use std::sync::atomic::{AtomicBool, Ordering as AO};
use std::sync::Arc;
use std::time::{Duration, Instant};

#[derive(Clone, Debug)]
enum Call {
    Push(usize, usize),
    Drain,
    Sync,
}

fn parse_script(s: &str) -> Option<Vec<Call>> {
    let mut v = vec![];
    if s == "-" {
        return Some(v);
    }
    for o in s.split(',') {
        v.push(match o {
            "d" => Call::Drain,
            "s" => Call::Sync,
            _ => {
                let r = o.strip_prefix('c')?;
                let (a, b) = r.split_once(':')?;
                Call::Push(a.parse().ok()?, b.parse().ok()?)
            }
        });
    }
    Some(v)
}

fn enc(e: &str) -> String {
    e.chars()
        .map(|c| match c {
            ' ' => ',',
            '\t' => '/',
            '\u{1}' => '+',
            ';' | '|' => '?',
            c => c,
        })
        .collect()
}

fn fmt_log(log: &[String]) -> String {
    if log.is_empty() {
        return "-".into();
    }
    log.iter().map(|e| enc(e)).collect::<Vec<_>>().join(";")
}

/// quiet time after which a run is declared hung; observed maximum gap between two records in finished runs
/// is 0.1 s (drain poll period) on an idle machine and 2.6 s with all 16 cores oversubscribed - 20x margin
const HANG_SECS: u64 = 60;

/// hung runs seen by this process: after HANG_BUDGET of them the remaining cases of the shard are skipped (each
/// hung run costs HANG_SECS; the violation is already established and reported)
static HANGS: std::sync::atomic::AtomicUsize = std::sync::atomic::AtomicUsize::new(0);
const HANG_BUDGET: usize = 2;

/// fork, run the scenario in the child, hand the result line back through a pipe
pub fn run(t: &[&str]) -> String {
    if HANGS.load(AO::SeqCst) >= HANG_BUDGET {
        return "SKIP hang-budget".into();
    }
    unsafe {
        let mut fds = [0i32; 2];
        if libc::pipe(fds.as_mut_ptr()) != 0 {
            return "HARNESS-ERROR pipe".into();
        }
        let pid = libc::fork();
        if pid < 0 {
            return "HARNESS-ERROR fork".into();
        }
        if pid == 0 {
            libc::close(fds[0]);
            let r = std::panic::catch_unwind(|| scenario(t));
            let line = match r {
                Ok(s) => s,
                Err(e) => format!("PANIC {}", runner::panic_msg(&e).replace('\n', " ")),
            };
            let b = line.as_bytes();
            let mut off = 0;
            while off < b.len() {
                let n = libc::write(fds[1], b[off..].as_ptr() as *const libc::c_void, b.len() - off);
                if n <= 0 {
                    break;
                }
                off += n as usize;
            }
            libc::_exit(0);
        }
        libc::close(fds[1]);
        let mut out: Vec<u8> = vec![];
        let mut buf = [0u8; 65536];
        loop {
            let n = libc::read(fds[0], buf.as_mut_ptr() as *mut libc::c_void, buf.len());
            if n <= 0 {
                break;
            }
            out.extend_from_slice(&buf[..n as usize]);
        }
        libc::close(fds[0]);
        let mut st = 0i32;
        libc::waitpid(pid, &mut st, 0);
        if out.is_empty() {
            return format!("CRASH child status {}", st);
        }
        let line = String::from_utf8_lossy(&out).replace('\n', " ");
        if line.starts_with("HANG") {
            HANGS.fetch_add(1, AO::SeqCst);
        }
        line
    }
}

fn scenario(t: &[&str]) -> String {
    if t.len() != 7 || t[0] != "run" {
        return "HARNESS-ERROR bad case".into();
    }
    let seed: u64 = match t[1].parse() {
        Ok(x) => x,
        Err(_) => return "HARNESS-ERROR bad seed".into(),
    };
    let threads: usize = match t[2].parse() {
        Ok(x) if x >= 1 && x <= 64 => x,
        _ => return "HARNESS-ERROR bad threads".into(),
    };
    let cap = match usize::from_str_radix(t[3], 16) {
        Ok(x) => x,
        Err(_) => return "HARNESS-ERROR bad cap".into(),
    };
    let (concat, full) = match t[4] {
        "s" => (true, false),
        "m" => (false, false),
        "S" => (true, true),
        "M" => (false, true),
        _ => return "HARNESS-ERROR bad mode".into(),
    };
    let pack: usize = match t[5].parse() {
        Ok(x) if x >= 1 => x,
        _ => return "HARNESS-ERROR bad pack".into(),
    };
    let script = match parse_script(t[6]) {
        Some(v) => v,
        None => return "HARNESS-ERROR bad script".into(),
    };
    let base = if std::path::Path::new("/dev/shm").is_dir() { "/dev/shm" } else { "/verif/.cache/tmp" };
    let dir = match tempfile::Builder::new().prefix("c05-").tempdir_in(base) {
        Ok(d) => d,
        Err(e) => return format!("HARNESS-ERROR tempdir {}", e),
    };
    let out = dir.path().join("out.agc").to_string_lossy().to_string();
    let config = StreamingQueueConfig {
        k: 21,
        segment_size: 1000,
        min_match_len: 20,
        compression_level: 3,
        num_threads: threads,
        queue_capacity: cap,
        verbosity: std::env::var("C05_VERB").ok().and_then(|v| v.parse().ok()).unwrap_or(0),
        adaptive_mode: false,
        fallback_frac: 0.0,
        batch_size: 50,
        pack_size: pack,
        concatenated_genomes: concat,
    };
    let _ = vh::take_log();
    vh::set_scheduler(seed);
    vh::enable_log(true);
    let finished = Arc::new(AtomicBool::new(false));
    let fin2 = Arc::clone(&finished);
    let t0 = Instant::now();
    let handle = std::thread::spawn(move || -> Result<(), String> {
        struct Fin(Arc<AtomicBool>);
        impl Drop for Fin {
            fn drop(&mut self) {
                self.0.store(true, AO::SeqCst);
            }
        }
        let _fin = Fin(fin2);
        vh::set_tid(0);
        // xorshift for the contig content (content is irrelevant to the protocol; empty splitter set)
        let mut x: u64 = seed.wrapping_mul(0x9E37_79B9_7F4A_7C15) | 1;
        let mut c = StreamingQueueCompressor::with_splitters(&out, config, Default::default())
            .map_err(|e| format!("with_splitters: {:#}", e))?;
        let mut idx = 0usize;
        for call in &script {
            vh::yield_point(20);
            match call {
                Call::Push(sample, size) => {
                    let data: Vec<u8> = (0..*size)
                        .map(|_| {
                            x ^= x << 13;
                            x ^= x >> 7;
                            x ^= x << 17;
                            (x >> 33) as u8 & 3
                        })
                        .collect();
                    c.push(format!("S{}", sample), format!("c{}", idx), data).map_err(|e| format!("push: {:#}", e))?;
                    idx += 1;
                }
                Call::Drain => c.drain().map_err(|e| format!("drain: {:#}", e))?,
                Call::Sync => c.sync_and_flush("X").map_err(|e| format!("sync_and_flush: {:#}", e))?,
            }
        }
        vh::yield_point(21);
        c.finalize().map_err(|e| format!("finalize: {:#}", e))?;
        Ok(())
    });
    // watchdog: collect the log while the scenario runs; no new record for HANG_SECS = hung
    let mut log: Vec<String> = vec![];
    let mut last = Instant::now();
    let mut maxgap = Duration::ZERO;
    loop {
        let done = finished.load(AO::SeqCst);
        let mut new = vh::take_log();
        if !new.is_empty() {
            let g = last.elapsed();
            if g > maxgap {
                maxgap = g;
            }
            last = Instant::now();
            log.append(&mut new);
        }
        if done {
            break;
        }
        if !full && log.last().map(|e| e == "P JOINED").unwrap_or(false) {
            // every worker joined; what remains of finalize() is sequential catalogue writing
            vh::enable_log(false);
            return format!("JOINED {} {} | {}", maxgap.as_micros(), t0.elapsed().as_millis(), fmt_log(&log));
        }
        // after "P JOINED" only sequential catalogue writing remains (seconds of zstd context resets, more under load)
        let joined = log.last().map(|e| e == "P JOINED").unwrap_or(false);
        if last.elapsed() > Duration::from_secs(if joined { 30 * HANG_SECS } else { HANG_SECS }) {
            vh::enable_log(false);
            // the stuck threads cannot be killed: report and leave (this is a forked child)
            return format!("HANG {} | {}", last.elapsed().as_millis(), fmt_log(&log));
        }
        std::thread::sleep(Duration::from_micros(500));
    }
    let res = handle.join();
    vh::enable_log(false);
    vh::set_scheduler(0);
    log.append(&mut vh::take_log());
    let ms = t0.elapsed().as_millis();
    drop(dir);
    match res {
        Ok(Ok(())) => format!("DONE {} {} | {}", maxgap.as_micros(), ms, fmt_log(&log)),
        Ok(Err(e)) => format!("ERROR {} | {}", e.replace(' ', "_").replace('|', "?"), fmt_log(&log)),
        Err(e) => format!("PANIC {} | {}", runner::panic_msg(&e).replace(' ', "_").replace('|', "?"), fmt_log(&log)),
    }
}

fn main() {
    runner::main_loop(run);
}
