//! C02B whole-archive spec decoder (implementation side).
//!   dec <dir> <params k,s,m,pack,threads,qcap,ff>
//!       create a real archive from the case directory (mk::create, exactly as ragc-cli drives the compressor), then print
//!         OK CAT <catalogue> ST <shape counters> FILE <hex of the .agc bytes> ZT <frame hex>=<decompressed hex> ...
//!       catalogue = ragc's own extraction (Decompressor::list_samples / get_sample), per sample
//!         S <sample name hex> <number of contigs> { <contig name hex>:<bases, one char 'A'+code per base, "-" if empty> }*
//!       ZT = every zstd frame of the archive, decompressed here with the zstd crate (the model's only oracle):
//!         collection-samples / -contigs parts (bare frames), the 5 frames inside every collection-details part (after
//!         its 10 prefix varints), every x* part with metadata != 0 minus its marker byte.
//!   mut <dir> <params> <kind> <seed>
//!       same, but the archive is first re-serialised through ragc_common::Archive with one rule broken
//!       (kinds below); ragc's reader may then fail:  ERR CAT - FILE .. ZT ..   (or PANIC ...)
//! ST = counters for the evidence (reference parts plain / tuple-packed / raw, packs raw / compressed, groups with
//! several packs, catalogue batches, reverse-complemented descriptors, largest symbol code).
//! Everything after " FILE " is input for the extracted decoder (checks/c02b.py model_cases), not compared.
#[path = "../mk.rs"]
mod mk;
#[path = "../runner.rs"]
mod runner;
#[path = "../util.rs"]
mod util;
use ragc_common::Archive;
use ragc_core::{Decompressor, DecompressorConfig};
use std::collections::BTreeMap;
use util::*;

fn code_chars(codes: &[u8]) -> String {
    if codes.is_empty() {
        return "-".into();
    }
    codes.iter().map(|&b| if b < 60 { (b'A' + b) as char } else { '~' }).collect()
}

fn catalogue(path: &str) -> anyhow::Result<String> {
    let mut d = Decompressor::open(path, DecompressorConfig { verbosity: 0 })?;
    let mut out = Vec::new();
    for s in d.list_samples() {
        let contigs = d.get_sample(&s)?;
        out.push(format!("S {} {}", hex(s.as_bytes()), contigs.len()));
        for (name, seq) in contigs.iter() {
            out.push(format!("{}:{}", hex(name.as_bytes()), code_chars(seq)));
        }
    }
    Ok(out.join(" "))
}

/// length in bytes of a CollectionVarInt by its first byte (prefix code 0 / 10 / 110 / 1110 / 1111)
fn cv_len(b: u8) -> usize {
    if b < 0x80 { 1 } else if b < 0xC0 { 2 } else if b < 0xE0 { 3 } else if b < 0xF0 { 4 } else { 5 }
}

fn cv_value(p: &[u8]) -> Option<(u32, usize)> {
    let n = cv_len(*p.first()?);
    if p.len() < n {
        return None;
    }
    let (thr, mask): (u64, u8) = match n {
        1 => (0, 0x7f),
        2 => (128, 0x3f),
        3 => (128 + 16384, 0x1f),
        4 => (128 + 16384 + 2097152, 0x0f),
        _ => (128 + 16384 + 2097152 + 268435456, 0),
    };
    let mut v: u64 = if n == 5 { 0 } else { (p[0] & mask) as u64 };
    for &b in &p[1..n] {
        v = (v << 8) | b as u64;
    }
    Some(((v + thr) as u32, n))
}

type Streams = Vec<(String, Vec<(Vec<u8>, u64)>)>;

fn read_streams(path: &str) -> anyhow::Result<Streams> {
    let mut ar = Archive::new_reader();
    ar.open(path)?;
    let mut out = Vec::new();
    for (sid, name) in ar.get_stream_names().into_iter().enumerate() {
        let mut parts = Vec::new();
        for p in 0..ar.get_num_parts(sid) {
            parts.push(ar.get_part_by_id(sid, p)?);
        }
        out.push((name, parts));
    }
    Ok(out)
}

fn write_streams(path: &str, st: &Streams) -> anyhow::Result<()> {
    let _ = std::fs::remove_file(path);
    let mut ar = Archive::new_writer();
    ar.open(path)?;
    for (name, _) in st {
        ar.register_stream(name);
    }
    for (sid, (_, parts)) in st.iter().enumerate() {
        for (d, m) in parts {
            ar.add_part(sid, d, *m)?;
        }
    }
    ar.close()?;
    Ok(())
}

fn is_seg_stream(name: &str) -> bool {
    name.starts_with('x') && name.len() >= 3 && (name.ends_with('r') || name.ends_with('d'))
}

/// the zstd frames of one part (best effort: a corrupted archive simply yields fewer frames)
fn frames_of(name: &str, data: &[u8], meta: u64) -> Vec<Vec<u8>> {
    let mut v = Vec::new();
    if data.is_empty() {
        return v;
    }
    if name == "collection-samples" || name == "collection-contigs" {
        v.push(data.to_vec());
    } else if name == "collection-details" {
        let mut pos = 0usize;
        let mut sizes = Vec::new();
        for _ in 0..10 {
            match cv_value(&data[pos..]) {
                Some((x, n)) => {
                    sizes.push(x as usize);
                    pos += n;
                }
                None => return v,
            }
        }
        for i in 0..5 {
            let cs = sizes[2 * i + 1];
            if pos + cs > data.len() {
                return v;
            }
            v.push(data[pos..pos + cs].to_vec());
            pos += cs;
        }
    } else if is_seg_stream(name) && meta != 0 && data.len() >= 2 {
        v.push(data[..data.len() - 1].to_vec());
    }
    v
}

fn ztable(st: &Streams) -> String {
    let mut tbl: BTreeMap<Vec<u8>, Vec<u8>> = BTreeMap::new();
    for (name, parts) in st {
        for (d, m) in parts {
            for f in frames_of(name, d, *m) {
                if let Ok(x) = zstd::decode_all(&f[..]) {
                    tbl.insert(f, x);
                }
            }
        }
    }
    let mut s = String::new();
    for (f, x) in tbl {
        s.push(' ');
        s.push_str(&hex(&f));
        s.push('=');
        s.push_str(&hex(&x));
    }
    s
}

// ------------------------------------------------------------------------------------------------ mutations
struct Rng(u64);
impl Rng {
    fn next(&mut self) -> u64 {
        self.0 ^= self.0 << 13;
        self.0 ^= self.0 >> 7;
        self.0 ^= self.0 << 17;
        self.0
    }
    fn below(&mut self, n: usize) -> usize {
        (self.next() % (n.max(1) as u64)) as usize
    }
}

/// a segment part -> (unpacked bytes, marker or None when stored raw)
fn unpack(d: &[u8], m: u64) -> Option<(Vec<u8>, Option<u8>)> {
    if m == 0 {
        return Some((d.to_vec(), None));
    }
    let marker = *d.last()?;
    let raw = ragc_core::segment_compression::decompress_segment_with_marker(&d[..d.len() - 1], marker).ok()?;
    Some((raw, Some(marker)))
}

/// store bytes again: compressed (plain zstd, marker 0, metadata = length) unless `raw`
fn repack(raw_bytes: &[u8], raw: bool) -> (Vec<u8>, u64) {
    if raw || raw_bytes.is_empty() {
        return (raw_bytes.to_vec(), 0);
    }
    let mut c = zstd::encode_all(raw_bytes, 3).unwrap();
    c.push(0);
    (c, raw_bytes.len() as u64)
}

fn pick<'a>(st: &'a mut Streams, rng: &mut Rng, f: &dyn Fn(&str, &Vec<(Vec<u8>, u64)>) -> bool) -> Option<&'a mut (String, Vec<(Vec<u8>, u64)>)> {
    let idx: Vec<usize> = st.iter().enumerate().filter(|(_, (n, p))| f(n, p)).map(|(i, _)| i).collect();
    if idx.is_empty() {
        return None;
    }
    let i = idx[rng.below(idx.len())];
    Some(&mut st[i])
}

fn group_of(name: &str) -> u64 {
    const DIGITS: &[u8; 64] = b"0123456789ABCDEFGHIJKLMNOPQRSTUVWXYZabcdefghijklmnopqrstuvwxyz_#";
    let mid = &name.as_bytes()[1..name.len() - 1];
    let mut v = 0u64;
    for (i, c) in mid.iter().enumerate() {
        v += (DIGITS.iter().position(|x| x == c).unwrap_or(0) as u64) << (6 * i);
    }
    v
}

/// returns false when the archive offers no place for this kind of mutation
fn mutate(st: &mut Streams, kind: &str, rng: &mut Rng) -> bool {
    let is_delta = |n: &str, p: &Vec<(Vec<u8>, u64)>| is_seg_stream(n) && n.ends_with('d') && !p.is_empty();
    match kind {
        // one separator inside a pack becomes 0x00 (two entries merge), or the last one is dropped
        "flipsep" | "dropsep" => {
            let Some(s) = pick(st, rng, &is_delta) else { return false };
            let pi = rng.below(s.1.len());
            let Some((mut raw, mk)) = unpack(&s.1[pi].0, s.1[pi].1) else { return false };
            let seps: Vec<usize> = raw.iter().enumerate().filter(|(_, &b)| b == 0xFF).map(|(i, _)| i).collect();
            if seps.is_empty() {
                return false;
            }
            if kind == "dropsep" {
                raw.pop();
            } else {
                raw[seps[rng.below(seps.len())]] = 0;
            }
            s.1[pi] = repack(&raw, mk.is_none());
            true
        }
        // two packs of one delta stream change places
        "swappacks" => {
            let Some(s) = pick(st, rng, &|n, p| is_delta(n, p) && p.len() >= 2) else { return false };
            let a = rng.below(s.1.len() - 1);
            s.1.swap(a, a + 1);
            true
        }
        // the placeholder of a raw group
        "placeholder" => {
            let Some(s) = pick(st, rng, &|n, p| is_delta(n, p) && group_of(n) < 16) else { return false };
            let Some((mut raw, mk)) = unpack(&s.1[0].0, s.1[0].1) else { return false };
            if raw.first() != Some(&0x7f) {
                return false;
            }
            raw[0] = 0x7e;
            s.1[0] = repack(&raw, mk.is_none());
            true
        }
        // a second reference part / no reference part
        "tworefs" | "noref" => {
            let Some(s) = pick(st, rng, &|n, p| is_seg_stream(n) && n.ends_with('r') && p.len() == 1) else { return false };
            if kind == "tworefs" {
                let p = s.1[0].clone();
                s.1.push(p);
            } else {
                s.1.clear();
            }
            true
        }
        // metadata of a compressed part off by one / a raw part given a metadata / a compressed part given metadata 0
        "metaoff" | "metaraw" | "metazero" => {
            let want_compressed = kind != "metaraw";
            let Some(s) = pick(st, rng, &|n, p| is_seg_stream(n) && p.iter().any(|(d, m)| !d.is_empty() && (*m != 0) == want_compressed))
            else { return false };
            let idx: Vec<usize> = s.1.iter().enumerate().filter(|(_, (d, m))| !d.is_empty() && (*m != 0) == want_compressed).map(|(i, _)| i).collect();
            let pi = idx[rng.below(idx.len())];
            s.1[pi].1 = match kind {
                "metaoff" => s.1[pi].1 + 1,
                "metaraw" => s.1[pi].0.len() as u64,
                _ => 0,
            };
            true
        }
        // the marker of a compressed delta pack says "tuple packed"
        "marker" => {
            let Some(s) = pick(st, rng, &|n, p| is_delta(n, p) && p.iter().any(|(_, m)| *m != 0)) else { return false };
            let idx: Vec<usize> = s.1.iter().enumerate().filter(|(_, (_, m))| *m != 0).map(|(i, _)| i).collect();
            let pi = idx[rng.below(idx.len())];
            let n = s.1[pi].0.len();
            s.1[pi].0[n - 1] = 1;
            true
        }
        // one byte of one of the five descriptor streams (group ids, in-group ids, lengths, flags ...) changes
        "details" => {
            let Some(s) = pick(st, rng, &|n, p| n == "collection-details" && !p.is_empty()) else { return false };
            let pi = rng.below(s.1.len());
            let data = s.1[pi].0.clone();
            let frames = frames_of("collection-details", &data, 0);
            if frames.len() != 5 {
                return false;
            }
            let mut raws: Vec<Vec<u8>> = frames.iter().map(|f| zstd::decode_all(&f[..]).unwrap_or_default()).collect();
            let which = [1usize, 2, 3, 4, 4, 4][rng.below(6)];
            if raws[which].is_empty() {
                return false;
            }
            let pos = rng.below(raws[which].len());
            let b = raws[which][pos];
            raws[which][pos] = if b < 0x7f { b + 1 } else { b ^ 1 };
            let comps: Vec<Vec<u8>> = raws.iter().map(|r| zstd::encode_all(&r[..], 3).unwrap()).collect();
            let mut out = Vec::new();
            for i in 0..5 {
                ragc_common::CollectionVarInt::encode(&mut out, raws[i].len() as u32);
                ragc_common::CollectionVarInt::encode(&mut out, comps[i].len() as u32);
            }
            for c in comps {
                out.extend_from_slice(&c);
            }
            s.1[pi].0 = out;
            true
        }
        // params: pack cardinality field, k, a trailing fifth field
        "ppack" | "pk" | "praw" => {
            let Some(s) = pick(st, rng, &|n, p| n == "params" && p.len() == 1 && p[0].0.len() >= 16) else { return false };
            let d = &mut s.1[0].0;
            match kind {
                "ppack" => d[8] = 64,
                "pk" => d[0] = d[0].wrapping_add(1),
                _ => d.extend_from_slice(&17u32.to_le_bytes()),
            }
            true
        }
        // a segment stream under a non-canonical name (upper-case suffix)
        "rename" => {
            let Some(s) = pick(st, rng, &|n, _| is_seg_stream(n)) else { return false };
            s.0 = format!("{}Z", &s.0[..s.0.len() - 1]);
            true
        }
        // nothing: the re-serialised archive itself
        "none" => true,
        _ => false,
    }
}

/// shape counters for the evidence (which rare forms this archive contains)
fn stats(path: &str, st: &Streams) -> String {
    let (mut ref_plain, mut ref_tuples, mut ref_raw, mut pack_raw, mut pack_comp) = (0, 0, 0, 0, 0);
    let (mut lz_multi, mut raw_multi, mut batches) = (0, 0, 0);
    for (name, parts) in st {
        if name == "collection-contigs" {
            batches = parts.len();
        }
        if !is_seg_stream(name) {
            continue;
        }
        let isref = name.ends_with('r');
        if !isref && parts.len() >= 2 {
            if group_of(name) < 16 { raw_multi += 1 } else { lz_multi += 1 }
        }
        for (d, m) in parts {
            match (isref, *m == 0) {
                (true, true) => ref_raw += 1,
                (true, false) => if d.last() == Some(&0) { ref_plain += 1 } else { ref_tuples += 1 },
                (false, true) => pack_raw += 1,
                (false, false) => pack_comp += 1,
            }
        }
    }
    let (mut rc, mut nseg, mut maxsym) = (0usize, 0usize, 0u8);
    if let Ok(mut d) = Decompressor::open(path, DecompressorConfig { verbosity: 0 }) {
        if let Ok(all) = d.get_all_segments() {
            for (_, _, descs) in all.iter() {
                nseg += descs.len();
                rc += descs.iter().filter(|x| x.is_rev_comp).count();
            }
        }
        for s in d.list_samples() {
            if let Ok(cs) = d.get_sample(&s) {
                for (_, seq) in cs {
                    maxsym = maxsym.max(seq.iter().copied().max().unwrap_or(0));
                }
            }
        }
    }
    format!("ref_plain={},ref_tuples={},ref_raw={},pack_raw={},pack_comp={},lz_multi={},raw_multi={},batches={},rc={},segs={},maxsym={},bytes={}",
            ref_plain, ref_tuples, ref_raw, pack_raw, pack_comp, lz_multi, raw_multi, batches, rc, nseg, maxsym,
            std::fs::metadata(path).map(|m| m.len()).unwrap_or(0))
}

fn report(path: &str) -> String {
    let bytes = std::fs::read(path).unwrap_or_default();
    let (zt, stx) = match read_streams(path) {
        Ok(st) => {
            let sx = std::panic::catch_unwind(|| stats(path, &st)).unwrap_or_else(|_| "-".to_string());
            (ztable(&st), sx)
        }
        Err(_) => (String::new(), "-".to_string()),
    };
    let cat = std::panic::catch_unwind(|| catalogue(path));
    let head = match cat {
        Ok(Ok(c)) => format!("OK CAT {}", c),
        Ok(Err(e)) => format!("ERR CAT {}", format!("{:#}", e).replace(' ', "_").replace('\n', "_")),
        Err(e) => format!("PANIC CAT {}", runner::panic_msg(&e).replace(' ', "_").replace('\n', "_")),
    };
    format!("{} ST {} FILE {} ZT{}", head, stx, hex(&bytes), zt)
}

fn run(t: &[&str]) -> String {
    match t {
        ["dec", dir, params] => {
            let p = mk::Params::parse(params);
            let out = format!("{}/out.agc", dir);
            let _ = std::fs::remove_file(&out);
            if let Err(e) = mk::create(&out, &mk::case_inputs(dir), &p) {
                return format!("CREATE-ERR {}", format!("{:#}", e).replace('\n', " "));
            }
            report(&out)
        }
        ["mut", dir, params, kind, seed] => {
            let p = mk::Params::parse(params);
            let base = format!("{}/base-{}-{}.agc", dir, kind, seed);
            let out = format!("{}/mut-{}-{}.agc", dir, kind, seed);
            let _ = std::fs::remove_file(&base);
            if let Err(e) = mk::create(&base, &mk::case_inputs(dir), &p) {
                return format!("CREATE-ERR {}", format!("{:#}", e).replace('\n', " "));
            }
            let mut st = match read_streams(&base) {
                Ok(s) => s,
                Err(e) => return format!("READ-ERR {:#}", e),
            };
            let _ = std::fs::remove_file(&base);
            let mut rng = Rng(seed.parse::<u64>().unwrap_or(1) * 2654435761 + 88172645463325252);
            if !mutate(&mut st, kind, &mut rng) {
                return "NOPLACE".into();
            }
            if let Err(e) = write_streams(&out, &st) {
                return format!("WRITE-ERR {:#}", e);
            }
            let r = report(&out);
            let _ = std::fs::remove_file(&out);
            r
        }
        _ => "HARNESS-ERROR bad case".into(),
    }
}

fn main() {
    if std::env::var("VERIF_PANIC_VERBOSE").is_err() {
        unsafe {
            let fd = libc::open(b"/dev/null\0".as_ptr() as *const libc::c_char, libc::O_WRONLY);
            if fd >= 0 {
                libc::dup2(fd, 2);
            }
        }
    }
    runner::main_loop(run);
}
